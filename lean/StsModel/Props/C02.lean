/-
  C02 — source files are released only after validated receipt (SENDER half).

  Model: Model/Release.lean (finish, validator loop, retry worker, recover(), scan clean-up, tracker) — the
  receiver half `positive_only_if_durably_validated` is in the Stage model.

  Theorems about the code with the proposed repairs (`Fixes.repaired`) unless they are
  stated for every `fx`; the defects of the code as found (`Fixes.original`) have witnesses
  at the end:  S2 (poll by name only; not repairable without a protocol change; the full
  statement keeps the hypothesis `NameNotReused`), S3 (scan clean-up deletes a rewritten
  file), S3b (finish deletes a rewritten file), S18 (cache add keeps the done mark).
-/
import StsModel.Lemmas.ReleaseBasic

namespace Sts.Release

/-- the trace contains a positive poll answer about `m`. -/
def PositiveAnswer (effs : List Eff) (m : Name) : Prop :=
  ∃ v, Eff.answer m v ∈ effs ∧ v.positive = true

/-- the file on disk under the entry's name — if there is one — is the version the cache
    entry describes (same size and modification time: all the code can see). -/
def OnDiskIs (e : CEntry) (f : Option SFile) : Prop := ∀ g, f = some g → g.size = e.size ∧ g.time = e.time

theorem onDiskIs_of_sync {s : Store} {e : CEntry} (h : sync s e ≠ .changed) : OnDiskIs e (sfind s e.name) := by
  intro g hg
  unfold sync at h
  rw [hg] at h
  simp only at h
  split at h
  · exact absurd rfl h
  · rename_i hne
    simp only [not_or, Decidable.not_not] at hne
    exact ⟨hne.2, hne.1⟩

/-! ## finish() -/

theorem doneAndDelete_effs (fx : Fixes) (env : Env) (st : St) (n : Name) (x : Eff)
    (h : x ∈ (doneAndDelete fx env st n).2) :
    x = .cacheDone n true ∨ ∃ e, x = .storeRemove n e (sfind st.store n) ∧
      cget st.cache n = some e ∧ e.done = false ∧ canDelete env e = true ∧
      (fx.finishSync = true → sync st.store e ≠ .changed) := by
  unfold doneAndDelete at h
  split at h
  · simp at h; exact Or.inl h
  · rename_i e he
    split at h
    · simp at h; exact Or.inl h
    · rename_i hd
      split at h
      · rename_i hc
        split at h
        · simp at h; exact Or.inl h
        · rename_i hs
          simp only [List.mem_cons, List.not_mem_nil, or_false] at h
          rcases h with h | h
          · exact Or.inl h
          · exact Or.inr ⟨e, h, he, by simpa using hd, hc, fun hf hch => hs ⟨hf, hch⟩⟩
      · simp at h; exact Or.inl h

/-- finish(): a negative, unknown or missing verdict releases nothing — the file goes to the
    retry channel and neither cache nor store change. -/
theorem finish_negative (fx : Fixes) (env : Env) (st : St) (n : Name) (v : Verdict)
    (hv : v.positive = false) : finish fx env st n v = (st, [.retry n]) := by
  simp [finish, hv]

/-- finish(): a deletion happens only for a positive verdict, for the polled name, on the
    cache entry of that name, which was not done yet and whose tag allows deletion now; with
    the repair, never when the file on disk is no longer the version in the cache. -/
theorem finish_storeRemove (fx : Fixes) (env : Env) (st : St) (n m : Name) (v : Verdict)
    (e : CEntry) (f : Option SFile)
    (h : Eff.storeRemove m e f ∈ (finish fx env st n v).2) :
    m = n ∧ v.positive = true ∧ cget st.cache n = some e ∧ e.done = false ∧
      canDelete env e = true ∧ f = sfind st.store n ∧ (fx.finishSync = true → OnDiskIs e f) := by
  unfold finish at h
  split at h
  · rename_i hv
    rcases doneAndDelete_effs fx env st n _ h with h' | ⟨e', h', he, hd, hc, hs⟩
    · simp at h'
    · simp only [Eff.storeRemove.injEq] at h'
      obtain ⟨rfl, rfl, rfl⟩ := h'
      refine ⟨rfl, hv, he, hd, hc, rfl, fun hf => ?_⟩
      have := onDiskIs_of_sync (hs hf)
      rw [(cget_some he).2] at this
      exact this
  · simp at h

/-- finish(): done-marking happens only for a positive verdict and only for the polled name. -/
theorem finish_cacheDone (fx : Fixes) (env : Env) (st : St) (n m : Name) (v : Verdict) (c : Bool)
    (h : Eff.cacheDone m c ∈ (finish fx env st n v).2) : m = n ∧ c = true ∧ v.positive = true := by
  unfold finish at h
  split at h
  · rename_i hv
    rcases doneAndDelete_effs fx env st n _ h with h' | ⟨e', h', _⟩
    · simp at h'; exact ⟨h'.1, h'.2, hv⟩
    · simp at h'
  · simp at h

/-- finish() emits nothing but `cacheDone n`, `storeRemove n`, `retry n`. -/
theorem finish_effs (fx : Fixes) (env : Env) (st : St) (n : Name) (v : Verdict) (x : Eff)
    (h : x ∈ (finish fx env st n v).2) :
    (v.positive = true ∧ (x = .cacheDone n true ∨ ∃ e f, x = .storeRemove n e f)) ∨
    (v.positive = false ∧ x = .retry n) := by
  unfold finish at h
  split at h
  · rename_i hv
    rcases doneAndDelete_effs fx env st n x h with h' | ⟨e, h', _⟩
    · exact Or.inl ⟨hv, Or.inl h'⟩
    · exact Or.inl ⟨hv, Or.inr ⟨e, _, h'⟩⟩
  · rename_i hv; simp at h; exact Or.inr ⟨by simpa using hv, h⟩

/-- finish() keeps every cache entry's version; it only adds a done mark. -/
theorem finish_verSub (fx : Fixes) (env : Env) (st : St) (n : Name) (v : Verdict) :
    VerSub st.cache (finish fx env st n v).1.cache := by
  unfold finish
  split
  · unfold doneAndDelete
    split
    · exact VerSub.refl _
    · split
      · exact VerSub.refl _
      · split
        · split <;> exact verSub_cmark _ _
        · exact verSub_cmark _ _
  · exact VerSub.refl _

example : finish Fixes.repaired ⟨[⟨"a", true, 0⟩], fun _ => "a", fun _ => false, 1, 2, 2⟩
    { cache := [⟨"a.f", 5, -3, "h", false⟩], store := [⟨"a.f", 5, -3, "h"⟩] } "a.f" .passed =
    ({ cache := [⟨"a.f", 5, -3, "h", true⟩], dirty := true, store := [] },
     [.cacheDone "a.f" true, .storeRemove "a.f" ⟨"a.f", 5, -3, "h", false⟩ (some ⟨"a.f", 5, -3, "h"⟩)]) := by decide



/-! ## the validator loop (startValidate) -/

theorem valPolled_effs (fx : Fixes) (env : Env) (s : St × List PFile) (x : PFile × Verdict) (e : Eff)
    (h : e ∈ (valPolled fx env s x).2) : e ∈ (finish fx env s.1 x.1.name x.2).2 := by
  unfold valPolled at h
  split at h
  · rename_i hv
    split at h
    · simp at h
    · split at h
      · rw [hv]; exact h
      · simp at h
  · rename_i hv; rw [hv]; exact h
  · rename_i hv; rw [hv]; exact h
  · rename_i hv; rw [hv]; exact h
  · simp at h
  · simp at h

theorem valPolled_verSub (fx : Fixes) (env : Env) (s : St × List PFile) (x : PFile × Verdict) :
    VerSub s.1.cache (valPolled fx env s x).1.1.cache := by
  unfold valPolled
  split
  · split
    · exact VerSub.refl _
    · split
      · exact finish_verSub _ _ _ _ _
      · exact VerSub.refl _
  · exact finish_verSub _ _ _ _ _
  · exact finish_verSub _ _ _ _ _
  · exact finish_verSub _ _ _ _ _
  · exact VerSub.refl _
  · exact VerSub.refl _

/-- `none` below the attempt limit only counts; nothing is released, nothing retried. -/
theorem valPolled_none_counts (fx : Fixes) (env : Env) (s : St × List PFile) (p q : PFile)
    (hq : s.2.find? (fun r => r.name = p.name) = some q) (hlt : q.polled + 1 ≠ env.attempts) :
    valPolled fx env s (p, .none) = ((s.1, pset s.2 p.name (q.polled + 1)), []) := by
  simp [valPolled, hq, hlt]

/-- `none` for the `PollAttempts`-th time: the file leaves the poll set and goes to the
    retry channel; cache and store are untouched. -/
theorem valPolled_none_exhausted (fx : Fixes) (env : Env) (s : St × List PFile) (p q : PFile)
    (hq : s.2.find? (fun r => r.name = p.name) = some q) (heq : q.polled + 1 = env.attempts) :
    valPolled fx env s (p, .none) = ((s.1, pdel s.2 p.name), [.retry p.name]) := by
  simp [valPolled, hq, heq, valFinish, finish, Verdict.positive]

/-- `failed`: retry at once, cache and store untouched. -/
theorem valPolled_failed (fx : Fixes) (env : Env) (s : St × List PFile) (p : PFile) :
    valPolled fx env s (p, .failed) = ((s.1, pdel s.2 p.name), [.retry p.name]) := by
  simp [valPolled, valFinish, finish, Verdict.positive]

/-- an unknown answer code, or no answer about the file, changes nothing. -/
theorem valPolled_other (fx : Fixes) (env : Env) (s : St × List PFile) (p : PFile) (v : Verdict)
    (hv : v = .other ∨ v = .omit) : valPolled fx env s (p, v) = (s, []) := by
  rcases hv with rfl | rfl <;> simp [valPolled]

/-- a failed poll request is repeated with the same file list and changes nothing else. -/
theorem validateStep_error_repeats (fx : Fixes) (env : Env) (s : St × List PFile) (ready : List PFile) :
    (validateStep fx env s ready).1 = (validateStep fx env ({ s.1 with pollErrs := 0 }, s.2) ready).1 ∧
    (validateStep fx env s ready).2 =
      (List.replicate s.1.pollErrs [Eff.poll (ready.map (·.name)), Eff.pollErr]).flatten ++
      (validateStep fx env ({ s.1 with pollErrs := 0 }, s.2) ready).2 := by
  simp [validateStep]

/-- one processed poll batch, deletions: only after a positive answer about that name in this
    batch, only for a file of the batch, on its cache entry (same version as at the start of
    the batch, not yet done, deletion allowed now); repaired: the file on disk at that
    instant is that version. -/
theorem validateStep_storeRemove (fx : Fixes) (env : Env) (s : St × List PFile) (ready : List PFile)
    (m : Name) (e : CEntry) (f : Option SFile)
    (h : Eff.storeRemove m e f ∈ (validateStep fx env s ready).2) :
    PositiveAnswer (validateStep fx env s ready).2 m ∧ (∃ p ∈ ready, p.name = m) ∧
    e.name = m ∧ e.done = false ∧ canDelete env e = true ∧
    (∃ e0 ∈ s.1.cache, SameVer e0 e) ∧ (fx.finishSync = true → OnDiskIs e f) := by
  unfold validateStep at h ⊢
  simp only [List.mem_append, List.mem_cons, List.mem_flatten, List.mem_replicate,
    List.not_mem_nil, or_false] at h
  rcases h with (((h | h) | h) | h) | h
  · obtain ⟨l, ⟨_, rfl⟩, hl⟩ := h
    simp at hl
  · simp at h
  · unfold answerEffs at h
    simp at h
  · obtain ⟨s', x, hI, hx, hmem⟩ := runLoop_mem (valPolled fx env)
      (fun t => VerSub s.1.cache t.1.cache) _
      (fun t y _ ht => VerSub.trans ht (valPolled_verSub fx env t y)) _ (by exact VerSub.refl _) _ h
    have hfin := valPolled_effs fx env _ x _ hmem
    obtain ⟨hm, hpos, he, hd, hc, _, hs⟩ := finish_storeRemove fx env _ _ _ _ _ _ hfin
    have hx' : (x.1, x.2) ∈ (takeAnswers (fun p : PFile => p.name) s.1.answers ready).1 := hx
    obtain ⟨e0, he0, hsv, _⟩ := hI e (cget_some he).1
    refine ⟨⟨x.2, ?_, hpos⟩, ⟨x.1, (takeAnswers_mem _ _ _ _ _ hx').1, hm.symm⟩,
      by rw [hm]; exact (cget_some he).2, hd, hc, ⟨e0, he0, hsv⟩, hs⟩
    simp only [List.mem_append, List.mem_cons]
    refine Or.inl (Or.inl (Or.inr ?_))
    rw [hm]
    exact answerEffs_mem (fun p : PFile => p.name) _ x.1 x.2 hx'
  · simp at h

/-- one processed poll batch, done-marking: only after a positive answer about that name in
    this batch. -/
theorem validateStep_cacheDone (fx : Fixes) (env : Env) (s : St × List PFile) (ready : List PFile)
    (m : Name) (c : Bool) (h : Eff.cacheDone m c ∈ (validateStep fx env s ready).2) :
    PositiveAnswer (validateStep fx env s ready).2 m ∧ (∃ p ∈ ready, p.name = m) := by
  unfold validateStep at h ⊢
  simp only [List.mem_append, List.mem_cons, List.mem_flatten, List.mem_replicate,
    List.not_mem_nil, or_false] at h
  rcases h with (((h | h) | h) | h) | h
  · obtain ⟨l, ⟨_, rfl⟩, hl⟩ := h
    simp at hl
  · simp at h
  · unfold answerEffs at h
    simp at h
  · obtain ⟨s', x, _, hx, hmem⟩ := runLoop_mem (valPolled fx env) (fun _ => True) _
      (fun _ _ _ _ => trivial) _ trivial _ h
    have hfin := valPolled_effs fx env _ x _ hmem
    obtain ⟨hm, _, hpos⟩ := finish_cacheDone fx env _ _ _ _ _ hfin
    have hx' : (x.1, x.2) ∈ (takeAnswers (fun p : PFile => p.name) s.1.answers ready).1 := hx
    refine ⟨⟨x.2, ?_, hpos⟩, ⟨x.1, (takeAnswers_mem _ _ _ _ _ hx').1, hm.symm⟩⟩
    simp only [List.mem_append, List.mem_cons]
    refine Or.inl (Or.inl (Or.inr ?_))
    rw [hm]
    exact answerEffs_mem (fun p : PFile => p.name) _ x.1 x.2 hx'
  · simp at h

/-- the batch ends with Persist, and nothing follows it. -/
theorem validateStep_persist_last (fx : Fixes) (env : Env) (s : St × List PFile) (ready : List PFile) :
    ∃ pre, (validateStep fx env s ready).2 = pre ++ [.persist] ∧
      (validateStep fx env s ready).1.1.dirty = false := by
  refine ⟨_, rfl, ?_⟩
  simp only [validateStep, St.persist]
  split <;> simp_all




theorem PositiveAnswer.mono {a b : List Eff} {m : Name} (h : PositiveAnswer a m)
    (hsub : ∀ x ∈ a, x ∈ b) : PositiveAnswer b m := by
  obtain ⟨v, hv, hp⟩ := h
  exact ⟨v, hsub _ hv, hp⟩

theorem persist_cache (st : St) : st.persist.cache = st.cache := by
  unfold St.persist; split <;> rfl

theorem persist_store (st : St) : st.persist.store = st.store := by
  unfold St.persist; split <;> rfl

theorem validateStep_verSub (fx : Fixes) (env : Env) (s : St × List PFile) (ready : List PFile) :
    VerSub s.1.cache (validateStep fx env s ready).1.1.cache := by
  unfold validateStep
  simp only [persist_cache]
  exact runLoop_inv (valPolled fx env) (fun t => VerSub s.1.cache t.1.cache) _
    (fun t y _ ht => VerSub.trans ht (valPolled_verSub fx env t y)) _ (by exact VerSub.refl _)

/-- the whole validator loop: every deletion and every done-marking follows a positive answer
    about that name; a deletion acts on the cache entry of that name — the version the cache
    held when the loop started —, not yet done, deletion allowed; repaired: the file on disk
    at that instant is that version. -/
theorem validateRun_release (fx : Fixes) (env : Env) (fuel : Nat) :
    ∀ (s : St × List PFile),
    (∀ m e f, Eff.storeRemove m e f ∈ (validateRun fx env fuel s).2 →
      PositiveAnswer (validateRun fx env fuel s).2 m ∧ e.name = m ∧ e.done = false ∧
      canDelete env e = true ∧ (∃ e0 ∈ s.1.cache, SameVer e0 e) ∧
      (fx.finishSync = true → OnDiskIs e f)) ∧
    (∀ m c, Eff.cacheDone m c ∈ (validateRun fx env fuel s).2 →
      PositiveAnswer (validateRun fx env fuel s).2 m) := by
  induction fuel with
  | zero => intro s; simp [validateRun]
  | succ k ih =>
    intro s
    unfold validateRun
    split
    · simp
    · simp only
      have hstep := validateStep_verSub fx env s (s.2.take env.pollMax)
      obtain ⟨ih1, ih2⟩ := ih (validateStep fx env s (s.2.take env.pollMax)).1
      constructor
      · intro m e f h
        simp only [List.mem_append] at h
        rcases h with h | h
        · obtain ⟨hp, _, h1, h2, h3, h4, h5⟩ := validateStep_storeRemove fx env s _ m e f h
          exact ⟨hp.mono (fun x hx => List.mem_append.mpr (Or.inl hx)), h1, h2, h3, h4, h5⟩
        · obtain ⟨hp, h1, h2, h3, ⟨e1, he1, hsv⟩, h5⟩ := ih1 m e f h
          obtain ⟨e0, he0, hsv0, _⟩ := hstep e1 he1
          refine ⟨hp.mono (fun x hx => List.mem_append.mpr (Or.inr hx)), h1, h2, h3, ⟨e0, he0, ?_⟩, h5⟩
          exact ⟨hsv0.1.trans hsv.1, hsv0.2.1.trans hsv.2.1, hsv0.2.2.1.trans hsv.2.2.1, hsv0.2.2.2.trans hsv.2.2.2⟩
      · intro m c h
        simp only [List.mem_append] at h
        rcases h with h | h
        · exact (validateStep_cacheDone fx env s _ m c h).1.mono (fun x hx => List.mem_append.mpr (Or.inl hx))
        · exact (ih2 m c h).mono (fun x hx => List.mem_append.mpr (Or.inr hx))




/-! ## recover() -/

theorem recPartial_effs (c : Cache) (lk : List Partial) (p : Partial) (x : Eff)
    (h : x ∈ (recPartial c lk p).2) : ∃ q, x = .push q := by
  unfold recPartial at h
  split at h
  · simp at h; exact ⟨_, h⟩
  · split at h
    · simp at h; exact ⟨_, h⟩
    · simp at h

theorem cacheRemove_verSub (st : St) (n : Name) : VerSub st.cache (st.cacheRemove n).cache := by
  unfold St.cacheRemove
  split
  · exact VerSub.refl _
  · exact verSub_cremove _ _

theorem cacheDone_verSub (st : St) (n : Name) : VerSub st.cache (st.cacheDone n).cache := by
  unfold St.cacheDone
  split
  · exact VerSub.refl _
  · split
    · exact VerSub.refl _
    · exact verSub_cmark _ _

theorem cacheRemove_store (st : St) (n : Name) : (st.cacheRemove n).store = st.store := by
  unfold St.cacheRemove; split <;> rfl

theorem cacheDone_store (st : St) (n : Name) : (st.cacheDone n).store = st.store := by
  unfold St.cacheDone
  split
  · rfl
  · split <;> rfl

/-- the cache iteration of recover() never touches the store and keeps every version. -/
theorem recEntry_inv (fx : Fixes) (env : Env) (lk : List Partial) (s : St × List CEntry) (f : CEntry) :
    (recEntry fx env lk s f).1.1.store = s.1.store ∧
    VerSub s.1.cache (recEntry fx env lk s f).1.1.cache := by
  unfold recEntry
  split
  · exact ⟨rfl, VerSub.refl _⟩
  · split
    · exact ⟨cacheRemove_store _ _, cacheRemove_verSub _ _⟩
    · split
      · exact ⟨cacheDone_store _ _, cacheDone_verSub _ _⟩
      · exact ⟨rfl, VerSub.refl _⟩
      · split
        · exact ⟨rfl, VerSub.refl _⟩
        · split
          · split <;> exact ⟨rfl, VerSub.refl _⟩
          · exact ⟨rfl, VerSub.refl _⟩

/-- what the cache iteration emits: a cache removal for a name the store ignores now, a
    done-marking (without closure: nothing is deleted) for a file the store reports gone, or
    a resume push. -/
theorem recEntry_effs (fx : Fixes) (env : Env) (lk : List Partial) (s : St × List CEntry) (f : CEntry)
    (x : Eff) (h : x ∈ (recEntry fx env lk s f).2) :
    (x = .cacheRemove f.name ∧ env.ign f.name = true ∧ f.done = false) ∨
    (x = .cacheDone f.name false ∧ f.done = false ∧ sync s.1.store f = .absent) ∨
    (∃ q, x = .push q) := by
  unfold recEntry at h
  split at h
  · simp at h
  · rename_i hd
    split at h
    · rename_i hi
      simp at h
      exact Or.inl ⟨h, hi, by simpa using hd⟩
    · split at h
      · rename_i hs
        simp at h
        exact Or.inr (Or.inl ⟨h, by simpa using hd, hs⟩)
      · simp at h
      · split at h
        · simp at h
        · split at h
          · split at h
            · simp at h
            · simp at h; exact Or.inr (Or.inr ⟨_, h⟩)
          · simp at h

theorem recConfirm_effs (fx : Fixes) (env : Env) (st : St) (c : CEntry) (hsh : String) (v : Verdict)
    (x : Eff) (h : x ∈ (recConfirm fx env st c hsh v).2) :
    x = .wasSent c.name ∨ x = .logSent c.name c.hash ∨ x = .push (.allocated c.name) ∨
    ∃ st', st'.cache = st.cache ∧ st'.store = st.store ∧ x ∈ (finish fx env st' c.name v).2 := by
  unfold recConfirm at h
  split at h
  · simp only [List.mem_append, List.mem_cons, List.not_mem_nil, or_false] at h
    rcases h with (h | h) | h
    · exact Or.inl h
    · exact Or.inr (Or.inr (Or.inl h))
    · exact Or.inr (Or.inr (Or.inr ⟨st, rfl, rfl, h⟩))
  · simp only [List.mem_append, List.mem_cons, List.not_mem_nil, or_false] at h
    rcases h with (h | h | h) | h
    · exact Or.inl h
    · exact Or.inr (Or.inl h)
    · exact Or.inr (Or.inr (Or.inl h))
    · exact Or.inr (Or.inr (Or.inr ⟨{ st with logged := st.logged ++ [(c.name, c.hash)] }, rfl, rfl, h⟩))

theorem recConfirm_verSub (fx : Fixes) (env : Env) (st : St) (c : CEntry) (hsh : String) (v : Verdict) :
    VerSub st.cache (recConfirm fx env st c hsh v).1.cache := by
  unfold recConfirm
  split
  · exact finish_verSub _ _ _ _ _
  · exact finish_verSub fx env { st with logged := st.logged ++ [(c.name, c.hash)] } c.name v

theorem recPolled_verSub (fx : Fixes) (env : Env) (lk : List Partial) (st : St) (x : CEntry × Verdict) :
    VerSub st.cache (recPolled fx env lk st x).1.cache := by
  unfold recPolled
  split
  · exact VerSub.refl _
  · split
    · exact VerSub.refl _
    · split <;> exact VerSub.refl _
    · exact recConfirm_verSub _ _ _ _ _ _
    · exact recConfirm_verSub _ _ _ _ _ _
    · exact VerSub.refl _
    · exact VerSub.refl _

/-- the verdict switch of recover(): releases happen only in the Waiting/Received case, through
    finish(), for the polled name. -/
theorem recPolled_release (fx : Fixes) (env : Env) (lk : List Partial) (st : St) (x : CEntry × Verdict)
    (y : Eff) (h : y ∈ (recPolled fx env lk st x).2)
    (hy : (∃ m e f, y = .storeRemove m e f) ∨ (∃ m c, y = .cacheDone m c)) :
    x.2.positive = true ∧ ∃ st', st'.cache = st.cache ∧ st'.store = st.store ∧
      y ∈ (finish fx env st' x.1.name x.2).2 := by
  unfold recPolled at h
  split at h
  · simp at h
  · rename_i c hc
    have hcn : c.name = x.1.name := (cget_some hc).2
    split at h
    · simp at h; rcases hy with ⟨m, e, f, rfl⟩ | ⟨m, c', rfl⟩ <;> simp at h
    · split at h <;> (simp at h; rcases hy with ⟨m, e, f, rfl⟩ | ⟨m, c', rfl⟩ <;> simp at h)
    · rename_i hv
      rcases recConfirm_effs fx env st c _ _ y h with h' | h' | h' | ⟨st', h1, h2, h3⟩
      · rcases hy with ⟨m, e, f, rfl⟩ | ⟨m, c', rfl⟩ <;> simp at h'
      · rcases hy with ⟨m, e, f, rfl⟩ | ⟨m, c', rfl⟩ <;> simp at h'
      · rcases hy with ⟨m, e, f, rfl⟩ | ⟨m, c', rfl⟩ <;> simp at h'
      · rw [hv]; exact ⟨rfl, st', h1, h2, by rw [← hcn]; exact h3⟩
    · rename_i hv
      rcases recConfirm_effs fx env st c _ _ y h with h' | h' | h' | ⟨st', h1, h2, h3⟩
      · rcases hy with ⟨m, e, f, rfl⟩ | ⟨m, c', rfl⟩ <;> simp at h'
      · rcases hy with ⟨m, e, f, rfl⟩ | ⟨m, c', rfl⟩ <;> simp at h'
      · rcases hy with ⟨m, e, f, rfl⟩ | ⟨m, c', rfl⟩ <;> simp at h'
      · rw [hv]; exact ⟨rfl, st', h1, h2, by rw [← hcn]; exact h3⟩
    · simp at h
    · simp at h




theorem chunk_mem {α : Type} (k : Nat) (fuel : Nat) :
    ∀ (l : List α) (b : List α), b ∈ chunk k fuel l → ∀ x ∈ b, x ∈ l := by
  induction fuel with
  | zero => intro l b h; simp [chunk] at h
  | succ n ih =>
    intro l b h x hx
    unfold chunk at h
    split at h
    · simp at h
    · simp only [List.mem_cons] at h
      rcases h with rfl | h
      · exact List.mem_of_mem_take hx
      · exact List.mem_of_mem_drop (ih _ b h x hx)

theorem recBatch_verSub (fx : Fixes) (env : Env) (lk : List Partial) (st : St) (b : List CEntry) :
    VerSub st.cache (recBatch fx env lk st b).1.cache := by
  unfold recBatch
  split
  · exact VerSub.refl _
  · simp only [persist_cache]
    exact runLoop_inv (recPolled fx env lk) (fun t => VerSub st.cache t.cache) _
      (fun t y _ ht => VerSub.trans ht (recPolled_verSub fx env lk t y)) _ (by exact VerSub.refl _)

/-- one poll batch of recover(): deletions and closure-carrying done-markings only after a
    positive answer about that name in this batch. -/
theorem recBatch_release (fx : Fixes) (env : Env) (lk : List Partial) (st : St) (b : List CEntry)
    (y : Eff) (h : y ∈ (recBatch fx env lk st b).2.1)
    (hy : (∃ m e f, y = .storeRemove m e f) ∨ (∃ m c, y = .cacheDone m c)) :
    ∃ (x : CEntry) (v : Verdict) (st' : St), x ∈ b ∧ v.positive = true ∧
      Eff.answer x.name v ∈ (recBatch fx env lk st b).2.1 ∧
      VerSub st.cache st'.cache ∧ y ∈ (finish fx env st' x.name v).2 := by
  unfold recBatch at h ⊢
  split at h
  · rename_i hc
    simp only [hc] at h ⊢
    simp at h
    rcases hy with ⟨m, e, f, rfl⟩ | ⟨m, c', rfl⟩ <;> simp at h
  · rename_i hc
    simp only [hc, if_false] at ⊢
    simp only [List.mem_append, List.mem_cons, List.mem_flatten, List.mem_replicate,
      List.not_mem_nil, or_false] at h
    rcases h with (((h | h) | h) | h) | h
    · obtain ⟨l, ⟨_, rfl⟩, hl⟩ := h
      rcases hy with ⟨m, e, f, rfl⟩ | ⟨m, c', rfl⟩ <;> simp at hl
    · rcases hy with ⟨m, e, f, rfl⟩ | ⟨m, c', rfl⟩ <;> simp at h
    · unfold answerEffs at h
      rcases hy with ⟨m, e, f, rfl⟩ | ⟨m, c', rfl⟩ <;> simp at h
    · obtain ⟨s', x, hI, hx, hmem⟩ := runLoop_mem (recPolled fx env lk)
        (fun t => VerSub st.cache t.cache) _
        (fun t z _ ht => VerSub.trans ht (recPolled_verSub fx env lk t z)) _ (by exact VerSub.refl _) _ h
      obtain ⟨hpos, st', hc1, _, hfin⟩ := recPolled_release fx env lk s' x y hmem hy
      have hx' : (x.1, x.2) ∈ (takeAnswers (fun p : CEntry => p.name) st.answers b).1 := hx
      refine ⟨x.1, x.2, st', (takeAnswers_mem _ _ _ _ _ hx').1, hpos, ?_, by rw [hc1]; exact hI, hfin⟩
      simp only [List.mem_append, List.mem_cons]
      exact Or.inl (Or.inl (Or.inr (answerEffs_mem (fun p : CEntry => p.name) _ x.1 x.2 hx')))
    · rcases hy with ⟨m, e, f, rfl⟩ | ⟨m, c', rfl⟩ <;> simp at h

theorem recBatches_mem (fx : Fixes) (env : Env) (lk : List Partial) (I : St → Prop)
    (hI : ∀ st b, I st → I (recBatch fx env lk st b).1) :
    ∀ (bs : List (List CEntry)) (st : St), I st → ∀ y ∈ (recBatches fx env lk st bs).2.1,
      ∃ st' b, I st' ∧ b ∈ bs ∧ y ∈ (recBatch fx env lk st' b).2.1 ∧
        ∀ z ∈ (recBatch fx env lk st' b).2.1, z ∈ (recBatches fx env lk st bs).2.1 := by
  intro bs
  induction bs with
  | nil => intro st _ y hy; simp [recBatches] at hy
  | cons b bs ih =>
    intro st hst y hy
    unfold recBatches at hy ⊢
    dsimp only at hy ⊢
    split at hy
    · rename_i herr
      simp only [herr, if_true]
      exact ⟨st, b, hst, by simp, hy, fun z hz => hz⟩
    · rename_i herr
      simp only [herr]
      simp only [List.mem_append] at hy
      rcases hy with hy | hy
      · exact ⟨st, b, hst, by simp, hy, fun z hz => by simp [hz]⟩
      · obtain ⟨st', b', h1, h2, h3, h4⟩ := ih _ (hI st b hst) y hy
        exact ⟨st', b', h1, by simp [h2], h3, fun z hz => by simp [h4 z hz]⟩




theorem sameVer_trans {a b c : CEntry} (h1 : SameVer a b) (h2 : SameVer b c) : SameVer a c :=
  ⟨h1.1.trans h2.1, h1.2.1.trans h2.2.1, h1.2.2.1.trans h2.2.2.1, h1.2.2.2.trans h2.2.2.2⟩

/-- phase 1 and 2 of recover() (partials, cache iteration): the state they leave. -/
theorem recover_phase2_inv (fx : Fixes) (env : Env) (lk : List Partial) (st : St) (l : List CEntry) :
    (runLoop (recEntry fx env lk) (st, []) l).1.1.store = st.store ∧
    VerSub st.cache (runLoop (recEntry fx env lk) (st, []) l).1.1.cache :=
  runLoop_inv (recEntry fx env lk) (fun t => t.1.store = st.store ∧ VerSub st.cache t.1.cache) l
    (fun t f _ ht => ⟨(recEntry_inv fx env lk t f).1.trans ht.1,
      VerSub.trans ht.2 (recEntry_inv fx env lk t f).2⟩) _ ⟨rfl, VerSub.refl _⟩

/-- the files recover() polls are cache entries that were not done, not ignored, unchanged
    on disk and hashed. -/
theorem recEntry_poll (fx : Fixes) (env : Env) (lk : List Partial) (s : St × List CEntry) (f c : CEntry)
    (h : c ∈ (recEntry fx env lk s f).1.2) :
    c ∈ s.2 ∨ (c = f ∧ f.done = false ∧ env.ign f.name = false ∧ sync s.1.store f = .same ∧ f.hash ≠ "" ∧
      (∀ p, lkget lk f.name = some p → gaps fx p.parts f.size = [])) := by
  unfold recEntry at h
  split at h
  · exact Or.inl h
  · rename_i hd
    split at h
    · exact Or.inl h
    · rename_i hi
      split at h
      · exact Or.inl h
      · exact Or.inl h
      · rename_i hs
        split at h
        · exact Or.inl h
        · rename_i hh
          split at h
          · rename_i p hp
            split at h
            · rename_i hg
              simp only [List.mem_append, List.mem_singleton] at h
              rcases h with h | h
              · exact Or.inl h
              · exact Or.inr ⟨h, by simpa using hd, by simpa using hi, hs, hh,
                  fun q hq => by rw [hp] at hq; cases hq; exact hg⟩
            · exact Or.inl h
          · rename_i hp
            simp only [List.mem_append, List.mem_singleton] at h
            rcases h with h | h
            · exact Or.inl h
            · exact Or.inr ⟨h, by simpa using hd, by simpa using hi, hs, hh,
                fun q hq => by rw [hp] at hq; cases hq⟩

/-- recover(), deletions: only after a positive answer of the recovery poll about that name,
    on the cache entry of that name (the version the cache held at start-up, not done,
    deletion allowed now); repaired: the file on disk at that instant is that version. -/
theorem recover_storeRemove (fx : Fixes) (env : Env) (st : St) (m : Name) (e : CEntry) (f : Option SFile)
    (h : Eff.storeRemove m e f ∈ (recover fx env st).effs) :
    PositiveAnswer (recover fx env st).effs m ∧ e.name = m ∧ e.done = false ∧
    canDelete env e = true ∧ (∃ e0 ∈ st.cache, SameVer e0 e) ∧
    (fx.finishSync = true → OnDiskIs e f) ∧ (∃ c ∈ (recover fx env st).polled, c.name = m) := by
  unfold recover at h ⊢
  dsimp only at h ⊢
  simp only [List.mem_append, List.mem_replicate] at h
  rcases h with ((h | h) | h) | h
  · simp at h
  · obtain ⟨_, x, _, _, hx⟩ := runLoop_mem (recPartial st.cache) (fun _ => True) _
      (fun _ _ _ _ => trivial) _ trivial _ h
    obtain ⟨q, hq⟩ := recPartial_effs _ _ _ _ hx
    simp at hq
  · obtain ⟨_, x, _, _, hx⟩ := runLoop_mem (recEntry fx env _) (fun _ => True) _
      (fun _ _ _ _ => trivial) _ trivial _ h
    rcases recEntry_effs _ _ _ _ _ _ hx with h' | h' | ⟨q, h'⟩ <;> simp at h'
  · have hp2 := recover_phase2_inv fx env
      (runLoop (recPartial st.cache) [] st.partials).1 { st with recErrs := 0 } st.cache
    obtain ⟨st', b, hI, hb, hy, hsub⟩ := recBatches_mem fx env _ (fun t => VerSub st.cache t.cache)
      (fun t b ht => VerSub.trans ht (recBatch_verSub fx env _ t b)) _ _ hp2.2 _ h
    obtain ⟨x, v, st'', hxb, hpos, hans, hvs, hfin⟩ :=
      recBatch_release fx env _ st' b _ hy (Or.inl ⟨m, e, f, rfl⟩)
    obtain ⟨hm, _, he, hd, hc, _, hs⟩ := finish_storeRemove fx env _ _ _ _ _ _ hfin
    obtain ⟨e0, he0, hsv, _⟩ := (VerSub.trans hI hvs) e (cget_some he).1
    refine ⟨⟨v, ?_, hpos⟩, by rw [hm]; exact (cget_some he).2, hd, hc, ⟨e0, he0, hsv⟩, hs,
      ⟨x, chunk_mem _ _ _ _ hb x hxb, hm.symm⟩⟩
    simp only [List.mem_append]
    exact Or.inr (by rw [hm]; exact hsub _ hans)

/-- recover(), done-marking: with the closure of finish() only after a positive answer of the
    recovery poll about that name; without closure (nothing can be deleted) only for a cache
    entry that was not done and whose file the store reports gone. -/
theorem recover_cacheDone (fx : Fixes) (env : Env) (st : St) (m : Name) (c : Bool)
    (h : Eff.cacheDone m c ∈ (recover fx env st).effs) :
    (c = true ∧ PositiveAnswer (recover fx env st).effs m) ∨
    (c = false ∧ ∃ e ∈ st.cache, e.name = m ∧ e.done = false ∧ sync st.store e = .absent) := by
  unfold recover at h ⊢
  dsimp only at h ⊢
  simp only [List.mem_append, List.mem_replicate] at h
  rcases h with ((h | h) | h) | h
  · simp at h
  · obtain ⟨_, x, _, _, hx⟩ := runLoop_mem (recPartial st.cache) (fun _ => True) _
      (fun _ _ _ _ => trivial) _ trivial _ h
    obtain ⟨q, hq⟩ := recPartial_effs _ _ _ _ hx
    simp at hq
  · obtain ⟨t, x, hI, hxm, hx⟩ := runLoop_mem (recEntry fx env _)
      (fun t => t.1.store = st.store) _
      (fun t f _ ht => (recEntry_inv fx env _ t f).1.trans ht) _ (by rfl) _ h
    rcases recEntry_effs _ _ _ _ _ _ hx with h' | ⟨h', hd, hs⟩ | ⟨q, h'⟩
    · simp at h'
    · simp only [Eff.cacheDone.injEq] at h'
      rw [hI] at hs
      exact Or.inr ⟨h'.2, x, hxm, h'.1.symm, hd, hs⟩
    · simp at h'
  · have hp2 := recover_phase2_inv fx env
      (runLoop (recPartial st.cache) [] st.partials).1 { st with recErrs := 0 } st.cache
    obtain ⟨st', b, hI, hb, hy, hsub⟩ := recBatches_mem fx env _ (fun t => VerSub st.cache t.cache)
      (fun t b ht => VerSub.trans ht (recBatch_verSub fx env _ t b)) _ _ hp2.2 _ h
    obtain ⟨x, v, st'', hxb, hpos, hans, hvs, hfin⟩ :=
      recBatch_release fx env _ st' b _ hy (Or.inr ⟨m, c, rfl⟩)
    obtain ⟨hm, hc, _⟩ := finish_cacheDone fx env _ _ _ _ _ hfin
    refine Or.inl ⟨hc, v, ?_, hpos⟩
    simp only [List.mem_append]
    exact Or.inr (by rw [hm]; exact hsub _ hans)




/-! ## scan(): clean-up and cache update -/

theorem scanClean_effs (fx : Fixes) (env : Env) (s : St × List Wrapped) (e : CEntry) (x : Eff)
    (h : x ∈ (scanClean fx env s e).2) :
    (x = .storeRemove e.name e (sfind s.1.store e.name) ∨ x = .cacheRemove e.name) ∧
    e.hash ≠ "" ∧ e.done = true ∧ canDelete env e = true ∧
    (fx.scanSync = true → sync s.1.store e ≠ .changed) := by
  unfold scanClean at h
  split at h
  · simp at h
  · rename_i hh
    split at h
    · rename_i hc
      split at h
      · simp at h
      · rename_i hs
        simp only [List.mem_cons, List.not_mem_nil, or_false] at h
        exact ⟨h, hh, hc.1, hc.2, fun hf hch => hs ⟨hf, hch⟩⟩
    · simp at h

theorem scanUpdate_effs (fx : Fixes) (s : St) (w : Wrapped) (x : Eff)
    (h : x ∈ (scanUpdate fx s w).2) : x = .cacheRemove w.name ∨ x = .cacheAdd w.name := by
  unfold scanUpdate at h
  dsimp only at h
  split at h
  · simp at h; exact Or.inl h
  · split at h
    · simp at h; exact Or.inr (by simpa [Wrapped.name] using h)
    · split at h
      · simp at h; exact Or.inr (by simpa [Wrapped.name] using h)
      · simp at h

/-- scan(): a deletion happens only in the clean-up, for a cache entry that is done, hashed
    and whose tag allows deletion now; repaired: the file on disk at that instant is the
    version of that entry. scan() never marks anything done. -/
theorem scan_storeRemove (fx : Fixes) (env : Env) (st : St) (m : Name) (e : CEntry) (f : Option SFile)
    (h : Eff.storeRemove m e f ∈ (scan fx env st).effs) :
    e ∈ st.cache ∧ e.name = m ∧ e.done = true ∧ e.hash ≠ "" ∧ canDelete env e = true ∧
    (fx.scanSync = true → OnDiskIs e f) := by
  unfold scan at h
  dsimp only at h
  simp only [List.mem_append, List.mem_cons, List.not_mem_nil, or_false] at h
  rcases h with (h | h) | h
  · obtain ⟨t, x, _, hxm, hx⟩ := runLoop_mem (scanClean fx env) (fun _ => True) _
      (fun _ _ _ _ => trivial) _ trivial _ h
    obtain ⟨h1, hh, hd, hc, hs⟩ := scanClean_effs fx env t x _ hx
    rcases h1 with h1 | h1
    · simp only [Eff.storeRemove.injEq] at h1
      obtain ⟨rfl, rfl, rfl⟩ := h1
      exact ⟨hxm, rfl, hd, hh, hc, fun hf => onDiskIs_of_sync (hs hf)⟩
    · simp at h1
  · obtain ⟨t, x, _, _, hx⟩ := runLoop_mem (scanUpdate fx) (fun _ => True) _
      (fun _ _ _ _ => trivial) _ trivial _ h
    rcases scanUpdate_effs fx t x _ hx with h' | h' <;> simp at h'
  · simp at h

theorem scan_no_cacheDone (fx : Fixes) (env : Env) (st : St) (m : Name) (c : Bool) :
    Eff.cacheDone m c ∉ (scan fx env st).effs := by
  intro h
  unfold scan at h
  dsimp only at h
  simp only [List.mem_append, List.mem_cons, List.not_mem_nil, or_false] at h
  rcases h with (h | h) | h
  · obtain ⟨t, x, _, _, hx⟩ := runLoop_mem (scanClean fx env) (fun _ => True) _
      (fun _ _ _ _ => trivial) _ trivial _ h
    rcases (scanClean_effs fx env t x _ hx).1 with h1 | h1 <;> simp at h1
  · obtain ⟨t, x, _, _, hx⟩ := runLoop_mem (scanUpdate fx) (fun _ => True) _
      (fun _ _ _ _ => trivial) _ trivial _ h
    rcases scanUpdate_effs fx t x _ hx with h' | h' <;> simp at h'
  · simp at h

/-- repaired cache add: an entry that is (re)added is not done; every other entry is kept. -/
theorem cadd_mem (fx : Fixes) (hfx : fx.addReset = true) (c : Cache) (n : Name) (size time : Int)
    (hash : String) (e : CEntry) (h : e ∈ cadd fx c n size time hash) :
    e ∈ c ∨ (e.name = n ∧ e.size = size ∧ e.time = time ∧ e.hash = hash ∧ e.done = false) := by
  unfold cadd at h
  split at h
  · obtain ⟨e0, he0, rfl⟩ := List.mem_map.mp h
    by_cases hn : e0.name = n
    · simp [hn]
    · simp [hn, he0]
  · have : ∀ (l : Cache) (x y : CEntry), y ∈ cinsert x l → y = x ∨ y ∈ l := by
      intro l x y
      induction l with
      | nil => intro hy; simp [cinsert] at hy; exact Or.inl hy
      | cons z zs ih =>
        intro hy
        unfold cinsert at hy
        split at hy
        · simp only [List.mem_cons] at hy ⊢; exact hy
        · simp only [List.mem_cons] at hy ⊢
          rcases hy with hy | hy
          · exact Or.inr (Or.inl hy)
          · rcases ih hy with h' | h'
            · exact Or.inl h'
            · exact Or.inr (Or.inr h')
    rcases this _ _ _ h with h' | h'
    · subst h'; exact Or.inr ⟨rfl, rfl, rfl, rfl, rfl⟩
    · exact Or.inl h'

/-- S18 repaired: scan() never produces a done entry — every done entry of the cache after a
    scan was in the cache, done, with the same version, before the scan. -/
theorem scan_done_entries_old (env : Env) (st : St) :
    ∀ e ∈ (scan Fixes.repaired env st).st.cache, e.done = true → e ∈ st.cache := by
  have hclean : ∀ (t : St × List Wrapped) (x : CEntry),
      (∀ e ∈ t.1.cache, e.done = true → e ∈ st.cache) →
      (∀ e ∈ (scanClean Fixes.repaired env t x).1.1.cache, e.done = true → e ∈ st.cache) := by
    intro t x ht
    unfold scanClean
    split
    · exact ht
    · split
      · split
        · exact ht
        · intro e he hd
          have : e ∈ t.1.cache := by
            unfold St.cacheRemove at he
            split at he
            · exact he
            · exact (List.mem_filter.mp he).1
          exact ht e this hd
      · exact ht
  have hupd : ∀ (t : St) (w : Wrapped),
      (∀ e ∈ t.cache, e.done = true → e ∈ st.cache) →
      (∀ e ∈ (scanUpdate Fixes.repaired t w).1.cache, e.done = true → e ∈ st.cache) := by
    intro t w ht
    unfold scanUpdate
    dsimp only
    split
    · intro e he hd
      have : e ∈ t.cache := by
        unfold St.cacheRemove at he
        split at he
        · exact he
        · exact (List.mem_filter.mp he).1
      exact ht e this hd
    · split
      · intro e he hd
        rcases cadd_mem Fixes.repaired rfl _ _ _ _ _ e he with h' | h'
        · exact ht e h' hd
        · rw [h'.2.2.2.2] at hd; cases hd
      · split
        · intro e he hd
          rcases cadd_mem Fixes.repaired rfl _ _ _ _ _ e he with h' | h'
          · exact ht e h' hd
          · rw [h'.2.2.2.2] at hd; cases hd
        · exact ht
  unfold scan
  dsimp only
  rw [persist_cache]
  apply runLoop_inv (scanUpdate Fixes.repaired) (fun t => ∀ e ∈ t.cache, e.done = true → e ∈ st.cache) _
    (fun t w _ ht => hupd t w ht)
  exact runLoop_inv (scanClean Fixes.repaired env)
    (fun t => ∀ e ∈ t.1.cache, e.done = true → e ∈ st.cache) _
    (fun t x _ ht => hclean t x ht) _ (fun e he _ => he)




/-! ## invariant: a done mark stands for a confirmed (or vanished) version

  `Conf` is any predicate on versions (name, size, time, hash). If it holds for every version
  about whose name the receiver answers positively while the cache holds that version, and
  for every version whose file the store reports gone, then it holds for every entry that is
  marked done — in memory and in the persisted cache — after any step. -/

theorem sync_sameVer (s : Store) (a b : CEntry) (h : SameVer a b) : sync s a = sync s b := by
  unfold sync
  rw [h.1, h.2.1, h.2.2.1]

theorem doneOK_persist {Conf : CEntry → Prop} (st : St) (h1 : DoneOK Conf st.cache) (h2 : DoneOK Conf st.disk) :
    DoneOK Conf st.persist.cache ∧ DoneOK Conf st.persist.disk := by
  unfold St.persist
  split
  · exact ⟨h1, h1⟩
  · exact ⟨h1, h2⟩

theorem finish_doneOK {Conf : CEntry → Prop} (hv : VerPred Conf) (fx : Fixes) (env : Env) (st : St)
    (n : Name) (v : Verdict) (h0 : DoneOK Conf st.cache)
    (H : v.positive = true → ∀ e ∈ st.cache, e.name = n → Conf e) :
    DoneOK Conf (finish fx env st n v).1.cache := by
  unfold finish
  split
  · rename_i hp
    unfold doneAndDelete
    split
    · exact h0
    · split
      · exact h0
      · split
        · split <;> exact doneOK_cmark hv _ _ h0 (H hp)
        · exact doneOK_cmark hv _ _ h0 (H hp)
  · exact h0

theorem finish_disk (fx : Fixes) (env : Env) (st : St) (n : Name) (v : Verdict) :
    (finish fx env st n v).1.disk = st.disk := by
  unfold finish
  split
  · unfold doneAndDelete
    split
    · rfl
    · split
      · rfl
      · split
        · split <;> rfl
        · rfl
  · rfl

/-- Conf for the entries of the current cache follows from Conf for the same-named entries of
    the cache the step started with. -/
theorem conf_of_verSub {Conf : CEntry → Prop} (hv : VerPred Conf) {c0 c : Cache} (hs : VerSub c0 c)
    (n : Name) (H : ∀ e ∈ c0, e.name = n → Conf e) : ∀ e ∈ c, e.name = n → Conf e := by
  intro e he hn
  obtain ⟨e0, he0, hsv, _⟩ := hs e he
  exact hv e0 e hsv (H e0 he0 (hsv.1.trans hn))

theorem valPolled_doneOK {Conf : CEntry → Prop} (hv : VerPred Conf) (fx : Fixes) (env : Env)
    (s : St × List PFile) (x : PFile × Verdict) (h0 : DoneOK Conf s.1.cache)
    (H : x.2.positive = true → ∀ e ∈ s.1.cache, e.name = x.1.name → Conf e) :
    DoneOK Conf (valPolled fx env s x).1.1.cache := by
  unfold valPolled
  split
  · split
    · exact h0
    · split
      · exact finish_doneOK hv _ _ _ _ _ h0 (fun hp => by simp [Verdict.positive] at hp)
      · exact h0
  · exact finish_doneOK hv _ _ _ _ _ h0 (fun hp => by simp [Verdict.positive] at hp)
  · rename_i hx; exact finish_doneOK hv _ _ _ _ _ h0 (fun _ => H (by rw [hx]; rfl))
  · rename_i hx; exact finish_doneOK hv _ _ _ _ _ h0 (fun _ => H (by rw [hx]; rfl))
  · exact h0
  · exact h0

theorem valPolled_disk (fx : Fixes) (env : Env) (s : St × List PFile) (x : PFile × Verdict) :
    (valPolled fx env s x).1.1.disk = s.1.disk := by
  unfold valPolled
  split
  · split
    · rfl
    · split
      · exact finish_disk _ _ _ _ _
      · rfl
  · exact finish_disk _ _ _ _ _
  · exact finish_disk _ _ _ _ _
  · exact finish_disk _ _ _ _ _
  · rfl
  · rfl

/-- one processed poll batch keeps the invariant. -/
theorem validateStep_doneOK {Conf : CEntry → Prop} (hv : VerPred Conf) (fx : Fixes) (env : Env)
    (s : St × List PFile) (ready : List PFile)
    (h0 : DoneOK Conf s.1.cache) (h0d : DoneOK Conf s.1.disk)
    (H : ∀ m v, Eff.answer m v ∈ (validateStep fx env s ready).2 → v.positive = true →
      ∀ e ∈ s.1.cache, e.name = m → Conf e) :
    DoneOK Conf (validateStep fx env s ready).1.1.cache ∧
    DoneOK Conf (validateStep fx env s ready).1.1.disk := by
  have hans : ∀ x ∈ (takeAnswers (fun p : PFile => p.name) s.1.answers ready).1,
      x.2.positive = true → ∀ e ∈ s.1.cache, e.name = x.1.name → Conf e := by
    intro x hx hp
    apply H x.1.name x.2 _ hp
    unfold validateStep
    simp only [List.mem_append, List.mem_cons]
    exact Or.inl (Or.inl (Or.inr (answerEffs_mem (fun p : PFile => p.name) _ x.1 x.2 hx)))
  unfold validateStep
  dsimp only
  apply doneOK_persist
  · have := runLoop_inv (valPolled fx env)
      (fun t => VerSub s.1.cache t.1.cache ∧ DoneOK Conf t.1.cache)
      (takeAnswers (fun p : PFile => p.name) s.1.answers ready).1
      (fun t y hy ht => ⟨VerSub.trans ht.1 (valPolled_verSub fx env t y),
        valPolled_doneOK hv fx env t y ht.2
          (fun hp => conf_of_verSub hv ht.1 _ (hans y hy hp))⟩)
      ({ s.1 with pollErrs := 0, answers := (takeAnswers (fun p : PFile => p.name) s.1.answers ready).2 }, s.2)
      ⟨VerSub.refl _, h0⟩
    exact this.2
  · have := runLoop_inv (valPolled fx env) (fun t => t.1.disk = s.1.disk)
      (takeAnswers (fun p : PFile => p.name) s.1.answers ready).1
      (fun t y _ ht => (valPolled_disk fx env t y).trans ht)
      ({ s.1 with pollErrs := 0, answers := (takeAnswers (fun p : PFile => p.name) s.1.answers ready).2 }, s.2)
      rfl
    rw [this]; exact h0d




theorem doneOK_cacheRemove {Conf : CEntry → Prop} (st : St) (n : Name) (h : DoneOK Conf st.cache) :
    DoneOK Conf (st.cacheRemove n).cache := by
  unfold St.cacheRemove
  split
  · exact h
  · exact doneOK_cremove _ _ h

theorem doneOK_cacheDone {Conf : CEntry → Prop} (hv : VerPred Conf) (st : St) (n : Name)
    (h : DoneOK Conf st.cache) (H : ∀ e ∈ st.cache, e.name = n → Conf e) :
    DoneOK Conf (st.cacheDone n).cache := by
  unfold St.cacheDone
  split
  · exact h
  · split
    · exact h
    · exact doneOK_cmark hv _ _ h H

theorem cacheRemove_disk (st : St) (n : Name) : (st.cacheRemove n).disk = st.disk := by
  unfold St.cacheRemove; split <;> rfl

theorem cacheDone_disk (st : St) (n : Name) : (st.cacheDone n).disk = st.disk := by
  unfold St.cacheDone
  split
  · rfl
  · split <;> rfl

theorem recEntry_doneOK {Conf : CEntry → Prop} (hv : VerPred Conf) (fx : Fixes) (env : Env)
    (lk : List Partial) (s : St × List CEntry) (f : CEntry) (h0 : DoneOK Conf s.1.cache)
    (H : sync s.1.store f = .absent → ∀ e ∈ s.1.cache, e.name = f.name → Conf e) :
    DoneOK Conf (recEntry fx env lk s f).1.1.cache ∧ (recEntry fx env lk s f).1.1.disk = s.1.disk := by
  unfold recEntry
  split
  · exact ⟨h0, rfl⟩
  · split
    · exact ⟨doneOK_cacheRemove _ _ h0, cacheRemove_disk _ _⟩
    · split
      · rename_i hs
        exact ⟨doneOK_cacheDone hv _ _ h0 (H hs), cacheDone_disk _ _⟩
      · exact ⟨h0, rfl⟩
      · split
        · exact ⟨h0, rfl⟩
        · split
          · split <;> exact ⟨h0, rfl⟩
          · exact ⟨h0, rfl⟩

theorem recConfirm_doneOK {Conf : CEntry → Prop} (hv : VerPred Conf) (fx : Fixes) (env : Env) (st : St)
    (c : CEntry) (hsh : String) (v : Verdict) (h0 : DoneOK Conf st.cache)
    (H : v.positive = true → ∀ e ∈ st.cache, e.name = c.name → Conf e) :
    DoneOK Conf (recConfirm fx env st c hsh v).1.cache ∧ (recConfirm fx env st c hsh v).1.disk = st.disk := by
  unfold recConfirm
  split
  · exact ⟨finish_doneOK hv _ _ _ _ _ h0 H, finish_disk _ _ _ _ _⟩
  · exact ⟨finish_doneOK hv fx env { st with logged := st.logged ++ [(c.name, c.hash)] } _ _ h0 H,
      finish_disk _ _ _ _ _⟩

theorem recPolled_doneOK {Conf : CEntry → Prop} (hv : VerPred Conf) (fx : Fixes) (env : Env)
    (lk : List Partial) (st : St) (x : CEntry × Verdict) (h0 : DoneOK Conf st.cache)
    (H : x.2.positive = true → ∀ e ∈ st.cache, e.name = x.1.name → Conf e) :
    DoneOK Conf (recPolled fx env lk st x).1.cache ∧ (recPolled fx env lk st x).1.disk = st.disk := by
  unfold recPolled
  split
  · exact ⟨h0, rfl⟩
  · rename_i c hc
    have hcn : c.name = x.1.name := (cget_some hc).2
    split
    · exact ⟨h0, rfl⟩
    · split <;> exact ⟨h0, rfl⟩
    · rename_i hx
      exact recConfirm_doneOK hv _ _ _ _ _ _ h0 (fun _ => by rw [hcn]; exact H (by rw [hx]; rfl))
    · rename_i hx
      exact recConfirm_doneOK hv _ _ _ _ _ _ h0 (fun _ => by rw [hcn]; exact H (by rw [hx]; rfl))
    · exact ⟨h0, rfl⟩
    · exact ⟨h0, rfl⟩

theorem recPolled_disk (fx : Fixes) (env : Env) (lk : List Partial) (st : St) (x : CEntry × Verdict) :
    (recPolled fx env lk st x).1.disk = st.disk := by
  unfold recPolled
  split
  · rfl
  · split
    · rfl
    · split <;> rfl
    · unfold recConfirm; split <;> exact finish_disk _ _ _ _ _
    · unfold recConfirm; split <;> exact finish_disk _ _ _ _ _
    · rfl
    · rfl

theorem recBatch_doneOK {Conf : CEntry → Prop} (hv : VerPred Conf) (fx : Fixes) (env : Env)
    (lk : List Partial) (c0 : Cache) (st : St) (b : List CEntry)
    (hvs : VerSub c0 st.cache) (h0 : DoneOK Conf st.cache) (h0d : DoneOK Conf st.disk)
    (H : ∀ m v, Eff.answer m v ∈ (recBatch fx env lk st b).2.1 → v.positive = true →
      ∀ e ∈ c0, e.name = m → Conf e) :
    DoneOK Conf (recBatch fx env lk st b).1.cache ∧ DoneOK Conf (recBatch fx env lk st b).1.disk := by
  unfold recBatch at H ⊢
  dsimp only at H ⊢
  split
  · exact ⟨h0, h0d⟩
  · rename_i hc
    simp only [hc, if_false] at H
    have hans : ∀ x ∈ (takeAnswers (fun p : CEntry => p.name) st.answers b).1,
        x.2.positive = true → ∀ e ∈ c0, e.name = x.1.name → Conf e := by
      intro x hx hp
      apply H x.1.name x.2 _ hp
      simp only [List.mem_append, List.mem_cons]
      exact Or.inl (Or.inl (Or.inr (answerEffs_mem (fun p : CEntry => p.name) _ x.1 x.2 hx)))
    apply doneOK_persist
    · have := runLoop_inv (recPolled fx env lk)
        (fun t => VerSub c0 t.cache ∧ DoneOK Conf t.cache)
        (takeAnswers (fun p : CEntry => p.name) st.answers b).1
        (fun t y hy ht => ⟨VerSub.trans ht.1 (recPolled_verSub fx env lk t y),
          (recPolled_doneOK hv fx env lk t y ht.2
            (fun hp => conf_of_verSub hv ht.1 _ (hans y hy hp))).1⟩)
        { st with answers := (takeAnswers (fun p : CEntry => p.name) st.answers b).2, pollErrs := 0 }
        ⟨hvs, h0⟩
      exact this.2
    · have := runLoop_inv (recPolled fx env lk) (fun t => t.disk = st.disk)
        (takeAnswers (fun p : CEntry => p.name) st.answers b).1
        (fun t y _ ht => (recPolled_disk fx env lk t y).trans ht)
        { st with answers := (takeAnswers (fun p : CEntry => p.name) st.answers b).2, pollErrs := 0 }
        rfl
      rw [this]; exact h0d




theorem recBatches_doneOK {Conf : CEntry → Prop} (hv : VerPred Conf) (fx : Fixes) (env : Env)
    (lk : List Partial) (c0 : Cache) :
    ∀ (bs : List (List CEntry)) (st : St),
    VerSub c0 st.cache → DoneOK Conf st.cache → DoneOK Conf st.disk →
    (∀ m v, Eff.answer m v ∈ (recBatches fx env lk st bs).2.1 → v.positive = true →
      ∀ e ∈ c0, e.name = m → Conf e) →
    DoneOK Conf (recBatches fx env lk st bs).1.cache ∧ DoneOK Conf (recBatches fx env lk st bs).1.disk := by
  intro bs
  induction bs with
  | nil => intro st _ h0 h0d _; exact ⟨h0, h0d⟩
  | cons b bs ih =>
    intro st hvs h0 h0d H
    unfold recBatches at H ⊢
    dsimp only at H ⊢
    split
    · rename_i herr
      simp only [herr, if_true] at H
      exact recBatch_doneOK hv fx env lk c0 st b hvs h0 h0d H
    · rename_i herr
      simp only [herr] at H
      have hb := recBatch_doneOK hv fx env lk c0 st b hvs h0 h0d
        (fun m v hm => H m v (List.mem_append.mpr (Or.inl hm)))
      exact ih _ (VerSub.trans hvs (recBatch_verSub fx env lk st b)) hb.1 hb.2
        (fun m v hm => H m v (List.mem_append.mpr (Or.inr hm)))

theorem sync_absent_iff (s : Store) (e : CEntry) : sync s e = .absent ↔ sfind s e.name = none := by
  unfold sync
  split
  · rename_i h; simp [h]
  · rename_i f h
    simp only [h]
    split <;> simp

/-- recover() keeps the invariant. -/
theorem recover_doneOK {Conf : CEntry → Prop} (hv : VerPred Conf) (fx : Fixes) (env : Env) (st : St)
    (h0 : DoneOK Conf st.cache) (h0d : DoneOK Conf st.disk)
    (Hpos : ∀ m v, Eff.answer m v ∈ (recover fx env st).effs → v.positive = true →
      ∀ e ∈ st.cache, e.name = m → Conf e)
    (Hvan : ∀ e ∈ st.cache, sync st.store e = .absent → Conf e) :
    DoneOK Conf (recover fx env st).st.cache ∧ DoneOK Conf (recover fx env st).st.disk := by
  unfold recover at Hpos ⊢
  dsimp only at Hpos ⊢
  have hp2 := runLoop_inv (recEntry fx env (runLoop (recPartial st.cache) [] st.partials).1)
    (fun t => t.1.store = st.store ∧ VerSub st.cache t.1.cache ∧ DoneOK Conf t.1.cache ∧ t.1.disk = st.disk)
    st.cache
    (fun t f _ ht => by
      have hinv := recEntry_inv fx env (runLoop (recPartial st.cache) [] st.partials).1 t f
      have hd := recEntry_doneOK hv fx env (runLoop (recPartial st.cache) [] st.partials).1 t f ht.2.2.1
        (fun hs e he hn => by
          obtain ⟨e0, he0, hsv, _⟩ := ht.2.1 e he
          rw [ht.1] at hs
          have h1 : sfind st.store f.name = none := (sync_absent_iff _ _).mp hs
          have h2 : sync st.store e0 = .absent := by
            rw [sync_absent_iff, hsv.1, hn]; exact h1
          exact hv e0 e hsv (Hvan e0 he0 h2))
      exact ⟨hinv.1.trans ht.1, VerSub.trans ht.2.1 hinv.2, hd.1, hd.2.trans ht.2.2.2⟩)
    ({ st with recErrs := 0 }, []) ⟨rfl, VerSub.refl _, h0, rfl⟩
  apply recBatches_doneOK hv fx env _ st.cache _ _ hp2.2.1 hp2.2.2.1 (by rw [hp2.2.2.2]; exact h0d)
  intro m v hm hp
  exact Hpos m v (List.mem_append.mpr (Or.inr hm)) hp




theorem validateRun_doneOK {Conf : CEntry → Prop} (hv : VerPred Conf) (fx : Fixes) (env : Env) (fuel : Nat) :
    ∀ (s : St × List PFile) (c0 : Cache), VerSub c0 s.1.cache →
    DoneOK Conf s.1.cache → DoneOK Conf s.1.disk →
    (∀ m v, Eff.answer m v ∈ (validateRun fx env fuel s).2 → v.positive = true →
      ∀ e ∈ c0, e.name = m → Conf e) →
    DoneOK Conf (validateRun fx env fuel s).1.1.cache ∧ DoneOK Conf (validateRun fx env fuel s).1.1.disk := by
  induction fuel with
  | zero => intro s c0 _ h0 h0d _; exact ⟨h0, h0d⟩
  | succ k ih =>
    intro s c0 hvs h0 h0d H
    unfold validateRun at H ⊢
    split
    · exact ⟨h0, h0d⟩
    · rename_i hne
      simp only [hne] at H
      dsimp only at H ⊢
      have hstep := validateStep_doneOK hv fx env s (s.2.take env.pollMax) h0 h0d
        (fun m v hm hp => conf_of_verSub hv hvs m (H m v (List.mem_append.mpr (Or.inl hm)) hp))
      exact ih _ c0 (VerSub.trans hvs (validateStep_verSub fx env s _)) hstep.1 hstep.2
        (fun m v hm hp => H m v (List.mem_append.mpr (Or.inr hm)) hp)

/-- scan() (repaired) keeps the invariant: it never produces a done entry. -/
theorem scan_doneOK {Conf : CEntry → Prop} (env : Env) (st : St)
    (h0 : DoneOK Conf st.cache) (h0d : DoneOK Conf st.disk) :
    DoneOK Conf (scan Fixes.repaired env st).st.cache ∧ DoneOK Conf (scan Fixes.repaired env st).st.disk := by
  have hc : DoneOK Conf (scan Fixes.repaired env st).st.cache :=
    fun e he hd => h0 e (scan_done_entries_old env st e he hd) hd
  refine ⟨hc, ?_⟩
  have hclean : ∀ (t : St × List Wrapped) (x : CEntry),
      (scanClean Fixes.repaired env t x).1.1.disk = t.1.disk := by
    intro t x
    unfold scanClean
    split
    · rfl
    · split
      · split
        · rfl
        · exact cacheRemove_disk _ _
      · rfl
  have hupd : ∀ (t : St) (w : Wrapped), (scanUpdate Fixes.repaired t w).1.disk = t.disk := by
    intro t w
    unfold scanUpdate
    dsimp only
    split
    · exact cacheRemove_disk _ _
    · split
      · rfl
      · split <;> rfl
  have hdisk : (scan Fixes.repaired env st).st.disk = (scan Fixes.repaired env st).st.cache ∨
      (scan Fixes.repaired env st).st.disk = st.disk := by
    unfold scan
    dsimp only
    unfold St.persist
    split
    · exact Or.inl rfl
    · refine Or.inr ?_
      have h1 := runLoop_inv (scanClean Fixes.repaired env) (fun t => t.1.disk = st.disk) st.cache
        (fun t x _ ht => (hclean t x).trans ht)
        (st, (st.store.filter (includeFile env st.cache)).map Wrapped.found) rfl
      exact runLoop_inv (scanUpdate Fixes.repaired) (fun t => t.disk = st.disk) _
        (fun t w _ ht => (hupd t w).trans ht) _ h1
  rcases hdisk with h | h
  · rw [h]; exact hc
  · rw [h]; exact h0d

/-- restart keeps the invariant when `Conf` does not mind files getting older. -/
theorem restart_doneOK {Conf : CEntry → Prop} (k : Int) (st : St)
    (hshift : ∀ e, Conf e → Conf { e with time := e.time - k }) (h0d : DoneOK Conf st.disk) :
    DoneOK Conf (restart k st).cache ∧ DoneOK Conf (restart k st).disk := by
  have : DoneOK Conf (shiftC k st.disk) := by
    intro e he hd
    unfold shiftC at he
    obtain ⟨e0, he0, rfl⟩ := List.mem_map.mp he
    exact hshift e0 (h0d e0 he0 hd)
  exact ⟨this, this⟩




/-! ## the retry worker (startRetry) -/

theorem takeFault_mem (fl : List (Name × Fault)) (n : Name) (k : Fault)
    (h : (takeFault fl n).1 = some k) : (n, k) ∈ fl := by
  induction fl with
  | nil => simp [takeFault] at h
  | cons x xs ih =>
    obtain ⟨m, j⟩ := x
    unfold takeFault at h
    split at h
    · rename_i hm
      simp only [Option.some.injEq] at h
      subst hm; subst h; exact List.mem_cons_self
    · exact List.mem_cons_of_mem _ (ih h)

theorem takeFault_sub (fl : List (Name × Fault)) (n : Name) :
    ∀ x ∈ (takeFault fl n).2, x ∈ fl := by
  induction fl with
  | nil => intro x hx; simp [takeFault] at hx
  | cons y ys ih =>
    obtain ⟨m, j⟩ := y
    intro x hx
    unfold takeFault at hx
    split at hx
    · exact List.mem_cons_of_mem _ hx
    · simp only [List.mem_cons] at hx ⊢
      rcases hx with hx | hx
      · exact Or.inl hx
      · exact Or.inr (ih x hx)

theorem takeFault_none (fl : List (Name × Fault)) (n : Name) (h : ∀ k, (n, k) ∉ fl) :
    (takeFault fl n).1 = none := by
  induction fl with
  | nil => rfl
  | cons y ys ih =>
    obtain ⟨m, j⟩ := y
    unfold takeFault
    split
    · rename_i hm; subst hm; exact absurd List.mem_cons_self (h j)
    · exact ih (fun k hk => h k (List.mem_cons_of_mem _ hk))

/-- a lookup sees a name-preserving update of every entry as the update of what it found. -/
theorem cget_map_names (c : Cache) (g : CEntry → CEntry) (hg : ∀ x, (g x).name = x.name) (m : Name) :
    cget (c.map g) m = (cget c m).map g := by
  unfold cget
  induction c with
  | nil => rfl
  | cons x xs ih =>
    simp only [List.map_cons, List.find?_cons]
    by_cases hx : x.name = m
    · simp [hx, hg]
    · simp [hx, hg, ih]

theorem cany_of_cget {c : Cache} {n : Name} {e : CEntry} (h : cget c n = some e) :
    c.any (fun x => x.name = n) = true := by
  obtain ⟨he, hn⟩ := cget_some h
  exact List.any_eq_true.mpr ⟨e, he, by simpa using hn⟩

/-- what cache add does to the entries of a name the cache holds. -/
def reAdd (fx : Fixes) (n : Name) (sz t : Int) (h : String) (x : CEntry) : CEntry :=
  if x.name = n then
    { x with size := sz, time := t, hash := h, done := if fx.addReset then false else x.done }
  else x

theorem reAdd_name (fx : Fixes) (n : Name) (sz t : Int) (h : String) (x : CEntry) :
    (reAdd fx n sz t h x).name = x.name := by
  unfold reAdd; split <;> rfl

theorem cadd_existing (fx : Fixes) (c : Cache) (n : Name) (sz t : Int) (h : String) (e : CEntry)
    (he : cget c n = some e) : cadd fx c n sz t h = c.map (reAdd fx n sz t h) := by
  unfold cadd
  rw [if_pos (cany_of_cget he)]
  rfl

theorem cmark_eq_map (c : Cache) (n : Name) :
    cmark c n = c.map (fun e => if e.name = n then { e with done := true } else e) := rfl

/-- the version key the code compares (`Sync`): name, size, modification time. -/
def keyOf (e : CEntry) : Name × Int × Int := (e.name, e.size, e.time)

theorem sync_key (s : Store) (a b : CEntry) (h : keyOf a = keyOf b) : sync s a = sync s b := by
  unfold keyOf at h
  simp only [Prod.mk.injEq] at h
  unfold sync
  rw [h.1, h.2.1, h.2.2]

theorem sfind_sremove_none (s : Store) (n m : Name) (h : sfind s m = none) : sfind (sremove s n) m = none := by
  by_cases hm : m = n
  · subst hm; exact sfind_sremove_self _ _
  · rw [sfind_sremove_ne _ _ _ hm]; exact h

/-- the tail of the loop body for a name the cache holds: the entry is re-added with its own size and
    time and the given hash, and the whole file is queued with the polled file's predecessor. -/
theorem retryRequeue_eq (fx : Fixes) (st : St) (f : RFile) (c : CEntry) (h : String)
    (hc : cget st.cache f.name = some c) :
    retryRequeue fx st f c h =
      ({ st with cache := st.cache.map (reAdd fx f.name c.size c.time h), dirty := true },
       [.cacheAdd f.name, .push (.resume f.name f.prev [⟨0, c.size⟩])]) ∧
    cget (st.cache.map (reAdd fx f.name c.size c.time h)) f.name =
      some { c with hash := h, done := if fx.addReset then false else c.done } := by
  have hn : c.name = f.name := (cget_some hc).2
  have hget : cget (st.cache.map (reAdd fx f.name c.size c.time h)) f.name =
      some { c with hash := h, done := if fx.addReset then false else c.done } := by
    rw [cget_map_names _ _ (reAdd_name fx f.name c.size c.time h), hc]
    simp [reAdd, hn]
  refine ⟨?_, hget⟩
  unfold retryRequeue
  simp only [cadd_existing fx st.cache f.name c.size c.time h c hc, hget]

/-- the six ways through one iteration of startRetry. -/
theorem retryOne_cases (fx : Fixes) (s : St × List (Name × Fault)) (f : RFile) :
    (retryOne fx s f = (s, []) ∧
      (cget s.1.cache f.name = none ∨ ∃ c, cget s.1.cache f.name = some c ∧ sync s.1.store c ≠ .same)) ∨
    (∃ c, cget s.1.cache f.name = some c ∧ sync s.1.store c = .same ∧
      (takeFault s.2 f.name).1 = some .gone ∧
      retryOne fx s f = (({ s.1 with store := sremove s.1.store f.name }.cacheDone f.name,
        (takeFault s.2 f.name).2), [.cacheDone f.name false])) ∨
    (∃ c, cget s.1.cache f.name = some c ∧ sync s.1.store c = .same ∧
      (takeFault s.2 f.name).1 = some .openErr ∧
      retryOne fx s f = ((s.1, (takeFault s.2 f.name).2), [])) ∨
    (∃ c h, cget s.1.cache f.name = some c ∧ sync s.1.store c = .same ∧
      (((takeFault s.2 f.name).1 = some .readErr ∧ h = "") ∨
       ((takeFault s.2 f.name).1 = none ∧ h = hashNow s.1.store f.name)) ∧
      retryOne fx s f = (((retryRequeue fx s.1 f c h).1, (takeFault s.2 f.name).2),
        (retryRequeue fx s.1 f c h).2)) := by
  unfold retryOne
  split
  · rename_i hc
    exact Or.inl ⟨rfl, Or.inl hc⟩
  · rename_i c hc
    split
    · rename_i hs
      exact Or.inl ⟨rfl, Or.inr ⟨c, hc, by rw [hs]; simp⟩⟩
    · rename_i hs
      exact Or.inl ⟨rfl, Or.inr ⟨c, hc, by rw [hs]; simp⟩⟩
    · rename_i hs
      split
      · rename_i hf
        exact Or.inr (Or.inl ⟨c, hc, hs, hf, rfl⟩)
      · rename_i hf
        exact Or.inr (Or.inr (Or.inl ⟨c, hc, hs, hf, rfl⟩))
      · rename_i hf
        exact Or.inr (Or.inr (Or.inr ⟨c, "", hc, hs, Or.inl ⟨hf, rfl⟩, rfl⟩))
      · rename_i hf
        exact Or.inr (Or.inr (Or.inr ⟨c, _, hc, hs, Or.inr ⟨hf, rfl⟩, rfl⟩))

theorem cacheDone_key (st : St) (m n : Name) :
    (cget (st.cacheDone m).cache n).map keyOf = (cget st.cache n).map keyOf := by
  unfold St.cacheDone
  split
  · rfl
  · split
    · rfl
    · simp only [cmark_eq_map]
      rw [cget_map_names _ _ (by intro x; split <;> rfl)]
      cases cget st.cache n with
      | none => rfl
      | some x =>
        simp only [Option.map_some]
        congr 1
        split <;> rfl

/-- one iteration never drops a cache entry and never changes the size or time of one: for every name
    a lookup finds the same version key as before. -/
theorem retryOne_key (fx : Fixes) (s : St × List (Name × Fault)) (f : RFile) (n : Name) :
    (cget (retryOne fx s f).1.1.cache n).map keyOf = (cget s.1.cache n).map keyOf := by
  rcases retryOne_cases fx s f with ⟨h, _⟩ | ⟨c, hc, hs, hf, h⟩ | ⟨c, hc, hs, hf, h⟩ | ⟨c, hh, hc, hs, hf, h⟩
  · rw [h]
  · rw [h]
    exact cacheDone_key { s.1 with store := sremove s.1.store f.name } f.name n
  · rw [h]
  · rw [h, (retryRequeue_eq fx s.1 f c hh hc).1]
    simp only
    rw [cget_map_names _ _ (reAdd_name fx f.name c.size c.time hh)]
    cases hcn : cget s.1.cache n with
    | none => rfl
    | some x =>
      simp only [Option.map_some]
      congr 1
      unfold reAdd
      split
      · rename_i hx
        have hxn : x.name = n := (cget_some hcn).2
        rw [← hxn, hx, hc] at hcn
        cases hcn
        rfl
      · rfl

/-- … and it sets a done mark only on the entry of a file whose open reported not-exist. -/
theorem retryOne_done (fx : Fixes) (s : St × List (Name × Fault)) (f : RFile) (n : Name) (e1 e : CEntry)
    (h1 : cget s.1.cache n = some e1) (h2 : cget (retryOne fx s f).1.1.cache n = some e)
    (hd : e.done = true) :
    e1.done = true ∨ (n = f.name ∧ (takeFault s.2 f.name).1 = some .gone) := by
  have hxn : e1.name = n := (cget_some h1).2
  rcases retryOne_cases fx s f with ⟨h, _⟩ | ⟨c, hc, hs, hf, h⟩ | ⟨c, hc, hs, hf, h⟩ | ⟨c, hh, hc, hs, hf, h⟩
  · rw [h, h1] at h2; cases h2; exact Or.inl hd
  · by_cases hn : n = f.name
    · exact Or.inr ⟨hn, hf⟩
    · refine Or.inl ?_
      rw [h] at h2
      simp only at h2
      unfold St.cacheDone at h2
      split at h2
      · rw [h1] at h2; cases h2; exact hd
      · split at h2
        · rw [h1] at h2; cases h2; exact hd
        · simp only at h2
          rw [cget_cmark_ne _ _ _ hn, h1] at h2
          cases h2; exact hd
  · rw [h, h1] at h2; cases h2; exact Or.inl hd
  · refine Or.inl ?_
    rw [h, (retryRequeue_eq fx s.1 f c hh hc).1] at h2
    simp only at h2
    rw [cget_map_names _ _ (reAdd_name fx f.name c.size c.time hh), h1] at h2
    simp only [Option.map_some, Option.some.injEq] at h2
    subst h2
    unfold reAdd at hd
    split at hd
    · simp only at hd
      split at hd
      · cases hd
      · exact hd
    · exact hd

/-- the scripted faults are only used up. -/
theorem retryOne_faults (fx : Fixes) (s : St × List (Name × Fault)) (f : RFile) :
    ∀ x ∈ (retryOne fx s f).1.2, x ∈ s.2 := by
  rcases retryOne_cases fx s f with ⟨h, _⟩ | ⟨c, hc, hs, hf, h⟩ | ⟨c, hc, hs, hf, h⟩ | ⟨c, hh, hc, hs, hf, h⟩
  · rw [h]; exact fun x hx => hx
  · rw [h]; exact takeFault_sub _ _
  · rw [h]; exact takeFault_sub _ _
  · rw [h]; exact takeFault_sub _ _

/-- the store changes only where a file vanishes (scripted `gone`). -/
theorem retryOne_store (fx : Fixes) (s : St × List (Name × Fault)) (f : RFile) (n : Name) :
    sfind (retryOne fx s f).1.1.store n = sfind s.1.store n ∨
    (n = f.name ∧ (takeFault s.2 f.name).1 = some .gone ∧ sfind (retryOne fx s f).1.1.store n = none) := by
  rcases retryOne_cases fx s f with ⟨h, _⟩ | ⟨c, hc, hs, hf, h⟩ | ⟨c, hc, hs, hf, h⟩ | ⟨c, hh, hc, hs, hf, h⟩
  · rw [h]; exact Or.inl rfl
  · rw [h]
    simp only [cacheDone_store]
    by_cases hn : n = f.name
    · exact Or.inr ⟨hn, hf, by rw [hn]; exact sfind_sremove_self _ _⟩
    · exact Or.inl (sfind_sremove_ne _ _ _ hn)
  · rw [h]; exact Or.inl rfl
  · rw [h, (retryRequeue_eq fx s.1 f c hh hc).1]; exact Or.inl rfl

theorem retryOne_store_none (fx : Fixes) (s : St × List (Name × Fault)) (f : RFile) (n : Name)
    (h : sfind s.1.store n = none) : sfind (retryOne fx s f).1.1.store n = none := by
  rcases retryOne_store fx s f n with h' | ⟨_, _, h'⟩
  · rw [h']; exact h
  · exact h'

/-- what one iteration emits: `Cache.Done(name, nil)` exactly in the not-exist branch (the file is gone from
    the store afterwards), `Cache.Add(name)`, or the push of the whole file with the polled predecessor. -/
theorem retryOne_effs (fx : Fixes) (s : St × List (Name × Fault)) (f : RFile) (x : Eff)
    (h : x ∈ (retryOne fx s f).2) :
    (x = .cacheDone f.name false ∧ (takeFault s.2 f.name).1 = some .gone ∧
      (∃ c, cget s.1.cache f.name = some c ∧ sync s.1.store c = .same) ∧
      sfind (retryOne fx s f).1.1.store f.name = none) ∨
    (∃ c, cget s.1.cache f.name = some c ∧ sync s.1.store c = .same ∧
      (takeFault s.2 f.name).1 ≠ some .gone ∧ (takeFault s.2 f.name).1 ≠ some .openErr ∧
      (x = .cacheAdd f.name ∨ x = .push (.resume f.name f.prev [⟨0, c.size⟩]))) := by
  rcases retryOne_cases fx s f with ⟨h', _⟩ | ⟨c, hc, hs, hf, h'⟩ | ⟨c, hc, hs, hf, h'⟩ | ⟨c, hh, hc, hs, hf, h'⟩
  · rw [h'] at h; simp at h
  · rw [h'] at h ⊢
    simp only [List.mem_singleton] at h
    refine Or.inl ⟨h, hf, ⟨c, hc, hs⟩, ?_⟩
    simp only [cacheDone_store]
    exact sfind_sremove_self _ _
  · rw [h'] at h; simp at h
  · rw [h', (retryRequeue_eq fx s.1 f c hh hc).1] at h
    simp only [List.mem_cons, List.not_mem_nil, or_false] at h
    refine Or.inr ⟨c, hc, hs, ?_, ?_, h⟩
    · rcases hf with ⟨hf, _⟩ | ⟨hf, _⟩ <;> rw [hf] <;> simp
    · rcases hf with ⟨hf, _⟩ | ⟨hf, _⟩ <;> rw [hf] <;> simp

/-- the loop invariant of startRetry with respect to the state `st` and the script `fl` it started with. -/
def RetryInv (st : St) (fl : List (Name × Fault)) (t : St × List (Name × Fault)) : Prop :=
  (∀ x ∈ t.2, x ∈ fl) ∧ (∀ n, (cget t.1.cache n).map keyOf = (cget st.cache n).map keyOf) ∧
  (∀ n, sfind t.1.store n = sfind st.store n ∨ ((n, Fault.gone) ∈ fl ∧ sfind t.1.store n = none))

theorem retryInv_init (st : St) (fl : List (Name × Fault)) : RetryInv st fl (st, fl) :=
  ⟨fun _ hx => hx, fun _ => rfl, fun _ => Or.inl rfl⟩

theorem retryInv_step (fx : Fixes) (st : St) (fl : List (Name × Fault)) (t : St × List (Name × Fault))
    (f : RFile) (h : RetryInv st fl t) : RetryInv st fl (retryOne fx t f).1 := by
  obtain ⟨h1, h2, h3⟩ := h
  refine ⟨fun x hx => h1 x (retryOne_faults fx t f x hx), fun n => (retryOne_key fx t f n).trans (h2 n), ?_⟩
  intro n
  rcases retryOne_store fx t f n with h' | ⟨hn, hf, h'⟩
  · rcases h3 n with h'' | ⟨hg, h''⟩
    · exact Or.inl (h'.trans h'')
    · exact Or.inr ⟨hg, by rw [h']; exact h''⟩
  · exact Or.inr ⟨by rw [hn]; exact h1 _ (takeFault_mem _ _ _ hf), h'⟩

theorem retryInv_run (fx : Fixes) (st : St) (fl : List (Name × Fault)) (fs : List RFile) :
    RetryInv st fl (runLoop (retryOne fx) (st, fl) fs).1 :=
  runLoop_inv (retryOne fx) (RetryInv st fl) fs (fun t f _ ht => retryInv_step fx st fl t f ht) _
    (retryInv_init st fl)

/-- C02 `retry_releases_only_vanished`: the retry worker calls `Cache.Done(m)` only without closure (nothing
    is deleted), only for a file it took off the retry channel whose name the cache holds, and only when the
    open of that file reported not-exist (the scripted `gone` for that name): the file is gone from the store
    when the worker is through. Any other error of the open or of reading the file marks nothing done. -/
theorem retry_releases_only_vanished (fx : Fixes) (st : St) (fs : List RFile) (fl : List (Name × Fault))
    (m : Name) (c : Bool) (h : Eff.cacheDone m c ∈ (retryRun fx st fs fl).2) :
    c = false ∧ (m, Fault.gone) ∈ fl ∧ (∃ f ∈ fs, f.name = m) ∧ (∃ e, cget st.cache m = some e) ∧
    sfind (retryRun fx st fs fl).1.store m = none := by
  unfold retryRun at h ⊢
  simp only at h ⊢
  obtain ⟨pre, x, post, hfs, hx⟩ := runLoop_split (retryOne fx) fs (st, fl) _ h
  have hinv := retryInv_run fx st fl pre
  rcases retryOne_effs fx _ x _ hx with ⟨he, hf, ⟨c', hc', _⟩, hgone⟩ | ⟨c', _, _, _, _, he⟩
  · simp only [Eff.cacheDone.injEq] at he
    obtain ⟨rfl, rfl⟩ := he
    refine ⟨rfl, hinv.1 _ (takeFault_mem _ _ _ hf), ⟨x, by rw [hfs]; simp, rfl⟩, ?_, ?_⟩
    · have := hinv.2.1 x.name
      rw [hc'] at this
      cases hst : cget st.cache x.name with
      | none => rw [hst] at this; simp at this
      | some e => exact ⟨e, rfl⟩
    · rw [hfs, runLoop_append, runLoop_cons]
      simp only
      exact runLoop_inv (retryOne fx) (fun t => sfind t.1.store x.name = none) post
        (fun t g _ ht => retryOne_store_none fx t g _ ht) _ hgone
  · rcases he with he | he <;> simp at he

/-- C02 `retry_requeues_or_keeps`, one iteration of startRetry for a file `f` whose name the cache holds
    (entry `c`) and whose file `Sync` reports unchanged:
    * the open fails with an error other than not-exist: nothing happens at all — the entry stays in the
      cache as it was (not done if it was not done), nothing is queued;
    * reading the opened file fails: the entry is re-added with an empty hash (repaired add: not done) and
      the whole file is queued with the predecessor the polled file announced;
    * no error: the same with the hash of the file's current content. -/
theorem retry_requeues_or_keeps (fx : Fixes) (s : St × List (Name × Fault)) (f : RFile) (c : CEntry)
    (hc : cget s.1.cache f.name = some c) (hs : sync s.1.store c = .same) :
    ((takeFault s.2 f.name).1 = some .openErr →
      (retryOne fx s f).1.1 = s.1 ∧ (retryOne fx s f).2 = []) ∧
    (∀ h, ((takeFault s.2 f.name).1 = some .readErr ∧ h = "") ∨
          ((takeFault s.2 f.name).1 = none ∧ h = hashNow s.1.store f.name) →
      (retryOne fx s f).2 = [.cacheAdd f.name, .push (.resume f.name f.prev [⟨0, c.size⟩])] ∧
      (retryOne fx s f).1.1.store = s.1.store ∧
      cget (retryOne fx s f).1.1.cache f.name =
        some { c with hash := h, done := if fx.addReset then false else c.done } ∧
      ∀ n, n ≠ f.name → cget (retryOne fx s f).1.1.cache n = cget s.1.cache n) := by
  rcases retryOne_cases fx s f with ⟨_, h⟩ | ⟨c', hc', _, hf, _⟩ | ⟨c', hc', _, hf, h⟩ | ⟨c', hh, hc', _, hf, h⟩
  · rcases h with h | ⟨c', hc', hs'⟩
    · rw [hc] at h; cases h
    · rw [hc] at hc'; cases hc'; exact absurd hs hs'
  · constructor
    · intro hf'; rw [hf] at hf'; cases hf'
    · intro h' hf'
      rcases hf' with ⟨hf', _⟩ | ⟨hf', _⟩ <;> (rw [hf] at hf'; cases hf')
  · constructor
    · intro _; rw [h]; exact ⟨rfl, rfl⟩
    · intro h' hf'
      rcases hf' with ⟨hf', _⟩ | ⟨hf', _⟩ <;> (rw [hf] at hf'; cases hf')
  · rw [hc] at hc'; cases hc'
    constructor
    · intro hf'
      rcases hf with ⟨hf, _⟩ | ⟨hf, _⟩ <;> (rw [hf] at hf'; cases hf')
    · intro h' hf'
      have hh' : hh = h' := by
        rcases hf with ⟨hf, e1⟩ | ⟨hf, e1⟩ <;> rcases hf' with ⟨hf', e2⟩ | ⟨hf', e2⟩
        · rw [e1, e2]
        · rw [hf] at hf'; cases hf'
        · rw [hf] at hf'; cases hf'
        · rw [e1, e2]
      subst hh'
      obtain ⟨heq, hget⟩ := retryRequeue_eq fx s.1 f c hh hc
      rw [h, heq]
      refine ⟨rfl, rfl, hget, ?_⟩
      intro n hn
      simp only
      rw [cget_map_names _ _ (reAdd_name fx f.name c.size c.time hh)]
      cases hcn : cget s.1.cache n with
      | none => rfl
      | some x =>
        have hxn : x.name = n := (cget_some hcn).2
        simp only [Option.map_some, Option.some.injEq]
        unfold reAdd
        rw [if_neg (by rw [hxn]; exact hn)]

/-- the whole retry worker never forgets a cache entry: whatever a lookup found before, it finds afterwards
    with the same name, size and time, and done only if it was done before or the open of that name reported
    not-exist. -/
theorem retry_keeps_entries (fx : Fixes) (st : St) (fs : List RFile) (fl : List (Name × Fault))
    (n : Name) (e0 : CEntry) (h0 : cget st.cache n = some e0) :
    ∃ e, cget (retryRun fx st fs fl).1.cache n = some e ∧ keyOf e = keyOf e0 ∧
      (e.done = true → e0.done = true ∨ (n, Fault.gone) ∈ fl) := by
  unfold retryRun
  simp only
  have := runLoop_inv (retryOne fx)
    (fun t => (∀ x ∈ t.2, x ∈ fl) ∧ ∃ e, cget t.1.cache n = some e ∧ keyOf e = keyOf e0 ∧
      (e.done = true → e0.done = true ∨ (n, Fault.gone) ∈ fl)) fs
    (fun t f _ ht => by
      obtain ⟨hsub, e1, h1, hk1, hd1⟩ := ht
      refine ⟨fun x hx => hsub x (retryOne_faults fx t f x hx), ?_⟩
      have hk := retryOne_key fx t f n
      rw [h1] at hk
      cases h2 : cget (retryOne fx t f).1.1.cache n with
      | none => rw [h2] at hk; simp at hk
      | some e =>
        rw [h2] at hk
        simp only [Option.map_some, Option.some.injEq] at hk
        refine ⟨e, rfl, hk.trans hk1, fun hd => ?_⟩
        rcases retryOne_done fx t f n e1 e h1 h2 hd with hd' | ⟨hn, hf⟩
        · exact hd1 hd'
        · exact Or.inr (by rw [hn]; exact hsub _ (takeFault_mem _ _ _ hf)))
    (st, fl) ⟨fun _ hx => hx, e0, h0, rfl, fun hd => Or.inl hd⟩
  exact this.2

/-- every file the retry worker queues is one it took off the retry channel, whose name the cache held
    when the worker started; it is queued whole (one range, byte 0 to the size of the cache entry) and
    announces the predecessor the polled file announced. The worker emits nothing but `Cache.Done(·, nil)`,
    `Cache.Add` and such pushes: it never deletes and never persists. -/
theorem retry_pushes_whole (fx : Fixes) (st : St) (fs : List RFile) (fl : List (Name × Fault)) (x : Eff)
    (h : x ∈ (retryRun fx st fs fl).2) :
    (∃ m, x = .cacheDone m false) ∨ (∃ m, x = .cacheAdd m) ∨
    ∃ f ∈ fs, ∃ e0, cget st.cache f.name = some e0 ∧ x = .push (.resume f.name f.prev [⟨0, e0.size⟩]) := by
  unfold retryRun at h
  simp only at h
  obtain ⟨pre, y, post, hfs, hx⟩ := runLoop_split (retryOne fx) fs (st, fl) _ h
  have hinv := retryInv_run fx st fl pre
  rcases retryOne_effs fx _ y _ hx with ⟨he, _⟩ | ⟨c', hc', _, _, _, he⟩
  · exact Or.inl ⟨_, he⟩
  · rcases he with he | he
    · exact Or.inr (Or.inl ⟨_, he⟩)
    · refine Or.inr (Or.inr ⟨y, by rw [hfs]; simp, ?_⟩)
      have := hinv.2.1 y.name
      rw [hc'] at this
      cases hst : cget st.cache y.name with
      | none => rw [hst] at this; simp at this
      | some e0 =>
        rw [hst] at this
        simp only [Option.map_some, Option.some.injEq, keyOf, Prod.mk.injEq] at this
        exact ⟨e0, rfl, by rw [he, this.2.1]⟩

theorem retryRun_no_storeRemove (fx : Fixes) (st : St) (fs : List RFile) (fl : List (Name × Fault))
    (m : Name) (e : CEntry) (f : Option SFile) : Eff.storeRemove m e f ∉ (retryRun fx st fs fl).2 := by
  intro h
  rcases retry_pushes_whole fx st fs fl _ h with ⟨_, h'⟩ | ⟨_, h'⟩ | ⟨_, _, _, _, h'⟩ <;> simp at h'

/-- the whole retry worker loses nothing it can read: a file taken off the retry channel whose name the cache
    holds, that `Sync` reports unchanged, and for whose name no fault is scripted, is queued again — whole, with
    the predecessor it was polled with — whatever happens to the other files of the run. -/
theorem retry_run_requeues (fx : Fixes) (st : St) (fs : List RFile) (fl : List (Name × Fault))
    (f : RFile) (hf : f ∈ fs) (c : CEntry) (hc : cget st.cache f.name = some c)
    (hs : sync st.store c = .same) (hnf : ∀ k, (f.name, k) ∉ fl) :
    Eff.push (.resume f.name f.prev [⟨0, c.size⟩]) ∈ (retryRun fx st fs fl).2 := by
  unfold retryRun
  simp only
  obtain ⟨pre, post, hfs⟩ := List.append_of_mem hf
  rw [hfs, runLoop_append, runLoop_cons]
  simp only [List.mem_append]
  refine Or.inr (Or.inl ?_)
  obtain ⟨h1, h2, h3⟩ := retryInv_run fx st fl pre
  have hk := h2 f.name
  rw [hc] at hk
  cases hc' : cget (runLoop (retryOne fx) (st, fl) pre).1.1.cache f.name with
  | none => rw [hc'] at hk; simp at hk
  | some c' =>
    rw [hc'] at hk
    simp only [Option.map_some, Option.some.injEq] at hk
    have hstore : sfind (runLoop (retryOne fx) (st, fl) pre).1.1.store f.name = sfind st.store f.name := by
      rcases h3 f.name with h | ⟨h, _⟩
      · exact h
      · exact absurd h (hnf _)
    have hcn : c'.name = f.name := (cget_some hc').2
    have hcn0 : c.name = f.name := (cget_some hc).2
    have hs' : sync (runLoop (retryOne fx) (st, fl) pre).1.1.store c' = .same := by
      rw [sync_key _ c' c hk]
      unfold sync at hs ⊢
      rw [hcn0] at hs ⊢
      rw [hstore]; exact hs
    have hno : (takeFault (runLoop (retryOne fx) (st, fl) pre).1.2 f.name).1 = none :=
      takeFault_none _ _ (fun k hk' => hnf k (h1 _ hk'))
    have := ((retry_requeues_or_keeps fx _ f c' hc' hs').2 _ (Or.inr ⟨hno, rfl⟩)).1
    rw [this]
    simp only [keyOf, Prod.mk.injEq] at hk
    rw [hk.2.1]
    simp

/-! ### the retry worker keeps the invariant -/

/-- one iteration of the retry worker (repaired cache add) keeps `DoneOK`: the one done mark it sets is on the
    entry of a file that is gone from the store at that instant; a re-added entry is not done. `P` is any
    property of the sender state the iterations preserve (reachability, in `done_means_confirmed`). -/
theorem retryOne_doneOK {Conf : CEntry → Prop} (hv : VerPred Conf) (P : St → Prop)
    (Hvan : ∀ t n, P t → ∀ e ∈ t.cache, sync (sremove t.store n) e = .absent → Conf e)
    (s : St × List (Name × Fault)) (f : RFile) (hp : P s.1) (h0 : DoneOK Conf s.1.cache) :
    DoneOK Conf (retryOne Fixes.repaired s f).1.1.cache ∧ (retryOne Fixes.repaired s f).1.1.disk = s.1.disk := by
  rcases retryOne_cases Fixes.repaired s f with ⟨h, _⟩ | ⟨c, hc, hs, hf, h⟩ | ⟨c, hc, hs, hf, h⟩ | ⟨c, hh, hc, hs, hf, h⟩
  · rw [h]; exact ⟨h0, rfl⟩
  · rw [h]
    refine ⟨?_, cacheDone_disk _ _⟩
    apply doneOK_cacheDone hv { s.1 with store := sremove s.1.store f.name } f.name h0
    intro e he hn
    apply Hvan s.1 f.name hp e he
    rw [sync_absent_iff, hn]
    exact sfind_sremove_self _ _
  · rw [h]; exact ⟨h0, rfl⟩
  · rw [h, (retryRequeue_eq Fixes.repaired s.1 f c hh hc).1]
    refine ⟨?_, rfl⟩
    intro e he hd
    simp only at he
    obtain ⟨x, hx, rfl⟩ := List.mem_map.mp he
    unfold reAdd at hd ⊢
    split at hd
    · simp [Fixes.repaired] at hd
    · rename_i hn
      rw [if_neg hn]
      exact h0 x hx hd

theorem retryRun_doneOK {Conf : CEntry → Prop} (hv : VerPred Conf) (P : St → Prop)
    (hP : ∀ (s : St × List (Name × Fault)) f, P s.1 → P (retryOne Fixes.repaired s f).1.1)
    (Hvan : ∀ t n, P t → ∀ e ∈ t.cache, sync (sremove t.store n) e = .absent → Conf e)
    (st : St) (fs : List RFile) (fl : List (Name × Fault))
    (hp : P st) (h0 : DoneOK Conf st.cache) (h0d : DoneOK Conf st.disk) :
    DoneOK Conf (retryRun Fixes.repaired st fs fl).1.cache ∧
    DoneOK Conf (retryRun Fixes.repaired st fs fl).1.disk := by
  unfold retryRun
  simp only
  have := runLoop_inv (retryOne Fixes.repaired)
    (fun t => P t.1 ∧ DoneOK Conf t.1.cache ∧ t.1.disk = st.disk) fs
    (fun t f _ ht => by
      have := retryOne_doneOK hv P Hvan t f ht.1 ht.2.1
      exact ⟨hP t f ht.1, this.1, this.2.trans ht.2.2⟩)
    (st, fl) ⟨hp, h0, rfl⟩
  exact ⟨this.2.1, by rw [this.2.2]; exact h0d⟩




/-! ## runs: every step of the sender, from every state -/

/-- the steps of the sender as far as releases are concerned. `world` is the environment:
    files appear, change and vanish, the receiver's answers and partial listing change — the
    cache is the sender's own and is not touched. -/
inductive Op
  | recover
  | scan
  | validate (files : List PFile) (fuel : Nat)
  | restart (k : Int)
  | world (store : Store) (answers : List (Name × List Verdict)) (pollErrs recErrs : Nat)
      (logged : List (Name × String)) (partials : List Partial)
  /-- the retry worker (startRetry) takes `files` off the retry channel; `faults` is what the store does to
      its opens (a file vanishing between `Sync` and the open, an open error, a read error) -/
  | retry (files : List RFile) (faults : List (Name × Fault))

def step (fx : Fixes) (env : Env) (st : St) : Op → St × List Eff
  | .recover => ((recover fx env st).st, (recover fx env st).effs)
  | .scan => ((scan fx env st).st, (scan fx env st).effs)
  | .validate fs fuel => ((validateRun fx env fuel (st, fs)).1.1, (validateRun fx env fuel (st, fs)).2)
  | .restart k => (restart k st, [])
  | .world store answers pe re logged partials =>
    ({ st with store := store, answers := answers, pollErrs := pe, recErrs := re, logged := logged,
               partials := partials }, [])
  | .retry fs fl => retryRun fx st fs fl

/-- states reachable from `st0` by any sequence of steps (crash = `restart` at any boundary). -/
inductive Reach (fx : Fixes) (env : Env) (st0 : St) : St → Prop
  | init : Reach fx env st0 st0
  | next {st : St} (op : Op) : Reach fx env st0 st → Reach fx env st0 (step fx env st op).1

/-- C02 `release_sites` (as found and repaired alike): in every step, from every state,
    * `Store.Remove n` happens only (a) inside finish() — in the validator loop or in
      recover() — after a positive poll answer about `n` in that step, on the not yet done
      cache entry of `n`, or (c) in the scan clean-up on a cache entry of `n` that is done and
      hashed; in both cases the entry's tag allows deletion now and the entry has the version
      the cache held when the step began;
    * `Cache.Done n` happens only (a) with finish()'s closure after a positive answer about
      `n` in that step, or (b) without closure in recover() for a not done entry whose file
      the store reports gone, or (c) without closure in the retry worker for a file it took off
      the retry channel whose open reported not-exist (the file is gone when the step ends) —
      never on any other error of the open or of reading the file (seeded change C02e). -/
theorem release_sites (fx : Fixes) (env : Env) (st : St) (op : Op) :
    (∀ m e f, Eff.storeRemove m e f ∈ (step fx env st op).2 →
      e.name = m ∧ canDelete env e = true ∧ (∃ e0 ∈ st.cache, SameVer e0 e) ∧
      ((e.done = false ∧ PositiveAnswer (step fx env st op).2 m ∧
          ((∃ fs fuel, op = .validate fs fuel) ∨ op = .recover)) ∨
       (e.done = true ∧ e.hash ≠ "" ∧ op = .scan))) ∧
    (∀ m c, Eff.cacheDone m c ∈ (step fx env st op).2 →
      (c = true ∧ PositiveAnswer (step fx env st op).2 m) ∨
      (c = false ∧ op = .recover ∧ ∃ e ∈ st.cache, e.name = m ∧ e.done = false ∧
        sync st.store e = .absent) ∨
      (c = false ∧ (∃ fs fl, op = .retry fs fl ∧ (m, Fault.gone) ∈ fl ∧ ∃ f ∈ fs, f.name = m) ∧
        (∃ e, cget st.cache m = some e) ∧ sfind (step fx env st op).1.store m = none)) := by
  cases op with
  | recover =>
    constructor
    · intro m e f h
      obtain ⟨hp, h1, h2, h3, h4, _, _⟩ := recover_storeRemove fx env st m e f h
      exact ⟨h1, h3, h4, Or.inl ⟨h2, hp, Or.inr rfl⟩⟩
    · intro m c h
      rcases recover_cacheDone fx env st m c h with h' | ⟨h1, h2⟩
      · exact Or.inl h'
      · exact Or.inr (Or.inl ⟨h1, rfl, h2⟩)
  | scan =>
    constructor
    · intro m e f h
      obtain ⟨h0, h1, h2, h3, h4, _⟩ := scan_storeRemove fx env st m e f h
      exact ⟨h1, h4, ⟨e, h0, ⟨rfl, rfl, rfl, rfl⟩⟩, Or.inr ⟨h2, h3, rfl⟩⟩
    · intro m c h
      exact absurd h (scan_no_cacheDone fx env st m c)
  | validate fs fuel =>
    obtain ⟨h1, h2⟩ := validateRun_release fx env fuel (st, fs)
    constructor
    · intro m e f h
      obtain ⟨hp, a1, a2, a3, a4, _⟩ := h1 m e f h
      exact ⟨a1, a3, a4, Or.inl ⟨a2, hp, Or.inl ⟨fs, fuel, rfl⟩⟩⟩
    · intro m c h
      have hp := h2 m c h
      refine Or.inl ⟨?_, hp⟩
      -- the closure flag: every cacheDone of the validator loop comes from finish()
      have : ∀ (k : Nat) (s : St × List PFile), Eff.cacheDone m c ∈ (validateRun fx env k s).2 → c = true := by
        intro k
        induction k with
        | zero => intro s hk; simp [validateRun] at hk
        | succ k ih =>
          intro s hk
          unfold validateRun at hk
          split at hk
          · simp at hk
          · dsimp only at hk
            simp only [List.mem_append] at hk
            rcases hk with hk | hk
            · unfold validateStep at hk
              simp only [List.mem_append, List.mem_cons, List.mem_flatten, List.mem_replicate,
                List.not_mem_nil, or_false] at hk
              rcases hk with (((hk | hk) | hk) | hk) | hk
              · obtain ⟨l, ⟨_, rfl⟩, hl⟩ := hk
                simp at hl
              · simp at hk
              · unfold answerEffs at hk
                simp at hk
              · obtain ⟨_, x, _, _, hx⟩ := runLoop_mem (valPolled fx env) (fun _ => True) _
                  (fun _ _ _ _ => trivial) _ trivial _ hk
                exact (finish_cacheDone fx env _ _ _ _ _ (valPolled_effs fx env _ x _ hx)).2.1
              · simp at hk
            · exact ih _ hk
      exact this fuel (st, fs) h
  | restart k => simp [step]
  | world => simp [step]
  | retry fs fl =>
    constructor
    · intro m e f h
      exact absurd h (retryRun_no_storeRemove fx st fs fl m e f)
    · intro m c h
      obtain ⟨h1, h2, h3, h4, h5⟩ := retry_releases_only_vanished fx st fs fl m c h
      exact Or.inr (Or.inr ⟨h1, ⟨fs, fl, rfl, h2, h3⟩, h4, h5⟩)

/-- C02, repaired code: whatever is deleted is, at that instant, the version the cache entry
    describes (same size and modification time) — no step ever deletes a file that was
    rewritten or created anew under a confirmed name (S3, S3b). -/
theorem deletes_cached_version (env : Env) (st : St) (op : Op) (m : Name) (e : CEntry) (f : Option SFile)
    (h : Eff.storeRemove m e f ∈ (step Fixes.repaired env st op).2) : OnDiskIs e f := by
  cases op with
  | recover => exact (recover_storeRemove _ env st m e f h).2.2.2.2.2.1 rfl
  | scan => exact (scan_storeRemove _ env st m e f h).2.2.2.2.2 rfl
  | validate fs fuel => exact ((validateRun_release _ env fuel (st, fs)).1 m e f h).2.2.2.2.2 rfl
  | restart k => simp [step] at h
  | world => simp [step] at h
  | retry fs fl => exact absurd h (retryRun_no_storeRemove _ st fs fl m e f)




/-- what the environment guarantees about a predicate `Conf` on versions, for a run from
    `st0`: it holds for every version about whose name a positive answer arrives while the
    cache holds it, and for every version whose file the store reports gone when recover()
    looks. -/
structure ConfSound (env : Env) (st0 : St) (Conf : CEntry → Prop) : Prop where
  ver : VerPred Conf
  older : ∀ (k : Int) e, Conf e → Conf { e with time := e.time - k }
  positive : ∀ st, Reach Fixes.repaired env st0 st → ∀ op m v,
    Eff.answer m v ∈ (step Fixes.repaired env st op).2 → v.positive = true →
    ∀ e ∈ st.cache, e.name = m → Conf e
  vanished : ∀ st, Reach Fixes.repaired env st0 st →
    ∀ e ∈ st.cache, sync st.store e = .absent → Conf e

/-- repaired code: along every run, every done mark — in memory and in the persisted cache —
    stands for a version for which `Conf` holds (S18: a changed file's entry is not done). -/
theorem done_means_confirmed (env : Env) (st0 : St) (Conf : CEntry → Prop)
    (hc : ConfSound env st0 Conf) (h0 : DoneOK Conf st0.cache) (h0d : DoneOK Conf st0.disk) :
    ∀ st, Reach Fixes.repaired env st0 st → DoneOK Conf st.cache ∧ DoneOK Conf st.disk := by
  intro st hr
  induction hr with
  | init => exact ⟨h0, h0d⟩
  | @next st op hr ih =>
    cases op with
    | recover =>
      exact recover_doneOK hc.ver _ env st ih.1 ih.2
        (fun m v hm hp => hc.positive st hr .recover m v hm hp) (hc.vanished st hr)
    | scan => exact scan_doneOK env st ih.1 ih.2
    | validate fs fuel =>
      exact validateRun_doneOK hc.ver _ env fuel (st, fs) st.cache (VerSub.refl _) ih.1 ih.2
        (fun m v hm hp => hc.positive st hr (.validate fs fuel) m v hm hp)
    | restart k => exact restart_doneOK k st (hc.older k) ih.2
    | world => exact ih
    | retry fs fl =>
      -- every iteration of the retry worker is itself a step, so its intermediate states are reachable;
      -- the file that vanishes between `Sync` and the open is a `world` step there
      exact retryRun_doneOK hc.ver (fun t => Reach Fixes.repaired env st0 t)
        (fun s f hs => Reach.next (.retry [f] s.2) hs)
        (fun t n ht e he hs => hc.vanished _
          (Reach.next (.world (sremove t.store n) t.answers t.pollErrs t.recErrs t.logged t.partials) ht) e he hs)
        st fs fl hr ih.1 ih.2

/-- C02 at the sender, repaired code: along every run (including restarts at any step
    boundary), whenever a source file is deleted, `Conf` holds for the version the cache
    describes, and the file on disk at that instant is that version. -/
theorem never_delete_unconfirmed_sender (env : Env) (st0 : St) (Conf : CEntry → Prop)
    (hc : ConfSound env st0 Conf) (h0 : DoneOK Conf st0.cache) (h0d : DoneOK Conf st0.disk)
    (st : St) (hr : Reach Fixes.repaired env st0 st) (op : Op) (m : Name) (e : CEntry) (f : Option SFile)
    (h : Eff.storeRemove m e f ∈ (step Fixes.repaired env st op).2) :
    Conf e ∧ OnDiskIs e f := by
  refine ⟨?_, deletes_cached_version env st op m e f h⟩
  obtain ⟨hn, _, ⟨e0, he0, hsv⟩, hcase⟩ := (release_sites _ env st op).1 m e f h
  rcases hcase with ⟨_, ⟨v, hv, hp⟩, _⟩ | ⟨hd, _, rfl⟩
  · exact hc.ver e0 e hsv (hc.positive st hr op m v hv hp e0 he0 (hsv.1.trans hn))
  · -- scan clean-up: the entry is the iterated one, done in the cache the scan started with
    have := (scan_storeRemove _ env st m e f h).1
    exact (done_means_confirmed env st0 Conf hc h0 h0d st hr).1 e this hd

/-- C02 `never_delete_unconfirmed_partial` — the full statement "no source file is deleted
    unless an identical validated copy exists at the receiver", with its hypotheses named:
    * `recv` (the receiver half, proved on the Stage model): a positive answer about a name
      means the receiver durably holds a validated copy under that name;
    * `NameNotReused`: what the receiver holds under a name is the version the sender's cache
      has under that name (the poll carries the name only — S2);
    * `VanishedWereDelivered`: a cached file that is gone when recover() looks was delivered
      (its entry is marked done without any answer).
    Then every deletion removes a file of the size and time of the cache entry whose hash the
    receiver holds validated. -/
theorem never_delete_unconfirmed_partial (env : Env) (st0 : St) (RcvHolds : Name → String → Prop)
    (recv : ∀ st, Reach Fixes.repaired env st0 st → ∀ op m v,
      Eff.answer m v ∈ (step Fixes.repaired env st op).2 → v.positive = true → ∃ h, RcvHolds m h)
    (NameNotReused : ∀ st, Reach Fixes.repaired env st0 st → ∀ m h, RcvHolds m h →
      ∀ e ∈ st.cache, e.name = m → e.hash = h)
    (VanishedWereDelivered : ∀ st, Reach Fixes.repaired env st0 st →
      ∀ e ∈ st.cache, sync st.store e = .absent → RcvHolds e.name e.hash)
    (h0 : ∀ e ∈ st0.cache, e.done = true → RcvHolds e.name e.hash)
    (h0d : ∀ e ∈ st0.disk, e.done = true → RcvHolds e.name e.hash)
    (st : St) (hr : Reach Fixes.repaired env st0 st) (op : Op) (m : Name) (e : CEntry) (g : SFile)
    (h : Eff.storeRemove m e (some g) ∈ (step Fixes.repaired env st op).2) :
    RcvHolds m e.hash ∧ g.size = e.size ∧ g.time = e.time := by
  have hc : ConfSound env st0 (fun e => RcvHolds e.name e.hash) := {
    ver := fun a b hab ha => by
      show RcvHolds b.name b.hash
      rw [← hab.1, ← hab.2.2.2]; exact ha
    older := fun _ _ he => he
    positive := fun st hr op m v hm hp e he hn => by
      obtain ⟨hh, hh'⟩ := recv st hr op m v hm hp
      show RcvHolds e.name e.hash
      rw [hn, NameNotReused st hr m hh hh' e he hn]; exact hh'
    vanished := VanishedWereDelivered }
  obtain ⟨h1, h2⟩ := never_delete_unconfirmed_sender env st0 _ hc h0 h0d st hr op m e (some g) h
  have hn := ((release_sites _ env st op).1 m e _ h).1
  exact ⟨by rw [← hn]; exact h1, h2 g rfl⟩




/-! ## witnesses: the defects of the code as found, and non-vacuity -/

/-- tag `a` deletes at once; the tagger maps every name to `a`. -/
def envDel : Env := ⟨[⟨"a", true, 0⟩], fun _ => "a", fun _ => false, 1, 2, 2⟩
/-- tag `a` deletes after 10 hours. -/
def envDelay : Env := ⟨[⟨"a", true, 10⟩], fun _ => "a", fun _ => false, 1, 2, 2⟩

/-- S3 (code as found): a confirmed file past its delete time was rewritten; the scan finds
    the new version, the clean-up deletes it by path, hashing fails, the entry is dropped:
    the new version is gone unsent. Repaired: not deleted, re-added not done, queued. -/
theorem S3_scan_cleanup_deletes_rewritten :
    let st : St := { cache := [⟨"a.f", 5, -10, "h1", true⟩], disk := [⟨"a.f", 5, -10, "h1", true⟩],
                     store := [⟨"a.f", 7, -2, "h2"⟩] }
    (scan Fixes.original envDel st).effs =
      [.storeRemove "a.f" ⟨"a.f", 5, -10, "h1", true⟩ (some ⟨"a.f", 7, -2, "h2"⟩),
       .cacheRemove "a.f", .cacheRemove "a.f", .persist] ∧
    (scan Fixes.original envDel st).st.store = [] ∧ (scan Fixes.original envDel st).ready = [] ∧
    (scan Fixes.original envDel st).st.cache = [] ∧
    (scan Fixes.repaired envDel st).effs = [.cacheAdd "a.f", .persist] ∧
    (scan Fixes.repaired envDel st).st.store = [⟨"a.f", 7, -2, "h2"⟩] ∧
    (scan Fixes.repaired envDel st).ready = [("a.f", "h2")] ∧
    (scan Fixes.repaired envDel st).st.cache = [⟨"a.f", 7, -2, "h2", false⟩] := by decide

/-- S18 (code as found): the confirmed file changes before its delete delay is over; the scan
    re-adds it but the entry keeps `done`; 20 hours later, whether or not the new version was
    ever sent, the clean-up deletes it — and the `Sync` repair alone does not help, because the
    cache now describes the new version. -/
theorem S18_add_keeps_done_then_deleted :
    let st : St := { cache := [⟨"a.f", 5, -3, "h1", true⟩], disk := [⟨"a.f", 5, -3, "h1", true⟩],
                     store := [⟨"a.f", 7, -1, "h2"⟩] }
    let fxSyncOnly : Fixes := { Fixes.original with scanSync := true, finishSync := true }
    (scan fxSyncOnly envDelay st).st.cache = [⟨"a.f", 7, -1, "h2", true⟩] ∧
    (scan fxSyncOnly envDelay (restart 20 (scan fxSyncOnly envDelay st).st)).effs =
      [.storeRemove "a.f" ⟨"a.f", 7, -21, "h2", true⟩ (some ⟨"a.f", 7, -21, "h2"⟩),
       .cacheRemove "a.f", .persist] ∧
    (scan Fixes.repaired envDelay st).st.cache = [⟨"a.f", 7, -1, "h2", false⟩] ∧
    (scan Fixes.repaired envDelay (restart 20 (scan Fixes.repaired envDelay st).st)).effs = [.persist] := by
  decide

/-- S18, second consequence (code as found, no deletion configured): after a crash the changed
    and re-queued file is taken as done — recover() neither polls nor re-sends it. -/
theorem S18_changed_file_lost_after_crash :
    let env : Env := ⟨[], fun _ => "a", fun _ => false, 1, 2, 2⟩
    let st : St := { cache := [⟨"a.f", 5, -3, "h1", true⟩], disk := [⟨"a.f", 5, -3, "h1", true⟩],
                     store := [⟨"a.f", 7, -1, "h2"⟩] }
    (scan Fixes.original env st).ready = [("a.f", "h2")] ∧
    (recover Fixes.original env (restart 0 (scan Fixes.original env st).st)).effs = [] ∧
    (recover Fixes.repaired env (restart 0 (scan Fixes.repaired env st).st)).effs =
      [.poll ["a.f"], .answer "a.f" .none, .push (.plain "a.f"), .persist] := by decide

/-- S3b (code as found): the file is rewritten between its transmission and the positive poll
    answer; finish() deletes the path — the new version is gone unsent. Repaired: marked done,
    not deleted (the next scan finds the change and re-adds the entry, not done). -/
theorem S3b_finish_deletes_rewritten :
    let st : St := { cache := [⟨"a.f", 5, -10, "h1", false⟩], store := [⟨"a.f", 7, -2, "h2"⟩] }
    (finish Fixes.original envDel st "a.f" .passed).2 =
      [.cacheDone "a.f" true, .storeRemove "a.f" ⟨"a.f", 5, -10, "h1", false⟩ (some ⟨"a.f", 7, -2, "h2"⟩)] ∧
    (finish Fixes.original envDel st "a.f" .passed).1.store = [] ∧
    (finish Fixes.repaired envDel st "a.f" .passed).2 = [.cacheDone "a.f" true] ∧
    (finish Fixes.repaired envDel st "a.f" .passed).1.store = [⟨"a.f", 7, -2, "h2"⟩] ∧
    ¬ OnDiskIs ⟨"a.f", 5, -10, "h1", false⟩ (some ⟨"a.f", 7, -2, "h2"⟩) := by
  refine ⟨by decide, by decide, by decide, by decide, ?_⟩
  intro h
  have := h ⟨"a.f", 7, -2, "h2"⟩ rfl
  simp at this

/-- S2 (not repaired — needs the hash in the poll): the sender holds a never-sent version
    `new` of a name the receiver remembers from an earlier delivery (`old`). The recovery poll
    asks by name, the receiver answers `passed`, the sender marks the entry done and deletes
    the file. The receiver half holds (`RcvHolds "a.f" "old"`), `NameNotReused` does not, and
    the conclusion of `never_delete_unconfirmed_partial` fails. -/
theorem S2_poll_by_name_deletes_unsent :
    let st : St := { cache := [⟨"a.f", 7, -2, "new", false⟩], disk := [⟨"a.f", 7, -2, "new", false⟩],
                     store := [⟨"a.f", 7, -2, "new"⟩], answers := [("a.f", [.passed])] }
    let RcvHolds : Name → String → Prop := fun n h => n = "a.f" ∧ h = "old"
    Eff.answer "a.f" .passed ∈ (recover Fixes.repaired envDel st).effs ∧
    (∃ h, RcvHolds "a.f" h) ∧
    Eff.storeRemove "a.f" ⟨"a.f", 7, -2, "new", false⟩ (some ⟨"a.f", 7, -2, "new"⟩) ∈
      (recover Fixes.repaired envDel st).effs ∧
    (recover Fixes.repaired envDel st).st.store = [] ∧
    (recover Fixes.repaired envDel st).st.disk = [⟨"a.f", 7, -2, "new", true⟩] ∧
    ¬ RcvHolds "a.f" "new" := by
  refine ⟨by decide, ⟨"old", rfl, rfl⟩, by decide, by decide, by decide, ?_⟩
  intro h
  exact absurd h.2 (by decide)

/-- S20 (recorded, not repaired): a cached file that is gone when recover() looks is marked
    done without any answer; if it comes back with the same size and time (moved away and
    back), the scan clean-up deletes it unsent. `VanishedWereDelivered` excludes this. -/
theorem S20_vanished_done_then_deleted :
    let st : St := { cache := [⟨"a.f", 5, -3, "h", false⟩], disk := [⟨"a.f", 5, -3, "h", false⟩] }
    let st1 := (recover Fixes.repaired envDel st).st
    (recover Fixes.repaired envDel st).effs = [.cacheDone "a.f" false] ∧
    st1.cache = [⟨"a.f", 5, -3, "h", true⟩] ∧
    (scan Fixes.repaired envDel { st1 with store := [⟨"a.f", 5, -3, "h"⟩] }).effs =
      [.storeRemove "a.f" ⟨"a.f", 5, -3, "h", true⟩ (some ⟨"a.f", 5, -3, "h"⟩), .cacheRemove "a.f", .persist] := by
  decide

/-- delete-delay boundary: deletion is allowed from the hour the delay is over. -/
example : canDelete envDelay ⟨"a.f", 5, -10, "h", true⟩ = true ∧
          canDelete envDelay ⟨"a.f", 5, -9, "h", true⟩ = false := by decide

/-- non-vacuity of `validateStep_storeRemove` / `validateRun_release`: a confirmed, unchanged
    file is marked done and deleted. -/
example :
    (validateRun Fixes.repaired envDel 3
      ({ cache := [⟨"a.f", 5, -3, "h", false⟩], store := [⟨"a.f", 5, -3, "h"⟩],
         answers := [("a.f", [.none, .passed])] }, [⟨"a.f", "h", 0⟩])).2 =
    [.poll ["a.f"], .answer "a.f" .none, .persist,
     .poll ["a.f"], .answer "a.f" .passed, .cacheDone "a.f" true,
     .storeRemove "a.f" ⟨"a.f", 5, -3, "h", false⟩ (some ⟨"a.f", 5, -3, "h"⟩), .persist] := by decide

/-- non-vacuity of the negative clauses: `none` twice (PollAttempts = 2) ends in retry. -/
example :
    (validateRun Fixes.repaired envDel 3
      ({ cache := [⟨"a.f", 5, -3, "h", false⟩], store := [⟨"a.f", 5, -3, "h"⟩] }, [⟨"a.f", "h", 0⟩])).2 =
    [.poll ["a.f"], .answer "a.f" .none, .persist,
     .poll ["a.f"], .answer "a.f" .none, .retry "a.f", .persist] := by decide




/-! ### the retry worker: non-vacuity and the seeded change C02e -/

/-- non-vacuity of `retry_requeues_or_keeps` / `retry_run_requeues` / `retry_pushes_whole`: a refused file
    whose cached hash is stale is re-hashed, re-added (not done) and queued whole with its predecessor. -/
example :
    retryRun Fixes.repaired { cache := [⟨"a.f", 5, -3, "old", false⟩], store := [⟨"a.f", 5, -3, "h"⟩] }
      [⟨"a.f", "a.e"⟩] [] =
    ({ cache := [⟨"a.f", 5, -3, "h", false⟩], dirty := true, store := [⟨"a.f", 5, -3, "h"⟩] },
     [.cacheAdd "a.f", .push (.resume "a.f" "a.e" [⟨0, 5⟩])]) := by decide

/-- every branch of startRetry in one run: `a` vanishes between Sync and open (done, nothing deleted by the
    worker), `b` meets an open error (nothing at all), `c` a read error (re-added with an empty hash, queued),
    `d` has no cache entry, `e` changed on disk, `g` was done and is re-added not done (repaired add); the
    fault scripted for `b` is met once: the second `b` is re-hashed and queued. -/
example :
    retryRun Fixes.repaired
      { cache := [⟨"a", 5, -3, "h", false⟩, ⟨"b", 5, -3, "h", false⟩, ⟨"c", 5, -3, "h", false⟩,
                  ⟨"e", 5, -3, "h", false⟩, ⟨"g", 5, -3, "h", true⟩],
        store := [⟨"a", 5, -3, "h"⟩, ⟨"b", 5, -3, "h2"⟩, ⟨"c", 5, -3, "h"⟩, ⟨"d", 5, -3, "h"⟩,
                  ⟨"e", 6, -3, "h"⟩, ⟨"g", 5, -3, "h"⟩] }
      [⟨"a", ""⟩, ⟨"b", "a"⟩, ⟨"c", "b"⟩, ⟨"d", ""⟩, ⟨"e", ""⟩, ⟨"g", "e"⟩, ⟨"b", "g"⟩]
      [("a", .gone), ("b", .openErr), ("c", .readErr)] =
    ({ cache := [⟨"a", 5, -3, "h", true⟩, ⟨"b", 5, -3, "h2", false⟩, ⟨"c", 5, -3, "", false⟩,
                 ⟨"e", 5, -3, "h", false⟩, ⟨"g", 5, -3, "h", false⟩],
       dirty := true,
       store := [⟨"b", 5, -3, "h2"⟩, ⟨"c", 5, -3, "h"⟩, ⟨"d", 5, -3, "h"⟩, ⟨"e", 6, -3, "h"⟩, ⟨"g", 5, -3, "h"⟩] },
     [.cacheDone "a" false,
      .cacheAdd "c", .push (.resume "c" "b" [⟨0, 5⟩]),
      .cacheAdd "g", .push (.resume "g" "e" [⟨0, 5⟩]),
      .cacheAdd "b", .push (.resume "b" "g" [⟨0, 5⟩])]) := by decide

/-- the seeded change C02e as a variant of `retryOne` (open and read errors merged, `Cache.Done` on any of
    them; only the witness below uses it). -/
def retryOneMerged (fx : Fixes) (s : St × List (Name × Fault)) (f : RFile) :
    (St × List (Name × Fault)) × List Eff :=
  match cget s.1.cache f.name with
  | none => (s, [])
  | some c =>
    match sync s.1.store c with
    | .same =>
      match (takeFault s.2 f.name).1 with
      | some .gone => retryOne fx s f
      | some _ => ((s.1.cacheDone f.name, (takeFault s.2 f.name).2), [.cacheDone f.name false])
      | none => retryOne fx s f
    | _ => (s, [])

/-- C02e: with the merged error handling a transient open error after a negative outcome marks the file
    done although it is still there and was never confirmed, and the next scan clean-up deletes it; the
    conclusion of `retry_releases_only_vanished` (`sfind … = none`) fails. The code as it is does nothing
    on that error: the entry stays not done and the scan deletes nothing. -/
theorem C02e_merged_errors_release_unconfirmed :
    let st : St := { cache := [⟨"a.f", 5, -3, "h", false⟩], disk := [⟨"a.f", 5, -3, "h", false⟩],
                     store := [⟨"a.f", 5, -3, "h"⟩] }
    let bad := retryOneMerged Fixes.repaired (st, [("a.f", .openErr)]) ⟨"a.f", ""⟩
    let good := retryOne Fixes.repaired (st, [("a.f", .openErr)]) ⟨"a.f", ""⟩
    bad.2 = [.cacheDone "a.f" false] ∧ sfind bad.1.1.store "a.f" = some ⟨"a.f", 5, -3, "h"⟩ ∧
    (scan Fixes.repaired envDel bad.1.1).effs =
      [.storeRemove "a.f" ⟨"a.f", 5, -3, "h", true⟩ (some ⟨"a.f", 5, -3, "h"⟩), .cacheRemove "a.f", .persist] ∧
    good = ((st, []), []) ∧ (scan Fixes.repaired envDel good.1.1).effs = [.persist] := by decide

/-- `retry_releases_only_vanished` is not vacuous: the file vanishes between Sync and open. -/
example :
    Eff.cacheDone "a.f" false ∈
      (retryRun Fixes.repaired { cache := [⟨"a.f", 5, -3, "h", false⟩], store := [⟨"a.f", 5, -3, "h"⟩] }
        [⟨"a.f", ""⟩] [("a.f", .gone)]).2 := by decide




/-! ## poll only after all bytes -/

/-- C02 `poll_only_after_all_bytes`, tracker side: startTrack hands a file to the validator
    only when the bytes it counted as transmitted reach the announced send size. -/
theorem poll_only_after_all_bytes_tracker :
    ∀ (pls : List (List TPart)) (prog : List TFile),
      ∀ t ∈ (trackRun prog pls).2.1, t.sent ≥ t.size := by
  intro pls
  induction pls with
  | nil =>
    intro prog t ht
    simp only [trackRun, trackReady] at ht
    simpa using (List.mem_filter.mp ht).2
  | cons pl rest ih =>
    intro prog t ht
    simp only [trackRun] at ht
    simp only [List.mem_append] at ht
    rcases ht with ht | ht
    · simp only [trackReady] at ht
      simpa using (List.mem_filter.mp ht).2
    · exact ih _ t ht

/-- … and what stays in the progress map has not reached its send size. -/
theorem tracker_keeps_incomplete :
    ∀ (pls : List (List TPart)) (prog : List TFile),
      ∀ t ∈ (trackRun prog pls).1, t.sent < t.size := by
  intro pls
  induction pls with
  | nil =>
    intro prog t ht
    simp only [trackRun, trackReady] at ht
    have := (List.mem_filter.mp ht).2
    simp at this; omega
  | cons pl rest ih =>
    intro prog t ht
    simp only [trackRun] at ht
    exact ih _ t ht

/-- C02 `poll_only_after_all_bytes`, recovery side: recover() polls exactly cache entries that
    are not done, not ignored now, unchanged on disk and hashed, and for which the receiver
    either listed no partial or listed one without any gap. -/
theorem poll_only_after_all_bytes_recover (fx : Fixes) (env : Env) (st : St) :
    ∀ c ∈ (recover fx env st).polled,
      c ∈ st.cache ∧ c.done = false ∧ env.ign c.name = false ∧ sync st.store c = .same ∧ c.hash ≠ "" ∧
      ∀ p, lkget (recover fx env st).lookup c.name = some p → gaps fx p.parts c.size = [] := by
  unfold recover
  dsimp only
  have := runLoop_inv (recEntry fx env (runLoop (recPartial st.cache) [] st.partials).1)
    (fun t => t.1.store = st.store ∧ ∀ c ∈ t.2,
      c ∈ st.cache ∧ c.done = false ∧ env.ign c.name = false ∧ sync st.store c = .same ∧ c.hash ≠ "" ∧
      ∀ p, lkget (runLoop (recPartial st.cache) [] st.partials).1 c.name = some p → gaps fx p.parts c.size = [])
    st.cache
    (fun t f hf ht => by
      refine ⟨(recEntry_inv fx env _ t f).1.trans ht.1, ?_⟩
      intro c hc
      rcases recEntry_poll fx env _ t f c hc with h | ⟨rfl, h1, h2, h3, h4, h5⟩
      · exact ht.2 c h
      · rw [ht.1] at h3
        exact ⟨hf, h1, h2, h3, h4, h5⟩)
    ({ st with recErrs := 0 }, []) ⟨rfl, by simp⟩
  exact this.2

/-- With the repair the tracker returns once its input is closed, whatever is left incomplete
    (as found it does not: `trackStuck Fixes.original [t] = true`). -/
theorem tracker_returns (left : List TFile) : trackStuck Fixes.repaired left = false := by
  simp [trackStuck, Fixes.repaired]

example : trackStuck Fixes.original [⟨"a", "h", 10, 4⟩] = true := by decide

example : (trackRun [] [[⟨"a", "h", 10, 4⟩, ⟨"b", "g", 3, 3⟩], [⟨"a", "h", 10, 6⟩]]).2.1 =
    [⟨"b", "g", 3, 3⟩, ⟨"a", "h", 10, 10⟩] := by decide


end Sts.Release
