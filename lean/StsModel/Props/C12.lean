/-
  C12 — strict priority between tags, round-robin among equal-priority groups.

  All statements are about the executable model of queue/queue.go (Model/Queue.lean) and
  hold for every state reachable from the empty queue by any history of Push and Pop
  (`State.WF` is an invariant of all histories: `reachable_wf`).

  * `groups_sorted`            full
  * `strict_priority`          full (with `strict_priority_idle` for the answer nil)
  * `rotate`                   full
  * `round_robin`              full, in the corrected form explained at the theorem
  * `young_last_file_skipped`  full
-/
import StsModel.Lemmas.QueueState

namespace Sts.Queue

/-! ## the invariant holds on every history -/

/-- every state reachable from the empty queue satisfies the queue invariant (each group
    well-formed, group names unique, groups ordered by priority) -/
theorem reachable_wf (c : Conf) (ops : List Op) : State.WF (run c [] ops).1 := run_wf c empty_wf ops

/-- C12 `groups_sorted`: after any history of Push and Pop the group list is ordered by
    non-increasing priority (so groups of one priority are contiguous). -/
theorem groups_sorted (c : Conf) (ops : List Op) : GroupsSorted (run c [] ops).1 := (reachable_wf c ops).sorted

/-! ## strict priority -/

/-- C12 `strict_priority`: if Pop serves a group then that group is ready, and no group of
    higher priority is ready. -/
theorem strict_priority {s : State} (h : State.WF s) {now : Int} {s' : State} {ch : Chunk}
    (hp : pop s now = (s', some ch)) :
    ∃ g ∈ s, g.name = ch.group ∧ g.ready now = true ∧
      ∀ x ∈ s, x.conf.priority > g.conf.priority → x.ready now = false := by
  obtain ⟨pre, g, rest, n, e1, e2, e3, e4, e5⟩ := pop_some_spec h hp
  have hgw := h.groups g (by rw [e1]; simp)
  obtain ⟨rest', hl, _, hready⟩ := nextFile_head hgw e3
  have hsc := scanned_spec hgw now
  have hem := emit_spec hsc.1 hl
  refine ⟨g, by rw [e1]; simp, ?_, hready, fun x hx hpx => ?_⟩
  · rw [e4, hem.2.2.2.2.2.2.2.2.2.2.1, hsc.2.2.1]
  · rw [e1] at hx
    simp at hx
    have hsorted := h.sorted
    rw [e1] at hsorted
    unfold GroupsSorted at hsorted
    rw [List.pairwise_append, List.pairwise_cons] at hsorted
    rcases hx with hx | hx | hx
    · have := e2 x hx
      cases hr : x.ready now with
      | false => rfl
      | true =>
        have := (ready_iff_nextFile x now).mp hr
        rw [e2 x hx] at this; cases this
    · subst hx; omega
    · have := hsorted.2.1.1 x hx; omega

/-- C12 `strict_priority` (idle case): if Pop returns nothing then no group is ready. -/
theorem strict_priority_idle {s : State} (h : State.WF s) {now : Int} {s' : State}
    (hp : pop s now = (s', none)) : ∀ g ∈ s, g.ready now = false := by
  intro g hg
  have := (pop_none_spec h hp).2 g hg
  cases hr : g.ready now with
  | false => rfl
  | true =>
    have h2 := (ready_iff_nextFile g now).mp hr
    rw [this] at h2; cases h2

/-- the two statements for every history from the empty queue -/
theorem strict_priority_reachable (c : Conf) (ops : List Op) (now : Int) :
    match pop (run c [] ops).1 now with
    | (_, some ch) => ∃ g ∈ (run c [] ops).1, g.name = ch.group ∧ g.ready now = true ∧
        ∀ x ∈ (run c [] ops).1, x.conf.priority > g.conf.priority → x.ready now = false
    | (_, none) => ∀ g ∈ (run c [] ops).1, g.ready now = false := by
  cases hp : pop (run c [] ops).1 now with
  | mk s' r =>
    cases r with
    | some ch => exact strict_priority (reachable_wf c ops) hp
    | none => exact strict_priority_idle (reachable_wf c ops) hp

/-! ## rotation and bounded bypass -/

/-- C12 `rotate`: after Pop has served group `g`, (1) `g` stands behind every other group of
    its priority, and (2) nothing else moved: without `g` the sequence of group names is
    what it was, and (3) names and priorities of the groups are unchanged as a whole. -/
theorem rotate {s : State} (h : State.WF s) {now : Int} {s' : State} {ch : Chunk}
    (hp : pop s now = (s', some ch)) :
    (∀ x ∈ s', ∀ g' ∈ s', g'.name = ch.group → x.name ≠ ch.group → x.conf.priority = g'.conf.priority →
        [x.name, ch.group].Sublist (names s')) ∧
    (names s').erase ch.group = (names s).erase ch.group ∧
    (s'.map (fun g => (g.name, g.conf.priority))).Perm (s.map (fun g => (g.name, g.conf.priority))) := by
  obtain ⟨pre, T, D, pre', g, g', e1, e2, e3, e4, e5, e6, e7, e8, e9, _, _⟩ := pop_groups h hp
  have hwf' : State.WF s' := by have := pop_wf h now; rw [hp] at this; exact this
  have hn' := hwf'.names
  have hnames' : names s' = names pre ++ names T ++ g.name :: names D := by
    unfold names; rw [e2]; simp [e3, e5]
  have hnames : names s = names pre ++ g.name :: (names T ++ names D) := by
    unfold names; rw [e1]; simp
  have hnd : (names s).Nodup := h.names
  have hgpre : g.name ∉ names pre := by
    rw [hnames] at hnd
    have := (List.nodup_cons.mp (nodup_middle_iff.mp hnd)).1
    simp at this; exact this.1
  have hgT : g.name ∉ names T := by
    rw [hnames] at hnd
    have := (List.nodup_cons.mp (nodup_middle_iff.mp hnd)).1
    simp at this; exact this.2.1
  refine ⟨?_, ?_, ?_⟩
  · intro x hx gg hgg hggn hxn hxp
    rw [e7] at hggn hxn ⊢
    -- gg is g'
    have hgg' : gg = g' := by
      rw [e2] at hgg
      simp at hgg
      have hn2 : (names s').Nodup := hn'
      rw [hnames'] at hn2
      rcases hgg with hgg | hgg | hgg | hgg
      · exact absurd (hggn ▸ (by unfold names; rw [← e3]; exact List.mem_map_of_mem (f := (·.name)) hgg)) hgpre
      · exact absurd (hggn ▸ (List.mem_map_of_mem (f := (·.name)) hgg : gg.name ∈ names T)) hgT
      · exact hgg
      · have := (List.nodup_cons.mp (nodup_middle_iff.mp hn2)).1
        simp at this
        exact absurd (hggn ▸ (List.mem_map_of_mem (f := fun (y : GroupSt) => y.name) hgg : gg.name ∈ names D)) this.2.2
    subst hgg'
    rw [e2] at hx
    simp at hx
    rw [hnames']
    have hmem : x.name ∈ names pre ++ names T := by
      rcases hx with hx | hx | hx | hx
      · simp; left; unfold names; rw [← e3]; exact List.mem_map_of_mem (f := (·.name)) hx
      · simp; right; exact List.mem_map_of_mem (f := (·.name)) hx
      · subst hx; exact absurd e5 hxn
      · have := e9 x hx; rw [hxp, e6] at this; omega
    have h1 : [x.name].Sublist (names pre ++ names T) := List.singleton_sublist.mpr hmem
    have h2 : [g.name].Sublist (g.name :: names D) := List.singleton_sublist.mpr (by simp)
    have := h1.append h2
    simpa using this
  · rw [e7, hnames', hnames]
    rw [List.erase_append_right _ (by simp; exact ⟨hgpre, hgT⟩)]
    rw [List.erase_append_right _ hgpre]
    simp
  · rw [e1, e2]
    simp only [List.map_append, List.map_cons, List.append_assoc]
    have ep : pre'.map (fun g => (g.name, g.conf.priority)) = pre.map (fun g => (g.name, g.conf.priority)) := by
      have : ∀ (l : State), l.map (fun g => (g.name, g.conf.priority)) = (l.map (·.name)).zip (l.map (·.conf.priority)) := by
        intro l; induction l with
        | nil => rfl
        | cons a t ih => simp [ih]
      rw [this, this, e3, e4]
    rw [ep, e5, e6]
    apply List.Perm.append_left
    exact List.perm_middle


/-- the relative order of two groups is kept by every operation that does not serve the first of them -/
theorem before_step (c : Conf) {s : State} (h : State.WF s) {y z : String} (hb : [y, z].Sublist (names s))
    (op : Op) (hno : ∀ ch, (step c s op).2 = some ch → ch.group ≠ y) :
    [y, z].Sublist (names (step c s op).1) := by
  cases op with
  | push f => exact hb.trans (names_push_sublist c h f)
  | pop now =>
    show [y, z].Sublist (names (pop s now).1)
    cases hp : pop s now with
    | mk s' r =>
      cases r with
      | none =>
        have := (pop_none_spec h hp).1
        subst this
        have : names (s.map (fun g => g.scanned now)) = names s := by
          unfold names; simp only [List.map_map]
          exact List.map_congr_left (fun g hg => (scanned_spec (h.groups g hg) now).2.2.1)
        simp only [this]; exact hb
      | some ch =>
        have hne : ch.group ≠ y := hno ch (by show (pop s now).2 = some ch; rw [hp])
        obtain ⟨pre, T, D, pre', g, g', e1, e2, e3, e4, e5, e6, e7, _⟩ := pop_groups h hp
        have hnames' : names s' = names pre ++ names T ++ g.name :: names D := by
          unfold names; rw [e2]; simp [e3, e5]
        have hnames : names s = names pre ++ g.name :: (names T ++ names D) := by
          unfold names; rw [e1]; simp
        simp only
        rw [hnames']
        have hnd : (names s).Nodup := h.names
        rw [hnames] at hnd hb
        exact sublist_pair_move hnd hb (by rw [← e7]; exact fun e => hne e.symm)

theorem before_run (c : Conf) (ops : List Op) : ∀ {s : State} (_ : State.WF s) {y z : String}
    (_ : [y, z].Sublist (names s))
    (_ : ∀ a ∈ (run c s ops).2, ∀ ch, a = some ch → ch.group ≠ y),
    [y, z].Sublist (names (run c s ops).1) := by
  induction ops with
  | nil => intro s _ y z hb _; exact hb
  | cons op ops ih =>
    intro s h y z hb hno
    rw [run_cons] at hno ⊢
    simp only [List.mem_cons] at hno
    exact ih (step_wf c h op) (before_step c h hb op (fun ch hch => hno _ (Or.inl rfl) ch hch))
      (fun a ha ch hch => hno a (Or.inr ha) ch hch)


theorem eq_of_name_eq {s : State} (hn : (s.map (·.name)).Nodup) {x p : GroupSt} (hx : x ∈ s) (hp : p ∈ s)
    (e : x.name = p.name) : x = p := by
  induction s with
  | nil => cases hx
  | cons a t ih =>
    simp only [List.map_cons, List.nodup_cons] at hn
    simp only [List.mem_cons] at hx hp
    rcases hx with hx | hx <;> rcases hp with hp | hp
    · rw [hx, hp]
    · subst hx; exact absurd (e ▸ List.mem_map_of_mem (f := fun (y : GroupSt) => y.name) hp) hn.1
    · subst hp; exact absurd (e ▸ List.mem_map_of_mem (f := fun (y : GroupSt) => y.name) hx) hn.1
    · exact ih hn.2 hx hp

/-- C12 `round_robin` (bounded bypass). Let Pop serve group `g` at some point, then let any
    history `mid` of pushes and pops follow, and let a later Pop serve `g` again. Every
    other group `g'` of the same priority that already existed at the first service and was
    not served in between is not ready at the second service: while `g'` stays ready, `g`
    cannot be served twice without `g'` being served in between, however large the backlog
    of `g` is.

    (DESIGN.md stated: "either g' is served exactly once in between or g' is not ready at
    some pop". "Exactly once" is false when `g` itself has nothing ready for a while: then
    `g'` may be served several times. Applying this theorem with the roles of `g` and `g'`
    exchanged gives the true converse: `g'` is served twice without `g` in between only if
    `g` was not ready at the second of these services.) -/
theorem round_robin (c : Conf) {s0 : State} (h0 : State.WF s0) (now_i now_j : Int) (mid : List Op)
    {s1 : State} {ch1 : Chunk} (hp1 : pop s0 now_i = (s1, some ch1))
    {s3 : State} {ch2 : Chunk} (hp2 : pop (run c s1 mid).1 now_j = (s3, some ch2))
    (hsame : ch2.group = ch1.group)
    {g g' : GroupSt} (hg : g ∈ s0) (hgn : g.name = ch1.group) (hg' : g' ∈ s0) (hne : g'.name ≠ g.name)
    (hprio : g'.conf.priority = g.conf.priority)
    (hnot : ∀ a ∈ (run c s1 mid).2, ∀ ch, a = some ch → ch.group ≠ g'.name) :
    ∀ x ∈ (run c s1 mid).1, x.name = g'.name → x.ready now_j = false := by
  have h1 : State.WF s1 := by have := pop_wf h0 now_i; rw [hp1] at this; exact this
  obtain ⟨r1, _, r3⟩ := rotate h0 hp1
  -- the two groups are still there after the first service, with their priorities
  have hin : ∀ q ∈ s0, ∃ q1 ∈ s1, q1.name = q.name ∧ q1.conf.priority = q.conf.priority := by
    intro q hq
    have : (q.name, q.conf.priority) ∈ s1.map (fun g => (g.name, g.conf.priority)) :=
      r3.mem_iff.mpr (List.mem_map_of_mem (f := fun (g : GroupSt) => (g.name, g.conf.priority)) hq)
    obtain ⟨q1, hq1, e⟩ := List.mem_map.mp this
    simp only [Prod.mk.injEq] at e
    exact ⟨q1, hq1, e.1, e.2⟩
  obtain ⟨g1, hg1, hg1n, hg1p⟩ := hin g hg
  obtain ⟨g1', hg1', hg1n', hg1p'⟩ := hin g' hg'
  have hb1 : [g'.name, ch1.group].Sublist (names s1) := by
    have := r1 g1' hg1' g1 hg1 (hg1n.trans hgn) (by rw [hg1n', ← hgn]; exact hne) (by rw [hg1p', hg1p, hprio])
    rw [hg1n'] at this; exact this
  have h2 : State.WF (run c s1 mid).1 := run_wf c h1 mid
  have hb2 := before_run c mid h1 hb1 hnot
  obtain ⟨pre, T, D, pre', G, G', e1, _, _, _, _, _, e7, _, _, e10, _⟩ := pop_groups h2 hp2
  have hnames : names (run c s1 mid).1 = names pre ++ G.name :: (names T ++ names D) := by
    unfold names; rw [e1]; simp
  have hnd : (names (run c s1 mid).1).Nodup := h2.names
  rw [hnames] at hnd hb2
  rw [← hsame, e7] at hb2
  have hmem := sublist_pair_mem_left hnd hb2 (by rw [← e7, hsame, ← hgn]; exact hne)
  obtain ⟨p, hp, hpn⟩ := List.mem_map.mp hmem
  intro x hx hxn
  have : x = p := eq_of_name_eq h2.names hx (by rw [e1]; simp [hp]) (by rw [hxn]; exact hpn.symm)
  subst this
  cases hr : x.ready now_j with
  | false => rfl
  | true =>
    have := (ready_iff_nextFile x now_j).mp hr
    rw [e10 x hp] at this; cases this

/-- `round_robin` for every history: `ops0` leads from the empty queue to the first service. -/
theorem round_robin_reachable (c : Conf) (ops0 : List Op) (now_i now_j : Int) (mid : List Op)
    {s1 : State} {ch1 : Chunk} (hp1 : pop (run c [] ops0).1 now_i = (s1, some ch1))
    {s3 : State} {ch2 : Chunk} (hp2 : pop (run c s1 mid).1 now_j = (s3, some ch2))
    (hsame : ch2.group = ch1.group)
    {g g' : GroupSt} (hg : g ∈ (run c [] ops0).1) (hgn : g.name = ch1.group) (hg' : g' ∈ (run c [] ops0).1)
    (hne : g'.name ≠ g.name) (hprio : g'.conf.priority = g.conf.priority)
    (hnot : ∀ a ∈ (run c s1 mid).2, ∀ ch, a = some ch → ch.group ≠ g'.name) :
    ∀ x ∈ (run c s1 mid).1, x.name = g'.name → x.ready now_j = false :=
  round_robin c (reachable_wf c ops0) now_i now_j mid hp1 hp2 hsame hg hgn hg' hne hprio hnot

/-- C12 `young_last_file_skipped`: a group whose first file that is not fully allocated is
    its last listed file and is younger than the tag's last-file delay is not ready (so by
    `strict_priority` it is not served), and it blocks nobody: whenever some group is ready,
    Pop serves a ready group. -/
theorem young_last_file_skipped {s : State} (h : State.WF s) (now : Int) :
    (∀ g ∈ s, ∀ c, g.list.find? (fun x => !isAllocated g.nodes x) = some c → g.list.getLast? = some c →
        g.conf.lastDelay > 0 → now - nodeTime g.nodes c < g.conf.lastDelay →
        g.ready now = false ∧ ∀ ch, (pop s now).2 = some ch → ch.group ≠ g.name) ∧
    ((∃ g ∈ s, g.ready now = true) → ∃ ch g, (pop s now).2 = some ch ∧ g ∈ s ∧ g.name = ch.group ∧ g.ready now = true) := by
  refine ⟨fun g hg c hc hl hd hy => ?_, fun ⟨g, hg, hr⟩ => ?_⟩
  · have hnr : g.ready now = false := by
      unfold GroupSt.ready; simp [hc, hl, hd, hy]
    refine ⟨hnr, fun ch hch hgrp => ?_⟩
    cases hp : pop s now with
    | mk s' r =>
      rw [hp] at hch; simp only at hch; subst hch
      obtain ⟨g2, hg2, hg2n, hg2r, _⟩ := strict_priority h hp
      have : g2 = g := eq_of_name_eq h.names hg2 hg (hg2n.trans hgrp)
      subst this
      rw [hnr] at hg2r; cases hg2r
  · cases hp : pop s now with
    | mk s' r =>
      cases r with
      | none =>
        have := strict_priority_idle h hp g hg
        rw [hr] at this; cases this
      | some ch =>
        obtain ⟨g2, hg2, hg2n, hg2r, _⟩ := strict_priority h hp
        exact ⟨ch, g2, rfl, hg2, hg2n, hg2r⟩


/-! ## non-vacuity -/

def exConf12 : Conf :=
  { tags := [⟨"hi", 5, .fifo, 2, 0⟩, ⟨"lo", 1, .fifo, 2, 0⟩, ⟨"yo", 1, .fifo, 0, 3600⟩],
    tagger := fun g => String.ofList (g.toList.takeWhile (· ≠ '.')),
    grouper := fun n => String.ofList (n.toList.takeWhile (· ≠ '/')) }

/-- two groups of priority 1 with backlogs, a group whose only file is young, and a group of
    priority 5 that appears late: strict priority, rotation and the skipped young file -/
def exOps12 : List Op :=
  [.push ⟨"lo.a/1", 4, 10, none⟩, .push ⟨"lo.a/2", 2, 11, none⟩, .push ⟨"lo.b/1", 4, 10, none⟩,
   .push ⟨"yo.c/1", 4, 99990, none⟩, .pop 100000, .pop 100000, .push ⟨"hi.x/1", 3, 10, none⟩,
   .pop 100000, .pop 100000, .pop 100000, .pop 100000, .pop 100000, .pop 100000]

example : (run exConf12 [] exOps12).2.filterMap (fun a => a.map (fun ch => (ch.name, ch.offset))) =
    [("lo.a/1", 0), ("lo.b/1", 0), ("hi.x/1", 0), ("hi.x/1", 2), ("lo.a/1", 2), ("lo.b/1", 2), ("lo.a/2", 0)] ∧
    (run exConf12 [] exOps12).2.getLast? = some none ∧
    names (run exConf12 [] exOps12).1 = ["hi.x", "yo.c", "lo.b", "lo.a"] := by decide

/-- the young group is not ready although it lists a file; an old clock makes it ready -/
example : ((run exConf12 [] exOps12).1.map (fun g => (g.name, g.ready 100000, g.ready 200000))) =
    [("hi.x", false, false), ("yo.c", false, true), ("lo.b", false, false), ("lo.a", false, false)] := by decide

end Sts.Queue
