/-
  C01 — only hash-validated, byte-identical files reach the final directory (receiver part).

  Full statement (properties.jsonl C01, second and third sentence), over the event semantics
  of Model/StageSem.lean (every interleaving of the model's atomic steps, every crash point,
  retransmissions, wrong announced hashes, corruption of staged partials, restarts):

    Reachable H s → ∀ t i, s.disk.final t = some i →
      ∃ r ∈ s.disk.log, targetOf r.name r.renamed = t ∧ H (s.disk.body i) = r.hash

  This is FALSE for the unchanged code and for the model (known finding S1, witness
  `stale_writer_breaks_integrity` below): `Receive` opens `<n>.part` before it takes the
  per-file lock and a request parked there writes, after the file was completed by other
  requests, validated and delivered, into the delivered file (rename keeps the inode).
  Proved here: `C01_integrity_partial`, the statement for every run in which
    * NoStaleWrite: a `recvWrite` goes through a handle whose inode is still some file's
      `.part`, and
    * the environment overwrites staged bytes only of `.part` / `.full` files (data that is
      not yet validated).
-/
import StsModel.Lemmas.StageIntegrity

namespace Sts.Stage

/-! ## the hypotheses of the partial theorem -/

/-- an operation that the hypotheses of the partial theorem allow in state `s` -/
def OpOk (s : State) : OpEv → Prop
  | .recvWrite h _ _ _ => ∃ i n, handleIno s.mem h = some i ∧ s.disk.part n = some i
  | .corrupt _ ext _ _ => ext = "part" ∨ ext = "full"
  | _ => True

/-- an event that the hypotheses of the partial theorem allow in state `s` -/
def EvOk (s : State) : Ev → Prop
  | .op o => OpOk s o
  | .cutOp _ o => OpOk s o
  | .crash => True

/-- every event is allowed in the state it is executed in -/
def OkRun (H : Body → String) : State → List Ev → Prop
  | _, [] => True
  | s, e :: es => EvOk s e ∧ OkRun H (step H s e) es

def ReachableOk (H : Body → String) (s : State) : Prop :=
  ∃ evs, OkRun H init evs ∧ s = runEvs H init evs

theorem ReachableOk.reachable {H : Body → String} {s : State} (h : ReachableOk H s) :
    Reachable H s := by
  obtain ⟨evs, _, rfl⟩ := h
  exact ⟨evs, rfl⟩

/-! ## every allowed operation meets the guards of the integrity invariant -/

theorem integ_effects_guards (H : Body → String) (s : State) (o : OpEv) (hI : Integ H s)
    (hok : OpOk s o) : Guards (IG H) s (effects H s o) := by
  cases o with
  | prepare n size now => exact Guards_of_all_easy H s _ (prepare_easy s n size now)
  | recvOpen h n =>
    simp only [effects]
    split <;> exact Guards_of_all_easy H s _ (by simp [easy])
  | recvWrite h beg data now =>
    obtain ⟨i, n, hh, hp⟩ := hok
    simp only [effects, hh]
    exact ⟨⟨n, hp⟩, trivial, trivial⟩
  | record n m beg fin now => exact Guards_of_all_easy H s _ (record_easy s n m beg fin now)
  | process n now => exact processEffects_guards H s n now
  | finh n now => exact integ_finh_guards H s n now hI
  | timer n => exact Guards_of_all_easy H s _ (timer_easy s n)
  | buildCache frm now => exact Guards_of_all_easy H s _ (buildCache_easy s frm now)
  | receivedQ n m => exact Guards_of_all_easy H s _ (received_easy s n m)
  | recover now names => exact integ_recover_guards H s now names
  | cleanStrays now names => exact Guards_of_all_easy H s _ (cleanStrays_easy s now names)
  | cleanWaiting names => exact cleanWaiting_guards H s names hI
  | consume t => exact Guards_of_all_easy H s _ (by simp [effects, easy])
  | corrupt n ext pos v =>
    simp only [effects]
    cases hi : inoOf s.disk n ext with
    | none => trivial
    | some i =>
      refine ⟨?_, trivial⟩
      refine ⟨n, ?_⟩
      simp only [inoOf] at hi
      rcases hok with rfl | rfl
      · left; simpa using hi
      · right; simpa using hi

/-- the invariant survives every allowed event (complete, or cut by a crash at any durable
    step, or a bare crash) -/
theorem Integ_event (H : Body → String) (s : State) (e : Ev) (hI : Integ H s) (hok : EvOk s e) :
    Integ H (step H s e) := by
  cases e with
  | op o => exact Integ_run H s _ hI (integ_effects_guards H s o hI hok)
  | cutOp k o =>
    exact Integ_crash H _ (inv_cut (Integ_step H) _ s hI (integ_effects_guards H s o hI hok) k)
  | crash => exact Integ_crash H s hI

theorem Integ_okRun (H : Body → String) (evs : List Ev) (s : State) (hI : Integ H s)
    (hr : OkRun H s evs) : Integ H (runEvs H s evs) := by
  induction evs generalizing s with
  | nil => exact hI
  | cons e es ih =>
    simp only [runEvs, List.foldl_cons]
    exact ih _ (Integ_event H s e hI hr.1) hr.2

theorem Integ_reachableOk {H : Body → String} {s : State} (hr : ReachableOk H s) : Integ H s := by
  obtain ⟨evs, hok, rfl⟩ := hr
  exact Integ_okRun H evs init (Integ_init H) hok

/-! ## the main theorem -/

/-- **C01 (partial: NoStaleWrite, corruption only of unvalidated staged data).** In every state
    reachable by allowed events — any interleaving of the model's atomic steps, any crash
    point, any retransmission, wrong announced hash, corruption of `.part`/`.full`, restart —
    every file in the final directory has a receive-log record for its target whose hash is
    the hash of the file's bytes. `H` is arbitrary. -/
theorem C01_integrity_partial {H : Body → String} {s : State} (hr : ReachableOk H s) :
    ∀ t i, s.disk.final t = some i →
      ∃ r ∈ s.disk.log, targetOf r.name r.renamed = t ∧ H (s.disk.body i) = r.hash :=
  (Integ_reachableOk hr).jf

/-- the validated-waiting part of the invariant (DESIGN.md `wait_inv`): a `.wait` file whose
    cache entry says *validated* has the cached hash. -/
theorem wait_inv {H : Body → String} {s : State} (hr : ReachableOk H s) :
    ∀ n i e, s.disk.wait n = some i → s.mem.cache n = some e → e.state = .validated →
      H (s.disk.body i) = e.hash :=
  (Integ_reachableOk hr).jw

/-- `mismatch_never_delivered`: no file in the final directory has a body whose hash differs
    from the hash of every log record of its target. -/
theorem mismatch_never_delivered {H : Body → String} {s : State} (hr : ReachableOk H s)
    (t : String) (i : Nat) (hf : s.disk.final t = some i) :
    ¬ ∀ r ∈ s.disk.log, targetOf r.name r.renamed = t → H (s.disk.body i) ≠ r.hash := by
  intro hall
  obtain ⟨r, hr', ht, hh⟩ := C01_integrity_partial hr t i hf
  exact hall r hr' ht hh

/-! ## non-vacuity and the stale-writer witness (known finding S1) -/

/-- a concrete hash function for the witnesses -/
def Hs : Body → String := fun b => toString b

def metaA : Meta := { renamed := "", prev := "", size := 2, hash := "[1, 2]" }

/-- one file "a" of two bytes: prepared, two requests open `a.part` (handles 1 and 2), request 1
    writes the bytes and records them, the file is validated and delivered. -/
def goodRun : List Ev :=
  [ .op (.prepare "a" 2 0), .op (.recvOpen 1 "a"), .op (.recvOpen 2 "a"),
    .op (.recvWrite 1 0 [1, 2] 0), .op (.record "a" metaA 0 2 0),
    .op (.process "a" 0), .op (.finh "a" 0) ]

/-- … and then the parked request 2 writes through its stale handle. -/
def staleRun : List Ev := goodRun ++ [ .op (.recvWrite 2 0 [9, 9] 1) ]

theorem goodRun_ok : OkRun Hs init goodRun := by
  simp only [goodRun, OkRun, EvOk, OpOk, true_and, and_true]
  exact ⟨0, "a", by decide, by decide⟩

/-- the hypotheses of `C01_integrity_partial` are satisfiable by a state with a delivered file -/
example : ReachableOk Hs (runEvs Hs init goodRun) ∧
    (runEvs Hs init goodRun).disk.final "a" = some 0 ∧
    (runEvs Hs init goodRun).disk.body 0 = [1, 2] :=
  ⟨⟨goodRun, goodRun_ok, rfl⟩, by decide, by decide⟩

/-- `wait_inv` is not vacuous: before the finalize handler runs, "a" is a validated `.wait` -/
example : (runEvs Hs init (goodRun.take 6)).disk.wait "a" = some 0 ∧
    stateOf (runEvs Hs init (goodRun.take 6)).mem "a" = some .validated := ⟨by decide, by decide⟩

/-- a run with an allowed corruption of the partial, a validator that dies right after the
    rename to `.wait` (crash cut after its first durable step), recovery, and delivery. -/
def crashRun : List Ev :=
  [ .op (.prepare "a" 2 0), .op (.recvOpen 1 "a"), .op (.corrupt "a" "part" 0 7),
    .op (.recvWrite 1 0 [1, 2] 0), .op (.record "a" metaA 0 2 0),
    .cutOp 1 (.process "a" 0), .op (.recover 5 ["a"]), .op (.finh "a" 6) ]

theorem crashRun_ok : OkRun Hs init crashRun := by
  simp only [crashRun, OkRun, EvOk, OpOk, true_and, and_true, true_or]
  exact ⟨0, "a", by decide, by decide⟩

/-- the hypotheses are satisfiable by a run through a crash image: after the cut the file exists
    only as `a.wait` with an empty cache, after `recover` and `finh` it is delivered and logged -/
example : ReachableOk Hs (runEvs Hs init crashRun) ∧
    (runEvs Hs init (crashRun.take 6)).disk.wait "a" = some 0 ∧
    (runEvs Hs init (crashRun.take 6)).mem.cache "a" = none ∧
    (runEvs Hs init crashRun).disk.final "a" = some 0 ∧
    (runEvs Hs init crashRun).disk.log = [⟨"a", "", "[1, 2]", 2, 6, ""⟩] :=
  ⟨⟨crashRun, crashRun_ok, rfl⟩, by decide, by decide, by decide, by decide⟩

/-- the last event of `staleRun` is exactly what NoStaleWrite excludes: handle 2 points at
    inode 0, which is no `.part` any more (it is the delivered file). -/
theorem OkRun_append (H : Body → String) (s : State) (xs ys : List Ev) :
    OkRun H s (xs ++ ys) ↔ OkRun H s xs ∧ OkRun H (runEvs H s xs) ys := by
  induction xs generalizing s with
  | nil => simp [OkRun, runEvs]
  | cons x xs ih =>
    simp only [List.cons_append, OkRun, ih, runEvs, List.foldl_cons, and_assoc]

theorem staleRun_not_ok : ¬ OkRun Hs init staleRun := by
  unfold staleRun
  rw [OkRun_append]
  intro ⟨_, h⟩
  have hI := Integ_reachableOk ⟨goodRun, goodRun_ok, rfl⟩
  have hh : handleIno (runEvs Hs init goodRun).mem 2 = some 0 := by decide
  have hf : (runEvs Hs init goodRun).disk.final "a" = some 0 := by decide
  generalize runEvs Hs init goodRun = st at h hI hh hf
  simp only [OkRun, EvOk, OpOk, and_true] at h
  obtain ⟨i, n, h1, h2⟩ := h
  rw [hh] at h1
  have hi : 0 = i := Option.some.inj h1
  subst hi
  exact absurd (hI.links.inj (.part n) (.final "a") 0 h2 hf) (by simp)

/-- **S1 (stale writer).** Without NoStaleWrite the full statement of C01 is false in the
    model (and in the code: confirmed on the real `Stage`, DESIGN.md section 8): after
    `staleRun` the final directory holds "a" with a body whose hash equals the hash of no
    record of the receive log. -/
theorem stale_writer_breaks_integrity :
    ∃ i, (runEvs Hs init staleRun).disk.final "a" = some i ∧
      (runEvs Hs init staleRun).disk.body i = [9, 9] ∧
      (runEvs Hs init staleRun).disk.log = [⟨"a", "", "[1, 2]", 2, 0, ""⟩] ∧
      ∀ r ∈ (runEvs Hs init staleRun).disk.log, Hs ((runEvs Hs init staleRun).disk.body i) ≠ r.hash :=
  ⟨0, by decide, by decide, by decide, by decide⟩

/-- the second hypothesis is needed too: a staged byte overwritten in `<n>.wait` — after the
    validation, before the move — is delivered, because `finalize` does not hash again (the
    window between `process` and `putFileAway`; the C01 text says "corrupted while staged"). -/
def waitCorruptRun : List Ev :=
  goodRun.take 6 ++ [ .op (.corrupt "a" "wait" 0 7), .op (.finh "a" 0) ]

theorem wait_corruption_breaks_integrity :
    (runEvs Hs init waitCorruptRun).disk.final "a" = some 0 ∧
      (runEvs Hs init waitCorruptRun).disk.body 0 = [7, 2] ∧
      ∀ r ∈ (runEvs Hs init waitCorruptRun).disk.log,
        Hs ((runEvs Hs init waitCorruptRun).disk.body 0) ≠ r.hash :=
  ⟨by decide, by decide, by decide⟩

/-- the full statement of C01 (over `Reachable`, without hypotheses on the events) does not
    hold. -/
theorem C01_integrity_full_false :
    ¬ ∀ (H : Body → String) (s : State), Reachable H s → ∀ t i, s.disk.final t = some i →
        ∃ r ∈ s.disk.log, targetOf r.name r.renamed = t ∧ H (s.disk.body i) = r.hash := by
  intro h
  obtain ⟨i, hf, _, _, hne⟩ := stale_writer_breaks_integrity
  obtain ⟨r, hr, _, hh⟩ := h Hs _ ⟨staleRun, rfl⟩ "a" i hf
  exact hne r hr hh

/-! ## decision level: what `process` checks -/

theorem not_mem_toCache_renFullWait (m : Mem) (n k : Name) (e : Entry) (st : FState) (now : Int) :
    Prim.renFullWait k ∉ toCache m n e st now := by
  unfold toCache
  simp only [List.mem_append, List.mem_singleton, not_or]
  refine ⟨⟨?_, by simp⟩, ?_⟩
  · split <;> simp
  · split <;> simp

/-- `process_checks` (1): `process` renames `<n>.full` to `<n>.wait` iff the file is in state
    received, `<n>.full` exists and its hash is the announced one. -/
theorem process_checks (H : Body → String) (s : State) (n : Name) (e : Entry) (now : Int) :
    Prim.renFullWait n ∈ processCore H s n e now ↔
      (stateOf s.mem n = some .received ∧
        ∃ i, s.disk.full n = some i ∧ H (s.disk.body i) = e.hash) := by
  unfold processCore
  by_cases hst : stateOf s.mem n ≠ some .received
  · rw [if_pos hst]
    simp only [List.append_nil, List.mem_singleton, reduceCtorEq, false_iff]
    intro h; exact hst h.1
  · rw [if_neg hst]
    have hst' : stateOf s.mem n = some .received := by simpa using hst
    cases hf : s.disk.full n with
    | none =>
      simp [hst', not_mem_toCache_renFullWait]
    | some i =>
      simp only
      by_cases hh : H (s.disk.body i) ≠ e.hash
      · rw [if_pos hh]
        simp [hst', not_mem_toCache_renFullWait, hh]
      · rw [if_neg hh]
        have hh' : H (s.disk.body i) = e.hash := by simpa using hh
        simp [hst', hh']

/-- no other `.full` is renamed by `process n` -/
theorem process_renames_only_own (H : Body → String) (s : State) (n k : Name) (e : Entry)
    (now : Int) (h : Prim.renFullWait k ∈ processCore H s n e now) : k = n := by
  unfold processCore at h
  simp only [List.mem_append, List.mem_singleton, reduceCtorEq, false_or] at h
  split at h
  · simp at h
  · split at h
    · simp [not_mem_toCache_renFullWait] at h
    · split at h
      · simp [not_mem_toCache_renFullWait] at h
      · simpa [not_mem_toCache_renFullWait] using h

/-- `process_checks` (2): content that does not match its announced hash is not renamed; the
    only effects are the path lock and the cache entry in state failed. -/
theorem process_mismatch (H : Body → String) (s : State) (n : Name) (e : Entry) (now : Int) (i : Nat)
    (hst : stateOf s.mem n = some .received) (hf : s.disk.full n = some i)
    (hh : H (s.disk.body i) ≠ e.hash) :
    processCore H s n e now = [Prim.lockAdd n] ++ toCache s.mem n e .failed now := by
  unfold processCore
  simp [hst, hf, hh]

/-- a wrong announced hash: the file is complete, in state received, and its bytes do not
    hash to what was announced — the hypotheses of `process_mismatch` hold, and after the
    validator ran the status answer is *failed*. -/
def badMeta : Meta := { renamed := "", prev := "", size := 2, hash := "bad" }
def failRun : List Ev :=
  [ .op (.prepare "a" 2 0), .op (.recvOpen 1 "a"),
    .op (.recvWrite 1 0 [1, 2] 0), .op (.record "a" badMeta 0 2 0) ]

example : stateOf (runEvs Hs init failRun).mem "a" = some .received ∧
    (runEvs Hs init failRun).disk.full "a" = some 0 ∧
    Hs ((runEvs Hs init failRun).disk.body 0) ≠ badMeta.hash ∧
    statusAnswer (runEvs Hs init (failRun ++ [.op (.process "a" 1)])) "a" = 1 ∧
    (runEvs Hs init (failRun ++ [.op (.process "a" 1)])).disk.wait "a" = none :=
  ⟨by decide, by decide, by decide, by decide, by decide⟩

theorem toCache_state (s : State) (m : Mem) (n : Name) (e : Entry) (st : FState) (now : Int)
    (h : st ≠ .finalized) : stateOf (run s (toCache m n e st now)).mem n = some st := by
  unfold toCache
  simp only [h, and_false, if_false, List.append_nil]
  split <;> simp [applyPrim, applyMem, stateOf]

/-- `process_checks` (3): after a failed validation the sender is told *failed*
    (GetFileStatus = ConfirmFailed = 1), so it transmits the file again. -/
theorem process_mismatch_reported (H : Body → String) (s : State) (n : Name) (e : Entry) (now : Int)
    (i : Nat) (hst : stateOf s.mem n = some .received) (hf : s.disk.full n = some i)
    (hh : H (s.disk.body i) ≠ e.hash) :
    statusAnswer (run s (processCore H s n e now)) n = 1 ∧
      (run s (processCore H s n e now)).disk.full n = some i ∧
      (run s (processCore H s n e now)).disk.wait n = s.disk.wait n := by
  rw [process_mismatch H s n e now i hst hf hh, run_append]
  have hd : (run (run s [Prim.lockAdd n]) (toCache s.mem n e .failed now)).disk = s.disk := by
    rw [run_disk_of_mem _ _ (toCache_mem _ _ _ _ _)]; rfl
  refine ⟨?_, by rw [hd]; exact hf, by rw [hd]⟩
  simp [statusAnswer, toCache_state _ _ _ _ _ _ (show FState.failed ≠ .finalized by decide)]

/-! ## C06 order facts (operation level, for all states) -/

/-- every element satisfying `q` has an earlier element satisfying `p` -/
def Precedes (p q : Prim → Bool) (ps : List Prim) : Prop :=
  ∀ pre x post, ps = pre ++ x :: post → q x = true → ∃ y ∈ pre, p y = true

/-- the same as a scan -/
def precedesB (p q : Prim → Bool) : List Prim → Bool
  | [] => true
  | x :: xs => !q x && (p x || precedesB p q xs)

theorem Precedes_iff (p q : Prim → Bool) (ps : List Prim) :
    Precedes p q ps ↔ precedesB p q ps = true := by
  induction ps with
  | nil =>
    simp only [precedesB, iff_true]
    intro pre x post h; simp at h
  | cons a as ih =>
    simp only [precedesB, Bool.and_eq_true, Bool.not_eq_true', Bool.or_eq_true]
    constructor
    · intro h
      refine ⟨?_, ?_⟩
      · cases hq : q a with
        | false => rfl
        | true => obtain ⟨y, hy, _⟩ := h [] a as rfl hq; simp at hy
      · cases hp : p a with
        | true => exact Or.inl rfl
        | false =>
          right
          rw [← ih]
          intro pre x post hx hq
          obtain ⟨y, hy, hpy⟩ := h (a :: pre) x post (by simp [hx]) hq
          simp only [List.mem_cons] at hy
          rcases hy with rfl | hy
          · rw [hp] at hpy; cases hpy
          · exact ⟨y, hy, hpy⟩
    · intro ⟨hqa, hrest⟩ pre x post hx hq
      cases pre with
      | nil =>
        simp only [List.nil_append, List.cons.injEq] at hx
        rw [← hx.1, hqa] at hq; cases hq
      | cons b pre =>
        simp only [List.cons_append, List.cons.injEq] at hx
        obtain ⟨rfl, hx⟩ := hx
        rcases hrest with hpa | hrest
        · exact ⟨a, by simp, hpa⟩
        · obtain ⟨y, hy, hpy⟩ := (ih.mpr hrest) pre x post hx hq
          exact ⟨y, by simp [hy], hpy⟩

theorem precedesB_append (p q : Prim → Bool) (xs ys : List Prim) :
    precedesB p q (xs ++ ys) = (precedesB p q xs && (xs.any p || precedesB p q ys)) := by
  induction xs with
  | nil => simp [precedesB]
  | cons x xs ih =>
    simp only [List.cons_append, precedesB, ih, List.any_cons]
    cases q x <;> cases p x <;> simp

theorem precedesB_of_none (p q : Prim → Bool) (xs : List Prim)
    (h : xs.all (fun x => !q x) = true) : precedesB p q xs = true := by
  induction xs with
  | nil => rfl
  | cons x xs ih =>
    simp only [List.all_cons, Bool.and_eq_true, Bool.not_eq_true'] at h
    simp [precedesB, h.1, ih h.2]

def isLogOf (n : Name) (hash : String) : Prim → Bool
  | .logAppend r => r.name == n && r.hash == hash
  | _ => false
def isRenWaitFinal : Prim → Bool | .renWaitFinal .. => true | _ => false
def isCacheFinalized : Prim → Bool | .cacheSet _ e => e.state == .finalized | _ => false
/-- a removal of a companion, unconditional (`rmCmp`) or "only if it still records this
    version" (`rmCmpIf`) -/
def isRmCmp : Prim → Bool | .rmCmp _ => true | .rmCmpIf .. => true | _ => false
def isWriteIno : Prim → Bool | .writeIno .. => true | _ => false
def isCmpTmp : Prim → Bool | .cmpTmp .. => true | _ => false
def isCmpCommit : Prim → Bool | .cmpCommit .. => true | _ => false
def isRenPartFull : Prim → Bool | .renPartFull .. => true | _ => false

theorem toCache_finalized_any (m : Mem) (n : Name) (e : Entry) (now : Int) :
    (toCache m n e .finalized now).any isCacheFinalized = true := by
  unfold toCache
  simp [List.any_append, isCacheFinalized]

theorem toCache_no (q : Prim → Bool) (hq : ∀ p, q p = true → p.durable = true)
    (m : Mem) (n : Name) (e : Entry) (st : FState) (now : Int) :
    (toCache m n e st now).all (fun x => !q x) = true := by
  have h := toCache_mem m n e st now
  simp only [List.all_eq_true, Bool.not_eq_true'] at h ⊢
  intro x hx
  cases hqx : q x with
  | false => rfl
  | true => have := h x hx; rw [hq x hqx] at this; cases this

/-- `log_before_move` (C06): in `finalize` (putFileAway) the receive-log record of this name and
    hash is appended before the file is moved; only `<n>.wait` is moved, to its target; the
    state becomes *finalized* only after the move; the companion is removed after that, and
    the only removal of a companion in `finalize` is the conditional `rmCmpIf n e.hash` (the
    companion goes only if it still describes the version being put away). -/
theorem log_before_move (s : State) (n : Name) (e : Entry) (now : Int) :
    Precedes (isLogOf n e.hash) isRenWaitFinal (finalizeEffects s n e now) ∧
    (∀ m t, Prim.renWaitFinal m t ∈ finalizeEffects s n e now → m = n ∧ t = targetOf n e.renamed) ∧
    Precedes isRenWaitFinal isCacheFinalized (finalizeEffects s n e now) ∧
    Precedes isCacheFinalized isRmCmp (finalizeEffects s n e now) ∧
    (∀ p ∈ finalizeEffects s n e now, isRmCmp p = true → p = Prim.rmCmpIf n e.hash) := by
  simp only [Precedes_iff]
  unfold finalizeEffects
  by_cases hcond : stateOf s.mem n ≠ some .validated ∨ (s.mem.cache n).map (·.hash) ≠ some e.hash
  · rw [if_pos hcond]
    simp [precedesB, isLogOf, isRenWaitFinal, isCacheFinalized, isRmCmp]
  · rw [if_neg hcond]
    cases hw : s.disk.wait n with
    | none => simp [precedesB, isLogOf, isRenWaitFinal, isCacheFinalized, isRmCmp]
    | some i =>
      simp only [List.cons_append, List.nil_append, List.append_assoc]
      refine ⟨by simp [precedesB, isLogOf, isRenWaitFinal], ?_, by simp [precedesB, isRenWaitFinal, isCacheFinalized], ?_, ?_⟩
      · intro m t hm
        simp only [List.mem_cons, List.mem_append, List.mem_map, reduceCtorEq, false_or,
          Prim.renWaitFinal.injEq, List.not_mem_nil, or_false] at hm
        rcases hm with hm | hm | hm
        · exact hm
        · have := toCache_no isRenWaitFinal (by intro p hp; cases p <;> simp_all [isRenWaitFinal, Prim.durable])
            s.mem n { e with logged := some now } .finalized now
          simp only [List.all_eq_true, Bool.not_eq_true'] at this
          have := this _ hm
          simp [isRenWaitFinal] at this
        · obtain ⟨_, _, h⟩ := hm; cases h
      · simp only [precedesB, isCacheFinalized, isRmCmp, Bool.not_false, Bool.true_and, Bool.false_or]
        rw [precedesB_append, toCache_finalized_any]
        rw [precedesB_of_none _ _ _ (toCache_no isRmCmp (by intro p hp; cases p <;> simp_all [isRmCmp, Prim.durable]) _ _ _ _ _)]
        rfl
      · intro p hp hrm
        simp only [List.mem_cons, List.mem_append, List.mem_map, List.not_mem_nil, or_false] at hp
        rcases hp with hp | hp | hp | hp | hp | hp | hp | hp | hp
        · subst hp; simp [isRmCmp] at hrm
        · subst hp; simp [isRmCmp] at hrm
        · subst hp; simp [isRmCmp] at hrm
        · subst hp; simp [isRmCmp] at hrm
        · have := toCache_no isRmCmp (by intro p hp; cases p <;> simp_all [isRmCmp, Prim.durable])
            s.mem n { e with logged := some now } .finalized now
          simp only [List.all_eq_true, Bool.not_eq_true'] at this
          rw [this _ hp] at hrm; cases hrm
        · exact hp
        · subst hp; simp [isRmCmp] at hrm
        · obtain ⟨w, _, rfl⟩ := hp; simp [isRmCmp] at hrm
        · subst hp; simp [isRmCmp] at hrm

/-- `data_before_record` (C06): in a reception the bytes are written before the companion's
    temporary file is written, which precedes its atomic rename, which precedes the rename of
    a completed `.part` to `.full`. -/
theorem data_before_record (s : State) (i beg : Nat) (data : Body) (now now' : Int) (n : Name)
    (m : Meta) (b f : Int) :
    let ps := [Prim.writeIno i beg data now] ++ recordEffects s n m b f now'
    Precedes isWriteIno isCmpTmp ps ∧ Precedes isCmpTmp isCmpCommit ps ∧
      Precedes isCmpCommit isRenPartFull ps := by
  simp only [Precedes_iff]
  unfold recordEffects
  simp [precedesB, isWriteIno, isCmpTmp, isCmpCommit, isRenPartFull]

/-- `data_before_record` is not vacuous: the reception that completes "a" in `goodRun` does
    rename the `.part` -/
example : (recordEffects (runEvs Hs init (goodRun.take 4)) "a" metaA 0 2 0).any isRenPartFull = true := by
  decide

/-- `log_before_move` is not vacuous: the finalize of "a" in `goodRun` does move the file and
    does (conditionally) remove the companion -/
example : (finhEffects (runEvs Hs init (goodRun.take 6)) "a" 0).any isRenWaitFinal = true := by
  decide

example : (finhEffects (runEvs Hs init (goodRun.take 6)) "a" 0).any isRmCmp = true := by
  decide

/-! ### `validate_before_wait`: `<n>.full → <n>.wait` only in `process`, after the hash check -/

/-- guard of the validation rename: executed on a file in state received whose `.full` body
    has the hash of the cached entry -/
def VG (H : Body → String) (s : State) : Prim → Prop
  | .renFullWait n => stateOf s.mem n = some .received ∧
      ∃ i e, s.disk.full n = some i ∧ s.mem.cache n = some e ∧ H (s.disk.body i) = e.hash
  | _ => True

def notRFW : Prim → Bool | .renFullWait _ => false | _ => true

theorem easy_notRFW (p : Prim) (h : easy p = true) : notRFW p = true := by
  cases p <;> simp_all [easy, notRFW]

theorem all_easy_notRFW (ps : List Prim) (h : ps.all easy = true) : ps.all notRFW = true := by
  simp only [List.all_eq_true] at h ⊢
  exact fun p hp => easy_notRFW p (h p hp)

theorem Guards_of_notRFW (H : Body → String) (s : State) (ps : List Prim)
    (h : ps.all notRFW = true) : Guards (VG H) s ps := by
  induction ps generalizing s with
  | nil => trivial
  | cons p ps ih =>
    simp only [List.all_cons, Bool.and_eq_true] at h
    refine ⟨?_, ih _ h.2⟩
    cases p <;> simp_all [notRFW, VG]

theorem toCache_notRFW (m : Mem) (n : Name) (e : Entry) (st : FState) (now : Int) :
    (toCache m n e st now).all notRFW = true := by
  have := toCache_no (fun p => !notRFW p)
    (by intro p hp; cases p <;> simp_all [notRFW, Prim.durable]) m n e st now
  simpa using this

theorem finalize_notRFW (s : State) (n : Name) (e : Entry) (now : Int) :
    (finalizeEffects s n e now).all notRFW = true := by
  unfold finalizeEffects
  split
  · simp [notRFW]
  · split
    · simp [notRFW]
    · simp only [List.append_assoc, List.all_append, Bool.and_eq_true]
      refine ⟨by simp [notRFW], by simp [notRFW], by simp [notRFW], toCache_notRFW _ _ _ _ _,
        by simp [notRFW], ?_, by simp [notRFW]⟩
      simp [List.all_eq_true, notRFW]

theorem finh_notRFW (s : State) (n : Name) (now : Int) :
    (finhEffects s n now).all notRFW = true := by
  unfold finhEffects
  split
  · simp
  · simp only [List.all_append, Bool.and_eq_true]
    refine ⟨by simp [notRFW], ?_⟩
    split
    · simp
    · split
      · exact finalize_notRFW _ _ _ _
      · simp only [List.all_append, Bool.and_eq_true]
        refine ⟨⟨by simp [notRFW], ?_⟩, by simp [notRFW]⟩
        split <;> simp [notRFW]

theorem Guards_const_iff (P : Prim → Prop) (s : State) (ps : List Prim) :
    Guards (fun _ p => P p) s ps ↔ ∀ p ∈ ps, P p := by
  induction ps generalizing s with
  | nil => simp [Guards]
  | cons p ps ih => simp [Guards, ih]

theorem cleanWaitingFold_notRFW (s : State) (xs : List (Name × Entry)) :
    (xs.foldl cleanWaitingStep (s, [])).2.all notRFW = true := by
  have h := (Guards_foldl (G := fun _ p => notRFW p = true) (fun _ => True) cleanWaitingStep xs
    (by
      intro acc c _ _
      unfold cleanWaitingStep
      simp only
      split
      · exact ⟨[], by simp, trivial, trivial⟩
      · split
        · exact ⟨[], by simp, trivial, trivial⟩
        · refine ⟨_, rfl, ?_, trivial⟩
          rw [Guards_const_iff]
          intro p hp
          simp only [List.mem_append, List.mem_singleton, List.mem_flatMap] at hp
          rcases hp with rfl | ⟨w, _, hp⟩
          · rfl
          · split at hp
            · split at hp
              · simp only [List.mem_cons, List.not_mem_nil, or_false] at hp
                rcases hp with rfl | rfl | rfl <;> rfl
              · simp at hp
            · simp at hp)
    s (s, []) trivial rfl trivial).1
  rw [Guards_const_iff] at h
  simpa [List.all_eq_true] using h

theorem cleanWaiting_notRFW (s : State) (names : List Name) :
    (cleanWaitingEffects s names).all notRFW = true := by
  unfold cleanWaitingEffects
  exact cleanWaitingFold_notRFW s _

/-- `validate_before_wait` (1): the rename `<n>.full → <n>.wait` is performed by no operation
    other than `process` (the validator) and `recover` (which calls `process`). -/
theorem validate_before_wait_only (H : Body → String) (s : State) (o : OpEv) (m : Name)
    (h : Prim.renFullWait m ∈ effects H s o) :
    (∃ n now, o = .process n now) ∨ (∃ now names, o = .recover now names) := by
  have key : ∀ ps : List Prim, ps.all notRFW = true → Prim.renFullWait m ∈ ps → False := by
    intro ps hps hm
    have := List.all_eq_true.mp hps _ hm
    simp [notRFW] at this
  cases o with
  | process n now => exact Or.inl ⟨n, now, rfl⟩
  | recover now names => exact Or.inr ⟨now, names, rfl⟩
  | prepare n size now => exact (key _ (all_easy_notRFW _ (prepare_easy s n size now)) h).elim
  | recvOpen hd n =>
    simp only [effects] at h
    split at h <;> simp at h
  | recvWrite hd beg data now =>
    simp only [effects] at h
    split at h <;> simp at h
  | record n mt beg fin now => exact (key _ (all_easy_notRFW _ (record_easy s n mt beg fin now)) h).elim
  | finh n now => exact (key _ (finh_notRFW s n now) h).elim
  | timer n => exact (key _ (all_easy_notRFW _ (timer_easy s n)) h).elim
  | buildCache frm now => exact (key _ (all_easy_notRFW _ (buildCache_easy s frm now)) h).elim
  | receivedQ n mt => exact (key _ (all_easy_notRFW _ (received_easy s n mt)) h).elim
  | cleanStrays now names => exact (key _ (all_easy_notRFW _ (cleanStrays_easy s now names)) h).elim
  | cleanWaiting names => exact (key _ (cleanWaiting_notRFW s names) h).elim
  | consume t => simp [effects] at h
  | corrupt n ext pos v =>
    simp only [effects] at h
    split at h <;> simp at h

/-- `validate_before_wait` (2): when the validator takes `n` from its queue, the rename happens
    iff the file is in state received and the hash of `<n>.full` is the queue item's hash, and
    only `<n>.full` is renamed. -/
theorem validate_before_wait_process (H : Body → String) (s : State) (n m : Name) (now : Int)
    (h : Prim.renFullWait m ∈ processEffects H s n now) :
    m = n ∧ stateOf s.mem n = some .received ∧
      ∃ q i, s.mem.vq.find? (·.1 == n) = some q ∧ s.disk.full n = some i ∧
        H (s.disk.body i) = q.2.hash := by
  unfold processEffects at h
  split at h
  · simp at h
  · rename_i k e hq
    simp only [List.mem_append, List.mem_singleton, reduceCtorEq, false_or] at h
    have hm := process_renames_only_own H s n m e now h
    subst hm
    obtain ⟨hst, i, hf, hh⟩ := (process_checks H s m e now).mp h
    exact ⟨rfl, hst, (k, e), i, hq, hf, hh⟩

theorem toCache_cache (s : State) (m : Mem) (n : Name) (e : Entry) (st : FState) (now : Int)
    (h : st ≠ .finalized) :
    ∃ ce, (run s (toCache m n e st now)).mem.cache n = some ce ∧ ce.hash = e.hash ∧ ce.state = st := by
  unfold toCache
  simp only [h, and_false, if_false, List.append_nil]
  split <;> simp [applyPrim, applyMem]

/-- `processCore` computed in `s` for an item carrying the cached hash, executed in a state
    with the same disk and cache, meets `VG` -/
theorem processCore_VG (H : Body → String) (s s' : State) (n : Name) (e : Entry) (now : Int)
    (hd : s'.disk = s.disk) (hc : s'.mem.cache = s.mem.cache)
    (he : ∀ ce, s.mem.cache n = some ce → ce.hash = e.hash) :
    Guards (VG H) s' (processCore H s n e now) := by
  unfold processCore
  by_cases hst : stateOf s.mem n ≠ some .received
  · rw [if_pos hst]; exact Guards_of_notRFW H _ _ (by simp [notRFW])
  · rw [if_neg hst]
    have hst' : stateOf s.mem n = some .received := by simpa using hst
    cases hf : s.disk.full n with
    | none =>
      apply Guards_of_notRFW
      simp only [List.all_append, Bool.and_eq_true]
      exact ⟨by simp [notRFW], by simp [notRFW], toCache_notRFW _ _ _ _ _⟩
    | some i =>
      simp only
      by_cases hh : H (s.disk.body i) ≠ e.hash
      · rw [if_pos hh]
        apply Guards_of_notRFW
        simp only [List.all_append, Bool.and_eq_true]
        exact ⟨by simp [notRFW], toCache_notRFW _ _ _ _ _⟩
      · rw [if_neg hh]
        have hh' : H (s.disk.body i) = e.hash := by simpa using hh
        refine ⟨trivial, ?_, ?_⟩
        · cases hce : s.mem.cache n with
          | none => simp [stateOf, hce] at hst'
          | some ce =>
            refine ⟨?_, i, ce, ?_, ?_, ?_⟩
            · simpa [applyPrim, applyMem, stateOf, hc] using hst'
            · simpa [applyPrim, applyDisk, hd] using hf
            · simpa [applyPrim, applyMem, hc] using hce
            · simp only [applyPrim, applyDisk, hd]; rw [hh', he ce hce]
        · apply Guards_of_notRFW
          simp only [List.append_eq, List.nil_append, List.all_append, Bool.and_eq_true]
          exact ⟨toCache_notRFW _ _ _ _ _, by simp [notRFW]⟩

/-- `validate_before_wait` (3) = `recover_validates_first` at the level of the rename: every
    `<n>.full → <n>.wait` of `Recover` is executed on a file that recovery has just put into
    state received and whose `.full` body has the hash of the companion it was cached with. -/
theorem validate_before_wait_recover (H : Body → String) (s : State) (now : Int)
    (names : List Name) : Guards (VG H) s (recoverEffects H s now names) := by
  unfold recoverEffects
  extract_lets walk p1 s1 oldest p2 s2 fins vals stepF r3 stepV r4
  have hp1c : p1.all calm = true := by
    simp only [p1, List.all_append, List.all_flatMap, Bool.and_eq_true]
    refine ⟨by simp [calm], ?_⟩
    simp only [List.all_eq_true]
    intro x hx
    simp only [walk, List.mem_map] at hx
    obtain ⟨n, _, rfl⟩ := hx
    exact List.all_eq_true.mp (recoverWalk_calm H s.disk n)
  have hp2c : p2.all calm = true := buildCache_calm s1 _ now
  have hs2 : s2 = run s (p1 ++ p2) := by simp only [s2, s1, run_append]
  have h12 : Guards (VG H) s (p1 ++ p2) :=
    Guards_of_notRFW H s _ (all_easy_notRFW _ (all_calm_easy _ (by simp [List.all_append, hp1c, hp2c])))
  have h3 := Guards_foldl (G := VG H) (fun _ => True) stepF fins
    (by
      intro acc x _ _
      refine ⟨_, rfl, ?_, trivial⟩
      apply Guards_of_notRFW
      rw [List.all_append, toCache_notRFW]; simp [notRFW])
    s2 (s2, []) trivial rfl trivial
  have h4 := Guards_foldl (G := VG H) (fun _ => True) stepV vals
    (by
      intro acc x _ _
      refine ⟨recoverValOne H acc.1 now x, rfl, ?_, trivial⟩
      rcases recoverValOne_cases H acc.1 now x with ⟨_, h⟩ | ⟨_, h⟩ <;> rw [h]
      · exact Guards_of_notRFW H _ _ (by simp [notRFW])
      · apply Guards.append
        · exact Guards_of_notRFW H _ _ (toCache_notRFW _ _ _ _ _)
        · apply processCore_VG H _ _ _ _ _ rfl rfl
          intro ce hce
          obtain ⟨ce', hce', hh, _⟩ := toCache_cache acc.1 acc.1.mem x.1 (Entry.ofCmp x.2 .received)
            .received now (by decide)
          rw [hce'] at hce
          cases hce
          exact hh)
    s2 r3 trivial h3.2.1 h3.1
  have hall : Guards (VG H) s ((p1 ++ p2) ++ r4.2 ++ [Prim.setReady true]) := by
    apply Guards.append
    · apply Guards.append h12
      rw [← hs2]; exact h4.1
    · exact Guards_of_notRFW H _ _ (by simp [notRFW])
  simpa [List.append_assoc] using hall

end Sts.Stage
