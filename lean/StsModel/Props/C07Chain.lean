/-
  C07 / C10 — after a sender restart the ordering chain continues from the files handled
  before the crash.

  client.recover() queues a fully allocated placeholder for every file the receiver holds
  completely (harness op `push <name> <size> <time> rec -`). Tagged.Pop drops such
  placeholders from the head of their group (the loop `for next != nil && next.isAllocated()`,
  Model/Queue.lean `skipLoop`), and the first file behind them that still has bytes to send
  must announce the LAST dropped placeholder as its predecessor: only then does the receiver
  hold that file back until the file the placeholder stands for has been released.

  * `chain_continues_after_placeholders`        full (one well-formed group; skip loop, scan, emit)
  * `chain_continues_after_placeholders_pop`    full (every history of Push and Pop from the empty queue)
  * `pop_announces_anchor`                      full (every chunk of a plain file of an ordered group announces the
                                                group's anchor; with pushFile_anchor / emit_anchor / scanned_anchor
                                                this is the rule of the harness oracle `prev-chain-anchor`)
  * `chain_resumed_survivor_own_prev`           witness: the hypothesis `hplain` is needed (a resumed
                                                survivor announces its own recorded predecessor)
  * `broken_loop_loses_link`                    witness: a loop that unlinks the dropped file itself
                                                (`skipLoopBroken`) makes the survivor announce nothing,
                                                or the file before the placeholders
-/
import StsModel.Lemmas.QueuePlaceholder
import StsModel.Props.C10

namespace Sts.Queue

theorem getPrevName_plain {ns : Nodes} {n p : Nat} (hr : (fileOf ns n).rcv = none) (hp : getPrev ns n = some p) :
    getPrevName ns n = nodeName ns p := by
  unfold getPrev at hp
  unfold fileOf at hr
  unfold getPrevName
  cases hn : ns[n]? with
  | none => rw [hn] at hp; cases hp
  | some nd =>
    rw [hn] at hp hr
    simp only [Option.bind_some] at hp
    simp only at hr
    simp only [hr, hp]

/-- C07 / C10 `chain_continues_after_placeholders`. For every well-formed group of an ordered
    tag: if Pop's skip loop drops `k >= 1` files from the head of the list and a file `n`
    survives as the candidate, then
    * the dropped files are the first `k` listed files, every one fully allocated (a
      placeholder, or a file emitted completely), and `n` is the listed file right behind them;
    * the node store of the scanned group (the state in which Pop cuts the next chunk) is the
      one the loop left, and in it `n`, if it is not a resumed file (`hplain`), is linked
      behind the LAST dropped file `p = list[k-1]`: `getPrevName` is `p`'s name;
    * that is the predecessor the chunk `emit` cuts from `n` announces; the clause of `emit`
      that blanks a self-reference never applies, because a well-formed list carries
      pairwise different names (`p`'s name is not `n`'s).
    `now` only decides whether the scan serves `n` now or holds it back as a young last file;
    the state is the same either way. -/
theorem chain_continues_after_placeholders {g : GroupSt} (h : g.WF) (ho : g.conf.order ≠ Order.none) (now : Int)
    {n : Nat} (hs : (skipLoop (g.nodes.length + 1) g g.head 0).2.1 = some n)
    (hk : 1 ≤ (skipLoop (g.nodes.length + 1) g g.head 0).2.2)
    (hplain : (fileOf g.nodes n).rcv = none) :
    ∃ p, g.list[(skipLoop (g.nodes.length + 1) g g.head 0).2.2 - 1]? = some p ∧
      g.list[(skipLoop (g.nodes.length + 1) g g.head 0).2.2]? = some n ∧
      (∀ i, i < (skipLoop (g.nodes.length + 1) g g.head 0).2.2 →
        ∃ q, g.list[i]? = some q ∧ isAllocated g.nodes q = true) ∧
      (g.scan now).1.nodes = (skipLoop (g.nodes.length + 1) g g.head 0).1.nodes ∧
      getPrevName (g.scan now).1.nodes n = nodeName g.nodes p ∧
      ((g.scan now).1.emit n).2.prev = nodeName g.nodes p ∧
      nodeName g.nodes p ≠ nodeName g.nodes n := by
  obtain ⟨r1, r2, _⟩ := skipLoop_spec (g.nodes.length + 1) h (by have := h.list_length_le; omega) 0
  rw [r1] at hk ⊢
  rw [r2] at hs
  simp only [Nat.zero_add] at hk ⊢
  obtain ⟨p, hp, hpa, hn, hall, hgp, hne, hemit⟩ := scan_chain_continues h now hs hk
  have hsc := scanned_spec h now
  refine ⟨p, hp, hn, hall, scan_nodes g now, ?_, hemit ho hplain, hne⟩
  have hr : (fileOf (g.scanned now).nodes n).rcv = none := by rw [hsc.2.2.2.1.fileOf]; exact hplain
  have := getPrevName_plain hr hgp
  rw [hsc.2.2.2.1.nodeName] at this
  exact this

/-- the same for the chunk a Pop returns after any history of Push and Pop from the empty
    queue: the served file is the listed file behind the dropped ones, and if at least one
    was dropped, the tag is ordered and the file is not a resumed one, the chunk announces
    the last dropped file (a fully allocated file of the same group), never itself. -/
theorem chain_continues_after_placeholders_pop (c : Conf) (ops : List Op) (now : Int) {s' : State} {ch : Chunk}
    (hp : pop (run c [] ops).1 now = (s', some ch)) :
    ∃ g ∈ (run c [] ops).1, g.name = ch.group ∧ g.list[skipCount g.nodes g.list]? = some ch.id ∧
      (1 ≤ skipCount g.nodes g.list → g.conf.order ≠ Order.none → ch.recovered = false →
        ∃ p, g.list[skipCount g.nodes g.list - 1]? = some p ∧ isAllocated g.nodes p = true ∧
          ch.prev = nodeName g.nodes p ∧ ch.prev ≠ ch.name) := by
  have hh := hist_reachable c ops
  generalize (run c [] ops).1 = s at hp hh
  generalize (run c [] ops).2 = as at hh
  have h := hh.wf
  obtain ⟨pre, g, rest, n, e1, _, e3, e4, _⟩ := pop_some_spec h hp
  have hgs : g ∈ s := by rw [e1]; simp
  have hgw := h.groups g hgs
  obtain ⟨rest', hl, _, _⟩ := nextFile_head hgw e3
  have hsc := scanned_spec hgw now
  have hem := emit_spec hsc.1 hl
  obtain ⟨_, hrec⟩ := emit_prev_eq hsc.1 hl
  have hgrp : ch.group = g.name := by rw [e4, hem.2.2.2.2.2.2.2.2.2.2.1, hsc.2.2.1]
  have hname : ch.name = nodeName g.nodes n := by rw [e4, hem.2.2.2.2.2.2.2.2.2.1, hsc.2.2.2.1.nodeName]
  have hid : ch.id = n := by rw [e4]; exact hem.2.2.2.2.2.2.2.2.2.2.2
  have hcand : candidate g.nodes g.list = some n := by
    rw [candidate_eq_find]
    unfold GroupSt.nextFile at e3
    by_cases hr : g.ready now = true
    · simpa [hr] using e3
    · simp [hr] at e3
  have hn : g.list[skipCount g.nodes g.list]? = some n := by
    obtain ⟨rest2, hdr, _⟩ := candidate_head hcand
    have : (g.list.drop (skipCount g.nodes g.list))[0]? = some n := by rw [hdr]; rfl
    rw [List.getElem?_drop] at this; simpa using this
  refine ⟨g, hgs, hgrp.symm, by rw [hid]; exact hn, fun hk ho hr => ?_⟩
  obtain ⟨p, hp1, hpa, _, _, _, hne, hemit⟩ := scan_chain_continues hgw now hcand hk
  have hplain : (fileOf g.nodes n).rcv = none := by
    rw [← e4, hsc.2.2.2.1.fileOf] at hrec
    rw [hrec] at hr
    cases hx : (fileOf g.nodes n).rcv with
    | none => rfl
    | some r => rw [hx] at hr; cases hr
  have hprev : ch.prev = nodeName g.nodes p := by rw [e4]; exact hemit ho hplain
  exact ⟨p, hp1, hpa, hprev, by rw [hprev, hname]; exact hne⟩

/-- the general rule the harness oracle `prev-chain-anchor` replays: after any history, a chunk of
    a file that is not a resumed one, in a group of an ordered tag, announces the anchor of its
    scanned group (`GroupSt.anchorName`; nothing if that is the file's own name). The anchor is
    kept by Push (`pushFile_anchor`), becomes the served file when Pop has emitted it completely
    (`emit_anchor`), and becomes the last file the skip loop drops (`scanned_anchor`). -/
theorem pop_announces_anchor (c : Conf) (ops : List Op) (now : Int) {s' : State} {ch : Chunk}
    (hp : pop (run c [] ops).1 now = (s', some ch)) :
    ∃ g ∈ (run c [] ops).1, g.name = ch.group ∧
      (g.scanned now).anchor =
        (if 1 ≤ skipCount g.nodes g.list then g.list[skipCount g.nodes g.list - 1]? else g.anchor) ∧
      (g.conf.order ≠ Order.none → ch.recovered = false →
        ch.prev = if (g.scanned now).anchorName = ch.name then "" else (g.scanned now).anchorName) := by
  have hh := hist_reachable c ops
  generalize (run c [] ops).1 = s at hp hh
  generalize (run c [] ops).2 = as at hh
  have h := hh.wf
  obtain ⟨pre, g, rest, n, e1, _, e3, e4, _⟩ := pop_some_spec h hp
  have hgs : g ∈ s := by rw [e1]; simp
  have hgw := h.groups g hgs
  obtain ⟨rest', hl, _, _⟩ := nextFile_head hgw e3
  have hsc := scanned_spec hgw now
  have hem := emit_spec hsc.1 hl
  obtain ⟨hpe, hrec⟩ := emit_prev_eq hsc.1 hl
  have hgrp : ch.group = g.name := by rw [e4, hem.2.2.2.2.2.2.2.2.2.2.1, hsc.2.2.1]
  have hname : ch.name = nodeName (g.scanned now).nodes n := by rw [e4, hem.2.2.2.2.2.2.2.2.2.1]
  refine ⟨g, hgs, hgrp.symm, scanned_anchor hgw now, fun ho hr => ?_⟩
  have hplain : (fileOf (g.scanned now).nodes n).rcv = none := by
    rw [← e4] at hrec
    rw [hrec] at hr
    cases hx : (fileOf (g.scanned now).nodes n).rcv with
    | none => rfl
    | some r => rw [hx] at hr; cases hr
  have hanc : (g.scanned now).anchor = getPrev (g.scanned now).nodes n := by
    unfold GroupSt.anchor; rw [hl]
  have ho' : ((g.scanned now).conf.order != Order.none) = true := by rw [hsc.2.1]; simpa using ho
  rw [e4, hpe, hplain, ← e4, hname]
  simp only [ho', if_true]
  unfold GroupSt.anchorName
  rw [hanc]
  cases hgp : getPrev (g.scanned now).nodes n with
  | none => simp
  | some p =>
    simp only []
    generalize nodeName (g.scanned now).nodes p = raw
    generalize nodeName (g.scanned now).nodes n = nm
    by_cases h1 : raw = nm
    · simp [h1]
    · have : (raw == nm) = false := by simpa using h1
      simp [h1, this]

/-! ## non-vacuity: two placeholders and a plain file -/

def chConf : Conf := { tags := [⟨"t", 0, .fifo, 0, 0⟩], tagger := fun _ => "t", grouper := fun _ => "g" }
/-- a placeholder as client.recover() queues it: a Recovered file with nothing left to send -/
def chP1 : FileInfo := ⟨"g/p1", 10, 1, some ⟨"", [], 0, 0⟩⟩
def chP2 : FileInfo := ⟨"g/p2", 10, 2, some ⟨"", [], 0, 0⟩⟩
def chX : FileInfo := ⟨"g/x", 5, 3, none⟩
def chOps : List Op := [.push chP1, .push chP2, .push chX]
/-- the group after the restart: list = [p1, p2, x] -/
def chGroup : GroupSt := ((run chConf [] chOps).1.head?).getD default

theorem chGroup_wf : chGroup.WF :=
  (list_sorted chConf chOps chGroup (List.mem_of_head? (by rfl))).2

/-- the hypotheses of `chain_continues_after_placeholders` hold for a concrete group with two
    placeholders and a plain file, and the file announces the second placeholder -/
example : chGroup.WF ∧ chGroup.conf.order ≠ Order.none ∧ chGroup.list = [0, 1, 2] ∧
    (skipLoop (chGroup.nodes.length + 1) chGroup chGroup.head 0).2.1 = some 2 ∧
    (skipLoop (chGroup.nodes.length + 1) chGroup chGroup.head 0).2.2 = 2 ∧
    (fileOf chGroup.nodes 2).rcv = none ∧
    ((chGroup.scan 100).1.emit 2).2.prev = "g/p2" ∧
    (pop (run chConf [] chOps).1 100).2.map (fun ch => (ch.name, ch.prev)) = some ("g/x", "g/p2") :=
  ⟨chGroup_wf, by decide, by decide, by decide, by decide, rfl, by decide, by decide⟩

/-! ## the hypothesis `hplain` is needed -/

/-- a resumed file (own recorded predecessor `g/zz`, bytes 2..5 missing) behind the placeholders -/
def chR : FileInfo := ⟨"g/x", 5, 3, some ⟨"g/zz", [⟨2, 5⟩], 0, 0⟩⟩
def chGroupR : GroupSt := ((run chConf [] [.push chP1, .push chP2, .push chR]).1.head?).getD default

/-- without `hplain` the statement fails: a resumed survivor behind two dropped placeholders
    announces the predecessor it was recovered with, not the last placeholder (this is the
    rule `prev_safe` states for resumed files). -/
theorem chain_resumed_survivor_own_prev :
    (skipLoop (chGroupR.nodes.length + 1) chGroupR chGroupR.head 0).2.1 = some 2 ∧
    (skipLoop (chGroupR.nodes.length + 1) chGroupR chGroupR.head 0).2.2 = 2 ∧
    chGroupR.conf.order ≠ Order.none ∧
    (fileOf chGroupR.nodes 2).rcv.isSome = true ∧
    ((chGroupR.scan 100).1.emit 2).2.prev = "g/zz" ∧
    nodeName chGroupR.nodes 1 = "g/p2" := by
  refine ⟨by decide, by decide, by decide, by decide, by decide, by decide⟩

/-! ## a loop that unlinks the dropped file itself loses the link -/

/-- Pop's inner loop with the body `prev = next; next = next.next; prev.unlink()` in place of
    `prev = next.prev; next = next.next; if prev != nil { prev.unlink() }`: the dropped file
    itself is taken out of the chain. -/
def skipLoopBroken : Nat → GroupSt → Option Nat → Nat → GroupSt × Option Nat × Nat
  | _, g, none, adv => (g, none, adv)
  | 0, g, some _, adv => (g, none, adv)
  | fuel + 1, g, some n, adv =>
    if !isAllocated g.nodes n then (g, some n, adv)
    else match getNext g.nodes n with
      | none => (g, none, adv)
      | some nn =>
        let g := g.removeFile n
        let g := { g with nodes := unlink g.nodes n }
        skipLoopBroken fuel g (some nn) (adv + 1)

/-- `GroupSt.scan` with the broken loop -/
def GroupSt.scanBroken (g : GroupSt) (now : Int) : GroupSt × Option Nat :=
  let (g, next, adv) := skipLoopBroken (g.nodes.length + 1) g g.head 0
  let g := { g with list := if adv > 0 then g.list.drop adv else g.list }
  match next with
  | none => (g, none)
  | some n =>
    if g.conf.lastDelay > 0 && (getNext g.nodes n).isNone && now - nodeTime g.nodes n < g.conf.lastDelay then
      (g, none)
    else (g, some n)

/-- a file `a` sent completely before the placeholders arrive: a (done, kept as head), then p1, x -/
def chA : FileInfo := ⟨"g/a", 4, 0, none⟩
def chGroupA : GroupSt :=
  ((run chConf [] [.push chA, .pop 100, .push chP1, .push chX]).1.head?).getD default

/-- With the broken loop the survivor of `[p1, p2, x]` announces nothing (correct loop: `g/p2`),
    and the survivor of `[p1, x]` with the completed file `a` in front announces `a`, the file
    before the placeholder (correct loop: `g/p1`). In both cases the loop drops the same files
    and picks the same candidate; only the link differs. -/
theorem broken_loop_loses_link :
    ((chGroup.scanBroken 100).2 = some 2 ∧ (chGroup.scan 100).2 = some 2 ∧
      (chGroup.scanBroken 100).1.list = [2] ∧ (chGroup.scan 100).1.list = [2] ∧
      ((chGroup.scanBroken 100).1.emit 2).2.prev = "" ∧
      ((chGroup.scan 100).1.emit 2).2.prev = "g/p2") ∧
    (chGroupA.list = [1, 2] ∧ (chGroupA.scanBroken 100).2 = some 2 ∧ (chGroupA.scan 100).2 = some 2 ∧
      ((chGroupA.scanBroken 100).1.emit 2).2.prev = "g/a" ∧
      ((chGroupA.scan 100).1.emit 2).2.prev = "g/p1") := by
  refine ⟨⟨by decide, by decide, by decide, by decide, by decide, by decide⟩,
    ⟨by decide, by decide, by decide, by decide, by decide⟩⟩

end Sts.Queue
