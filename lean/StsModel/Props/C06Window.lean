/-
  C06 and the split finalize handler. The classification theorems of Props/C06.lean and
  Props/C06Class.lean are stated for EVERY state (class at the crash point = a function of the
  four staged files of the name), so they cover every crash point of the split semantics
  as they stand. Here: the crash mechanics of the two new crash points — a crash while the
  handler holds an item (in the window) and a crash inside the locked phase.
-/
import StsModel.Props.C06
import StsModel.Props.C01Window

namespace Sts.Stage

theorem finhDecide_mem (s : State) (n : Name) (now : Int) :
    (finhDecideEffects s n now).all (fun p => !p.durable) = true := by
  unfold finhDecideEffects
  split
  · rfl
  · simp only [List.all_append, Bool.and_eq_true]
    refine ⟨by simp [Prim.durable], ?_⟩
    split
    · rfl
    · split
      · rfl
      · simp only [List.all_append, Bool.and_eq_true]
        refine ⟨⟨by simp [Prim.durable], ?_⟩, by simp [Prim.durable]⟩
        split <;> simp [Prim.durable]

/-- the decision phase touches nothing durable … -/
theorem finhDecide_keeps_disk (H : Body → String) (w : WState) (n : Name) (now : Int) :
    (wstep H w (.finhDecide n now)).st.disk = w.st.disk := by
  simp only [wstep]
  cases w.held with
  | some _ => rfl
  | none => exact run_disk_of_mem _ _ (finhDecide_mem w.st n now)

/-- … so a crash in the window right after it leaves exactly the crash image of a bare crash
    before the handler took the item: nothing new for Recover to classify. -/
theorem window_crash_is_plain_crash (H : Body → String) (s : State) (n : Name) (now : Int) :
    wstep H (wstep H ⟨s, none⟩ (.finhDecide n now)) (.ev .crash) = ⟨step H s .crash, none⟩ := by
  have hd := finhDecide_keeps_disk H ⟨s, none⟩ n now
  simp only [wstep, step, crash] at hd ⊢
  rw [hd]

/-- `durable_prefix` for a crash inside the locked phase: the disk is the disk after a prefix
    of `finalize`'s primitives (computed for the held item on the state of that moment) with at
    most `k` durable steps; memory is empty and the handler holds nothing. -/
theorem cutFinhDo_durable_prefix (H : Body → String) (w : WState) (n : Name) (e : Entry)
    (k : Nat) (now : Int) (hh : w.held = some (n, e)) :
    ∃ pre post, finhDoEffects w.st n e now = pre ++ post ∧ durableCount pre ≤ k ∧
      (wstep H w (.cutFinhDo k now)).st.disk = (run w.st pre).disk ∧
      (wstep H w (.cutFinhDo k now)).held = none ∧
      (∀ m, (wstep H w (.cutFinhDo k now)).st.mem.cache m = none) ∧
      (wstep H w (.cutFinhDo k now)).st.mem.fq = [] ∧
      (durableCount (finhDoEffects w.st n e now) < k → post = []) := by
  obtain ⟨qs, hq⟩ := cut_prefix k (finhDoEffects w.st n e now)
  refine ⟨cut k (finhDoEffects w.st n e now), qs, hq, cut_durableCount _ _, ?_, ?_, ?_, ?_, ?_⟩
  · simp [wstep, hh, crash]
  · simp [wstep, hh]
  · intro m; simp [wstep, hh, crash]
  · simp [wstep, hh, crash]
  · intro hk
    have := cut_all k _ hk
    rw [this] at hq
    have hlen := congrArg List.length hq
    simp only [List.length_append] at hlen
    exact List.eq_nil_of_length_eq_zero (by omega)

/-- non-vacuity: the crash after the log record of the stale-free `goodRun` item, taken through
    the split events, is the crash image `cut 1 finh` of the atomic semantics -/
example : (runW Hs {} ((goodRun.take 6).map .ev ++ [.finhDecide "a" 0, .cutFinhDo 1 0])).st.disk.log =
    (runEvs Hs init (goodRun.take 6 ++ [.cutOp 1 (.finh "a" 0)])).disk.log ∧
    (runW Hs {} ((goodRun.take 6).map .ev ++ [.finhDecide "a" 0, .cutFinhDo 1 0])).st.disk.wait "a" = some 0 ∧
    (runW Hs {} ((goodRun.take 6).map .ev ++ [.finhDecide "a" 0, .cutFinhDo 1 0])).st.disk.log.length = 1 :=
  ⟨by decide, by decide, by decide⟩

end Sts.Stage
