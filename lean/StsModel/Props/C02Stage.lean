/-
  C02 / C06, receiver side (stage/local.go GetFileStatus, finalize, Recover, buildCache).

  C02: "the receiver answers positively only for content it durably holds validated
        (awaiting release or already delivered and logged)".
  C06: "nothing that was reported as validated is lost or left undelivered".

  * `positive_only_if_durably_validated`: a positive status answer (ConfirmPassed = 2,
    ConfirmWaiting = 3) is backed by a validated `<n>.wait` file whose bytes hash to the cached
    hash, or by a receive-log record of that name and hash.
  * `validated_survives_crash`: a validated `.wait` file whose companion records the same hash
    is re-cached as validated and re-queued for finalising by `Recover` after a crash.
    The companion is a HYPOTHESIS: "validated with `.wait` ⇒ companion of the same hash" is not
    an invariant of the code (`companion_not_invariant`: a reception of another version of the
    name rewrites `<n>.cmp` while the validated file waits; after a crash `Recover` then
    ignores the waiting file, `superseded_wait_ignored_by_recover`).
  * `logged_survives_crash`: a receive-log record survives every event; after a crash,
    `Recover` and a `buildCache` that visits the record's day, a name known only from the log
    answers ConfirmPassed.
-/
import StsModel.Lemmas.StageDurable
import StsModel.Lemmas.StageLoggedHash
import StsModel.Props.C01
import StsModel.Props.C04

namespace Sts.Stage
open Dur

/-! ## (1) a positive answer is backed by durable state -/

/-- **C02, receiver clause.** In every state reachable by allowed events (`ReachableOk`: no
    write through a stale handle, corruption only of `.part` / `.full`; every interleaving,
    crash point and restart), if `GetFileStatus` answers ConfirmPassed (2) or ConfirmWaiting (3)
    for `n`, then either the cached entry is validated, `<n>.wait` exists and its bytes hash to
    the cached hash, or the receive log has a record of `n` with the cached hash. -/
theorem positive_only_if_durably_validated {H : Body → String} {s : State} (hr : ReachableOk H s)
    (n : Name) (e : Entry) (hc : s.mem.cache n = some e) (h : statusAnswer s n ≥ 2) :
    (e.state = .validated ∧ ∃ i, s.disk.wait n = some i ∧ H (s.disk.body i) = e.hash) ∨
    (∃ r ∈ s.disk.log, r.name = n ∧ r.hash = e.hash) := by
  have hst := positive_only_validated s n h
  simp only [stateOf, hc, Option.map_some, Option.some.injEq] at hst
  rcases hst with hst | hst | hst
  · left
    obtain ⟨i, hi⟩ := validated_has_wait hr.reachable n e hc hst
    exact ⟨hst, i, hi, wait_inv hr n i e hi hc hst⟩
  · exact Or.inr (finalized_implies_logged_hash hr.reachable n e hc (Or.inl hst))
  · exact Or.inr (finalized_implies_logged_hash hr.reachable n e hc (Or.inr hst))

/-- the part of (1) that needs no hypothesis on the run: over ALL reachable states a positive
    answer means "validated and `<n>.wait` exists" or "logged with the cached hash". (What the
    OK-run hypotheses add is that the bytes of `<n>.wait` still hash to the cached hash.) -/
theorem positive_has_artefact {H : Body → String} {s : State} (hr : Reachable H s)
    (n : Name) (e : Entry) (hc : s.mem.cache n = some e) (h : statusAnswer s n ≥ 2) :
    (e.state = .validated ∧ ∃ i, s.disk.wait n = some i) ∨
    (∃ r ∈ s.disk.log, r.name = n ∧ r.hash = e.hash) := by
  have hst := positive_only_validated s n h
  simp only [stateOf, hc, Option.map_some, Option.some.injEq] at hst
  rcases hst with hst | hst | hst
  · exact Or.inl ⟨hst, validated_has_wait hr n e hc hst⟩
  · exact Or.inr (finalized_implies_logged_hash hr n e hc (Or.inl hst))
  · exact Or.inr (finalized_implies_logged_hash hr n e hc (Or.inr hst))

/-! ## (3, first half) the receive log only grows -/

/-- **C06.** A receive-log record survives every event: complete operations, operations cut by
    a crash at any durable step, bare crashes. -/
theorem logged_survives_crash (H : Body → String) (s : State) (ev : Ev) (r : LogRec)
    (h : r ∈ s.disk.log) : r ∈ (step H s ev).disk.log := by
  cases ev with
  | op o => exact mem_run_log s _ r h
  | cutOp k o => exact mem_run_log s _ r h
  | crash => exact h

theorem logged_survives_run (H : Body → String) (evs : List Ev) (s : State) (r : LogRec)
    (h : r ∈ s.disk.log) : r ∈ (runEvs H s evs).disk.log := by
  induction evs generalizing s with
  | nil => exact h
  | cons e es ih => exact ih _ (logged_survives_crash H s e r h)

/-! ## (2) a validated waiting file survives a crash -/

/-- **C06, validated files.** Let `<n>.wait` exist with bytes hashing to `h`, and let the
    companion `<n>.cmp` record the same hash (HYPOTHESIS `hc`/`hch`, see
    `companion_not_invariant`). Then after a crash and `Recover` (walking any list of names that
    contains `n`) the cache holds `n` in state validated with hash `h` and the companion's
    renamed target, predecessor and size, and an item for `n` with the same metadata is in the
    finalize queue. No hypothesis on `s` is needed (it need not even be reachable); the list of
    names may contain duplicates. -/
theorem validated_survives_crash (H : Body → String) (s : State) (n : Name) (h : String) (i : Nat)
    (c : Cmp) (now : Int) (names : List Name) (hn : n ∈ names)
    (hw : s.disk.wait n = some i) (hh : H (s.disk.body i) = h)
    (hc : s.disk.cmp n = some c) (hch : c.hash = h) :
    (∃ e', (step H (step H s .crash) (.op (.recover now names))).mem.cache n = some e' ∧
        e'.state = .validated ∧ e'.hash = h ∧ e'.renamed = c.renamed ∧ e'.prev = c.prev ∧
        e'.size = c.size) ∧
    (∃ q, (n, q) ∈ (step H (step H s .crash) (.op (.recover now names))).mem.fq ∧
        q.state = .validated ∧ q.hash = h ∧ q.renamed = c.renamed ∧ q.prev = c.prev ∧
        q.size = c.size) := by
  have hcls : (recoverWalk H (crash s).disk n).2 = .finalize c :=
    (recover_finalize_iff H s.disk n c).mpr ⟨hc, i, hw, by rw [hh, hch]⟩
  have := recover_restores H (crash s) now names n c hn hcls
  subst hch
  exact this

/-- (1) and (2) together: a positive answer for a validated file whose companion still records
    the cached hash is honoured after a crash — the file is validated again and queued for
    delivery. -/
theorem positive_validated_survives_crash {H : Body → String} {s : State} (hr : ReachableOk H s)
    (n : Name) (e : Entry) (c : Cmp) (now : Int) (names : List Name) (hn : n ∈ names)
    (hce : s.mem.cache n = some e) (hst : e.state = .validated)
    (hc : s.disk.cmp n = some c) (hch : c.hash = e.hash) :
    (∃ e', (step H (step H s .crash) (.op (.recover now names))).mem.cache n = some e' ∧
        e'.state = .validated ∧ e'.hash = e.hash ∧ e'.renamed = c.renamed ∧ e'.prev = c.prev ∧
        e'.size = c.size) ∧
    (∃ q, (n, q) ∈ (step H (step H s .crash) (.op (.recover now names))).mem.fq ∧
        q.state = .validated ∧ q.hash = e.hash ∧ q.renamed = c.renamed ∧ q.prev = c.prev ∧
        q.size = c.size) := by
  obtain ⟨i, hi⟩ := validated_has_wait hr.reachable n e hce hst
  exact validated_survives_crash H s n e.hash i c now names hn hi (wait_inv hr n i e hi hce hst) hc hch

/-! ## (3, second half) a delivered file is still answered ConfirmPassed after a restart -/

/-- General form: `n` is a name for which the walk of `Recover` finds nothing to finalize or to
    validate. `ct = oldest companion mtime − 1 day` is where the cache starts after `Recover`.
    If the log has a record of `n` whose day file is visited by Recover's own cache build
    (`ct … now`), or by the `buildCache frm` of the next status request (`frm … ct`, `frm < ct`),
    the answer is ConfirmPassed. -/
theorem logged_answers_after_restart_gen (H : Body → String) (s : State) (now now2 frm : Int)
    (names : List Name) (n : Name) (r : LogRec)
    (hr : r ∈ s.disk.log) (hrn : r.name = n) (hcls : (recoverWalk H s.disk n).2 = .nothing)
    (hvis :
      (dayOf r.time ∈ visitedDays (minMtime s.disk now names - 86400) now ∧ r.time ≤ now) ∨
      (frm < minMtime s.disk now names - 86400 ∧
        dayOf r.time ∈ visitedDays frm (minMtime s.disk now names - 86400) ∧
        r.time ≤ minMtime s.disk now names - 86400)) :
    statusAnswer (step H (step H (step H s .crash) (.op (.recover now names)))
      (.op (.buildCache frm now2))) n = 2 := by
  obtain ⟨hct, hNL, hlog⟩ := recover_crashed_logged H s now names n hcls
  have hs3 : step H (step H s .crash) (.op (.recover now names)) =
      run (crash s) (recoverEffects H (crash s) now names) := rfl
  rw [hs3]
  generalize hs3' : run (crash s) (recoverEffects H (crash s) now names) = s3 at *
  have hr3 : r ∈ s3.disk.log := by
    rw [← hs3']; exact mem_run_log (crash s) _ r hr
  have hL : IsLogged n (run s3 (buildCacheEffects s3 frm now2)) := by
    apply buildCache_logged s3 frm now2 _ n hct hNL
    rcases hvis with ⟨hd, hle⟩ | ⟨hlt, hd, hle⟩
    · exact Or.inl (hlog ⟨r, (mem_buildRecs s _ _ r).mpr ⟨hr, hd, hle⟩, hrn⟩)
    · exact Or.inr ⟨hlt, r, (mem_buildRecs s3 _ _ r).mpr ⟨hr3, hd, hle⟩, hrn⟩
  obtain ⟨e, he, hst⟩ := hL
  show statusAnswer (run s3 (buildCacheEffects s3 frm now2)) n = 2
  simp [statusAnswer, stateOf, he, hst]

/-- **C06, delivered files.** A name known only from the receive log (no companion: nothing is
    staged for it) answers ConfirmPassed after crash, `Recover` and the `buildCache frm` of the
    status request, provided the day file of its record is visited: by Recover's cache build
    (days from `oldest companion mtime − 1 day` to `now`) or by `buildCache frm` (days from
    `frm` to there). -/
theorem logged_answers_after_restart (H : Body → String) (s : State) (now now2 frm : Int)
    (names : List Name) (n : Name) (r : LogRec)
    (hr : r ∈ s.disk.log) (hrn : r.name = n) (hcmp : s.disk.cmp n = none)
    (hvis :
      (dayOf r.time ∈ visitedDays (minMtime s.disk now names - 86400) now ∧ r.time ≤ now) ∨
      (frm < minMtime s.disk now names - 86400 ∧
        dayOf r.time ∈ visitedDays frm (minMtime s.disk now names - 86400) ∧
        r.time ≤ minMtime s.disk now names - 86400)) :
    statusAnswer (step H (step H (step H s .crash) (.op (.recover now names)))
      (.op (.buildCache frm now2))) n = 2 :=
  logged_answers_after_restart_gen H s now now2 frm names n r hr hrn
    (by rw [recoverWalk_none H s.disk n hcmp]) hvis

/-! ## non-vacuity: concrete runs (hash function `Hs`, file "a" = bytes [1, 2] of Props/C01) -/

/-- "a" received, validated, not yet finalized (the first six events of `goodRun`) -/
def c02ValRun : List Ev :=
  [ .op (.prepare "a" 2 0), .op (.recvOpen 1 "a"), .op (.recvOpen 2 "a"),
    .op (.recvWrite 1 0 [1, 2] 0), .op (.record "a" metaA 0 2 0), .op (.process "a" 0) ]

theorem c02ValRun_ok : OkRun Hs init c02ValRun := by
  simp only [c02ValRun, OkRun, EvOk, OpOk, true_and, and_true]
  exact ⟨0, "a", by decide, by decide⟩

def c02MetaB : Meta := { renamed := "", prev := "a", size := 2, hash := "[3, 4]" }

/-- "b" (predecessor "a", which is unknown) received, validated and parked by the finalize
    handler: the answer is ConfirmWaiting -/
def c02ParkRun : List Ev :=
  [ .op (.prepare "b" 2 0), .op (.recvOpen 1 "b"), .op (.recvWrite 1 0 [3, 4] 0),
    .op (.record "b" c02MetaB 0 2 0), .op (.process "b" 0), .op (.finh "b" 0) ]

theorem c02ParkRun_ok : OkRun Hs init c02ParkRun := by
  simp only [c02ParkRun, OkRun, EvOk, OpOk, true_and, and_true]
  exact ⟨0, "b", by decide, by decide⟩

/-- (1), first disjunct, answer 2: validated, `a.wait` holds the bytes with the cached hash -/
example : ReachableOk Hs (runEvs Hs init c02ValRun) ∧
    statusAnswer (runEvs Hs init c02ValRun) "a" = 2 ∧
    stateOf (runEvs Hs init c02ValRun).mem "a" = some .validated ∧
    (runEvs Hs init c02ValRun).disk.wait "a" = some 0 ∧
    Hs ((runEvs Hs init c02ValRun).disk.body 0) = "[1, 2]" ∧
    (runEvs Hs init c02ValRun).disk.log = [] :=
  ⟨⟨c02ValRun, c02ValRun_ok, rfl⟩, by decide, by decide, by decide, by decide, by decide⟩

/-- (1), first disjunct, answer 3 (ConfirmWaiting) -/
example : ReachableOk Hs (runEvs Hs init c02ParkRun) ∧
    statusAnswer (runEvs Hs init c02ParkRun) "b" = 3 ∧
    (runEvs Hs init c02ParkRun).disk.wait "b" = some 0 ∧
    Hs ((runEvs Hs init c02ParkRun).disk.body 0) = "[3, 4]" ∧
    (runEvs Hs init c02ParkRun).disk.log = [] :=
  ⟨⟨c02ParkRun, c02ParkRun_ok, rfl⟩, by decide, by decide, by decide, by decide⟩

/-- (1), second disjunct: after the finalize handler ran, "a" is delivered, `a.wait` is gone,
    the answer is still 2 and is backed by the log record -/
example : ReachableOk Hs (runEvs Hs init goodRun) ∧
    statusAnswer (runEvs Hs init goodRun) "a" = 2 ∧
    stateOf (runEvs Hs init goodRun).mem "a" = some .finalized ∧
    (runEvs Hs init goodRun).disk.wait "a" = none ∧
    (runEvs Hs init goodRun).disk.log = [⟨"a", "", "[1, 2]", 2, 0, ""⟩] :=
  ⟨⟨goodRun, goodRun_ok, rfl⟩, by decide, by decide, by decide, by decide⟩

/-- the point inside `finalize` where "validated ⇒ `.wait` exists" fails (after the move,
    before the cache update): it is a state of the primitive-level run, but not a state the
    receiver can be observed in — `validated_has_wait` is about operation boundaries and crash
    images. Here: the first five primitives of `finh "a"` run from the state after `c02ValRun`. -/
example :
    let t := run (runEvs Hs init c02ValRun) ((finhEffects (runEvs Hs init c02ValRun) "a" 0).take 5)
    stateOf t.mem "a" = some .validated ∧ t.disk.wait "a" = none ∧ t.disk.final "a" = some 0 :=
  ⟨by decide, by decide, by decide⟩

/-- (2): the hypotheses hold after `c02ValRun` (`.wait` and companion with the same hash), and
    after crash + Recover "a" is validated again and queued -/
example :
    (runEvs Hs init c02ValRun).disk.wait "a" = some 0 ∧
    Hs ((runEvs Hs init c02ValRun).disk.body 0) = "[1, 2]" ∧
    ((runEvs Hs init c02ValRun).disk.cmp "a").map (·.hash) = some "[1, 2]" ∧
    stateOf (step Hs (step Hs (runEvs Hs init c02ValRun) .crash) (.op (.recover 5 ["a"]))).mem "a" =
      some .validated ∧
    (step Hs (step Hs (runEvs Hs init c02ValRun) .crash) (.op (.recover 5 ["a"]))).mem.fq.map (·.1) = ["a"] ∧
    (step Hs (runEvs Hs init c02ValRun) .crash).mem.fq = [] :=
  ⟨by decide, by decide, by decide, by decide, by decide, by decide⟩

/-- (2) through a crash inside `finalize` (after the log record, before the move): the file is
    still `a.wait`, recovery queues it again -/
example :
    let t := runEvs Hs init (c02ValRun ++ [.cutOp 1 (.finh "a" 0)])
    t.disk.wait "a" = some 0 ∧ t.disk.final "a" = none ∧ t.mem.cache "a" = none ∧
    (step Hs t (.op (.recover 5 ["a"]))).mem.fq.map (·.1) = ["a"] :=
  ⟨by decide, by decide, by decide, by decide⟩

/-! ### the companion hypothesis of (2) is needed -/

def c02MetaA2 : Meta := { renamed := "", prev := "", size := 2, hash := "[5, 6]" }

/-- "a" (version [1, 2]) is validated and waits for the finalize handler; the sender starts
    another version of "a" (hash "[5, 6]") and one part of it is recorded -/
def c02SupersedeRun : List Ev := c02ValRun ++
  [ .op (.prepare "a" 2 1), .op (.recvOpen 3 "a"), .op (.recvWrite 3 0 [5] 1),
    .op (.record "a" c02MetaA2 0 1 1) ]

theorem c02SupersedeRun_ok : OkRun Hs init c02SupersedeRun := by
  simp only [c02SupersedeRun, c02ValRun, List.cons_append, List.nil_append, OkRun, EvOk, OpOk, true_and,
    and_true]
  exact ⟨⟨0, "a", by decide, by decide⟩, ⟨1, "a", by decide, by decide⟩⟩

/-- "validated with `.wait` ⇒ the companion records the cached hash" is NOT an invariant, even
    of OK runs: `Receive` rewrites `<n>.cmp` for the version being received while the
    validated earlier version waits. -/
theorem companion_not_invariant :
    ¬ ∀ (H : Body → String) (s : State), ReachableOk H s → ∀ n e i c, s.mem.cache n = some e →
        e.state = .validated → s.disk.wait n = some i → s.disk.cmp n = some c → c.hash = e.hash := by
  intro h
  have hr : ReachableOk Hs (runEvs Hs init c02SupersedeRun) := ⟨c02SupersedeRun, c02SupersedeRun_ok, rfl⟩
  have := h Hs _ hr "a"
    { renamed := "", prev := "", hash := "[1, 2]", size := 2, state := .validated, seq := 1 } 0
    { renamed := "", prev := "", size := 2, hash := "[5, 6]", parts := [⟨0, 1⟩] }
    (by decide) rfl (by decide) (by decide)
  exact absurd this (by decide)

/-- … and then (2) fails (finding): the status answer for "a" was ConfirmPassed; after a crash
    `Recover` ignores `a.wait` (its hash is not the companion's), nothing is cached or queued
    for "a", the answer drops to ConfirmNone, and the validated version stays in `a.wait`
    undelivered. Without the crash the finalize handler delivers it. -/
theorem superseded_wait_ignored_by_recover :
    let s := runEvs Hs init c02SupersedeRun
    let s' := step Hs (step Hs s .crash) (.op (.recover 5 ["a"]))
    statusAnswer s "a" = 2 ∧ s.disk.wait "a" = some 0 ∧ Hs (s.disk.body 0) = "[1, 2]" ∧
    s'.mem.cache "a" = none ∧ s'.mem.fq = [] ∧ s'.disk.wait "a" = some 0 ∧
    statusAnswer (step Hs s' (.op (.buildCache 0 6))) "a" = 0 ∧
    (step Hs s (.op (.finh "a" 2))).disk.final "a" = some 0 :=
  ⟨by decide, by decide, by decide, by decide, by decide, by decide, by decide, by decide⟩

/-! ### (3) -/

/-- (3), record found by Recover's own cache build: "a" was delivered at time 0, the process
    dies, restarts at time 100 with an empty staging area; the status answer is ConfirmPassed -/
example :
    let s := runEvs Hs init goodRun
    (⟨"a", "", "[1, 2]", 2, 0, ""⟩ : LogRec) ∈ s.disk.log ∧ s.disk.cmp "a" = none ∧
    (dayOf 0 ∈ visitedDays (minMtime s.disk 100 [] - 86400) 100 ∧ (0 : Int) ≤ 100) ∧
    (step Hs s .crash).mem.cache "a" = none ∧
    statusAnswer (step Hs (step Hs (step Hs s .crash) (.op (.recover 100 []))) (.op (.buildCache 50 101)))
      "a" = 2 :=
  ⟨by decide, by decide, by decide, by decide, by decide⟩

/-- (3), record found only by the `buildCache` of the status request: restart ten days later;
    with `frm = -1` day 0 is visited and the answer is ConfirmPassed; with `frm` too late the
    day file is not read and the answer is ConfirmNone (the condition on `frm` is needed). -/
example :
    let s := runEvs Hs init goodRun
    let ct := minMtime s.disk 864000 [] - 86400
    dayOf 0 ∉ visitedDays ct 864000 ∧
    ((-1 : Int) < ct ∧ dayOf 0 ∈ visitedDays (-1) ct ∧ (0 : Int) ≤ ct) ∧
    statusAnswer (step Hs (step Hs (step Hs s .crash) (.op (.recover 864000 [])))
      (.op (.buildCache (-1) 864001))) "a" = 2 ∧
    statusAnswer (step Hs (step Hs (step Hs s .crash) (.op (.recover 864000 [])))
      (.op (.buildCache 700000 864001))) "a" = 0 :=
  ⟨by decide, by decide, by decide, by decide⟩

end Sts.Stage
