/-
  C19 — configuration means what it says, also after inheritance and re-encoding.

  Statements about Model/Conf.lean (conf.go applyAux / propagate / MarshalJSON,
  reflectutil.CopyStruct, main/client.go tagger / grouper / nameToTag). "Written" value of an
  option = the value a document consisting of that source alone would give it
  (`applySource w`); "effective" = after `parse` (applyAux of every source + propagate).

  FULL  : absent_inherits (every scalar option, include / ignore included: absent_inherits_lists),
          absent_inherits_target, absent_inherits_target_field, absent_inherits_tags,
          absent_inherits_tag, explicit_nonzero_kept (+ _tag, _target), reencode_fixpoint,
          tagsProp_idem, tagger_first_match, tagger_no_match, tagger_cases, tag_applies,
          default_tag_exists, qLookup_default_isSome, lookups_agree
  PARTIAL (the full statement is false on the code, a witness is given):
          C19_explicit_kept_partial (+ _tag_partial)
                                         hypothesis: the option has an isXSet marker that was set
                                         (stat-payload, error-backoff, include-hidden, delete), or
                                         the written value is not Go's zero value
                                         (witnesses C19_explicit_kept_false, _compress, _tag, _target)
          tag_by_name_partial            hypothesis: group-by leaves the name whole and no earlier
                                         tag matches the pattern text (witness tag_by_name_false: S15)
  REPAIRED: includeHidden_old_overridden (the original include-hidden, `includeHiddenOld`, was
          overridden; with the marker it is kept: includeHidden_kept)
          absent_inherits_false_include_old (the original applyAux, `applySrcFldOld` / `parseOld`,
          made an omitted include list next to a written ignore list an empty non-nil slice that
          did not inherit; now it inherits: absent_inherits_lists, include_inherited_repaired)
          reencode_fixpoint_false_old (the original MarshalJSON, `marshalSrcFldOld` / `toJSONOld`,
          printed error-backoff with six decimals; now re-encoding is the identity for every
          value: reencode_fixpoint, backoff_reencoded_repaired)
-/
import StsModel.Model.Conf

set_option linter.unusedSimpArgs false
set_option linter.unusedVariables false

namespace Sts.Cfg

/-! ## reflectutil.CopyStruct and the save / restore pattern, one field -/

theorem inheritFld_set (r : Bool) (s t : Fld) : (inheritFld r s t).set = t.set := by
  unfold inheritFld copyZeroFld
  split <;> split <;> rfl

/-- a field whose value is Go's zero value and whose marker is not set takes the source's value -/
theorem inheritFld_zero (r : Bool) (s t : Fld) (hz : t.v.isZero = true) (hs : t.set = false) :
    (inheritFld r s t).v = s.v := by
  simp [inheritFld, copyZeroFld, hz, hs]

/-- a non-zero field is never touched -/
theorem inheritFld_nonzero (r : Bool) (s t : Fld) (hz : t.v.isZero = false) :
    inheritFld r s t = t := by
  unfold inheritFld copyZeroFld
  simp [hz]

/-- a restored field whose marker is set keeps its value, zero or not -/
theorem inheritFld_marked (s t : Fld) (hs : t.set = true) : (inheritFld true s t).v = t.v := by
  simp [inheritFld, hs]

theorem inheritFld_idem (r : Bool) (s t : Fld) :
    inheritFld r s (inheritFld r s t) = inheritFld r s t := by
  unfold inheritFld copyZeroFld
  cases r <;> cases hs : t.set <;> cases hz : t.v.isZero <;> simp [hs, hz] <;>
    (cases hz' : s.v.isZero <;> simp [hz'])

/-- propagate() restores exactly the options that have a marker -/
theorem srcRestored_eq_marked (f : SrcField) : srcRestored f = (srcKind f).marked := by
  cases f <;> rfl

theorem tagRestored_eq_marked (f : TagField) : tagRestored f = (tagKind f).marked := by
  cases f <;> rfl

/-- no TargetConf option has a marker (and CopyStruct on the target restores nothing) -/
theorem tgt_unmarked (f : TgtField) : (tgtKind f).marked = false := by
  cases f <;> rfl

/-! ## applyAux, one field -/

/-- an absent key leaves Go's zero value and no marker -/
theorem applyK_absent (k : Kind) : (applyK k none).v.isZero = true ∧ (applyK k none).set = false := by
  cases k <;> simp [applyK, Val.isZero]

theorem applySrcFld_absent (w : SrcField → Option W) (f : SrcField) (h : w f = none) :
    (applySrcFld w f).v.isZero = true ∧ (applySrcFld w f).set = false := by
  unfold applySrcFld
  rw [h]; exact applyK_absent _

/-- only options with a marker ever have it set -/
theorem applyK_set_marked (k : Kind) (w : Option W) (h : (applyK k w).set = true) :
    k.marked = true := by
  cases k <;> first | rfl | skip
  all_goals (
    revert h
    unfold applyK
    split <;> simp_all <;> (try split) <;> simp_all)

/-- `stat-payload: false` / `delete: false` in any capitalisation sets the marker -/
theorem applyK_tri_false (t : String) (h : isFalseStr t = true) :
    applyK .triMarked (some (.s t)) = ⟨.bool false, true⟩ := by
  have : isTrueStr t = false := by
    unfold isTrueStr; unfold isFalseStr at h
    cases hh : (lower t == ['t', 'r', 'u', 'e'])
    · rfl
    · simp only [beq_iff_eq] at hh h; rw [hh] at h; exact absurd h (by decide)
  simp [applyK, this, h]

/-- any number written for `error-backoff` (0 included) sets the marker -/
theorem applyK_float_set (v : Int) : applyK .floatMarked (some (.n v)) = ⟨.num v, true⟩ := by
  simp [applyK]

/-! ## the shape of propagate() -/

theorem chain_getElem?_zero (p : Source) (l : List Source) :
    (chain p l)[0]? = l[0]?.map (fun a => tagsPropS (srcInherit p a)) := by
  cases l <;> simp [chain]

theorem chain_succ (p : Source) (l : List Source) (i : Nat) (q a : Source)
    (hq : (chain p l)[i]? = some q) (ha : l[i + 1]? = some a) :
    (chain p l)[i + 1]? = some (tagsPropS (srcInherit q a)) := by
  induction l generalizing p i with
  | nil => simp at ha
  | cons x rest ih =>
    cases i with
    | zero =>
      simp only [chain, List.getElem?_cons_zero, Option.some.injEq] at hq
      simp only [chain, List.getElem?_cons_succ]
      rw [chain_getElem?_zero]
      simp only [List.getElem?_cons_succ] at ha
      simp [ha, hq]
    | succ j =>
      simp only [chain, List.getElem?_cons_succ] at hq ha ⊢
      exact ih _ j hq ha

/-- source 0 is only tag-propagated -/
theorem propagate_zero (l : List Source) : (propagate l)[0]? = l[0]?.map tagsPropS := by
  cases l <;> simp [propagate]

/-- source i+1 copies from the COMPLETED source i (not from source 0, not from the written
    source i) -/
theorem propagate_succ (l : List Source) (i : Nat) (p a : Source)
    (hp : (propagate l)[i]? = some p) (ha : l[i + 1]? = some a) :
    (propagate l)[i + 1]? = some (tagsPropS (srcInherit p a)) := by
  cases l with
  | nil => simp at ha
  | cons x rest =>
    cases i with
    | zero =>
      simp only [propagate, List.getElem?_cons_zero, Option.some.injEq] at hp
      simp only [propagate, List.getElem?_cons_succ, chain_getElem?_zero]
      simp only [List.getElem?_cons_succ] at ha
      simp [ha, hp]
    | succ j =>
      simp only [propagate, List.getElem?_cons_succ] at hp ha ⊢
      exact chain_succ _ _ j p a hp ha

theorem chain_length (p : Source) (l : List Source) : (chain p l).length = l.length := by
  induction l generalizing p with
  | nil => rfl
  | cons x rest ih => simp [chain, ih]

theorem propagate_length (l : List Source) : (propagate l).length = l.length := by
  cases l <;> simp [propagate, chain_length]

theorem parse_eq (c : List WSource) (e : List Source) (h : parse c = some e) :
    e = propagate (c.map applySource) ∧ c.all okSource = true := by
  unfold parse at h
  split at h
  · rename_i hok
    exact ⟨by simpa using h.symm, hok⟩
  · simp at h

/-- the effective source i+1 in terms of the effective source i and the written source i+1 -/
theorem effective_succ (c : List WSource) (e : List Source) (h : parse c = some e)
    (i : Nat) (p : Source) (w : WSource) (hp : e[i]? = some p) (hw : c[i + 1]? = some w) :
    e[i + 1]? = some (tagsPropS (srcInherit p (applySource w))) := by
  obtain ⟨he, _⟩ := parse_eq c e h
  subst he
  exact propagate_succ _ i p _ hp (by simp [hw])

theorem effective_zero (c : List WSource) (e : List Source) (h : parse c = some e)
    (w : WSource) (hw : c[0]? = some w) : e[0]? = some (tagsPropS (applySource w)) := by
  obtain ⟨he, _⟩ := parse_eq c e h
  subst he
  rw [propagate_zero]; simp [hw]

/-! ## absent ⇒ inherited -/

/-- C19, first clause, sources: an option omitted in source i+1 takes the EFFECTIVE value of
    source i. Full for every scalar option, include / ignore included (before the repair of
    applyAux these two needed "neither list is written", see
    `absent_inherits_false_include_old`). -/
theorem absent_inherits (c : List WSource) (e : List Source) (h : parse c = some e)
    (i : Nat) (p q : Source) (w : WSource) (hp : e[i]? = some p) (hq : e[i + 1]? = some q)
    (hw : c[i + 1]? = some w) (f : SrcField) (habs : w.opt f = none) :
    (q.fld f).v = (p.fld f).v := by
  have := effective_succ c e h i p w hp hw
  rw [hq] at this
  injection this with this
  subst this
  obtain ⟨hz, hs⟩ := applySrcFld_absent w.opt f habs
  exact inheritFld_zero _ _ _ hz hs

/-- `absent_inherits` for the two list options, each on its own: an omitted `include` takes the
    preceding source's include patterns whatever the source writes for `ignore`, and vice
    versa (FULL since the repair of applyAux; formerly `absent_inherits_lists_partial` with the
    hypothesis that NEITHER list is written). -/
theorem absent_inherits_lists (c : List WSource) (e : List Source) (h : parse c = some e)
    (i : Nat) (p q : Source) (w : WSource) (hp : e[i]? = some p) (hq : e[i + 1]? = some q)
    (hw : c[i + 1]? = some w) :
    (w.opt .include = none → (q.fld .include).v = (p.fld .include).v) ∧
    (w.opt .ignore = none → (q.fld .ignore).v = (p.fld .ignore).v) :=
  ⟨fun hinc => absent_inherits c e h i p q w hp hq hw .include hinc,
   fun hign => absent_inherits c e h i p q w hp hq hw .ignore hign⟩

theorem copyZeroFld_self (x : Fld) : copyZeroFld x x = x := by
  unfold copyZeroFld; split <;> rfl

theorem copyZeroTarget_self (t : Target) : copyZeroTarget t t = t := by
  cases t; simp [copyZeroTarget, copyZeroFld_self]

/-- an omitted `target` section: the whole target of the preceding source -/
theorem absent_inherits_target (c : List WSource) (e : List Source) (h : parse c = some e)
    (i : Nat) (p q : Source) (w : WSource) (hp : e[i]? = some p) (hq : e[i + 1]? = some q)
    (hw : c[i + 1]? = some w) (habs : w.target = none) : q.target = p.target := by
  have := effective_succ c e h i p w hp hw
  rw [hq] at this
  injection this with this
  subst this
  simp only [tagsPropS, srcInherit, applySource, habs, Option.map_none, targetIsZero, if_true]
  cases hpt : p.target with
  | none => rfl
  | some t => simp [copyZeroTarget_self]

/-- a written `target` section with an omitted option: the option of the preceding source's
    target (all TargetConf options are without marker) -/
theorem absent_inherits_target_field (c : List WSource) (e : List Source) (h : parse c = some e)
    (i : Nat) (p q : Source) (w : WSource) (hp : e[i]? = some p) (hq : e[i + 1]? = some q)
    (hw : c[i + 1]? = some w) (wt : WTarget) (pt : Target) (hwt : w.target = some wt)
    (hpt : p.target = some pt) (g : TgtField) (habs : wt.opt g = none) :
    ∃ qt, q.target = some qt ∧ (qt.fld g).v = (pt.fld g).v := by
  have := effective_succ c e h i p w hp hw
  rw [hq] at this
  injection this with this
  subst this
  simp only [tagsPropS, srcInherit, applySource, hwt, Option.map_some, hpt, targetIsZero]
  by_cases hzt : (applyTarget wt).isZero = true
  · exact ⟨pt, by simp [hzt, copyZeroTarget_self], rfl⟩
  · refine ⟨copyZeroTarget (applyTarget wt) pt, by simp [hzt], ?_⟩
    have hz := (applyK_absent (tgtKind g)).1
    simp [copyZeroTarget, applyTarget, habs, copyZeroFld, hz]

/-! ## tags -/

theorem tagInherit_idem (d t : Tag) : tagInherit d (tagInherit d t) = tagInherit d t := by
  simp [tagInherit, inheritFld_idem]

/-- running the tag loop over already propagated tags changes nothing: this is why a source
    that shares the preceding source's TagConf objects (no `tags` of its own) may be modelled
    with values although the real loop writes through shared pointers -/
theorem tagsProp_idem (ts : List Tag) : tagsProp (tagsProp ts) = tagsProp ts := by
  cases ts with
  | nil => rfl
  | cons d rest => simp [tagsProp, List.map_map, Function.comp_def, tagInherit_idem]

theorem tagsPropS_idem (s : Source) : tagsPropS (tagsPropS s) = tagsPropS s := by
  cases hs : s.tags <;> simp [tagsPropS, hs, tagsProp_idem]

theorem chain_mem_tagsPropS (p : Source) (l : List Source) (i : Nat) (q : Source)
    (hq : (chain p l)[i]? = some q) : ∃ s, q = tagsPropS s := by
  induction l generalizing p i with
  | nil => simp [chain] at hq
  | cons x rest ih =>
    cases i with
    | zero => simp only [chain, List.getElem?_cons_zero, Option.some.injEq] at hq; exact ⟨_, hq.symm⟩
    | succ j => simp only [chain, List.getElem?_cons_succ] at hq; exact ih _ j hq

theorem propagate_mem_tagsPropS (l : List Source) (i : Nat) (q : Source)
    (hq : (propagate l)[i]? = some q) : ∃ s, q = tagsPropS s := by
  cases l with
  | nil => simp [propagate] at hq
  | cons x rest =>
    cases i with
    | zero => simp only [propagate, List.getElem?_cons_zero, Option.some.injEq] at hq; exact ⟨_, hq.symm⟩
    | succ j => simp only [propagate, List.getElem?_cons_succ] at hq; exact chain_mem_tagsPropS _ _ j q hq

/-- an omitted `tags` list: the (already completed) tag list of the preceding source -/
theorem absent_inherits_tags (c : List WSource) (e : List Source) (h : parse c = some e)
    (i : Nat) (p q : Source) (w : WSource) (hp : e[i]? = some p) (hq : e[i + 1]? = some q)
    (hw : c[i + 1]? = some w) (habs : w.tags = none) : q.tags = p.tags := by
  have := effective_succ c e h i p w hp hw
  rw [hq] at this
  injection this with this
  subst this
  obtain ⟨he, _⟩ := parse_eq c e h
  subst he
  obtain ⟨s, hs⟩ := propagate_mem_tagsPropS _ i p hp
  simp only [tagsPropS, srcInherit, applySource, habs, Option.map_none]
  rw [hs]
  cases hst : s.tags <;> simp [tagsPropS, hst, tagsProp_idem]

/-- the effective tags of a source that writes its own list -/
theorem effective_tags_own (c : List WSource) (e : List Source) (h : parse c = some e)
    (i : Nat) (q : Source) (w : WSource) (hq : e[i]? = some q) (hw : c[i]? = some w)
    (ws : List WTag) (hws : w.tags = some ws) :
    q.tags = some (tagsProp (ws.map applyTag)) := by
  cases i with
  | zero =>
    have := effective_zero c e h w hw
    rw [hq] at this; injection this with this; subst this
    simp [tagsPropS, applySource, hws]
  | succ j =>
    have hlen : j < e.length := by
      have := (List.getElem?_eq_some_iff.mp hq).1; omega
    have hp : e[j]? = some e[j] := List.getElem?_eq_getElem hlen
    have := effective_succ c e h j e[j] w hp hw
    rw [hq] at this; injection this with this; subst this
    simp [tagsPropS, srcInherit, applySource, hws]

/-- C19, first clause, tags: an option omitted in tag j+1 takes the value of the FIRST tag
    of the list (the "default tag" by position, whatever its pattern) -/
theorem absent_inherits_tag (ws : List WTag) (j : Nat) (w : WTag) (d t : Tag)
    (hw : ws[j + 1]? = some w) (hd : (tagsProp (ws.map applyTag))[0]? = some d)
    (ht : (tagsProp (ws.map applyTag))[j + 1]? = some t) (f : TagField) (habs : w.opt f = none) :
    (t.fld f).v = (d.fld f).v := by
  cases ws with
  | nil => simp at hw
  | cons w0 rest =>
    simp only [List.map_cons, tagsProp, List.getElem?_cons_zero, Option.some.injEq,
      List.getElem?_cons_succ, List.getElem?_map] at hd ht hw
    rw [hw] at ht
    simp only [Option.map_some, Option.some.injEq] at ht
    subst hd ht
    obtain ⟨hz, hs⟩ := applyK_absent (tagKind f)
    simp only [tagInherit, applyTag, habs]
    exact inheritFld_zero _ _ _ hz hs

/-! ## written ⇒ effective -/

/-- the scalar options of an effective source: source 0 as written, source i+1 by the
    save / CopyStruct / restore pattern from the effective source i -/
theorem effective_fld_zero (c : List WSource) (e : List Source) (h : parse c = some e)
    (q : Source) (w : WSource) (hq : e[0]? = some q) (hw : c[0]? = some w) :
    q.fld = (applySource w).fld := by
  have := effective_zero c e h w hw
  rw [hq] at this; injection this with this; subst this
  rfl

theorem effective_fld_succ (c : List WSource) (e : List Source) (h : parse c = some e)
    (i : Nat) (p q : Source) (w : WSource) (hp : e[i]? = some p) (hq : e[i + 1]? = some q)
    (hw : c[i + 1]? = some w) (f : SrcField) :
    q.fld f = inheritFld (srcRestored f) (p.fld f) ((applySource w).fld f) := by
  have := effective_succ c e h i p w hp hw
  rw [hq] at this; injection this with this; subst this
  rfl

/-- C19, second clause, (a): a written value that is not Go's zero value is the effective
    value, for every scalar option of every source -/
theorem explicit_nonzero_kept (c : List WSource) (e : List Source) (h : parse c = some e)
    (i : Nat) (q : Source) (w : WSource) (hq : e[i]? = some q) (hw : c[i]? = some w)
    (f : SrcField) (hnz : ((applySource w).fld f).v.isZero = false) :
    q.fld f = (applySource w).fld f := by
  cases i with
  | zero => rw [effective_fld_zero c e h q w hq hw]
  | succ j =>
    have hlen : j < e.length := by
      have := (List.getElem?_eq_some_iff.mp hq).1; omega
    rw [effective_fld_succ c e h j e[j] q w (List.getElem?_eq_getElem hlen) hq hw f]
    exact inheritFld_nonzero _ _ _ hnz

/-- the same for the options of tags -/
theorem explicit_nonzero_kept_tag (ws : List WTag) (j : Nat) (w : WTag) (t : Tag)
    (hw : ws[j]? = some w) (ht : (tagsProp (ws.map applyTag))[j]? = some t) (f : TagField)
    (hnz : ((applyTag w).fld f).v.isZero = false) : t.fld f = (applyTag w).fld f := by
  cases ws with
  | nil => simp at hw
  | cons w0 rest =>
    cases j with
    | zero =>
      simp only [List.map_cons, tagsProp, List.getElem?_cons_zero, Option.some.injEq] at ht hw
      subst ht hw; rfl
    | succ k =>
      simp only [List.map_cons, tagsProp, List.getElem?_cons_succ, List.getElem?_map] at ht hw
      rw [hw] at ht
      simp only [Option.map_some, Option.some.injEq] at ht
      subst ht
      exact inheritFld_nonzero _ _ _ hnz

/-- and of the target -/
theorem explicit_nonzero_kept_target (c : List WSource) (e : List Source) (h : parse c = some e)
    (i : Nat) (q : Source) (w : WSource) (hq : e[i]? = some q) (hw : c[i]? = some w)
    (wt : WTarget) (hwt : w.target = some wt) (g : TgtField)
    (hnz : ((applyTarget wt).fld g).v.isZero = false) :
    ∃ qt, q.target = some qt ∧ qt.fld g = (applyTarget wt).fld g := by
  have hnz' : targetIsZero (some (applyTarget wt)) = false := by
    simp only [targetIsZero, Target.isZero, List.all_eq_false]
    exact ⟨g, by cases g <;> simp [allTgt, tgtTable], by simp [hnz]⟩
  cases i with
  | zero =>
    have := effective_zero c e h w hw
    rw [hq] at this; injection this with this; subst this
    exact ⟨applyTarget wt, by simp [tagsPropS, applySource, hwt], rfl⟩
  | succ j =>
    have hlen : j < e.length := by
      have := (List.getElem?_eq_some_iff.mp hq).1; omega
    have := effective_succ c e h j e[j] w (List.getElem?_eq_getElem hlen) hw
    rw [hq] at this; injection this with this; subst this
    simp only [tagsPropS, srcInherit, applySource, hwt, Option.map_some, hnz']
    cases e[j].target with
    | none => exact ⟨_, rfl, rfl⟩
    | some pt =>
      refine ⟨_, rfl, ?_⟩
      simp [copyZeroTarget, copyZeroFld, hnz]

/-- C19, second clause, (b), PARTIAL: an explicitly written value of an option that has an
    isXSet marker (stat-payload, error-backoff, include-hidden; delete in tags) is the effective value also
    when it is `false` or `0`. Hypothesis `hm`: the marker was set by applyAux, which is the
    case for `false` in any capitalisation (`applyK_tri_false`) and for every number
    (`applyK_float_set`). The full statement (every option) is false:
    `C19_explicit_kept_false`. -/
theorem C19_explicit_kept_partial (c : List WSource) (e : List Source) (h : parse c = some e)
    (i : Nat) (q : Source) (w : WSource) (hq : e[i]? = some q) (hw : c[i]? = some w)
    (f : SrcField)
    (hm : ((applySource w).fld f).set = true ∨ ((applySource w).fld f).v.isZero = false) :
    (q.fld f).v = ((applySource w).fld f).v := by
  rcases hm with hm | hm
  · cases i with
    | zero => rw [effective_fld_zero c e h q w hq hw]
    | succ j =>
      have hlen : j < e.length := by
        have := (List.getElem?_eq_some_iff.mp hq).1; omega
      rw [effective_fld_succ c e h j e[j] q w (List.getElem?_eq_getElem hlen) hq hw f]
      have hk : srcRestored f = true := by
        rw [srcRestored_eq_marked]
        have : (applySrcFld w.opt f).set = true := hm
        exact applyK_set_marked _ _ this
      rw [hk]
      exact inheritFld_marked _ _ hm
  · rw [explicit_nonzero_kept c e h i q w hq hw f hm]

theorem C19_explicit_kept_tag_partial (ws : List WTag) (j : Nat) (w : WTag) (t : Tag)
    (hw : ws[j]? = some w) (ht : (tagsProp (ws.map applyTag))[j]? = some t) (f : TagField)
    (hm : ((applyTag w).fld f).set = true ∨ ((applyTag w).fld f).v.isZero = false) :
    (t.fld f).v = ((applyTag w).fld f).v := by
  rcases hm with hm | hm
  · cases ws with
    | nil => simp at hw
    | cons w0 rest =>
      cases j with
      | zero =>
        simp only [List.map_cons, tagsProp, List.getElem?_cons_zero, Option.some.injEq] at ht hw
        subst ht hw; rfl
      | succ k =>
        simp only [List.map_cons, tagsProp, List.getElem?_cons_succ, List.getElem?_map] at ht hw
        rw [hw] at ht
        simp only [Option.map_some, Option.some.injEq] at ht
        subst ht
        have hk : tagRestored f = true := by
          rw [tagRestored_eq_marked]; exact applyK_set_marked _ _ hm
        simp only [tagInherit, hk]
        exact inheritFld_marked _ _ hm
  · rw [explicit_nonzero_kept_tag ws j w t hw ht f hm]


/-! ## witnesses: the full statements are false on the unchanged code -/

theorem parse_ok (c : List WSource) (h : c.all okSource = true) :
    parse c = some (propagate (c.map applySource)) := by simp [parse, h]

/-- helper for writing concrete documents -/
def optsOf {α : Type} [DecidableEq α] (l : List (α × W)) : α → Option W :=
  fun f => (l.find? (fun e => e.1 = f)).map (·.2)

def wsrc (l : List (SrcField × W)) : WSource := { WSource.empty with opt := optsOf l }

/-- C19, second clause, FULL statement: every written value — `false`, `0` and "" included —
    is the effective value. -/
def C19ExplicitKept : Prop :=
  ∀ (c : List WSource) (e : List Source), parse c = some e →
    ∀ (i : Nat) (q : Source) (w : WSource), e[i]? = some q → c[i]? = some w →
      ∀ (f : SrcField) (x : W), w.opt f = some x → okK (srcKind f) (some x) = true →
        (q.fld f).v = ((applySource w).fld f).v

def docHidden : List WSource :=
  [wsrc [(.includeHidden, .s "true"), (.compress, .n 4)],
   wsrc [(.includeHidden, .s "false"), (.compress, .n 0)]]

/-- F7, repaired by `fix: include-hidden: false was overridden by the preceding source`: on
    the ORIGINAL code (no marker, `includeHiddenOld`) an explicit `include-hidden: false`
    after a source with `true` came out `true`; with the marker it stays `false`. -/
theorem includeHidden_old_overridden :
    (includeHiddenOld ⟨.bool true, false⟩ (some (.s "false"))).v = .bool true ∧
    (inheritFld (srcRestored .includeHidden) ⟨.bool true, false⟩
      (applyK (srcKind .includeHidden) (some (.s "false")))).v = .bool false := by
  constructor <;> decide

/-- the repaired behaviour on a whole document -/
theorem includeHidden_kept :
    ∃ e q, parse docHidden = some e ∧ e[1]? = some q ∧
      q.fld .includeHidden = ⟨.bool false, true⟩ :=
  ⟨_, _, parse_ok docHidden (by decide), rfl, by decide⟩

/-- F7: `compress: 0` written in the second source; effective value 4 -/
theorem C19_explicit_kept_false_compress :
    ∃ e q w, parse docHidden = some e ∧ e[1]? = some q ∧ docHidden[1]? = some w ∧
      w.opt .compress = some (.n 0) ∧ (q.fld .compress).v = .num 4 :=
  ⟨_, _, _, parse_ok docHidden (by decide), rfl, rfl, by decide, by decide⟩

/-- the negation of the full statement -/
theorem C19_explicit_kept_false : ¬ C19ExplicitKept := by
  intro H
  have := H docHidden _ (parse_ok docHidden (by decide)) 1 _ _ rfl rfl .compress
    (.n 0) (by decide) (by decide)
  revert this
  decide

def wtag (l : List (TagField × W)) : WTag := ⟨optsOf l⟩

def docTags : List WTag :=
  [wtag [(.pattern, .s "DEFAULT"), (.priority, .n 5), (.order, .s "lifo"), (.delete, .s "true")],
   wtag [(.pattern, .s "^a"), (.priority, .n 0), (.order, .s ""), (.delete, .s "false")]]

/-- F7 in tags: `priority: 0` and `order: ""` are overridden by the first tag's 5 and lifo,
    while `delete: false` (marker) is kept -/
theorem C19_explicit_kept_false_tag :
    ∃ t, (tagsProp (docTags.map applyTag))[1]? = some t ∧ (t.fld .priority).v = .num 5 ∧
      (t.fld .order).v = .str "lifo" ∧ t.fld .delete = ⟨.bool false, true⟩ :=
  ⟨_, rfl, by decide, by decide, by decide⟩

def docTarget : List WSource :=
  [{ wsrc [] with target := some ⟨optsOf [(.host, .s "h"), (.quicEnableDatagrams, .b true)]⟩ },
   { wsrc [] with target := some ⟨optsOf [(.quicEnableDatagrams, .b false)]⟩ }]

/-- F7 in the target: `quic-enable-datagrams: false` is overridden (the whole all-zero
    target struct is "zero" for CopyStruct and replaced by the preceding source's) -/
theorem C19_explicit_kept_false_target :
    ∃ e q t, parse docTarget = some e ∧ e[1]? = some q ∧ q.target = some t ∧
      (t.fld .quicEnableDatagrams).v = .bool true :=
  ⟨_, _, _, parse_ok docTarget (by decide), rfl, rfl, by decide⟩

def docLists : List WSource :=
  [wsrc [(.include, .l ["^x"])], wsrc [(.ignore, .l ["z$"])]]

theorem parseOld_ok (c : List WSource) (h : c.all okSource = true) :
    parseOld c = some (propagate (c.map applySourceOld)) := by simp [parseOld, h]

/-- F7b, repaired by `fix: an omitted include (ignore) list was not inherited when the other
    list was written`: on the ORIGINAL code (`parseOld`: include and ignore sub-slices of one
    slice) `include` is omitted in the second source, yet it does not inherit `^x`: next to a
    written `ignore` it becomes an empty non-nil slice. -/
theorem absent_inherits_false_include_old :
    ∃ e p q w, parseOld docLists = some e ∧ e[0]? = some p ∧ e[1]? = some q ∧
      docLists[1]? = some w ∧ w.opt .include = none ∧
      (p.fld .include).v = .list (some ["^x"]) ∧ (q.fld .include).v = .list (some []) :=
  ⟨_, _, _, _, parseOld_ok docLists (by decide), rfl, rfl, rfl, by decide, by decide, by decide⟩

/-- the repaired behaviour on the same document: the omitted `include` inherits `^x`, the
    written `ignore` is kept -/
theorem include_inherited_repaired :
    ∃ e p q w, parse docLists = some e ∧ e[0]? = some p ∧ e[1]? = some q ∧
      docLists[1]? = some w ∧ w.opt .include = none ∧
      (p.fld .include).v = .list (some ["^x"]) ∧ (q.fld .include).v = .list (some ["^x"]) ∧
      (q.fld .ignore).v = .list (some ["z$"]) :=
  ⟨_, _, _, _, parse_ok docLists (by decide), rfl, rfl, rfl, by decide, by decide, by decide,
    by decide⟩

/-! ## the running sender: tagger, grouper, nameToTag, the two tag tables -/

/-- tagger answers the name of the FIRST tag (in list order) that has a pattern and whose
    pattern text equals, or whose pattern matches, the group -/
theorem tagger_first_match (pre post : List Tag) (t : Tag) (g : List Char)
    (hm : tagMatches t g = true) (hpre : ∀ x ∈ pre, tagMatches x g = false) :
    tagger (pre ++ t :: post) g = (tagName t).toList := by
  unfold tagger
  have : (pre ++ t :: post).find? (tagMatches · g) = some t := by
    rw [List.find?_eq_some_iff_append]
    exact ⟨hm, pre, post, rfl, fun a ha => by simp [hpre a ha]⟩
  rw [this]

/-- and the default tag's name "" when no such tag exists -/
theorem tagger_no_match (tags : List Tag) (g : List Char)
    (h : ∀ x ∈ tags, tagMatches x g = false) : tagger tags g = [] := by
  unfold tagger
  have : tags.find? (tagMatches · g) = none := by
    rw [List.find?_eq_none]; intro x hx; simp [h x hx]
  rw [this]

/-- there are no other cases -/
theorem tagger_cases (tags : List Tag) (g : List Char) :
    (tagger tags g = [] ∧ ∀ x ∈ tags, tagMatches x g = false) ∨
    ∃ pre t post, tags = pre ++ t :: post ∧ tagMatches t g = true ∧
      (∀ x ∈ pre, tagMatches x g = false) ∧ tagger tags g = (tagName t).toList := by
  cases h : tags.find? (tagMatches · g) with
  | none =>
    left
    rw [List.find?_eq_none] at h
    have h' : ∀ x ∈ tags, tagMatches x g = false := fun x hx => by simpa using h x hx
    exact ⟨tagger_no_match tags g h', h'⟩
  | some t =>
    right
    rw [List.find?_eq_some_iff_append] at h
    obtain ⟨hm, pre, post, rfl, hpre⟩ := h
    have hpre' : ∀ x ∈ pre, tagMatches x g = false := fun x hx => by simpa using hpre x hx
    exact ⟨pre, t, post, rfl, hm, hpre', tagger_first_match pre post t g hm hpre'⟩

/-- a tag without pattern (a default tag) is never chosen by pattern -/
theorem default_never_matches (t : Tag) (g : List Char) (h : t.pattern = none) :
    tagMatches t g = false := by simp [tagMatches, h]

/-- C19, last sentence, as the code has it (`tag_applies`): the tag of a file is determined
    by the file's GROUP alone. Two files whose names have the same proper prefix up to the
    first delimiter get the same tag, whatever the rest of their names. -/
theorem tag_applies (d : Char) (tags : List Tag) (name name' : List Char)
    (hg : name.takeWhile (· != d) = name'.takeWhile (· != d))
    (hne : name.takeWhile (· != d) ≠ []) (h1 : name.takeWhile (· != d) ≠ name)
    (h2 : name'.takeWhile (· != d) ≠ name') :
    nameToTag d tags name = tagger tags (name.takeWhile (· != d)) ∧
    nameToTag d tags name' = nameToTag d tags name := by
  have e1 : grouper d tags name = name.takeWhile (· != d) := by
    simp [grouper, hne, h1]
  have e2 : grouper d tags name' = name.takeWhile (· != d) := by
    rw [hg] at hne ⊢
    simp [grouper, hne, h2]
  simp [nameToTag, e1, e2]

/-- PARTIAL form of the property's wording ("files whose names match that tag's pattern"):
    when group-by leaves the name whole (no delimiter in it, or it starts with the
    delimiter), the tag is the first tag matching the NAME provided no earlier tag matches
    that tag's pattern TEXT (the text becomes the group). The general statement is false:
    `tag_by_name_false`. -/
theorem tag_by_name_partial (d : Char) (pre post : List Tag) (t : Tag) (p : String)
    (name : List Char) (hp : t.pattern = some p)
    (hg : name.takeWhile (· != d) = [] ∨ name.takeWhile (· != d) = name)
    (hm : tagMatches t name = true) (hpre : ∀ x ∈ pre, tagMatches x name = false)
    (htext : ∀ x ∈ pre, tagMatches x p.toList = false) :
    nameToTag d (pre ++ t :: post) name = p.toList := by
  have hn : (tagName t).toList = p.toList := by simp [tagName, hp]
  have e1 : grouper d (pre ++ t :: post) name = p.toList := by
    unfold grouper
    rcases hg with hg | hg
    · simp [hg, tagger_first_match pre post t name hm hpre, hn]
    · simp [hg, tagger_first_match pre post t name hm hpre, hn]
  have hself : tagMatches t p.toList = true := by simp [tagMatches, hp]
  simp [nameToTag, e1, tagger_first_match pre post t p.toList hself htext, hn]

theorem setStr_pattern (t : Tag) (f : TagField) (x : String) (hf : f ≠ .pattern) :
    (t.setStr f x).pattern = t.pattern := by
  have : ¬ (TagField.pattern = f) := fun h => hf h.symm
  simp [Tag.pattern, Tag.setStr, this]

/-- setDefaults never removes or invents a pattern -/
theorem defaultMethods_any_default (ts : List Tag) :
    (defaultMethods ts).any (·.pattern.isNone) = ts.any (·.pattern.isNone) := by
  induction ts with
  | nil => rfl
  | cons t rest ih =>
    unfold defaultMethods
    by_cases hp : t.pattern.isNone = true
    · simp [hp]
    · have hp' : t.pattern.isNone = false := by
        cases h : t.pattern.isNone
        · rfl
        · exact absurd h hp
      have ht : (if t.strOf .method == "" then t.setStr .method methodHTTP else t).pattern
          = t.pattern := by
        split
        · exact setStr_pattern t .method methodHTTP (by decide)
        · rfl
      rw [if_neg hp, List.any_cons, List.any_cons, ht, ih]

/-- the running sender always has a default tag (setDefaults appends one when none is
    configured), so a file that no pattern claims is never left without settings -/
theorem default_tag_exists (s : Source) : ∃ t ∈ runtimeTags s, t.pattern = none := by
  have h : (setDefaultsTags (s.tags.getD [])).any (·.pattern.isNone) = true := by
    unfold setDefaultsTags
    split
    · rename_i h; rw [defaultMethods_any_default]; exact h
    · simp [httpDefaultTag, Tag.pattern, applyK, tagKind]
  rw [List.any_eq_true] at h
  obtain ⟨t, ht, hp⟩ := h
  refine ⟨initOrder t, List.mem_map_of_mem ht, ?_⟩
  have : (initOrder t).pattern = t.pattern := by
    unfold initOrder; split
    · exact setStr_pattern t .order orderFIFO (by decide)
    · rfl
  rw [this]; simpa using hp

/-- hence the queue's look-up of the default tag name always succeeds -/
theorem qLookup_default_isSome (s : Source) : (qLookup (runtimeTags s) []).isSome = true := by
  obtain ⟨t, ht, hp⟩ := default_tag_exists s
  unfold qLookup
  rw [List.findIdx?_isSome, List.any_eq_true]
  exact ⟨t, ht, by simp [tagName, hp]⟩

theorem lastIdxAux_none (tn : List Char) (l : List Tag) (i : Nat) (acc : Option Nat)
    (h : ∀ x ∈ l, ((tagName x).toList == tn) = false) : lastIdxAux tn l i acc = acc := by
  induction l generalizing i acc with
  | nil => rfl
  | cons t rest ih =>
    have ht := h t (by simp)
    simp only [lastIdxAux, ht]
    exact ih _ _ (fun x hx => h x (by simp [hx]))

theorem lastIdxAux_first (tn : List Char) (l : List Tag) (i : Nat) (acc : Option Nat) (k : Nat)
    (hnd : (l.map tagName).Nodup) (hk : l.findIdx? (fun t => (tagName t).toList == tn) = some k) :
    lastIdxAux tn l i acc = some (i + k) := by
  induction l generalizing i acc k with
  | nil => simp at hk
  | cons t rest ih =>
    simp only [List.map_cons, List.nodup_cons] at hnd
    rw [List.findIdx?_cons] at hk
    by_cases ht : ((tagName t).toList == tn) = true
    · simp only [ht, if_true, Option.some.injEq] at hk
      subst hk
      simp only [lastIdxAux, ht, if_true]
      rw [lastIdxAux_none]
      · simp
      · intro x hx
        have : tagName x ≠ tagName t := fun heq => hnd.1 (heq ▸ List.mem_map_of_mem hx)
        cases hx' : ((tagName x).toList == tn)
        · rfl
        · simp only [beq_iff_eq] at hx' ht
          exact absurd (String.ext (hx'.trans ht.symm)) this
    · have ht' : ((tagName t).toList == tn) = false := by simpa using ht
      simp only [ht', Bool.false_eq_true, if_false] at hk
      cases hr : rest.findIdx? (fun t => (tagName t).toList == tn) with
      | none => simp [hr] at hk
      | some k' =>
        simp only [hr, Option.map_some, Option.some.injEq] at hk
        subst hk
        simp only [lastIdxAux, ht', Bool.false_eq_true, if_false]
        rw [ih (i + 1) acc k' hnd.2 hr]
        congr 1; omega

/-- the queue (first tag of that name: priority, order, chunk size, last delay) and the
    client (last tag of that name: delete, delete delay) use the SAME tag whenever tag
    names — pattern texts, "" for default tags — are pairwise distinct -/
theorem lookups_agree (tags : List Tag) (tn : List Char) (hnd : (tags.map tagName).Nodup) :
    fLookup tags tn = qLookup tags tn := by
  unfold fLookup qLookup
  cases hk : tags.findIdx? (fun t => (tagName t).toList == tn) with
  | none =>
    rw [List.findIdx?_eq_none_iff] at hk
    exact lastIdxAux_none tn tags 0 none hk
  | some k => simpa using lastIdxAux_first tn tags 0 none k hnd hk

def tagsNC : List Tag :=
  [applyTag (wtag [(.pattern, .s "DEFAULT"), (.method, .s "http")]),
   applyTag (wtag [(.pattern, .s "\\.nc$"), (.priority, .n 7), (.method, .s "http")])]

/-- S15: `data.001.nc` matches the pattern `\.nc$` of the second tag, but its group is
    `data`, which the pattern does not match: the sender applies the DEFAULT tag. The
    property's wording "files whose names match that tag's pattern" does not hold. -/
theorem tag_by_name_false :
    ∃ t ∈ tagsNC, tagMatches t "data.001.nc".toList = true ∧
      nameToTag '.' tagsNC "data.001.nc".toList = [] ∧
      grouper '.' tagsNC "data.001.nc".toList = "data".toList :=
  ⟨_, List.mem_cons_of_mem _ (List.mem_cons_self ..), by decide, by decide, by decide⟩

/-- with duplicate tag names the two tables disagree (first vs last) -/
theorem lookups_disagree_on_duplicates :
    ∃ tags : List Tag, qLookup tags "x".toList = some 0 ∧ fLookup tags "x".toList = some 1 :=
  ⟨[applyTag (wtag [(.pattern, .s "x")]), applyTag (wtag [(.pattern, .s "x")])],
   by decide, by decide⟩

/-! ### non-vacuity -/

example : tagger tagsNC "x.nc".toList = "\\.nc$".toList := by decide
example : nameToTag '.' tagsNC "nc".toList = [] := by decide
example : (parsePat "^abc$".toList).map (·.matches "abc".toList) = some true := by decide
example : (parsePat "b$".toList).map (·.matches "abc".toList) = some false := by decide
example : (parse docHidden).isSome = true := by decide
example : ∃ e q, parse docHidden = some e ∧ e[1]? = some q ∧ (q.fld .compress).v = .num 4 :=
  ⟨_, _, parse_ok docHidden (by decide), rfl, by decide⟩


/-! ## re-encoding: json.Marshal(ClientConf) then json.Unmarshal (managed client) -/

/-- values that applyAux can produce for an option of kind `k` (and that therefore survive
    MarshalJSON / applyAux) -/
def WFv : Kind → Val → Bool
  | .str, .str _ => true
  | .int, .num _ | .dur, .num _ | .durRaw, .num _ | .floatMarked, .num _ => true
  | .size, .num n | .bytes, .num n => decide (0 ≤ n)
  | .triMarked, .bool _ | .triPlain, .bool _ | .boolPlain, .bool _ => true
  | .re, .ptr none | .rePat, .ptr none | .reGroup, .ptr none => true
  | .re, .ptr (some t) => t != "" && safeRe t.toList
  | .rePat, .ptr (some t) => t != "" && t != defaultTagText && (parsePat t.toList).isSome
  | .reGroup, .ptr (some t) => t != "" && (parseGroupBy t.toList).isSome
  | .reList, .list none => true
  | .reList, .list (some xs) => xs.all (fun t => safeRe t.toList)
  | .mapList, .list none => true
  | .mapList, .list (some xs) => xs.length % 2 == 0 && xs.all (fun t => safeRe t.toList)
  | _, _ => false

/-- kinds decoded and encoded field by field without marker -/
def Kind.plain (k : Kind) : Bool := !k.marked && k != .reList

theorem isTrueStr_true : isTrueStr "true" = true := by decide
theorem isTrueStr_false : isTrueStr "false" = false := by decide
theorem isFalseStr_false : isFalseStr "false" = true := by decide
theorem isTrueStr_empty : isTrueStr "" = false := by decide
theorem isFalseStr_empty : isFalseStr "" = false := by decide

/-- applyAux produces well-formed values -/
theorem applyK_WFv (k : Kind) (w : Option W) (h : okK k w = true) : WFv k (applyK k w).v = true := by
  cases w with
  | none => cases k <;> simp [applyK, WFv]
  | some x =>
    cases k <;> cases x <;> simp only [applyK] <;> (try split) <;> (try split) <;>
      simp_all [WFv, okK]

theorem applyK_plain_unset (k : Kind) (w : Option W) (hk : k.plain = true) : (applyK k w).set = false := by
  cases h : (applyK k w).set
  · rfl
  · have := applyK_set_marked k w h
    simp [Kind.plain, this] at hk

/-- MarshalJSON then applyAux is the identity on well-formed values of plain kinds, and the
    decoder accepts what MarshalJSON writes -/
theorem rt_plain (k : Kind) (v : Val) (hk : k.plain = true) (hv : WFv k v = true) :
    applyK k (marshalK k ⟨v, false⟩) = ⟨v, false⟩ ∧ okK k (marshalK k ⟨v, false⟩) = true := by
  cases k <;> simp [Kind.plain, Kind.marked] at hk <;>
    rcases v with s | n | b | (_ | t) | (_ | xs) <;>
    simp_all [WFv, marshalK, applyK, okK]
  · cases b <;> simp [isTrueStr_true, isTrueStr_false]
  · rfl



theorem fld_eta (x : Fld) (h : x.set = false) : x = ⟨x.v, false⟩ := by
  cases x; simp_all

theorem not_plain_cases (k : Kind) (hk : k ≠ .reList) (hp : k.plain = false) :
    k = .triMarked ∨ k = .floatMarked := by
  cases k <;> simp_all [Kind.plain, Kind.marked]

/-- a source that inherits nothing (source 0, tag 0): re-encoding gives back applyAux's result -/
theorem rt_first (k : Kind) (w : Option W) (hk : k ≠ .reList) (hok : okK k w = true) :
    applyK k (marshalK k (applyK k w)) = applyK k w ∧ okK k (marshalK k (applyK k w)) = true := by
  cases hp : k.plain with
  | true =>
    have hset := applyK_plain_unset k w hp
    rw [fld_eta _ hset]
    exact rt_plain k _ hp (applyK_WFv k w hok)
  | false =>
    rcases not_plain_cases k hk hp with rfl | rfl
    · rcases w with _ | (t | _ | _ | _ | _)
      · simp [applyK, marshalK, okK, isTrueStr_empty, isFalseStr_empty]
      · cases h1 : isTrueStr t <;> cases h2 : isFalseStr t <;>
          simp [marshalK, applyK, okK, h1, h2, isTrueStr_true, isTrueStr_false, isFalseStr_false,
            isTrueStr_empty, isFalseStr_empty]
      all_goals simp [okK] at hok
    · rcases w with _ | (t | v | _ | _ | _)
      · simp [applyK, marshalK, okK]
      · simp [applyK, marshalK, okK]
      · simp [applyK, marshalK, okK]
      all_goals simp [okK] at hok

/-- the chain step on one field: inherit, re-encode, decode, inherit again from the same
    preceding value gives the same field; what MarshalJSON wrote is accepted; the result is
    again well-formed -/
theorem rt_inherit (k : Kind) (s : Fld) (w : Option W) (hk : k ≠ .reList)
    (hs : WFv k s.v = true) (hok : okK k w = true) :
    inheritFld k.marked s (applyK k (marshalK k (inheritFld k.marked s (applyK k w))))
      = inheritFld k.marked s (applyK k w) ∧
    okK k (marshalK k (inheritFld k.marked s (applyK k w))) = true ∧
    WFv k (inheritFld k.marked s (applyK k w)).v = true := by
  cases hp : k.plain with
  | true =>
    have hm : k.marked = false := by
      cases h : k.marked
      · rfl
      · simp [Kind.plain, h] at hp
    have hset := applyK_plain_unset k w hp
    have hwf := applyK_WFv k w hok
    rw [hm]
    generalize applyK k w = t at hset hwf
    rcases t with ⟨tv, ts⟩
    simp only at hset hwf
    subst hset
    cases hz : tv.isZero with
    | true =>
      have e1 : inheritFld false s ⟨tv, false⟩ = ⟨s.v, false⟩ := by
        simp [inheritFld, copyZeroFld, hz]
      rw [e1]
      obtain ⟨r1, r2⟩ := rt_plain k s.v hp hs
      rw [r1]
      refine ⟨?_, r2, hs⟩
      simp [inheritFld, copyZeroFld]
    | false =>
      have e1 : inheritFld false s ⟨tv, false⟩ = ⟨tv, false⟩ := by
        simp [inheritFld, copyZeroFld, hz]
      rw [e1]
      obtain ⟨r1, r2⟩ := rt_plain k tv hp hwf
      rw [r1]
      exact ⟨e1, r2, hwf⟩
  | false =>
    rcases not_plain_cases k hk hp with rfl | rfl
    · rcases s with ⟨sv, ss⟩
      rcases sv with _ | _ | b | _ | _ <;> simp [WFv] at hs
      rcases w with _ | (t | _ | _ | _ | _) <;> simp [okK] at hok
      · cases b <;>
          simp [Kind.marked, inheritFld, copyZeroFld, applyK, marshalK, okK, WFv, Val.isZero,
            isTrueStr_true, isTrueStr_false, isFalseStr_false, isTrueStr_empty, isFalseStr_empty]
      · cases h1 : isTrueStr t <;> cases h2 : isFalseStr t <;> cases b <;>
          simp [Kind.marked, inheritFld, copyZeroFld, applyK, marshalK, okK, WFv, Val.isZero, h1, h2,
            isTrueStr_true, isTrueStr_false, isFalseStr_false, isTrueStr_empty, isFalseStr_empty]
    · rcases s with ⟨sv, ss⟩
      rcases sv with _ | m | _ | _ | _ <;> simp [WFv] at hs
      rcases w with _ | (t | v | _ | _ | _) <;> simp [okK] at hok
      · simp [Kind.marked, inheritFld, copyZeroFld, applyK, marshalK, okK, WFv, Val.isZero]
      · subst hok
        simp [Kind.marked, inheritFld, copyZeroFld, applyK, marshalK, okK, WFv, Val.isZero]
      · have e0 : applyK .floatMarked (some (.n v)) = ⟨.num v, true⟩ := by simp [applyK]
        have e1 : ∀ s : Fld, inheritFld true s ⟨.num v, true⟩ = ⟨.num v, true⟩ := by
          intro s
          unfold inheritFld copyZeroFld
          by_cases hz : (Val.num v).isZero = true <;> simp [hz]
        simp only [Kind.marked, e0, e1]
        simp [marshalK, e0, e1, okK, WFv]


/-! ### tags -/

theorem Tag.ext_fld (a b : Tag) (h : ∀ f, a.fld f = b.fld f) : a = b := by
  cases a; cases b; simp only [Tag.mk.injEq]; exact funext h

theorem Target.ext_fld (a b : Target) (h : ∀ f, a.fld f = b.fld f) : a = b := by
  cases a; cases b; simp only [Target.mk.injEq]; exact funext h

theorem mem_allTag (f : TagField) : f ∈ allTag := by cases f <;> simp [allTag, tagTable]
theorem mem_allTgt (f : TgtField) : f ∈ allTgt := by cases f <;> simp [allTgt, tgtTable]
theorem mem_allSrc (f : SrcField) : f ∈ allSrc := by cases f <;> simp [allSrc, srcTable]

theorem okTag_iff (w : WTag) : okTag w = true ↔ ∀ f, okK (tagKind f) (w.opt f) = true := by
  unfold okTag
  rw [List.all_eq_true]
  exact ⟨fun h f => h f (mem_allTag f), fun h f _ => h f⟩

theorem okTarget_iff (w : WTarget) : okTarget w = true ↔ ∀ f, okK (tgtKind f) (w.opt f) = true := by
  unfold okTarget
  rw [List.all_eq_true]
  exact ⟨fun h f => h f (mem_allTgt f), fun h f _ => h f⟩

theorem tagKind_ne (f : TagField) : tagKind f ≠ .reList ∧ tagKind f ≠ .floatMarked := by
  cases f <;> simp [tagKind]

def rtTag (t : Tag) : Tag := applyTag (marshalTag t)

/-- tag 0 of a list -/
theorem rtTag_first (w : WTag) (hok : okTag w = true) :
    rtTag (applyTag w) = applyTag w ∧ okTag (marshalTag (applyTag w)) = true := by
  rw [okTag_iff] at hok
  have key : ∀ f, applyK (tagKind f) (marshalK (tagKind f) (applyK (tagKind f) (w.opt f)))
        = applyK (tagKind f) (w.opt f) ∧
      okK (tagKind f) (marshalK (tagKind f) (applyK (tagKind f) (w.opt f))) = true :=
    fun f => rt_first _ _ (tagKind_ne f).1 (hok f)
  refine ⟨Tag.ext_fld _ _ (fun f => (key f).1), ?_⟩
  rw [okTag_iff]
  exact fun f => (key f).2

/-- tag j > 0 of a list whose tag 0 is `applyTag w0` -/
theorem rtTag_inherit (w0 w : WTag) (h0 : okTag w0 = true) (hok : okTag w = true) :
    tagInherit (applyTag w0) (rtTag (tagInherit (applyTag w0) (applyTag w)))
      = tagInherit (applyTag w0) (applyTag w) ∧
    okTag (marshalTag (tagInherit (applyTag w0) (applyTag w))) = true := by
  rw [okTag_iff] at h0 hok
  have key : ∀ f, _ := fun f =>
    rt_inherit (tagKind f) ((applyTag w0).fld f) (w.opt f) (tagKind_ne f).1
      (applyK_WFv _ _ (h0 f)) (hok f)
  refine ⟨Tag.ext_fld _ _ (fun f => ?_), ?_⟩
  · have := (key f).1
    simp only [tagInherit, rtTag, applyTag, marshalTag, tagRestored_eq_marked]
    exact this
  · rw [okTag_iff]
    intro f
    have := (key f).2.1
    simp only [tagInherit, applyTag, marshalTag, tagRestored_eq_marked]
    exact this

/-- tag lists as propagate() leaves them -/
def TagsEff (ts : List Tag) : Prop :=
  ∃ ws : List WTag, (∀ w ∈ ws, okTag w = true) ∧ ts = tagsProp (ws.map applyTag)

theorem TagsEff_idem (ts : List Tag) (h : TagsEff ts) : tagsProp ts = ts := by
  obtain ⟨ws, _, rfl⟩ := h
  exact tagsProp_idem _

theorem TagsEff_rt (ts : List Tag) (h : TagsEff ts) :
    tagsProp (ts.map rtTag) = ts ∧ (ts.map marshalTag).all okTag = true := by
  obtain ⟨ws, hok, rfl⟩ := h
  cases ws with
  | nil => simp [tagsProp]
  | cons w0 rest =>
    have h0 := hok w0 (by simp)
    obtain ⟨r0, k0⟩ := rtTag_first w0 h0
    simp only [List.map_cons, tagsProp, List.map_map, r0, List.all_cons, k0, Bool.true_and]
    constructor
    · congr 1
      apply List.map_congr_left
      intro w hw
      exact (rtTag_inherit w0 w h0 (hok w (by simp [hw]))).1
    · rw [List.all_eq_true]
      intro x hx
      simp only [List.mem_map, Function.comp_apply] at hx
      obtain ⟨w, hw, rfl⟩ := hx
      exact (rtTag_inherit w0 w h0 (hok w (by simp [hw]))).2

/-! ### target -/

def rtTarget (t : Target) : Target := applyTarget (marshalTarget t)

def WFt (t : Target) : Prop := ∀ g, WFv (tgtKind g) (t.fld g).v = true ∧ (t.fld g).set = false

theorem tgtKind_plain (g : TgtField) : (tgtKind g).plain = true := by cases g <;> rfl

theorem WFt_apply (w : WTarget) (h : okTarget w = true) : WFt (applyTarget w) := by
  rw [okTarget_iff] at h
  exact fun g => ⟨applyK_WFv _ _ (h g), applyK_plain_unset _ _ (tgtKind_plain g)⟩

theorem WFt_rt (t : Target) (h : WFt t) : rtTarget t = t ∧ okTarget (marshalTarget t) = true := by
  have key : ∀ g, _ := fun g => rt_plain (tgtKind g) (t.fld g).v (tgtKind_plain g) (h g).1
  refine ⟨Target.ext_fld _ _ (fun g => ?_), ?_⟩
  · have := (key g).1
    rw [← fld_eta _ (h g).2] at this
    exact this
  · rw [okTarget_iff]
    intro g
    have := (key g).2
    rw [← fld_eta _ (h g).2] at this
    exact this

theorem WFt_copyZero (t s : Target) (ht : WFt t) (hs : WFt s) : WFt (copyZeroTarget t s) := by
  intro g
  simp only [copyZeroTarget, copyZeroFld]
  split
  · exact ⟨(hs g).1, (ht g).2⟩
  · exact ht g

theorem copyZeroFld_idem (t s : Fld) : copyZeroFld (copyZeroFld t s) s = copyZeroFld t s := by
  unfold copyZeroFld
  by_cases h1 : t.v.isZero = true <;> by_cases h2 : s.v.isZero = true <;> simp [h1, h2]

theorem copyZeroTarget_idem (t s : Target) :
    copyZeroTarget (copyZeroTarget t s) s = copyZeroTarget t s :=
  Target.ext_fld _ _ (fun g => copyZeroFld_idem _ _)

theorem copyZeroTarget_nonzero (t s : Target) (h : t.isZero = false) :
    (copyZeroTarget t s).isZero = false := by
  simp only [Target.isZero, List.all_eq_false] at h ⊢
  obtain ⟨g, hg, hz⟩ := h
  refine ⟨g, hg, ?_⟩
  simp only [copyZeroTarget, copyZeroFld]
  have : (t.fld g).v.isZero = false := by simpa using hz
  simp [this]

/-- the target part of the chain step -/
def targetStep (pt : Option Target) (x : Option Target) : Option Target :=
  match pt, (if targetIsZero x then pt else x) with
  | some s, some t => some (copyZeroTarget t s)
  | _, t => t

theorem srcInherit_target (p a : Source) : (srcInherit p a).target = targetStep p.target a.target := rfl

theorem targetStep_idem (pt x : Option Target) : targetStep pt (targetStep pt x) = targetStep pt x := by
  cases pt with
  | none =>
    cases x with
    | none => simp [targetStep, targetIsZero]
    | some t =>
      by_cases hz : t.isZero = true
      · simp [targetStep, targetIsZero, hz]
      · simp [targetStep, targetIsZero, hz]
  | some s =>
    cases x with
    | none =>
      simp only [targetStep, targetIsZero, if_true, copyZeroTarget_self]
      by_cases hz : s.isZero = true <;> simp [hz, copyZeroTarget_self]
    | some t =>
      by_cases hz : t.isZero = true
      · simp only [targetStep, targetIsZero, hz, if_true, copyZeroTarget_self]
        by_cases hz' : s.isZero = true <;> simp [hz', copyZeroTarget_self]
      · have hz' : t.isZero = false := by simpa using hz
        have := copyZeroTarget_nonzero t s hz'
        simp [targetStep, targetIsZero, hz', this, copyZeroTarget_idem]

theorem targetStep_WFt (pt x : Option Target) (hp : ∀ t, pt = some t → WFt t)
    (hx : ∀ t, x = some t → WFt t) : ∀ t, targetStep pt x = some t → WFt t := by
  intro u hu
  unfold targetStep at hu
  cases pt with
  | none =>
    simp only at hu
    split at hu
    · simp at hu
    · exact hx u hu
  | some s =>
    by_cases hz : targetIsZero x = true
    · simp only [hz, if_true, Option.some.injEq] at hu
      subst hu
      rw [copyZeroTarget_self]
      exact hp s rfl
    · simp only [hz, if_false] at hu
      cases x with
      | none => simp [targetIsZero] at hz
      | some t =>
        have hu' : copyZeroTarget t s = u := by simpa using hu
        subst hu'
        exact WFt_copyZero t s (hx t rfl) (hp s rfl)


/-! ### sources -/

theorem Source.ext_fld (a b : Source) (h1 : ∀ f, a.fld f = b.fld f) (h2 : a.target = b.target)
    (h3 : a.tags = b.tags) : a = b := by
  cases a; cases b
  simp only [Source.mk.injEq]
  exact ⟨funext h1, h2, h3⟩

theorem srcKind_reList (f : SrcField) : srcKind f = .reList ↔ f = .include ∨ f = .ignore := by
  cases f <;> simp [srcKind]

theorem srcKind_float (f : SrcField) (h : srcKind f = .floatMarked) : f = .errorBackoff := by
  cases f <;> simp [srcKind] at h ⊢

theorem applySrcFld_ne (w : SrcField → Option W) (f : SrcField) (h : srcKind f ≠ .reList) :
    applySrcFld w f = applyK (srcKind f) (w f) := rfl

theorem marshalSrcFld_ne (q : SrcField → Fld) (f : SrcField) (h : srcKind f ≠ .reList) :
    marshalSrcFld q f = marshalK (srcKind f) (q f) := by
  unfold marshalSrcFld
  split
  · contradiction
  · rfl

def safeAll (xs : List String) : Bool := xs.all (fun t => safeRe t.toList)

/-- one pattern list as applyAux (compilePatterns) and inheritance leave it: nil, or non-nil
    and not empty -/
def ListOk (x : Fld) : Prop :=
  x = ⟨.list none, false⟩ ∨
  ∃ a as, x = ⟨.list (some (a :: as)), false⟩ ∧ safeAll (a :: as) = true

/-- include / ignore of an effective source -/
def ListsInv (fld : SrcField → Fld) : Prop := ListOk (fld .include) ∧ ListOk (fld .ignore)

theorem okK_reList (x : Option W) (h : okK .reList x = true) :
    x = none ∨ ∃ xs, x = some (.l xs) ∧ safeAll xs = true := by
  rcases x with _ | (_ | _ | _ | xs | _) <;> simp [okK] at h
  · exact Or.inl rfl
  · exact Or.inr ⟨xs, rfl, by simpa [safeAll] using h⟩

theorem ListOk_apply (x : Option W) (h : okK .reList x = true) : ListOk (applyK .reList x) := by
  rcases okK_reList x h with rfl | ⟨xs, rfl, hs⟩
  · exact Or.inl rfl
  · cases xs with
    | nil => exact Or.inl rfl
    | cons a as => exact Or.inr ⟨a, as, rfl, hs⟩

theorem ListsInv_apply (w : SrcField → Option W) (qf : SrcField → Fld)
    (hq : ∀ f, qf f = applySrcFld w f) (h1 : okK .reList (w .include) = true)
    (h2 : okK .reList (w .ignore) = true) : ListsInv qf := by
  unfold ListsInv
  rw [hq .include, hq .ignore]
  exact ⟨ListOk_apply _ h1, ListOk_apply _ h2⟩

theorem ListOk_inherit (p a : Fld) (hp : ListOk p) (ha : ListOk a) :
    ListOk (inheritFld false p a) := by
  rcases ha with rfl | ⟨x, xs, rfl, sx⟩
  · rcases hp with rfl | ⟨y, ys, rfl, sy⟩
    · left; simp [inheritFld, copyZeroFld, Val.isZero]
    · right; exact ⟨y, ys, by simp [inheritFld, copyZeroFld, Val.isZero], sy⟩
  · right; exact ⟨x, xs, by simp [inheritFld, copyZeroFld, Val.isZero], sx⟩

theorem ListsInv_inherit (pf af qf : SrcField → Fld) (hp : ListsInv pf) (ha : ListsInv af)
    (hq : ∀ f, qf f = inheritFld (srcRestored f) (pf f) (af f)) : ListsInv qf := by
  unfold ListsInv
  rw [hq .include, hq .ignore]
  exact ⟨ListOk_inherit _ _ hp.1 ha.1, ListOk_inherit _ _ hp.2 ha.2⟩

/-- MarshalJSON writes the two lists jointly (both null, or both written, an absent one as
    `[]`); applyAux reads `[]` back as nil: the pair survives the round trip -/
theorem ListsInv_rt (qf : SrcField → Fld) (h : ListsInv qf) (f : SrcField)
    (hf : srcKind f = .reList) :
    applySrcFld (marshalSrcFld qf) f = qf f ∧ okK .reList (marshalSrcFld qf f) = true := by
  have m : ∀ g, srcKind g = .reList → marshalSrcFld qf g =
      if (vList (qf .include).v).length + (vList (qf .ignore).v).length == 0 then none
      else some (.l (vList (qf g).v)) := by
    intro g hg; unfold marshalSrcFld; simp [hg]
  unfold applySrcFld
  rw [hf, m f hf]
  obtain ⟨hi, hg⟩ := h
  rcases hi with q1 | ⟨x, xs, q1, sx⟩ <;> rcases hg with q2 | ⟨y, ys, q2, sy⟩ <;>
    rcases (srcKind_reList f).mp hf with rfl | rfl <;>
    simp [q1, q2, vList, okK, applyK]
  all_goals first
    | (simpa [safeAll] using sx)
    | (simpa [safeAll] using sy)

theorem ListsInv_WFv (qf : SrcField → Fld) (h : ListsInv qf) (f : SrcField)
    (hf : srcKind f = .reList) : WFv .reList (qf f).v = true := by
  obtain ⟨hi, hg⟩ := h
  rcases (srcKind_reList f).mp hf with rfl | rfl
  · rcases hi with q1 | ⟨x, xs, q1, sx⟩
    · simp [q1, WFv]
    · rw [q1]; simpa [WFv, safeAll] using sx
  · rcases hg with q2 | ⟨y, ys, q2, sy⟩
    · simp [q2, WFv]
    · rw [q2]; simpa [WFv, safeAll] using sy

/-- effective sources as propagate() leaves them -/
structure WFe (p : Source) : Prop where
  flds : ∀ f, WFv (srcKind f) (p.fld f).v = true
  lists : ListsInv p.fld
  tgt : ∀ t, p.target = some t → WFt t
  tags : ∀ ts, p.tags = some ts → TagsEff ts

theorem okSource_iff (w : WSource) : okSource w = true ↔
    (∀ f, okK (srcKind f) (w.opt f) = true) ∧ (∀ t, w.target = some t → okTarget t = true) ∧
    (∀ ts, w.tags = some ts → ∀ x ∈ ts, okTag x = true) := by
  unfold okSource
  simp only [Bool.and_eq_true, List.all_eq_true]
  constructor
  · rintro ⟨⟨h1, h2⟩, h3⟩
    refine ⟨fun f => h1 f (mem_allSrc f), ?_, ?_⟩
    · intro t ht; simpa [ht] using h2
    · intro ts hts; simpa [hts] using h3
  · rintro ⟨h1, h2, h3⟩
    refine ⟨⟨fun f _ => h1 f, ?_⟩, ?_⟩
    · cases ht : w.target with
      | none => rfl
      | some t => exact h2 t ht
    · cases hts : w.tags with
      | none => rfl
      | some ts => simpa using h3 ts hts

def rtSource (s : Source) : Source := applySource (marshalSource s)

def tagsStep (pt x : Option (List Tag)) : Option (List Tag) :=
  (match x with | none => pt | some ts => some ts).map tagsProp

theorem tagsStep_eff (pt : Option (List Tag)) (x : Option (List WTag))
    (hp : ∀ ts, pt = some ts → TagsEff ts) (hx : ∀ ws, x = some ws → ∀ w ∈ ws, okTag w = true) :
    ∀ ts, tagsStep pt (x.map (·.map applyTag)) = some ts → TagsEff ts := by
  intro ts h
  cases x with
  | none =>
    cases pt with
    | none => simp [tagsStep] at h
    | some ps =>
      simp only [tagsStep, Option.map_none, Option.map_some, Option.some.injEq] at h
      rw [TagsEff_idem ps (hp ps rfl)] at h
      subst h; exact hp _ rfl
  | some ws =>
    simp only [tagsStep, Option.map_some, Option.some.injEq] at h
    exact ⟨ws, hx ws rfl, h.symm⟩

theorem tagsStep_rt (pt x : Option (List Tag))
    (hq : ∀ ts, tagsStep pt x = some ts → TagsEff ts) :
    tagsStep pt ((tagsStep pt x).map (·.map rtTag)) = tagsStep pt x := by
  cases hqq : tagsStep pt x with
  | none =>
    cases x with
    | some ts => simp [tagsStep] at hqq
    | none =>
      cases pt with
      | none => rfl
      | some ps => simp [tagsStep] at hqq
  | some ts =>
    have := (TagsEff_rt ts (hq ts hqq)).1
    simp [tagsStep, this]

theorem tagsStep_ok (pt x : Option (List Tag)) (hq : ∀ ts, tagsStep pt x = some ts → TagsEff ts) :
    ∀ ms, (tagsStep pt x).map (·.map marshalTag) = some ms → ∀ m ∈ ms, okTag m = true := by
  intro ms h m hm
  cases hqq : tagsStep pt x with
  | none => simp [hqq] at h
  | some ts =>
    simp only [hqq, Option.map_some, Option.some.injEq] at h
    subst h
    have := (TagsEff_rt ts (hq ts hqq)).2
    rw [List.all_eq_true] at this
    exact this m hm

theorem srcInherit_tags (p a : Source) :
    (tagsPropS (srcInherit p a)).tags = tagsStep p.tags a.tags := by
  simp only [tagsPropS, srcInherit, tagsStep]
  cases a.tags <;> rfl

/-- one step of the chain: completing the re-encoded source from the same predecessor gives
    the same source -/
theorem step_rt (p : Source) (w : WSource) (hp : WFe p) (hok : okSource w = true) :
    tagsPropS (srcInherit p (rtSource (tagsPropS (srcInherit p (applySource w)))))
      = tagsPropS (srcInherit p (applySource w)) ∧
    okSource (marshalSource (tagsPropS (srcInherit p (applySource w)))) = true ∧
    WFe (tagsPropS (srcInherit p (applySource w))) := by
  rw [okSource_iff] at hok
  obtain ⟨okf, okt, okg⟩ := hok
  -- the completed source q, component by component
  have qfld : ∀ f, (tagsPropS (srcInherit p (applySource w))).fld f
      = inheritFld (srcRestored f) (p.fld f) (applySrcFld w.opt f) := fun _ => rfl
  have qtgt : (tagsPropS (srcInherit p (applySource w))).target
      = targetStep p.target (w.target.map applyTarget) := rfl
  have qtags : (tagsPropS (srcInherit p (applySource w))).tags
      = tagsStep p.tags (w.tags.map (·.map applyTag)) := srcInherit_tags _ _
  generalize hq : tagsPropS (srcInherit p (applySource w)) = q at *
  -- invariants of q
  have qlists : ListsInv q.fld :=
    ListsInv_inherit p.fld (applySrcFld w.opt) q.fld hp.lists
      (ListsInv_apply w.opt _ (fun _ => rfl) (okf .include) (okf .ignore)) qfld
  have fieldKey : ∀ f, srcKind f ≠ .reList →
      inheritFld (srcRestored f) (p.fld f) (applyK (srcKind f) (marshalK (srcKind f) (q.fld f)))
        = q.fld f ∧
      okK (srcKind f) (marshalK (srcKind f) (q.fld f)) = true ∧
      WFv (srcKind f) (q.fld f).v = true := by
    intro f hf
    rw [qfld f, applySrcFld_ne _ _ hf, srcRestored_eq_marked]
    exact rt_inherit _ _ _ hf (hp.flds f) (okf f)
  have qtgtWF : ∀ t, q.target = some t → WFt t := by
    rw [qtgt]
    apply targetStep_WFt _ _ hp.tgt
    intro t ht
    cases hw : w.target with
    | none => simp [hw] at ht
    | some wt =>
      simp only [hw, Option.map_some, Option.some.injEq] at ht
      subst ht
      exact WFt_apply wt (okt wt hw)
  have qtagsEff : ∀ ts, q.tags = some ts → TagsEff ts := by
    rw [qtags]
    exact tagsStep_eff _ _ hp.tags okg
  have qWF : WFe q := by
    refine ⟨fun f => ?_, qlists, qtgtWF, qtagsEff⟩
    by_cases hf : srcKind f = .reList
    · rw [hf]; exact ListsInv_WFv q.fld qlists f hf
    · exact (fieldKey f hf).2.2
  refine ⟨?_, ?_, qWF⟩
  · -- equality
    apply Source.ext_fld
    · intro f
      show inheritFld (srcRestored f) (p.fld f) (applySrcFld (marshalSrcFld q.fld) f) = q.fld f
      by_cases hf : srcKind f = .reList
      · rw [(ListsInv_rt q.fld qlists f hf).1, qfld f, inheritFld_idem]
      · rw [applySrcFld_ne _ _ hf, marshalSrcFld_ne _ _ hf]
        exact (fieldKey f hf).1
    · show targetStep p.target ((q.target.map marshalTarget).map applyTarget) = q.target
      have : (q.target.map marshalTarget).map applyTarget = q.target := by
        cases ht : q.target with
        | none => rfl
        | some t =>
          have := (WFt_rt t (qtgtWF t ht)).1
          simp only [Option.map_some, Option.some.injEq]
          exact this
      rw [this, qtgt, targetStep_idem]
    · rw [srcInherit_tags]
      show tagsStep p.tags ((q.tags.map (·.map marshalTag)).map (·.map applyTag)) = q.tags
      have : (q.tags.map (·.map marshalTag)).map (·.map applyTag) = q.tags.map (·.map rtTag) := by
        cases q.tags <;> simp [rtTag, Function.comp_def]
      rw [this, qtags]
      apply tagsStep_rt
      rw [← qtags]; exact qtagsEff
  · -- the decoder accepts what MarshalJSON wrote
    rw [okSource_iff]
    refine ⟨fun f => ?_, ?_, ?_⟩
    · show okK (srcKind f) (marshalSrcFld q.fld f) = true
      by_cases hf : srcKind f = .reList
      · rw [hf]; exact (ListsInv_rt q.fld qlists f hf).2
      · rw [marshalSrcFld_ne _ _ hf]; exact (fieldKey f hf).2.1
    · intro mt hmt
      cases ht : q.target with
      | none => simp [marshalSource, ht] at hmt
      | some t =>
        simp only [marshalSource, ht, Option.map_some, Option.some.injEq] at hmt
        subst hmt
        exact (WFt_rt t (qtgtWF t ht)).2
    · intro ms hms
      have hms' : q.tags.map (·.map marshalTag) = some ms := hms
      rw [qtags] at hms'
      exact tagsStep_ok _ _ (by rw [← qtags]; exact qtagsEff) ms hms'


theorem tagsStep_none (x : Option (List Tag)) : tagsStep none x = x.map tagsProp := by
  cases x <;> rfl

/-- source 0 -/
theorem first_rt (w : WSource) (hok : okSource w = true) :
    tagsPropS (rtSource (tagsPropS (applySource w))) = tagsPropS (applySource w) ∧
    okSource (marshalSource (tagsPropS (applySource w))) = true ∧
    WFe (tagsPropS (applySource w)) := by
  rw [okSource_iff] at hok
  obtain ⟨okf, okt, okg⟩ := hok
  have qfld : ∀ f, (tagsPropS (applySource w)).fld f = applySrcFld w.opt f := fun _ => rfl
  have qtgt : (tagsPropS (applySource w)).target = w.target.map applyTarget := rfl
  have qtags : (tagsPropS (applySource w)).tags = tagsStep none (w.tags.map (·.map applyTag)) := by
    rw [tagsStep_none]; rfl
  generalize hq : tagsPropS (applySource w) = q at *
  have qlists : ListsInv q.fld :=
    ListsInv_apply w.opt q.fld qfld (okf .include) (okf .ignore)
  have fieldKey : ∀ f, srcKind f ≠ .reList →
      applyK (srcKind f) (marshalK (srcKind f) (q.fld f)) = q.fld f ∧
      okK (srcKind f) (marshalK (srcKind f) (q.fld f)) = true ∧
      WFv (srcKind f) (q.fld f).v = true := by
    intro f hf
    rw [qfld f, applySrcFld_ne _ _ hf]
    have := rt_first (srcKind f) (w.opt f) hf (okf f)
    exact ⟨this.1, this.2, applyK_WFv _ _ (okf f)⟩
  have qtgtWF : ∀ t, q.target = some t → WFt t := by
    intro t ht
    rw [qtgt] at ht
    cases hw : w.target with
    | none => simp [hw] at ht
    | some wt =>
      simp only [hw, Option.map_some, Option.some.injEq] at ht
      subst ht
      exact WFt_apply wt (okt wt hw)
  have qtagsEff : ∀ ts, q.tags = some ts → TagsEff ts := by
    rw [qtags]
    exact tagsStep_eff none _ (fun _ h => by simp at h) okg
  have qWF : WFe q := by
    refine ⟨fun f => ?_, qlists, qtgtWF, qtagsEff⟩
    by_cases hf : srcKind f = .reList
    · rw [hf]; exact ListsInv_WFv q.fld qlists f hf
    · exact (fieldKey f hf).2.2
  refine ⟨?_, ?_, qWF⟩
  · apply Source.ext_fld
    · intro f
      show applySrcFld (marshalSrcFld q.fld) f = q.fld f
      by_cases hf : srcKind f = .reList
      · exact (ListsInv_rt q.fld qlists f hf).1
      · rw [applySrcFld_ne _ _ hf, marshalSrcFld_ne _ _ hf]
        exact (fieldKey f hf).1
    · show (q.target.map marshalTarget).map applyTarget = q.target
      cases ht : q.target with
      | none => rfl
      | some t =>
        have := (WFt_rt t (qtgtWF t ht)).1
        simp only [Option.map_some, Option.some.injEq]
        exact this
    · show ((q.tags.map (·.map marshalTag)).map (·.map applyTag)).map tagsProp = q.tags
      have : (q.tags.map (·.map marshalTag)).map (·.map applyTag) = q.tags.map (·.map rtTag) := by
        cases q.tags <;> simp [rtTag, Function.comp_def]
      rw [this, ← tagsStep_none, qtags]
      apply tagsStep_rt
      rw [← qtags]; exact qtagsEff
  · rw [okSource_iff]
    refine ⟨fun f => ?_, ?_, ?_⟩
    · show okK (srcKind f) (marshalSrcFld q.fld f) = true
      by_cases hf : srcKind f = .reList
      · rw [hf]; exact (ListsInv_rt q.fld qlists f hf).2
      · rw [marshalSrcFld_ne _ _ hf]; exact (fieldKey f hf).2.1
    · intro mt hmt
      cases ht : q.target with
      | none => simp [marshalSource, ht] at hmt
      | some t =>
        simp only [marshalSource, ht, Option.map_some, Option.some.injEq] at hmt
        subst hmt
        exact (WFt_rt t (qtgtWF t ht)).2
    · intro ms hms
      have hms' : q.tags.map (·.map marshalTag) = some ms := hms
      rw [qtags] at hms'
      exact tagsStep_ok _ _ (by rw [← qtags]; exact qtagsEff) ms hms'

theorem chain_rt (p : Source) (ws : List WSource) (hp : WFe p)
    (hok : ∀ w ∈ ws, okSource w = true) :
    chain p ((chain p (ws.map applySource)).map rtSource) = chain p (ws.map applySource) ∧
    ∀ s ∈ chain p (ws.map applySource), okSource (marshalSource s) = true := by
  induction ws generalizing p with
  | nil => simp [chain]
  | cons w rest ih =>
    simp only [List.map_cons, chain]
    obtain ⟨r1, r2, r3⟩ := step_rt p w hp (hok w (by simp))
    have ih' := ih (tagsPropS (srcInherit p (applySource w))) r3
      (fun x hx => hok x (by simp [hx]))
    constructor
    · show tagsPropS (srcInherit p (rtSource _)) :: chain _ _ = _
      rw [r1, ih'.1]
    · intro s hs
      simp only [List.mem_cons] at hs
      rcases hs with rfl | hs
      · exact r2
      · exact ih'.2 s hs

/-- C19, third clause, FULL: encoding a parsed sender configuration to JSON (as the server does
    for a managed client) and parsing it again yields the SAME effective configuration — every
    option of every source, target and tag, markers included, for every accepted document.
    (Before `fix: error-backoff lost its decimals ...` this needed the hypothesis that every
    explicitly set error-backoff has at most six decimals: `reencode_fixpoint_false_old`.) -/
theorem reencode_fixpoint (c : List WSource) (e : List Source) (h : parse c = some e) :
    ofJSON (toJSON e) = some e := by
  obtain ⟨he, hok⟩ := parse_eq c e h
  rw [List.all_eq_true] at hok
  subst he
  cases c with
  | nil => simp [ofJSON, toJSON, parse, propagate]
  | cons w rest =>
    simp only [List.map_cons, propagate]
    obtain ⟨r1, r2, r3⟩ := first_rt w (hok w (by simp))
    obtain ⟨c1, c2⟩ := chain_rt (tagsPropS (applySource w)) rest r3
      (fun x hx => hok x (by simp [hx]))
    have hall : (toJSON (tagsPropS (applySource w) ::
        chain (tagsPropS (applySource w)) (rest.map applySource))).all okSource = true := by
      rw [List.all_eq_true]
      intro x hx
      simp only [toJSON, List.map_cons, List.mem_cons, List.mem_map] at hx
      rcases hx with rfl | ⟨s, hs, rfl⟩
      · exact r2
      · exact c2 s hs
    unfold ofJSON parse
    rw [if_pos hall]
    simp only [toJSON, List.map_cons, List.map_map, propagate]
    have e1 : applySource (marshalSource (tagsPropS (applySource w)))
        = rtSource (tagsPropS (applySource w)) := rfl
    have e2 : (chain (tagsPropS (applySource w)) (rest.map applySource)).map
        (applySource ∘ marshalSource)
        = (chain (tagsPropS (applySource w)) (rest.map applySource)).map rtSource := rfl
    rw [e1, e2, r1, c1]

/-- re-encoding is idempotent from the first round on: what a managed client parsed is again
    a parsed configuration, so a second hand-over changes nothing either -/
theorem reencode_fixpoint_again (c : List WSource) (e : List Source) (h : parse c = some e) :
    ofJSON (toJSON e) = some e ∧ ∀ e', ofJSON (toJSON e) = some e' → ofJSON (toJSON e') = some e' := by
  have h1 := reencode_fixpoint c e h
  refine ⟨h1, fun e' he' => ?_⟩
  rw [h1] at he'
  injection he' with he'
  subst he'
  exact h1

theorem effective_set (c : List WSource) (e : List Source) (h : parse c = some e)
    (i : Nat) (q : Source) (w : WSource) (hq : e[i]? = some q) (hw : c[i]? = some w)
    (f : SrcField) : (q.fld f).set = ((applySource w).fld f).set := by
  cases i with
  | zero => rw [effective_fld_zero c e h q w hq hw]
  | succ j =>
    have hlen : j < e.length := by
      have := (List.getElem?_eq_some_iff.mp hq).1; omega
    rw [effective_fld_succ c e h j e[j] q w (List.getElem?_eq_getElem hlen) hq hw f]
    exact inheritFld_set _ _ _

def docBackoff : List WSource := [wsrc [(.errorBackoff, .n 1234567890)]]

/-- F7c, repaired by `fix: error-backoff lost its decimals beyond the sixth when re-encoded as
    JSON`: with the ORIGINAL MarshalJSON (`toJSONOld`: %f, six decimals)
    `error-backoff: 1.23456789` read 1.234568 at the managed client. -/
theorem reencode_fixpoint_false_old :
    ∃ e e' q q', parse docBackoff = some e ∧ ofJSON (toJSONOld e) = some e' ∧
      e[0]? = some q ∧ e'[0]? = some q' ∧
      q.fld .errorBackoff = ⟨.num 1234567890, true⟩ ∧
      q'.fld .errorBackoff = ⟨.num 1234568000, true⟩ :=
  ⟨_, _, _, _, parse_ok docBackoff (by decide), parse_ok _ (by decide), rfl, rfl,
    by decide, by decide⟩

/-- the repaired behaviour on the same document -/
theorem backoff_reencoded_repaired :
    ∃ e q, parse docBackoff = some e ∧ ofJSON (toJSON e) = some e ∧ e[0]? = some q ∧
      q.fld .errorBackoff = ⟨.num 1234567890, true⟩ :=
  ⟨_, _, parse_ok docBackoff (by decide),
    reencode_fixpoint docBackoff _ (parse_ok docBackoff (by decide)), rfl, by decide⟩

/-- the old and the new MarshalJSON differ in nothing but a set error-backoff with more than
    six decimals -/
theorem marshalSrcFldOld_eq (s : SrcField → Fld) (f : SrcField)
    (h : f = .errorBackoff → (s f).set = true → ∀ n, (s f).v = .num n → round6 n = n) :
    marshalSrcFldOld s f = marshalSrcFld s f := by
  unfold marshalSrcFldOld
  split
  · rename_i n hk hv
    have hf : f = .errorBackoff := srcKind_float f hk
    subst hf
    by_cases hset : (s .errorBackoff).set = true
    · have := h rfl hset n hv
      simp [marshalSrcFld, srcKind, marshalK, hv, hset, this]
    · have hset' : (s .errorBackoff).set = false := by simpa using hset
      simp [marshalSrcFld, srcKind, marshalK, hv, hset']
  · rfl

/-! ### non-vacuity of the re-encoding theorem -/

example : ∃ e, parse docHidden = some e ∧ ofJSON (toJSON e) = some e :=
  ⟨_, parse_ok docHidden (by decide), reencode_fixpoint docHidden _
    (parse_ok docHidden (by decide))⟩

example : ∃ e, parse docLists = some e ∧ ofJSON (toJSON e) = some e :=
  ⟨_, parse_ok docLists (by decide), reencode_fixpoint docLists _
    (parse_ok docLists (by decide))⟩

example : round6 1500000000 = 1500000000 := by decide
example : round6 1000000500 = 1000000000 := by decide
example : round6 1000001500 = 1000002000 := by decide

end Sts.Cfg
