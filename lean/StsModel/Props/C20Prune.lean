import StsModel.Model.Prune
/-
  Property C20, second half: "the cleaning removes only directories that are empty and old enough"
  (stage/local.go Prune / pruneTree), proved about the model in Model/Prune.lean for ALL trees, roots,
  clocks and minimum ages.
-/
namespace Sts.Prune

/-- the paths present in a tree -/
def paths (fs : Tree) : List Path := fs.map (·.path)

/-- the test of one loop round: the directory exists, `os.ReadDir` lists nothing, `os.Remove` succeeds -/
def fires (ok : Path → Bool) (fs : Tree) (d : Path) : Bool := isDirAt fs d && !hasEntries fs d && ok d

/-! ### basic facts about the tree operations -/

theorem mem_paths {fs : Tree} {p : Path} : p ∈ paths fs ↔ ∃ e ∈ fs, e.path = p := by
  simp [paths]

theorem hasEntries_iff {fs : Tree} {d : Path} :
    hasEntries fs d = true ↔ ∃ q ∈ paths fs, childOf d q = true := by
  simp only [hasEntries, paths, List.any_eq_true, List.mem_map]
  constructor
  · rintro ⟨e, he, hc⟩; exact ⟨e.path, ⟨e, he, rfl⟩, hc⟩
  · rintro ⟨q, ⟨e, he, rfl⟩, hc⟩; exact ⟨e, he, hc⟩

theorem hasEntries_false_iff {fs : Tree} {d : Path} :
    hasEntries fs d = false ↔ ∀ q ∈ paths fs, childOf d q = false := by
  rw [← Bool.not_eq_true, hasEntries_iff]; simp

theorem isDirAt_iff {fs : Tree} {d : Path} :
    isDirAt fs d = true ↔ ∃ e ∈ fs, e.path = d ∧ e.isDir = true := by
  simp [isDirAt]

theorem paths_touch (t : Int) (p : Path) (fs : Tree) : paths (touch t p fs) = paths fs := by
  induction fs with
  | nil => rfl
  | cons e es ih =>
    simp only [paths, touch, List.map_cons] at ih ⊢
    rw [ih]; congr 1; split <;> rfl

theorem mem_touch {t : Int} {p : Path} {fs : Tree} {e' : Entry} :
    e' ∈ touch t p fs ↔ ∃ e ∈ fs, e' = if e.path = p then { e with mtime := t } else e := by
  simp [touch, eq_comm]

theorem isDirAt_touch (t : Int) (p : Path) (fs : Tree) (d : Path) :
    isDirAt (touch t p fs) d = isDirAt fs d := by
  induction fs with
  | nil => rfl
  | cons e es ih =>
    simp only [isDirAt, touch, List.map_cons, List.any_cons] at ih ⊢
    rw [ih]; congr 1; split <;> rfl

theorem hasEntries_touch (t : Int) (p : Path) (fs : Tree) (d : Path) :
    hasEntries (touch t p fs) d = hasEntries fs d := by
  induction fs with
  | nil => rfl
  | cons e es ih =>
    simp only [hasEntries, touch, List.map_cons, List.any_cons] at ih ⊢
    rw [ih]; congr 1; split <;> rfl

theorem removeStep_eq (ok : Path → Bool) (now : Int) (fs : Tree) (d : Path) :
    removeStep ok now fs d =
      if fires ok fs d then touch now (parent d) (fs.filter (fun e => e.path != d)) else fs := rfl

/-- a loop round removes at most the directory it looks at, and only when the test fires -/
theorem mem_paths_removeStep {ok : Path → Bool} {now : Int} {fs : Tree} {d q : Path} :
    q ∈ paths (removeStep ok now fs d) ↔ q ∈ paths fs ∧ ¬(q = d ∧ fires ok fs d = true) := by
  rw [removeStep_eq]
  split
  · rename_i h
    rw [paths_touch]; simp [paths, h]
    constructor
    · rintro ⟨e, ⟨he, hne⟩, rfl⟩; exact ⟨⟨e, he, rfl⟩, hne⟩
    · rintro ⟨⟨e, he, rfl⟩, hne⟩; exact ⟨e, ⟨he, hne⟩, rfl⟩
  · rename_i h; simp [h]

theorem isDirAt_removeStep {ok : Path → Bool} {now : Int} {fs : Tree} {d q : Path} :
    isDirAt (removeStep ok now fs d) q = true ↔ isDirAt fs q = true ∧ ¬(q = d ∧ fires ok fs d = true) := by
  rw [removeStep_eq]
  split
  · rename_i h
    rw [isDirAt_touch]; simp only [isDirAt_iff, h, and_true]
    constructor
    · rintro ⟨e, he, rfl, hd⟩
      simp at he
      exact ⟨⟨e, he.1, rfl, hd⟩, he.2⟩
    · rintro ⟨⟨e, he, rfl, hd⟩, hne⟩; exact ⟨e, by simp [he, hne], rfl, hd⟩
  · rename_i h; simp [h]

/-- correspondence of the entries of one round: kind and path never change; the mtime changes only
    for the parent of the directory removed in that round -/
theorem mem_removeStep_src {ok : Path → Bool} {now : Int} {fs : Tree} {d : Path} {e' : Entry}
    (h : e' ∈ removeStep ok now fs d) :
    ∃ e ∈ fs, e'.path = e.path ∧ e'.isDir = e.isDir ∧
      (e'.mtime = e.mtime ∨ (e'.mtime = now ∧ fires ok fs d = true ∧ e.path = parent d ∧ e.path ≠ d)) := by
  rw [removeStep_eq] at h
  split at h
  · rename_i hf
    obtain ⟨e, he, rfl⟩ := mem_touch.1 h
    simp at he
    refine ⟨e, he.1, ?_⟩
    split
    · rename_i hp; exact ⟨rfl, rfl, Or.inr ⟨rfl, hf, hp, he.2⟩⟩
    · exact ⟨rfl, rfl, Or.inl rfl⟩
  · exact ⟨e', h, rfl, rfl, Or.inl rfl⟩

/-! ### the loop -/

theorem removeLoop_append (ok : Path → Bool) (now : Int) (fs : Tree) (l₁ l₂ : List Path) :
    removeLoop ok now fs (l₁ ++ l₂) = removeLoop ok now (removeLoop ok now fs l₁) l₂ := by
  induction l₁ generalizing fs with
  | nil => rfl
  | cons d ds ih => exact ih _

/-- the loop only removes -/
theorem paths_removeLoop_sub {ok : Path → Bool} {now : Int} {fs : Tree} {l : List Path} {q : Path}
    (h : q ∈ paths (removeLoop ok now fs l)) : q ∈ paths fs := by
  induction l generalizing fs with
  | nil => exact h
  | cons d ds ih => exact (mem_paths_removeStep.1 (ih h)).1

/-- the loop removes only what is on its list -/
theorem paths_removeLoop_keep {ok : Path → Bool} {now : Int} {fs : Tree} {l : List Path} {q : Path}
    (h : q ∈ paths fs) (hl : q ∉ l) : q ∈ paths (removeLoop ok now fs l) := by
  induction l generalizing fs with
  | nil => exact h
  | cons d ds ih =>
    simp only [List.mem_cons, not_or] at hl
    exact ih (mem_paths_removeStep.2 ⟨h, fun hh => hl.1 hh.1⟩) hl.2

theorem isDirAt_removeLoop_sub {ok : Path → Bool} {now : Int} {fs : Tree} {l : List Path} {q : Path}
    (h : isDirAt (removeLoop ok now fs l) q = true) : isDirAt fs q = true := by
  induction l generalizing fs with
  | nil => exact h
  | cons d ds ih => exact (isDirAt_removeStep.1 (ih h)).1

theorem isDirAt_removeLoop_keep {ok : Path → Bool} {now : Int} {fs : Tree} {l : List Path} {q : Path}
    (h : isDirAt fs q = true) (hl : q ∉ l) : isDirAt (removeLoop ok now fs l) q = true := by
  induction l generalizing fs with
  | nil => exact h
  | cons d ds ih =>
    simp only [List.mem_cons, not_or] at hl
    exact ih (isDirAt_removeStep.2 ⟨h, fun hh => hl.1 hh.1⟩) hl.2

theorem hasEntries_removeLoop_sub {ok : Path → Bool} {now : Int} {fs : Tree} {l : List Path} {d : Path}
    (h : hasEntries (removeLoop ok now fs l) d = true) : hasEntries fs d = true := by
  obtain ⟨q, hq, hc⟩ := hasEntries_iff.1 h
  exact hasEntries_iff.2 ⟨q, paths_removeLoop_sub hq, hc⟩

/-- **the moment of a removal**: a path that is gone after the loop is on the list, and in the tree
    reached just before its round the test fired: it was an existing directory without entries and
    `os.Remove` succeeded. -/
theorem removeLoop_gone {ok : Path → Bool} {now : Int} {fs : Tree} {l : List Path} {p : Path}
    (h : p ∈ paths fs) (hg : p ∉ paths (removeLoop ok now fs l)) :
    ∃ l₁ l₂, l = l₁ ++ p :: l₂ ∧ fires ok (removeLoop ok now fs l₁) p = true := by
  induction l generalizing fs with
  | nil => exact absurd h hg
  | cons d ds ih =>
    by_cases hs : p ∈ paths (removeStep ok now fs d)
    · obtain ⟨l₁, l₂, hl, hf⟩ := ih hs hg
      exact ⟨d :: l₁, l₂, by rw [hl]; rfl, hf⟩
    · have : p = d ∧ fires ok fs d = true := by
        apply Classical.byContradiction
        intro hn
        exact hs (mem_paths_removeStep.2 ⟨h, hn⟩)
      obtain ⟨rfl, hf⟩ := this
      exact ⟨[], ds, rfl, hf⟩

/-- once the test fired for `p`, nothing directly below `p` is left at the end -/
theorem removeLoop_fired_no_child {ok : Path → Bool} {now : Int} {fs : Tree} {l₁ l₂ : List Path} {p q : Path}
    (hf : fires ok (removeLoop ok now fs l₁) p = true)
    (hq : q ∈ paths (removeLoop ok now fs (l₁ ++ l₂))) : childOf p q = false := by
  rw [removeLoop_append] at hq
  have hq' := paths_removeLoop_sub hq
  simp only [fires, Bool.and_eq_true, Bool.not_eq_true'] at hf
  exact hasEntries_false_iff.1 hf.1.2 q hq'

/-- correspondence of entries over the whole loop -/
theorem mem_removeLoop_src {ok : Path → Bool} {now : Int} {fs : Tree} {l : List Path} {e' : Entry}
    (h : e' ∈ removeLoop ok now fs l) :
    ∃ e ∈ fs, e'.path = e.path ∧ e'.isDir = e.isDir ∧
      (e'.mtime = e.mtime ∨
        (e'.mtime = now ∧ ∃ c, c ∈ paths fs ∧ c ∉ paths (removeLoop ok now fs l) ∧
          e.path = parent c ∧ e.path ≠ c)) := by
  induction l generalizing fs with
  | nil => exact ⟨e', h, rfl, rfl, Or.inl rfl⟩
  | cons d ds ih =>
    obtain ⟨e₁, he₁, hp, hd, hm⟩ := ih h
    obtain ⟨e, he, hp', hd', hm'⟩ := mem_removeStep_src he₁
    refine ⟨e, he, hp.trans hp', hd.trans hd', ?_⟩
    have gone_d : fires ok fs d = true → d ∉ paths (removeLoop ok now fs (d :: ds)) := fun hf hin =>
      (mem_paths_removeStep.1 (paths_removeLoop_sub hin)).2 ⟨rfl, hf⟩
    rcases hm with hm | ⟨hm, c, hc, hcg, hpc, hne⟩
    · rcases hm' with hm' | ⟨hm', hf, hpd, hne⟩
      · exact Or.inl (hm.trans hm')
      · refine Or.inr ⟨hm.trans hm', d, ?_, gone_d hf, hpd, hne⟩
        simp only [fires, Bool.and_eq_true] at hf
        obtain ⟨x, hx, hxp, _⟩ := isDirAt_iff.1 hf.1.1
        exact mem_paths.2 ⟨x, hx, hxp⟩
    · exact Or.inr ⟨hm, c, (mem_paths_removeStep.1 hc).1, hcg, by rw [← hp']; exact hpc, by rw [← hp']; exact hne⟩

/-! ### the walk and the collected list -/

theorem insertEntry_perm (e : Entry) (l : List Entry) : (insertEntry e l).Perm (e :: l) := by
  induction l with
  | nil => exact List.Perm.refl _
  | cons x xs ih =>
    simp only [insertEntry]
    split
    · exact List.Perm.refl _
    · exact (List.Perm.cons x ih).trans (List.Perm.swap e x xs)

theorem sortEntries_perm (l : List Entry) : (sortEntries l).Perm l := by
  induction l with
  | nil => exact List.Perm.refl _
  | cons e es ih => exact (insertEntry_perm e _).trans (List.Perm.cons e ih)

theorem mem_walk {root : Path} {fs : Tree} {e : Entry} :
    e ∈ walk root fs ↔ e ∈ fs ∧ under root e.path = true := by
  simp [walk, (sortEntries_perm _).mem_iff]

/-- what pruneTree collects: exactly the old-enough directories at or below the root -/
theorem mem_collect {root : Path} {now minAge : Int} {fs : Tree} {p : Path} :
    p ∈ collect root now minAge fs ↔
      ∃ e ∈ fs, e.path = p ∧ under root p = true ∧ e.isDir = true ∧ oldEnough now minAge e = true := by
  simp only [collect, List.mem_map, List.mem_filter, mem_walk, Bool.and_eq_true]
  constructor
  · rintro ⟨e, ⟨⟨he, hu⟩, ho, hd⟩, rfl⟩; exact ⟨e, he, rfl, hu, hd, ho⟩
  · rintro ⟨e, he, rfl, hu, hd, ho⟩; exact ⟨e, ⟨⟨he, hu⟩, ho, hd⟩, rfl⟩

theorem mem_pruneOrder {root : Path} {now minAge : Int} {fs : Tree} {p : Path} :
    p ∈ pruneOrder root now minAge fs ↔
      ∃ e ∈ fs, e.path = p ∧ under root p = true ∧ e.isDir = true ∧ oldEnough now minAge e = true := by
  simp only [pruneOrder, List.mem_reverse, mem_collect]

theorem oldEnough_iff {now minAge : Int} {e : Entry} : oldEnough now minAge e = true ↔ minAge ≤ now - e.mtime := by
  simp [oldEnough]

/-! ### C20: only empty, old-enough directories are removed -/

/-- **prune_only_empty_old.**  For every tree, root, clock, minimum age and every behaviour of
    `os.Remove`: a path that is present before `pruneTree` and gone afterwards
    * lies at or below the root,
    * was an entry that is a directory and at least `minAge` old in the snapshot taken by the walk
      (ages as they were BEFORE the loop started), and
    * at the moment of its removal (the tree reached after the earlier rounds `l₁` of the loop) it was
      an existing directory, `os.ReadDir` listed nothing, and `os.Remove` succeeded. -/
theorem prune_only_empty_old {ok : Path → Bool} {root : Path} {now minAge : Int} {fs : Tree} {p : Path}
    (h : p ∈ paths fs) (hg : p ∉ paths (pruneTree ok root now minAge fs)) :
    under root p = true ∧
    (∃ e ∈ fs, e.path = p ∧ e.isDir = true ∧ minAge ≤ now - e.mtime) ∧
    ∃ l₁ l₂, pruneOrder root now minAge fs = l₁ ++ p :: l₂ ∧
      isDirAt (removeLoop ok now fs l₁) p = true ∧
      hasEntries (removeLoop ok now fs l₁) p = false ∧ ok p = true := by
  obtain ⟨l₁, l₂, hl, hf⟩ := removeLoop_gone h hg
  have hm : p ∈ pruneOrder root now minAge fs := by rw [hl]; simp
  obtain ⟨e, he, hp, hu, hd, ho⟩ := mem_pruneOrder.1 hm
  simp only [fires, Bool.and_eq_true, Bool.not_eq_true'] at hf
  exact ⟨hu, ⟨e, he, hp, hd, oldEnough_iff.1 ho⟩, l₁, l₂, hl, hf.1.1, hf.1.2, hf.2⟩

/-- a tree in which no two entries have the same path -/
def NodupPaths (fs : Tree) : Prop := (paths fs).Nodup

theorem NodupPaths.eq_of_path {fs : Tree} (h : NodupPaths fs) {e₁ e₂ : Entry}
    (h₁ : e₁ ∈ fs) (h₂ : e₂ ∈ fs) (hp : e₁.path = e₂.path) : e₁ = e₂ := by
  induction fs with
  | nil => cases h₁
  | cons x xs ih =>
    simp only [NodupPaths, paths, List.map_cons, List.nodup_cons, List.mem_map, not_exists, not_and] at h
    rcases List.mem_cons.1 h₁ with rfl | h₁' <;> rcases List.mem_cons.1 h₂ with rfl | h₂'
    · rfl
    · exact absurd hp.symm (h.1 e₂ h₂')
    · exact absurd hp (h.1 e₁ h₁')
    · exact ih h.2 h₁' h₂'

/-- no file is ever removed -/
theorem prune_never_removes_file {ok : Path → Bool} {root : Path} {now minAge : Int} {fs : Tree} {e : Entry}
    (hn : NodupPaths fs) (he : e ∈ fs) (hf : e.isDir = false) :
    e.path ∈ paths (pruneTree ok root now minAge fs) := by
  apply Classical.byContradiction; intro hg
  obtain ⟨_, ⟨e₀, he₀, hp, hd, _⟩, _⟩ := prune_only_empty_old (mem_paths.2 ⟨e, he, rfl⟩) hg
  rw [hn.eq_of_path he₀ he hp, hf] at hd; cases hd

/-- no directory younger than `minAge` is removed -/
theorem prune_never_removes_young {ok : Path → Bool} {root : Path} {now minAge : Int} {fs : Tree} {e : Entry}
    (hn : NodupPaths fs) (he : e ∈ fs) (hy : now - e.mtime < minAge) :
    e.path ∈ paths (pruneTree ok root now minAge fs) := by
  apply Classical.byContradiction; intro hg
  obtain ⟨_, ⟨e₀, he₀, hp, _, ho⟩, _⟩ := prune_only_empty_old (mem_paths.2 ⟨e, he, rfl⟩) hg
  rw [hn.eq_of_path he₀ he hp] at ho; omega

/-- nothing outside the root is removed -/
theorem prune_never_removes_outside {ok : Path → Bool} {root : Path} {now minAge : Int} {fs : Tree} {p : Path}
    (h : p ∈ paths fs) (ho : under root p = false) : p ∈ paths (pruneTree ok root now minAge fs) := by
  apply Classical.byContradiction; intro hg
  have := (prune_only_empty_old h hg).1
  rw [ho] at this; cases this

/-- whatever was directly below a removed directory is gone, too (it was removed earlier in the
    same run: the directory was empty when it went) -/
theorem prune_removed_children_gone {ok : Path → Bool} {root : Path} {now minAge : Int} {fs : Tree} {p q : Path}
    (h : p ∈ paths fs) (hg : p ∉ paths (pruneTree ok root now minAge fs)) (hc : childOf p q = true) :
    q ∉ paths (pruneTree ok root now minAge fs) := by
  obtain ⟨l₁, l₂, hl, hf⟩ := removeLoop_gone h hg
  intro hq
  have := removeLoop_fired_no_child (l₂ := p :: l₂) hf (by rw [← hl]; exact hq)
  rw [hc] at this; cases this

/-- everything that is left was there before, with the same kind; its mtime is unchanged unless an
    entry directly below it was removed in this run (then it is the time of the run) -/
theorem prune_rest_unchanged {ok : Path → Bool} {root : Path} {now minAge : Int} {fs : Tree} {e' : Entry}
    (h : e' ∈ pruneTree ok root now minAge fs) :
    ∃ e ∈ fs, e'.path = e.path ∧ e'.isDir = e.isDir ∧
      (e'.mtime = e.mtime ∨
        (e'.mtime = now ∧ ∃ c, c ∈ paths fs ∧ c ∉ paths (pruneTree ok root now minAge fs) ∧
          e.path = parent c ∧ e.path ≠ c)) :=
  mem_removeLoop_src h

/-- the run only removes: no path appears -/
theorem prune_paths_sub {ok : Path → Bool} {root : Path} {now minAge : Int} {fs : Tree} {q : Path}
    (h : q ∈ paths (pruneTree ok root now minAge fs)) : q ∈ paths fs := paths_removeLoop_sub h

/-! ### transitively: a removed directory held nothing but old directories -/

theorem under_iff {d p : Path} : under d p = true ↔ d <+: p := List.isPrefixOf_iff_prefix

theorem childOf_iff {d q : Path} : childOf d q = true ↔ ∃ x, q = d ++ [x] := by
  simp only [childOf, Bool.and_eq_true, beq_iff_eq, List.isPrefixOf_iff_prefix]
  constructor
  · rintro ⟨hl, t, rfl⟩
    simp only [List.length_append] at hl
    match t, hl with
    | [x], _ => exact ⟨x, rfl⟩
    | [], hl => simp at hl
    | _ :: _ :: _, hl => simp at hl
  · rintro ⟨x, rfl⟩; simp

/-- every directory on the way from the top down to an entry is itself an entry (as in every real
    tree; the top `[]` itself need not be listed) -/
def PrefixClosed (fs : Tree) : Prop := ∀ q ∈ paths fs, ∀ p : Path, p ≠ [] → p <+: q → p ∈ paths fs

/-- well-formed trees: one entry per path, and parents exist -/
structure WF (fs : Tree) : Prop where
  nodup : NodupPaths fs
  closed : PrefixClosed fs

/-- everything at or below a removed directory is gone -/
theorem prune_removed_below_gone {ok : Path → Bool} {root : Path} {now minAge : Int} {fs : Tree} {p q : Path}
    (hc : PrefixClosed fs) (h : p ∈ paths fs) (hg : p ∉ paths (pruneTree ok root now minAge fs))
    (hq : q ∈ paths fs) (hu : under p q = true) : q ∉ paths (pruneTree ok root now minAge fs) := by
  obtain ⟨s, rfl⟩ := under_iff.1 hu
  clear hu
  generalize hn : s.length = n
  induction n generalizing s with
  | zero =>
    have : s = [] := List.eq_nil_of_length_eq_zero hn
    subst this; simpa using hg
  | succ n ih =>
    rcases List.eq_nil_or_concat s with rfl | ⟨s', b, rfl⟩
    · simp at hn
    · simp only [List.concat_eq_append, List.length_append, List.length_singleton] at hn
      have hpar : p ++ s' ∈ paths fs := by
        by_cases hs : p ++ s' = []
        · have : p = [] ∧ s' = [] := by simpa using hs
          rw [this.2]; simpa using h
        · refine hc _ hq _ hs ?_
          simp only [List.concat_eq_append, ← List.append_assoc]
          exact List.prefix_append _ _
      have hgone := ih s' hpar (by omega)
      refine prune_removed_children_gone hpar hgone ?_
      exact childOf_iff.2 ⟨b, by simp⟩

/-- **no directory that (transitively) holds a file or a too-young directory is removed** -/
theorem prune_never_removes_holder {ok : Path → Bool} {root : Path} {now minAge : Int} {fs : Tree}
    {p : Path} {e : Entry} (hw : WF fs) (h : p ∈ paths fs) (he : e ∈ fs) (hu : under p e.path = true)
    (hbad : e.isDir = false ∨ now - e.mtime < minAge) :
    p ∈ paths (pruneTree ok root now minAge fs) := by
  apply Classical.byContradiction; intro hg
  have hgone := prune_removed_below_gone hw.closed h hg (mem_paths.2 ⟨e, he, rfl⟩) hu
  rcases hbad with hf | hy
  · exact hgone (prune_never_removes_file hw.nodup he hf)
  · exact hgone (prune_never_removes_young hw.nodup he hy)

/-! ### the order of the walk: a directory comes before its contents, so the backward loop sees the
    contents first -/

theorem str_tri (a b : String) : a < b ∨ a = b ∨ b < a := by
  by_cases h : a < b
  · exact Or.inl h
  · by_cases h' : b < a
    · exact Or.inr (Or.inr h')
    · exact Or.inr (Or.inl (String.le_antisymm (String.not_lt.1 h') (String.not_lt.1 h)))

theorem pathLe_cons_cons (x y : String) (as bs : Path) :
    pathLe (x :: as) (y :: bs) = true ↔ x < y ∨ (x = y ∧ pathLe as bs = true) := by
  simp only [pathLe]
  by_cases h : x < y
  · simp [h]
  · by_cases h' : x = y <;> simp [h, h']

theorem pathLe_total (a b : Path) : pathLe a b = true ∨ pathLe b a = true := by
  induction a generalizing b with
  | nil => exact Or.inl (by simp [pathLe])
  | cons x as ih =>
    cases b with
    | nil => exact Or.inr (by simp [pathLe])
    | cons y bs =>
      rw [pathLe_cons_cons, pathLe_cons_cons]
      rcases str_tri x y with h | rfl | h
      · exact Or.inl (Or.inl h)
      · rcases ih bs with h | h
        · exact Or.inl (Or.inr ⟨rfl, h⟩)
        · exact Or.inr (Or.inr ⟨rfl, h⟩)
      · exact Or.inr (Or.inl h)

theorem pathLe_trans {a b c : Path} (h₁ : pathLe a b = true) (h₂ : pathLe b c = true) : pathLe a c = true := by
  induction a generalizing b c with
  | nil => simp [pathLe]
  | cons x as ih =>
    cases b with
    | nil => simp [pathLe] at h₁
    | cons y bs =>
      cases c with
      | nil => simp [pathLe] at h₂
      | cons z cs =>
        rw [pathLe_cons_cons] at h₁ h₂ ⊢
        rcases h₁ with h₁ | ⟨rfl, h₁⟩ <;> rcases h₂ with h₂ | ⟨rfl, h₂⟩
        · exact Or.inl (String.lt_trans h₁ h₂)
        · exact Or.inl h₁
        · exact Or.inl h₂
        · exact Or.inr ⟨rfl, ih h₁ h₂⟩

/-- a path never sorts before one of its proper prefixes -/
theorem not_pathLe_of_proper_prefix {p c : Path} (hp : p <+: c) (hne : c ≠ p) : pathLe c p = false := by
  induction p generalizing c with
  | nil =>
    cases c with
    | nil => exact absurd rfl hne
    | cons _ _ => simp [pathLe]
  | cons x ps ih =>
    cases c with
    | nil => simp at hp
    | cons y cs =>
      obtain ⟨rfl, hp'⟩ := List.cons_prefix_cons.1 hp
      have hne' : cs ≠ ps := fun h => hne (by rw [h])
      have := ih hp' hne'
      rw [← Bool.not_eq_true] at this ⊢
      rw [pathLe_cons_cons]
      rintro (h | ⟨_, h⟩)
      · exact String.lt_irrefl _ h
      · exact this h

theorem insertEntry_sorted (e : Entry) (l : List Entry)
    (h : l.Pairwise (fun a b => pathLe a.path b.path = true)) :
    (insertEntry e l).Pairwise (fun a b => pathLe a.path b.path = true) := by
  induction l with
  | nil => simp [insertEntry]
  | cons x xs ih =>
    simp only [insertEntry]
    rw [List.pairwise_cons] at h
    split
    · rename_i hle
      refine List.pairwise_cons.2 ⟨?_, List.pairwise_cons.2 h⟩
      intro b hb
      rcases List.mem_cons.1 hb with rfl | hb
      · exact hle
      · exact pathLe_trans hle (h.1 b hb)
    · rename_i hle
      refine List.pairwise_cons.2 ⟨?_, ih h.2⟩
      intro b hb
      rcases List.mem_cons.1 ((insertEntry_perm e xs).mem_iff.1 hb) with rfl | hb
      · rcases pathLe_total x.path b.path with h' | h'
        · exact h'
        · exact absurd h' hle
      · exact h.1 b hb

theorem sortEntries_sorted (l : List Entry) :
    (sortEntries l).Pairwise (fun a b => pathLe a.path b.path = true) := by
  induction l with
  | nil => simp [sortEntries]
  | cons e es ih => exact insertEntry_sorted e _ ih

/-- the loop runs through the collected directories in descending walk order -/
theorem pruneOrder_sorted (root : Path) (now minAge : Int) (fs : Tree) :
    (pruneOrder root now minAge fs).Pairwise (fun a b => pathLe b a = true) := by
  simp only [pruneOrder, collect, walk]
  rw [List.pairwise_reverse, List.pairwise_map]
  exact (sortEntries_sorted _).filter _

theorem pruneOrder_nodup {root : Path} {now minAge : Int} {fs : Tree} (hn : NodupPaths fs) :
    (pruneOrder root now minAge fs).Nodup := by
  simp only [pruneOrder, collect, walk]
  rw [(List.reverse_perm _).nodup_iff]
  refine List.Nodup.sublist (List.filter_sublist.map _) ?_
  rw [((sortEntries_perm _).map _).nodup_iff]
  exact List.Nodup.sublist (List.filter_sublist.map _) hn

/-- **contents first**: when the loop reaches a collected directory `d`, every collected directory
    below `d` has had its round already -/
theorem pruneOrder_contents_first {root : Path} {now minAge : Int} {fs : Tree} {l₁ l₂ : List Path} {d c : Path}
    (hl : pruneOrder root now minAge fs = l₁ ++ d :: l₂) (hc : c ∈ pruneOrder root now minAge fs)
    (hp : d <+: c) (hne : c ≠ d) : c ∈ l₁ := by
  have hs := pruneOrder_sorted root now minAge fs
  rw [hl] at hs hc
  rcases List.mem_append.1 hc with h | h
  · exact h
  · rcases List.mem_cons.1 h with h | h
    · exact absurd h hne
    · have := (List.pairwise_cons.1 (List.pairwise_append.1 hs).2.1).1 c h
      rw [not_pathLe_of_proper_prefix hp hne] at this; cases this

/-! ### what IS removed -/

/-- `p` lies at or below the root, and `p` and everything below it are old-enough directories -/
def Removable (root : Path) (now minAge : Int) (fs : Tree) (p : Path) : Prop :=
  under root p = true ∧ ∀ e ∈ fs, under p e.path = true → e.isDir = true ∧ oldEnough now minAge e = true

theorem Removable.below {root : Path} {now minAge : Int} {fs : Tree} {p q : Path}
    (h : Removable root now minAge fs p) (hq : p <+: q) : Removable root now minAge fs q :=
  ⟨under_iff.2 ((under_iff.1 h.1).trans hq), fun e he hu => h.2 e he (under_iff.2 (hq.trans (under_iff.1 hu)))⟩

theorem Removable.mem_order {root : Path} {now minAge : Int} {fs : Tree} {p : Path}
    (h : Removable root now minAge fs p) (hp : p ∈ paths fs) : p ∈ pruneOrder root now minAge fs := by
  obtain ⟨e, he, rfl⟩ := mem_paths.1 hp
  have := h.2 e he (under_iff.2 (List.prefix_refl _))
  exact mem_pruneOrder.2 ⟨e, he, rfl, h.1, this.1, this.2⟩

/-- the test of a round, when `os.Remove` never fails, on a well-formed tree: it fires exactly for the
    directories whose whole content is old directories (all of which went in earlier rounds) -/
theorem fires_iff_removable {ok : Path → Bool} {root : Path} {now minAge : Int} {fs : Tree}
    {l₁ l₂ : List Path} {d : Path} (hw : WF fs) (hok : ∀ d, ok d = true)
    (hl : pruneOrder root now minAge fs = l₁ ++ d :: l₂)
    (hinv : ∀ q, q ∈ paths (removeLoop ok now fs l₁) ↔
      q ∈ paths fs ∧ ¬(q ∈ l₁ ∧ Removable root now minAge fs q)) :
    fires ok (removeLoop ok now fs l₁) d = true ↔ Removable root now minAge fs d := by
  have hdL : d ∈ pruneOrder root now minAge fs := by rw [hl]; simp
  obtain ⟨ed, hed, hedp, hur, hdd, hdo⟩ := mem_pruneOrder.1 hdL
  have hnd := pruneOrder_nodup (root := root) (now := now) (minAge := minAge) hw.nodup
  rw [hl] at hnd
  have hd1 : d ∉ l₁ := fun h => (List.nodup_append.1 hnd).2.2 d h d (by simp) rfl
  have hdir : isDirAt (removeLoop ok now fs l₁) d = true :=
    isDirAt_removeLoop_keep (isDirAt_iff.2 ⟨ed, hed, hedp, hdd⟩) hd1
  simp only [fires, hdir, hok, Bool.and_true, Bool.true_and, Bool.not_eq_true']
  rw [hasEntries_false_iff]
  constructor
  · intro hno
    refine ⟨hur, fun e he hu => ?_⟩
    obtain ⟨s, hs⟩ := under_iff.1 hu
    cases s with
    | nil =>
      have : ed = e := hw.nodup.eq_of_path hed he (by rw [hedp, ← hs]; simp)
      subst this; exact ⟨hdd, hdo⟩
    | cons x s' =>
      have hcp : d ++ [x] <+: e.path := ⟨s', by rw [← hs]; simp⟩
      have hc : d ++ [x] ∈ paths fs := hw.closed _ (mem_paths.2 ⟨e, he, rfl⟩) _ (by simp) hcp
      have hgone : d ++ [x] ∉ paths (removeLoop ok now fs l₁) := fun hin => by
        have := hno _ hin
        rw [childOf_iff.2 ⟨x, rfl⟩] at this; cases this
      have hrem : Removable root now minAge fs (d ++ [x]) := by
        apply Classical.byContradiction; intro hn
        exact hgone ((hinv _).2 ⟨hc, fun h => hn h.2⟩)
      exact hrem.2 e he (under_iff.2 hcp)
  · intro hrem q hq
    apply Classical.byContradiction; intro hch
    rw [Bool.not_eq_false] at hch
    obtain ⟨x, rfl⟩ := childOf_iff.1 hch
    obtain ⟨hqf, hnot⟩ := (hinv _).1 hq
    have hpre : d <+: d ++ [x] := List.prefix_append _ _
    have hrq := hrem.below hpre
    have hne : d ++ [x] ≠ d := by
      intro h; have := congrArg List.length h; simp at this
    exact hnot ⟨pruneOrder_contents_first hl (hrq.mem_order hqf) hpre hne, hrq⟩

/-- what is left after the loop, exactly -/
theorem paths_pruneTree_iff {ok : Path → Bool} {root : Path} {now minAge : Int} {fs : Tree}
    (hw : WF fs) (hok : ∀ d, ok d = true) (q : Path) :
    q ∈ paths (pruneTree ok root now minAge fs) ↔ q ∈ paths fs ∧ ¬Removable root now minAge fs q := by
  have key : ∀ l₂ l₁, pruneOrder root now minAge fs = l₁ ++ l₂ →
      (∀ q, q ∈ paths (removeLoop ok now fs l₁) ↔ q ∈ paths fs ∧ ¬(q ∈ l₁ ∧ Removable root now minAge fs q)) →
      ∀ q, q ∈ paths (removeLoop ok now fs (l₁ ++ l₂)) ↔
        q ∈ paths fs ∧ ¬(q ∈ l₁ ++ l₂ ∧ Removable root now minAge fs q) := by
    intro l₂
    induction l₂ with
    | nil => intro l₁ _ hinv q; simpa using hinv q
    | cons d ds ih =>
      intro l₁ hl hinv q
      have hf := fires_iff_removable hw hok hl hinv
      have := ih (l₁ ++ [d]) (by simp [hl]) (by
        intro q
        rw [removeLoop_append]
        show q ∈ paths (removeStep ok now (removeLoop ok now fs l₁) d) ↔ _
        rw [mem_paths_removeStep, hinv q, hf]
        simp only [List.mem_append, List.mem_singleton]
        constructor
        · rintro ⟨⟨h1, h2⟩, h3⟩
          refine ⟨h1, ?_⟩
          rintro ⟨h4 | h4, h5⟩
          · exact h2 ⟨h4, h5⟩
          · exact h3 ⟨h4, h4 ▸ h5⟩
        · rintro ⟨h1, h2⟩
          exact ⟨⟨h1, fun h => h2 ⟨Or.inl h.1, h.2⟩⟩, fun h => h2 ⟨Or.inr h.1, h.1 ▸ h.2⟩⟩) q
      simpa using this
  have := key (pruneOrder root now minAge fs) [] rfl (by intro q; simp [removeLoop]) q
  simp only [List.nil_append] at this
  rw [pruneTree, this]
  constructor
  · rintro ⟨h1, h2⟩; exact ⟨h1, fun h => h2 ⟨h.mem_order h1, h⟩⟩
  · rintro ⟨h1, h2⟩; exact ⟨h1, fun h => h2 h.2⟩

/-- **prune_removes_iff**: on a well-formed tree, when `os.Remove` does not fail, a present path is
    removed by `pruneTree` exactly when it lies at or below the root and it and everything below it
    are directories at least `minAge` old. -/
theorem prune_removes_iff {ok : Path → Bool} {root : Path} {now minAge : Int} {fs : Tree} {p : Path}
    (hw : WF fs) (hok : ∀ d, ok d = true) (h : p ∈ paths fs) :
    p ∉ paths (pruneTree ok root now minAge fs) ↔ Removable root now minAge fs p := by
  rw [paths_pruneTree_iff hw hok]
  constructor
  · intro hn; apply Classical.byContradiction; intro hr; exact hn ⟨h, hr⟩
  · rintro hr ⟨_, hn⟩; exact hn hr

/-! ### a second run -/

theorem removeLoop_noop {ok : Path → Bool} {now : Int} {fs : Tree} {l : List Path}
    (h : ∀ d ∈ l, fires ok fs d = false) : removeLoop ok now fs l = fs := by
  induction l with
  | nil => rfl
  | cons d ds ih =>
    have hd : removeStep ok now fs d = fs := by
      rw [removeStep_eq, h d (by simp)]; rfl
    show removeLoop ok now (removeStep ok now fs d) ds = fs
    rw [hd]; exact ih (fun x hx => h x (by simp [hx]))

/-- **prune_idempotent_enough.**  Running `pruneTree` again at the same clock removes nothing more,
    provided the parents touched by the first run do not thereby become candidates: either
    `minAge > 0` (a parent whose mtime is now the time of the run is too young), or every directory
    at or below the root was old enough to begin with (e.g. `minAge = 0` and no mtime in the future).
    The mtimes are those the first run left behind: a directory that lost an entry has mtime `now`.
    Without the proviso the statement is false, see `prune_twice_removes_more`. -/
theorem prune_idempotent_enough {ok : Path → Bool} {root : Path} {now minAge : Int} {fs : Tree}
    (hn : NodupPaths fs)
    (hT : 0 < minAge ∨ ∀ e ∈ fs, e.isDir = true → under root e.path = true → oldEnough now minAge e = true) :
    pruneTree ok root now minAge (pruneTree ok root now minAge fs) = pruneTree ok root now minAge fs := by
  apply removeLoop_noop
  intro d hd
  obtain ⟨e', he', hp', hur, hdir', hold'⟩ := mem_pruneOrder.1 hd
  obtain ⟨e, he, hp, hdir, hm⟩ := prune_rest_unchanged he'
  -- `d` was a candidate of the first run as well
  have hold : oldEnough now minAge e = true := by
    rcases hm with hm | ⟨hm, _⟩
    · simpa [oldEnough, hm] using hold'
    · rcases hT with hT | hT
      · rw [oldEnough_iff, hm] at hold'; omega
      · exact hT e he (hdir ▸ hdir') (by rw [← hp, hp']; exact hur)
  have hdL : d ∈ pruneOrder root now minAge fs :=
    mem_pruneOrder.2 ⟨e, he, by rw [← hp, hp'], hur, hdir ▸ hdir', hold⟩
  obtain ⟨l₁, l₂, hl⟩ := List.append_of_mem hdL
  cases hf : fires ok (pruneTree ok root now minAge fs) d with
  | false => rfl
  | true =>
    exfalso
    have hR : pruneTree ok root now minAge fs
        = removeLoop ok now (removeLoop ok now fs l₁) (d :: l₂) := by
      rw [pruneTree, hl, removeLoop_append]
    simp only [fires, Bool.and_eq_true, Bool.not_eq_true'] at hf
    obtain ⟨⟨hdirR, hnoR⟩, hokd⟩ := hf
    have hdR : d ∈ paths (pruneTree ok root now minAge fs) := mem_paths.2 ⟨e', he', hp'⟩
    -- at its round in the first run the test did not fire, so it had an entry then
    have hnf : fires ok (removeLoop ok now fs l₁) d = false := by
      cases hx : fires ok (removeLoop ok now fs l₁) d with
      | false => rfl
      | true =>
        exfalso
        rw [hR] at hdR
        exact (mem_paths_removeStep.1 (paths_removeLoop_sub hdR)).2 ⟨rfl, hx⟩
    have hdirT : isDirAt (removeLoop ok now fs l₁) d = true := by
      rw [hR] at hdirR; exact isDirAt_removeLoop_sub hdirR
    have hent : hasEntries (removeLoop ok now fs l₁) d = true := by
      simp only [fires, hdirT, hokd, Bool.and_true, Bool.true_and, Bool.not_eq_false'] at hnf
      exact hnf
    obtain ⟨c, hc, hch⟩ := hasEntries_iff.1 hent
    -- that entry is not removed later: contents come first, and the list has no duplicates
    have hnd := pruneOrder_nodup (root := root) (now := now) (minAge := minAge) hn
    rw [hl] at hnd
    obtain ⟨x, rfl⟩ := childOf_iff.1 hch
    have hne : d ++ [x] ≠ d := by
      intro h; have := congrArg List.length h; simp at this
    have hc2 : d ++ [x] ∉ d :: l₂ := by
      intro hin
      rcases List.mem_cons.1 hin with h | h
      · exact hne h
      · have hcl : d ++ [x] ∈ pruneOrder root now minAge fs := by rw [hl]; simp [h]
        have h1 := pruneOrder_contents_first hl hcl (List.prefix_append _ _) hne
        exact (List.nodup_append.1 hnd).2.2 _ h1 _ (List.mem_cons_of_mem _ h) rfl
    have hcR : d ++ [x] ∈ paths (pruneTree ok root now minAge fs) := by
      rw [hR]; exact paths_removeLoop_keep hc hc2
    have := hasEntries_false_iff.1 hnoR _ hcR
    rw [hch] at this; cases this

/-- the proviso of `prune_idempotent_enough` is needed: with `minAge = 0` a directory dated in the future is
    too young for the first run; losing its only entry resets its mtime to the time of the run; a
    second run at the same clock removes it. -/
theorem prune_twice_removes_more :
    let fs : Tree := [⟨["r"], true, 100⟩, ⟨["r", "c"], true, -10⟩]
    pruneTree (fun _ => true) ["r"] 0 0 fs = [⟨["r"], true, 0⟩] ∧
    pruneTree (fun _ => true) ["r"] 0 0 (pruneTree (fun _ => true) ["r"] 0 0 fs) = [] := by
  decide

/-! ### well-formedness is kept, so the two passes of `Prune` compose -/

theorem paths_removeStep_sublist (ok : Path → Bool) (now : Int) (fs : Tree) (d : Path) :
    (paths (removeStep ok now fs d)).Sublist (paths fs) := by
  rw [removeStep_eq]
  split
  · rw [paths_touch]; exact List.filter_sublist.map _
  · exact List.Sublist.refl _

theorem paths_removeLoop_sublist (ok : Path → Bool) (now : Int) (fs : Tree) (l : List Path) :
    (paths (removeLoop ok now fs l)).Sublist (paths fs) := by
  induction l generalizing fs with
  | nil => exact List.Sublist.refl _
  | cons d ds ih => exact (ih _).trans (paths_removeStep_sublist ok now fs d)

theorem pruneTree_nodup {ok : Path → Bool} {root : Path} {now minAge : Int} {fs : Tree}
    (hn : NodupPaths fs) : NodupPaths (pruneTree ok root now minAge fs) :=
  List.Nodup.sublist (paths_removeLoop_sublist _ _ _ _) hn

theorem pruneTree_wf {ok : Path → Bool} {root : Path} {now minAge : Int} {fs : Tree}
    (hw : WF fs) : WF (pruneTree ok root now minAge fs) := by
  refine ⟨pruneTree_nodup hw.nodup, fun q hq p hp hpre => ?_⟩
  have hqf := prune_paths_sub hq
  have hpf := hw.closed q hqf p hp hpre
  apply Classical.byContradiction; intro hg
  exact prune_removed_below_gone hw.closed hpf hg hqf (under_iff.2 hpre) hq

/-! ### `Prune`: the stage root, then the target root -/

/-- the conclusion of `prune_only_empty_old` for one pass -/
def RemovedEmptyOld (ok : Path → Bool) (root : Path) (now minAge : Int) (fs : Tree) (p : Path) : Prop :=
  under root p = true ∧
  (∃ e ∈ fs, e.path = p ∧ e.isDir = true ∧ minAge ≤ now - e.mtime) ∧
  ∃ l₁ l₂, pruneOrder root now minAge fs = l₁ ++ p :: l₂ ∧
    isDirAt (removeLoop ok now fs l₁) p = true ∧
    hasEntries (removeLoop ok now fs l₁) p = false ∧ ok p = true

/-- whatever `Prune` removes was removed by one of its two passes, as an empty, old-enough directory
    at or below that pass's root (for the second pass: in the tree the first pass left) -/
theorem Prune_only_empty_old {ok : Path → Bool} {sr tr : Path} {now minAge : Int} {fs : Tree} {p : Path}
    (h : p ∈ paths fs) (hg : p ∉ paths (prune ok sr tr now minAge fs)) :
    RemovedEmptyOld ok sr now minAge fs p ∨
    (p ∈ paths (pruneTree ok sr now minAge fs) ∧
      RemovedEmptyOld ok tr now minAge (pruneTree ok sr now minAge fs) p) := by
  by_cases h1 : p ∈ paths (pruneTree ok sr now minAge fs)
  · exact Or.inr ⟨h1, prune_only_empty_old h1 hg⟩
  · exact Or.inl (prune_only_empty_old h h1)

theorem Prune_never_removes_outside {ok : Path → Bool} {sr tr : Path} {now minAge : Int} {fs : Tree} {p : Path}
    (h : p ∈ paths fs) (h1 : under sr p = false) (h2 : under tr p = false) :
    p ∈ paths (prune ok sr tr now minAge fs) :=
  prune_never_removes_outside (prune_never_removes_outside h h1) h2

/-- `Prune` never removes a file -/
theorem Prune_never_removes_file {ok : Path → Bool} {sr tr : Path} {now minAge : Int} {fs : Tree} {e : Entry}
    (hn : NodupPaths fs) (he : e ∈ fs) (hf : e.isDir = false) :
    e.path ∈ paths (prune ok sr tr now minAge fs) := by
  obtain ⟨e₁, he₁, hp₁⟩ := mem_paths.1 (prune_never_removes_file (ok := ok) (root := sr) (now := now)
    (minAge := minAge) hn he hf)
  obtain ⟨e₀, he₀, hp₀, hd₀, _⟩ := prune_rest_unchanged he₁
  have : e₀ = e := hn.eq_of_path he₀ he (by rw [← hp₀, hp₁])
  subst this
  have := prune_never_removes_file (ok := ok) (root := tr) (now := now) (minAge := minAge)
    (pruneTree_nodup hn) he₁ (by rw [hd₀, hf])
  rw [hp₁] at this; exact this

/-- `Prune` with a positive `minAge` never removes a directory younger than `minAge` -/
theorem Prune_never_removes_young {ok : Path → Bool} {sr tr : Path} {now minAge : Int} {fs : Tree} {e : Entry}
    (hn : NodupPaths fs) (hpos : 0 < minAge) (he : e ∈ fs) (hy : now - e.mtime < minAge) :
    e.path ∈ paths (prune ok sr tr now minAge fs) := by
  obtain ⟨e₁, he₁, hp₁⟩ := mem_paths.1 (prune_never_removes_young (ok := ok) (root := sr) hn he hy)
  obtain ⟨e₀, he₀, hp₀, _, hm⟩ := prune_rest_unchanged he₁
  have : e₀ = e := hn.eq_of_path he₀ he (by rw [← hp₀, hp₁])
  subst this
  have hy₁ : now - e₁.mtime < minAge := by
    rcases hm with hm | ⟨hm, _⟩ <;> rw [hm] <;> omega
  have := prune_never_removes_young (ok := ok) (root := tr) (pruneTree_nodup hn) he₁ hy₁
  rw [hp₁] at this; exact this

/-- `Prune` never removes a directory that holds a file -/
theorem Prune_never_removes_file_holder {ok : Path → Bool} {sr tr : Path} {now minAge : Int} {fs : Tree}
    {p : Path} {e : Entry} (hw : WF fs) (h : p ∈ paths fs) (he : e ∈ fs) (hu : under p e.path = true)
    (hf : e.isDir = false) : p ∈ paths (prune ok sr tr now minAge fs) := by
  have h1 := prune_never_removes_holder (ok := ok) (root := sr) (now := now) (minAge := minAge)
    hw h he hu (Or.inl hf)
  obtain ⟨e₁, he₁, hp₁⟩ := mem_paths.1 (prune_never_removes_file (ok := ok) (root := sr) (now := now)
    (minAge := minAge) hw.nodup he hf)
  obtain ⟨e₀, he₀, hp₀, hd₀, _⟩ := prune_rest_unchanged he₁
  have : e₀ = e := hw.nodup.eq_of_path he₀ he (by rw [← hp₀, hp₁])
  subst this
  exact prune_never_removes_holder (pruneTree_wf hw) h1 he₁ (by rw [hp₁]; exact hu) (Or.inl (by rw [hd₀, hf]))

/-! ### the log of removals (what the driver prints for a `prune` op) -/

theorem removedLog_append (ok : Path → Bool) (now : Int) (fs : Tree) (l₁ l₂ : List Path) :
    removedLog ok now fs (l₁ ++ l₂) = removedLog ok now fs l₁ ++ removedLog ok now (removeLoop ok now fs l₁) l₂ := by
  induction l₁ generalizing fs with
  | nil => rfl
  | cons d ds ih =>
    simp only [List.cons_append, removedLog, removeLoop, ih, List.append_assoc]

/-- the log lists exactly the paths that were present before and are gone after the loop -/
theorem mem_removedLog {ok : Path → Bool} {now : Int} {fs : Tree} {l : List Path} {p : Path} :
    p ∈ removedLog ok now fs l ↔ p ∈ paths fs ∧ p ∉ paths (removeLoop ok now fs l) := by
  constructor
  · intro h
    induction l generalizing fs with
    | nil => cases h
    | cons d ds ih =>
      simp only [removedLog, List.mem_append] at h
      rcases h with h | h
      · split at h
        · rename_i hf
          simp only [List.mem_singleton] at h
          subst h
          have hf' : fires ok fs p = true := hf
          refine ⟨?_, fun hin => (mem_paths_removeStep.1 (paths_removeLoop_sub hin)).2 ⟨rfl, hf'⟩⟩
          simp only [fires, Bool.and_eq_true] at hf'
          obtain ⟨x, hx, hxp, _⟩ := isDirAt_iff.1 hf'.1.1
          exact mem_paths.2 ⟨x, hx, hxp⟩
        · cases h
      · obtain ⟨h1, h2⟩ := ih h
        exact ⟨(mem_paths_removeStep.1 h1).1, h2⟩
  · rintro ⟨h, hg⟩
    obtain ⟨l₁, l₂, rfl, hf⟩ := removeLoop_gone h hg
    rw [removedLog_append]
    refine List.mem_append_right _ ?_
    have hf' : (isDirAt (removeLoop ok now fs l₁) p && !hasEntries (removeLoop ok now fs l₁) p && ok p) = true := hf
    simp [removedLog, hf']

/-! ### the trees the harness builds are well-formed -/

theorem exists?_iff {fs : Tree} {p : Path} : exists? fs p = true ↔ p ∈ paths fs := by
  simp [exists?, paths]

/-- `create` (mkdir / file of the harness) keeps a tree well-formed -/
theorem create_wf {fs fs' : Tree} {p : Path} {isDir : Bool} {mtime : Int}
    (hw : WF fs) (h : create fs p isDir mtime = some fs') : WF fs' := by
  simp only [create, Bool.and_eq_true, bne_iff_ne, ne_eq, Bool.not_eq_true'] at h
  split at h
  · rename_i hc
    obtain ⟨⟨hne, hpar⟩, hnew⟩ := hc
    cases h
    have hnew' : p ∉ paths fs := fun hin => by
      rw [exists?_iff.2 hin] at hnew; cases hnew
    have hpaths : paths (fs ++ [⟨p, isDir, mtime⟩]) = paths fs ++ [p] := by simp [paths]
    refine ⟨?_, ?_⟩
    · show (paths _).Nodup
      rw [hpaths, List.nodup_append]
      refine ⟨hw.nodup, by simp, ?_⟩
      intro a ha b hb
      rw [List.mem_singleton] at hb
      subst hb; intro hab; exact hnew' (hab ▸ ha)
    · intro q hq r hr hpre
      rw [hpaths, List.mem_append, List.mem_singleton] at hq ⊢
      rcases hq with hq | rfl
      · exact Or.inl (hw.closed q hq r hr hpre)
      · rw [← List.dropLast_concat_getLast hne] at hpre
        rcases List.prefix_concat_iff.1 hpre with h | h
        · exact Or.inr (by rw [h, List.dropLast_concat_getLast hne])
        · obtain ⟨e, he, hep, _⟩ := isDirAt_iff.1 hpar
          exact Or.inl (hw.closed _ (mem_paths.2 ⟨e, he, hep⟩) r hr h)
  · cases h

/-- the sandbox the harness starts from -/
theorem wf_top (t : Int) : WF [⟨[], true, t⟩] :=
  ⟨by simp [NodupPaths, paths], fun q hq r hr hpre => by
    simp [paths] at hq; subst hq; exact absurd (List.prefix_nil.1 hpre) hr⟩

/-- a whole setup script: mkdir / file lines -/
def build : Tree → List (Path × Bool × Int) → Option Tree
  | fs, [] => some fs
  | fs, (p, d, t) :: rest => match create fs p d t with
    | some fs' => build fs' rest
    | none => none

theorem build_wf {fs fs' : Tree} {script : List (Path × Bool × Int)} (hw : WF fs)
    (h : build fs script = some fs') : WF fs' := by
  induction script generalizing fs with
  | nil => cases h; exact hw
  | cons x xs ih =>
    obtain ⟨p, d, t⟩ := x
    simp only [build] at h
    split at h
    · rename_i fs₁ hc; exact ih (create_wf hw hc) h
    · cases h

/-! ### examples (non-vacuity) and the witness against removing upwards -/

/-- clock 0, ages as negative mtimes: a young stage root, a 5-second-old directory `src` holding a
    26-hour-old empty directory `old`, beside it an old chain `a/b` and an old directory `keep` with a file -/
def exTree : Tree :=
  [⟨[], true, 0⟩, ⟨["stage"], true, 0⟩,
   ⟨["stage", "src"], true, -5⟩, ⟨["stage", "src", "old"], true, -93600⟩,
   ⟨["stage", "a"], true, -86400⟩, ⟨["stage", "a", "b"], true, -200000⟩,
   ⟨["stage", "keep"], true, -200000⟩, ⟨["stage", "keep", "f"], false, -200000⟩]

theorem exTree_wf : WF exTree :=
  build_wf (wf_top 0) (show build [⟨[], true, 0⟩]
    [(["stage"], true, 0), (["stage", "src"], true, -5), (["stage", "src", "old"], true, -93600),
     (["stage", "a"], true, -86400), (["stage", "a", "b"], true, -200000),
     (["stage", "keep"], true, -200000), (["stage", "keep", "f"], false, -200000)] = some exTree by decide)

/-- the code: `old` goes, then the chain `a/b` (`a` is exactly `minAge` old), deepest first; the 5-second-old
    `src` stays although it is empty now (its mtime becomes the time of the run), `keep` stays
    because of the file -/
example : pruneTree (fun _ => true) ["stage"] 0 86400 exTree =
    [⟨[], true, 0⟩, ⟨["stage"], true, 0⟩, ⟨["stage", "src"], true, 0⟩,
     ⟨["stage", "keep"], true, -200000⟩, ⟨["stage", "keep", "f"], false, -200000⟩] := by decide

example : removedLog (fun _ => true) 0 exTree (pruneOrder ["stage"] 0 86400 exTree) =
    [["stage", "src", "old"], ["stage", "a", "b"], ["stage", "a"]] := by decide

/-- hypotheses of `prune_only_empty_old` are satisfiable: something is removed -/
example : ["stage", "a"] ∈ paths exTree ∧
    ["stage", "a"] ∉ paths (pruneTree (fun _ => true) ["stage"] 0 86400 exTree) := by decide

/-- `Removable` holds of `a` and fails for `src` (too young), `keep` (holds a file) and `stage` -/
example : Removable ["stage"] 0 86400 exTree ["stage", "a"] := by unfold Removable; decide
example : ¬Removable ["stage"] 0 86400 exTree ["stage", "src"] := by unfold Removable; decide
example : ¬Removable ["stage"] 0 86400 exTree ["stage", "keep"] := by unfold Removable; decide

/-- a failing `os.Remove` is skipped: nothing above it goes either -/
example : pruneTree (fun d => d != ["stage", "a", "b"]) ["stage"] 0 86400 exTree =
    [⟨[], true, 0⟩, ⟨["stage"], true, 0⟩, ⟨["stage", "src"], true, 0⟩,
     ⟨["stage", "a"], true, -86400⟩, ⟨["stage", "a", "b"], true, -200000⟩,
     ⟨["stage", "keep"], true, -200000⟩, ⟨["stage", "keep", "f"], false, -200000⟩] := by decide

/-- one second younger than `minAge` is too young; the root itself goes when it is old and empty;
    walk order is by segments (`a/c` before `a-b`) -/
example : pruneTree (fun _ => true) ["r"] 0 3600
    [⟨["r"], true, -4000⟩, ⟨["r", "eq"], true, -3600⟩, ⟨["r", "lt"], true, -3599⟩] =
    [⟨["r"], true, 0⟩, ⟨["r", "lt"], true, -3599⟩] := by decide
example : pruneTree (fun _ => true) ["r"] 0 0 [⟨["r"], true, 0⟩, ⟨["r", "x"], true, 0⟩] = [] := by decide
example : collect ["s"] 0 0 [⟨["s"], true, 0⟩, ⟨["s", "a-b"], true, 0⟩, ⟨["s", "a"], true, 0⟩, ⟨["s", "a", "c"], true, 0⟩]
    = [["s"], ["s", "a"], ["s", "a", "c"], ["s", "a-b"]] := by decide

/-- `Prune` works on both roots; what lies outside them stays -/
example : prune (fun _ => true) ["stage"] ["final"] 0 0
    [⟨[], true, 0⟩, ⟨["stage"], true, 0⟩, ⟨["final"], true, 5⟩, ⟨["final", "x"], true, 0⟩, ⟨["other"], true, -99⟩] =
    [⟨[], true, 0⟩, ⟨["final"], true, 0⟩, ⟨["other"], true, -99⟩] := by decide

/-- **witness against the upward variant** ("after removing an old empty directory also remove its
    parent if that is now empty, up to the root, whatever the parent's age", `pruneTreeUp`): the
    5-second-old parent `src` of the 26-hour-old empty directory `old` is removed, and after it the
    stage root, created this very second, because `src` was its only entry.  `pruneTree` keeps both
    (`prune_never_removes_young`). -/
theorem pruneTreeUp_removes_young_parent :
    let fs : Tree := [⟨[], true, 0⟩, ⟨["stage"], true, 0⟩, ⟨["stage", "src"], true, -5⟩,
      ⟨["stage", "src", "old"], true, -93600⟩]
    ["stage", "src"] ∉ paths (pruneTreeUp ["stage"] 0 86400 fs) ∧
    ["stage"] ∉ paths (pruneTreeUp ["stage"] 0 86400 fs) ∧
    ["stage", "src"] ∈ paths (pruneTree (fun _ => true) ["stage"] 0 86400 fs) ∧
    ["stage"] ∈ paths (pruneTree (fun _ => true) ["stage"] 0 86400 fs) := by decide

end Sts.Prune
