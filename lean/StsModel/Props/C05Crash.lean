/-
  C05 over ALL histories — "A file version (name and hash) that the receiver has validated is
  moved to the final directory and recorded in the receive log once. … Only a receiver crash
  between logging and moving may repeat the log record, never the delivery."

  Setting: every reachable state (`Reachable H s`): any list of events from the empty staging
  area — every API call / worker action, `Ev.cutOp k o` (the process dies after the k-th durable
  step of `o`, for every operation including `Recover` itself), `Ev.crash`, and `Recover` both
  after a crash and in the middle of a run (stage/local.go: `/restart` of the HTTP server calls
  `Stop(true); Recover()` on a live stage). Stale write handles, corruption of staged bytes,
  wrong announced hashes, cleaners and timers are all among the events.

  Ghost counters over the event list (Lemmas/StageOnce2): `deliveries H s evs n h` (events that
  perform the log record of (n, h) AND the move `renWaitFinal n _`), `crashesBetweenLogAndMove H s
  evs n h` (events `cutOp k (finh n _)` whose performed prefix holds the record of (n, h) and not
  the move, while the whole operation would have moved), `logCount d n h` (records of (n, h)).

  RESULTS
  * `log_account_init` (FULL: every history, no hypothesis): records of (n, h) = crashes between
    log and move + deliveries. So "at most 1 + crashes-between records" IS "at most one delivery".
  * `C05LogOnce` — the statement at full strength with the hypotheses `NoReturn` (a version of a
    name does not come back after a different one) and `RememberedVRun` (the cache knows every
    logged version when a completion / Recover needs it) — is FALSE of the model:
    `C05LogOnce_false`, witness `stale_queue_item_delivers_again` (`staleQueueRun`, no crash at
    all): a mid-run `Recover()` validates a file itself while the validator's queue still holds the
    item of the same reception; the stale item later validates the bytes of a DIFFERENT announced
    version of that name (`process` compares the item's hash with the bytes but not with the cache
    entry), and the old version is logged and delivered again. `stale_item_ignored_with_check`:
    with one more test in `process` (item hash = cached hash, as `finalize` has) the run delivers
    once. Harness ops are given at `staleQueueRun`.
  * `log_once_with_crashes_partial` (PROVED, all histories incl. crashes, cuts, mid-run and
    post-crash Recover): hypotheses `OneHash (oneName n hh)` (every completion record of the name
    `n` announces the one hash `hh`; OTHER names may have any number of versions — the special
    case of `NoReturnN n` with one version, `noReturnN_of_oneName`) and `RememberedRun H n` (when a
    completion of `n` / a Recover with a complete staged copy of `n` happens while `n` is in the
    log, the cache — for Recover: its own cache build — knows the name). It REMOVES "no crash, no
    mid-run Recover" from `log_once_partial`, which is a corollary (`log_once_partial_again`: for
    `OnceRun` histories `RememberedRun` holds and no crash falls between a record and its move).
    Per name: `log_once_per_name_with_crashes_partial`; all names at once:
    `log_once_with_crashes_onehash_partial`; and `C05LogOnce_with_oneHash`: the statement
    `C05LogOnce` itself with "one version per name" in place of `NoReturn` holds.
  * `never_delivered_twice_partial` (same hypotheses): after a delivery of (n, h) no later event
    delivers it again, and a target of the final directory that is empty (the consumer took the
    file) stays empty unless another name / version is moved there.
  * both hypotheses are needed: `remembered_needed`, `one_version_needed`.
  Hash injectivity is needed nowhere (`H` is arbitrary in every theorem).
-/
import StsModel.Lemmas.StageOnce2
import StsModel.Props.C05

namespace Sts.Stage

/-! ## the hypothesis "a version of a name does not come back after a different one" -/

/-- the hash a completion record of `n` announces (whole or cut by a crash) -/
def recHash (n : Name) (ev : Ev) : Option String :=
  match evOp ev with
  | some (.record x m _ _ _) => if x = n then some m.hash else none
  | _ => none

/-- scan of the history for name `n`: `last` = the version announced most recently, `retired` =
    the versions announced before it; false as soon as a retired version is announced again -/
def noReturnFrom (n : Name) : Option String → List String → List Ev → Bool
  | _, _, [] => true
  | last, retired, ev :: evs =>
    match recHash n ev with
    | none => noReturnFrom n last retired evs
    | some h =>
      if last = some h then noReturnFrom n last retired evs
      else if retired.contains h then false
      else noReturnFrom n (some h) (match last with | some l => l :: retired | none => retired) evs

/-- "a version that came back after a different one is a new delivery": the histories in which
    that does not happen to the name `n` … -/
def NoReturnN (n : Name) (evs : List Ev) : Prop := noReturnFrom n none [] evs = true

instance (n : Name) (evs : List Ev) : Decidable (NoReturnN n evs) := by
  unfold NoReturnN; infer_instance

/-- … and to no name -/
def NoReturn (evs : List Ev) : Prop := ∀ n, NoReturnN n evs

/-! ## the version hypotheses of the theorems -/

/-- allowed hashes: one version per name -/
def perName (hashOf : Name → String) : Name → String → Bool := fun x h => h == hashOf x

/-- allowed hashes: the name `n` has the one version `hh`; other names are unconstrained -/
def oneName (n : Name) (hh : String) : Name → String → Bool := fun x h => x != n || h == hh

theorem oneName_unique (n : Name) (hh : String) (a b : String) (ha : oneName n hh n a = true)
    (hb : oneName n hh n b = true) : a = b := by
  simp only [oneName, bne_self_eq_false, Bool.false_or, beq_iff_eq] at ha hb
  rw [ha, hb]

theorem OneHash_mono {A B : Name → String → Bool} (hAB : ∀ x h, A x h = true → B x h = true)
    {evs : List Ev} (h : OneHash A evs) : OneHash B evs := by
  intro ev hev
  have := h ev hev
  unfold OneHashEv at this ⊢
  cases ho : evOp ev with
  | none => trivial
  | some o =>
    rw [ho] at this
    cases o <;> simp only [OneHashOp] at this ⊢
    exact hAB _ _ this

theorem perName_le_oneName (hashOf : Name → String) (n : Name) (x : Name) (h : String)
    (hx : perName hashOf x h = true) : oneName n (hashOf n) x h = true := by
  simp only [perName, beq_iff_eq] at hx
  by_cases hxn : x = n
  · subst hxn; simp [oneName, hx]
  · simp [oneName, hxn]

theorem recHash_oneName {n : Name} {hh : String} {ev : Ev} (h : OneHashEv (oneName n hh) ev)
    (x : String) (hx : recHash n ev = some x) : x = hh := by
  unfold recHash at hx
  unfold OneHashEv at h
  cases ho : evOp ev with
  | none => rw [ho] at hx; cases hx
  | some o =>
    rw [ho] at hx h
    cases o <;> simp only [OneHashOp] at h <;> try (cases hx)
    simp only at hx
    split at hx
    · rename_i hxn
      cases hx
      subst hxn
      simpa [oneName] using h
    · cases hx

/-- one version of `n` is a special case of "no version of `n` comes back" -/
theorem noReturnN_of_oneName {n : Name} {hh : String} {evs : List Ev} (h : OneHash (oneName n hh) evs) :
    NoReturnN n evs := by
  unfold NoReturnN
  suffices ∀ (evs : List Ev) (last : Option String) (ret : List String), OneHash (oneName n hh) evs →
      (last = none ∨ last = some hh) → ret = [] → noReturnFrom n last ret evs = true from
    this evs none [] h (Or.inl rfl) rfl
  intro evs
  induction evs with
  | nil => intros; rfl
  | cons ev evs ih =>
    intro last ret hone hl hr
    have hev := hone ev (by simp)
    have hone' : OneHash (oneName n hh) evs := fun e he => hone e (by simp [he])
    unfold noReturnFrom
    cases hrh : recHash n ev with
    | none => exact ih last ret hone' hl hr
    | some x =>
      have hx := recHash_oneName hev x hrh
      subst hx
      simp only
      by_cases hlast : last = some x
      · rw [if_pos hlast]; exact ih last ret hone' hl hr
      · rw [if_neg hlast]
        have hnone : last = none := by
          rcases hl with h' | h'
          · exact h'
          · exact absurd h' hlast
        subst hnone hr
        simp only [List.contains_nil, Bool.false_eq_true, if_false]
        exact ih _ _ hone' (Or.inr rfl) rfl

/-- one version per name is a special case of `NoReturn` -/
theorem noReturn_of_oneHash {hashOf : Name → String} {evs : List Ev} (h : OneHash (perName hashOf) evs) :
    NoReturn evs :=
  fun n => noReturnN_of_oneName (OneHash_mono (perName_le_oneName hashOf n) h)

/-! ## the statement at full strength -/

/-- `Remembered`, version-aware (the reading for histories with several versions of a name): the
    cache knows THE VERSION in question whenever the receive log does —
    * `Receive` completing version (x, m.hash) that is in the receive log finds `x` in the cache
      with that hash, not failed (`cacheKnows`);
    * `Recover`'s cache build loads, for every entry (x, c) of its validate list whose version
      (x, c.hash) is in the receive log, an entry that is finalized / logged with that hash
      (`recoverDup`: this is `Remembered` of Props/C06Class, for a `Recover` at any time). -/
def cacheKnows (m : Mem) (x : Name) (h : String) : Bool :=
  match m.cache x with
  | some ex => decide (ex.state ≠ .failed ∧ ex.hash = h)
  | none => false

def RememberedVOp (H : Body → String) (s : State) : OpEv → Prop
  | .record x m beg fin _ =>
    recordCompletes s x m beg fin → LoggedV s.disk x m.hash → cacheKnows s.mem x m.hash = true
  | .recover now names =>
    ∀ x ∈ recVals H s.disk names, LoggedV s.disk x.1 x.2.hash →
      recoverDup (recS2 H s now names).mem x.1 x.2 = true
  | _ => True

def RememberedVEv (H : Body → String) (s : State) (ev : Ev) : Prop :=
  match evOp ev with
  | some o => RememberedVOp H s o
  | none => True

def RememberedVRun (H : Body → String) : State → List Ev → Prop
  | _, [] => True
  | s, ev :: evs => RememberedVEv H s ev ∧ RememberedVRun H (step H s ev) evs

instance (d : Disk) (n : Name) (h : String) : Decidable (LoggedV d n h) := by
  unfold LoggedV; infer_instance

instance (H : Body → String) (s : State) (o : OpEv) : Decidable (RememberedVOp H s o) := by
  cases o <;> unfold RememberedVOp <;> infer_instance

instance (H : Body → String) (s : State) (ev : Ev) : Decidable (RememberedVEv H s ev) := by
  unfold RememberedVEv; split <;> infer_instance

instance decRememberedVRun (H : Body → String) :
    (s : State) → (evs : List Ev) → Decidable (RememberedVRun H s evs)
  | _, [] => isTrue trivial
  | s, ev :: evs =>
    have := decRememberedVRun H (step H s ev) evs
    by unfold RememberedVRun; infer_instance

/-- **C05, receiver part, at full strength**: for every hash function, every history from the empty
    staging area in which no version of a name comes back after a different one (`NoReturn`) and the
    receiver's cache knows every logged version when it matters (`RememberedVRun`; cache ageing, S8,
    is outside the events), for every name `n` and hash `h`: the receive log holds at most 1 +
    (number of crashes between the log record and the move of a finalization of (n, h)) records of
    (n, h), and (n, h) is moved into the final directory at most once. -/
def C05LogOnce : Prop :=
  ∀ (H : Body → String) (evs : List Ev), NoReturn evs → RememberedVRun H init evs → ∀ (n : Name) (h : String),
    logCount (runEvs H init evs).disk n h ≤ 1 + crashesBetweenLogAndMove H init evs n h ∧
    deliveries H init evs n h ≤ 1

/-! ## what is proved -/

/-- **accounting identity** (FULL: every history, every hash function, no hypothesis): the receive
    log holds exactly as many records of (n, h) as there were crashes between the log record and
    the move of a finalization of (n, h), plus deliveries of (n, h). -/
theorem log_account_init (H : Body → String) (evs : List Ev) (n : Name) (h : String) :
    logCount (runEvs H init evs).disk n h =
      crashesBetweenLogAndMove H init evs n h + deliveries H init evs n h := by
  have := log_account evs (Reachable.init H) n h
  simp only [logCount, init, List.countP_nil, Nat.zero_add] at this ⊢
  exact this

/-- **log_once_with_crashes_partial**: in EVERY history — crashes, crashes inside any operation
    (`Recover` included), `Recover` after a crash and in the middle of a run, stale handles,
    corruption, cleaners, any number of versions of OTHER names — in which every completion record
    of the name `n` announces the one hash `hh` (`OneHash (oneName n hh)`) and the cache reaches back
    to the records it needs (`RememberedRun`), for every hash `h` the receive log holds at most
    1 + (crashes between log and move of (n, h)) records of (n, h), and (n, h) is moved into the
    final directory at most once. (Applied to a prefix of a history: until another version of `n`
    is announced, a version is delivered at most once.) -/
theorem log_once_with_crashes_partial (H : Body → String) (n : Name) (hh : String) (evs : List Ev)
    (hone : OneHash (oneName n hh) evs) (hrem : RememberedRun H n init evs) (h : String) :
    logCount (runEvs H init evs).disk n h ≤ 1 + crashesBetweenLogAndMove H init evs n h ∧
    deliveries H init evs n h ≤ 1 := by
  have hd := deliver_once H n h (oneName_unique n hh) evs init (Reachable.init H) (HInv_init _) hone hrem
  rw [log_account_init]
  omega

/-- the same for histories with one version per NAME (the hypothesis of `log_once_partial`), all
    names at once -/
theorem log_once_with_crashes_onehash_partial (H : Body → String) (hashOf : Name → String)
    (evs : List Ev) (hone : OneHash (perName hashOf) evs) (n : Name)
    (hrem : RememberedRun H n init evs) (h : String) :
    logCount (runEvs H init evs).disk n h ≤ 1 + crashesBetweenLogAndMove H init evs n h ∧
    deliveries H init evs n h ≤ 1 :=
  log_once_with_crashes_partial H n (hashOf n) evs (OneHash_mono (perName_le_oneName hashOf n) hone) hrem h

/-- counted per NAME (as `log_once_partial` counts): every record of `n` carries `hh`, so the
    records of the name are at most 1 + the crashes between log and move. -/
theorem log_once_per_name_with_crashes_partial (H : Body → String) (n : Name) (hh : String)
    (evs : List Ev) (hone : OneHash (oneName n hh) evs) (hrem : RememberedRun H n init evs) :
    ((runEvs H init evs).disk.log.filter (·.name = n)).length ≤
      1 + crashesBetweenLogAndMove H init evs n hh := by
  have h1 := (log_once_with_crashes_partial H n hh evs hone hrem hh).1
  have hi := HInv_runEvs H evs init (HInv_init _) hone
  have : ((runEvs H init evs).disk.log.filter (·.name = n)).length =
      logCount (runEvs H init evs).disk n hh := by
    unfold logCount
    rw [List.countP_eq_length_filter]
    congr 1
    apply List.filter_congr
    intro r hr
    have := hi.logh r hr
    by_cases hn : r.name = n
    · simp only [oneName, hn, bne_self_eq_false, Bool.false_or, beq_iff_eq] at this
      simp [hn, this]
    · simp [hn]
  omega

/-- **never_delivered_twice_partial** (executable counterpart: oracle `delivered-twice` of
    harness/stage.go): same hypotheses, history split at any point. Once (n, h) has been delivered
    in `pre`, no event of `post` delivers it again; and a target `t` of the final directory that is
    empty after `pre` (the consumer took the file) is still empty after `post` unless some event of
    `post` moves ANOTHER name or version there (`otherArrivals … = 0` excludes that). -/
theorem never_delivered_twice_partial (H : Body → String) (n : Name) (hh : String)
    (pre post : List Ev) (hone : OneHash (oneName n hh) (pre ++ post))
    (hrem : RememberedRun H n init (pre ++ post)) (h : String)
    (hd : deliveries H init pre n h ≥ 1) :
    deliveries H (runEvs H init pre) post n h = 0 ∧
    ∀ t, (runEvs H init pre).disk.final t = none →
      otherArrivals H (runEvs H init pre) post n h t = 0 →
      (runEvs H init (pre ++ post)).disk.final t = none := by
  have h1 := deliver_once H n h (oneName_unique n hh) (pre ++ post) init (Reachable.init H)
    (HInv_init _) hone hrem
  rw [deliveries_append] at h1
  have h0 : deliveries H (runEvs H init pre) post n h = 0 := by omega
  refine ⟨h0, ?_⟩
  intro t hf ho
  have : runEvs H init (pre ++ post) = runEvs H (runEvs H init pre) post := by
    simp [runEvs, List.foldl_append]
  rw [this]
  exact final_none_runEvs n h t post _ ⟨pre, rfl⟩ hf h0 ho

/-! ## when `Remembered` holds for a `Recover` -/

/-- a `Recover` in the middle of a run (`/restart`) remembers every name its cache already knows:
    the walk and the cache build never drop a cache entry -/
theorem rememberedOp_recover_of_cached (H : Body → String) (n : Name) (s : State) (now : Int)
    (names : List Name) (hc : s.mem.cache n ≠ none) : RememberedOp H n s (.recover now names) := by
  intro x _ hxn _
  rw [hxn]
  unfold recS2
  apply cache_some_run n _ _ (cache_some_run n _ s hc ?_) ?_
  · have hp : (recP1 H s.disk names).all inertP = true := by
      simp only [recP1, List.all_append, Bool.and_eq_true, List.all_flatMap]
      refine ⟨by simp [inertP], ?_⟩
      rw [List.all_eq_true]
      intro y hy
      simp only [List.mem_map] at hy
      obtain ⟨m, _, rfl⟩ := hy
      exact recoverWalk_inertP H s.disk m
    exact ((all_ok_iff (fun _ _ => true) (some n) _).mp (all_inertP_ok _ _ _ hp)).2 n rfl
  · have hi : HInv (fun _ _ => true) (run s (recP1 H s.disk names)) :=
      ⟨fun _ _ => rfl, fun _ _ _ => rfl, fun _ _ _ => rfl, fun _ _ _ => rfl, fun _ _ => rfl⟩
    exact ((all_ok_iff (fun _ _ => true) (some n) _).mp (buildCache_ok hi (some n) _ now)).2 n rfl

/-- a `Recover` after a crash (empty memory) remembers `n` when the day files its cache build
    reads — from the oldest companion's time minus one day to now — hold a record of `n`
    (Lemmas/StageClass `recS2_loaded_last`) -/
theorem rememberedOp_recover_of_window (H : Body → String) (n : Name) (s0 : State) (now : Int)
    (names : List Name) (pre post : List LogRec) (r : LogRec)
    (hsplit : buildRecs s0 (minMtime s0.disk now names - 86400) now = pre ++ r :: post)
    (hrn : r.name = n) (hpost : ∀ r' ∈ post, r'.name ≠ n) :
    RememberedOp H n (crash s0) (.recover now names) := by
  intro x _ hxn _
  rw [hxn]
  obtain ⟨e, he, _⟩ := recS2_loaded_last H s0 now names n pre post r hsplit hrn hpost
  rw [he]
  simp

/-! ## the statement at full strength holds with `OneHash` in place of `NoReturn` -/

theorem oneName_hash {n : Name} {hh h : String} (hA : oneName n hh n h = true) : h = hh := by
  simpa [oneName] using hA

/-- for a name with one version the version-aware `Remembered` implies the inertP one -/
theorem remembered_of_rememberedV (H : Body → String) (n : Name) (hh : String) :
    ∀ (evs : List Ev) (s : State), HInv (oneName n hh) s → OneHash (oneName n hh) evs →
      RememberedVRun H s evs → RememberedRun H n s evs := by
  intro evs
  induction evs with
  | nil => intros; trivial
  | cons ev evs ih =>
    intro s hi h1 hV
    have hev := h1 ev (by simp)
    have hp : PInv (oneName n hh) none s := ⟨hi, fun m hm => by cases hm⟩
    have hp' := step_PInv hp (fun m hm => by cases hm) H ev (fun o ho => hev.op ho)
      (fun m hm => by cases hm)
    refine ⟨?_, ih _ hp'.1 (fun e he => h1 e (by simp [he])) hV.2⟩
    have hv := hV.1
    unfold RememberedEv
    unfold RememberedVEv at hv
    unfold OneHashEv at hev
    cases ho : evOp ev with
    | none => trivial
    | some o =>
      rw [ho] at hv hev
      cases o <;> simp only [RememberedOp] <;> simp only [RememberedVOp] at hv
      · rename_i x m beg fin now
        intro hxn hcomp ⟨r, hr, hrn⟩
        subst hxn
        simp only [OneHashOp] at hev
        have hrh : r.hash = hh := oneName_hash (by have := hi.logh r hr; rw [hrn] at this; exact this)
        have hmh : m.hash = hh := oneName_hash hev
        have := hv hcomp ⟨r, hr, hrn, by rw [hrh, hmh]⟩
        intro hnone
        simp [cacheKnows, hnone] at this
      · rename_i now names
        intro x hx hxn ⟨r, hr, hrn⟩
        obtain ⟨hc, _⟩ := (recover_validate_iff H s.disk x.1 x.2).mp (mem_recVals H s.disk names x hx).2
        have hch : x.2.hash = hh := oneName_hash (by have := hi.cmph x.1 x.2 hc; rw [hxn] at this; exact this)
        have hrh : r.hash = hh := oneName_hash (by
          have := hi.logh r hr; rw [hrn, hxn] at this; exact this)
        have := hv x hx ⟨r, hr, hrn, by rw [hrh, hch]⟩
        intro hnone
        simp [recoverDup, hnone] at this

/-- **`C05LogOnce` with "one version per name" in place of `NoReturn` is TRUE**: the very statement,
    same hypothesis `RememberedVRun`, for every history in which every name has one version. -/
theorem C05LogOnce_with_oneHash (H : Body → String) (hashOf : Name → String) (evs : List Ev)
    (hone : OneHash (perName hashOf) evs) (hrem : RememberedVRun H init evs) (n : Name) (h : String) :
    logCount (runEvs H init evs).disk n h ≤ 1 + crashesBetweenLogAndMove H init evs n h ∧
    deliveries H init evs n h ≤ 1 := by
  have hone' := OneHash_mono (perName_le_oneName hashOf n) hone
  exact log_once_with_crashes_partial H n (hashOf n) evs hone'
    (remembered_of_rememberedV H n (hashOf n) evs init (HInv_init _) hone' hrem) h

/-! ## `log_once_partial` is a corollary -/

/-- a crash-free history has no crash between a record and its move -/
theorem crashesBetween_zero_of_ops (H : Body → String) (n : Name) (h : String) :
    ∀ (evs : List Ev) (s : State), (∀ ev ∈ evs, ∃ o, ev = .op o) →
      crashesBetweenLogAndMove H s evs n h = 0 := by
  intro evs
  induction evs with
  | nil => intros; rfl
  | cons ev evs ih =>
    intro s hall
    obtain ⟨o, rfl⟩ := hall ev (by simp)
    simp only [crashesBetweenLogAndMove]
    rw [ih _ (fun e he => hall e (by simp [he]))]
    simp only [evCrashBetween, performed, intended, Nat.add_zero]
    by_cases hm : (effects H s o).any (Prim.isMoveOf n) = true
    · simp [hm]
    · have : (effects H s o).any (Prim.isMoveOf n) = false := by simpa using hm
      simp [this]

/-- in the histories of `log_once_partial` (`OnceRun`: no crash, no mid-run Recover, one hash per
    name) the cache never forgets: `RememberedRun` holds -/
theorem remembered_of_onceRun (H : Body → String) (hashOf : Name → String) (n : Name) :
    ∀ (evs : List Ev) (s : State), OnceInv hashOf s → OnceRun hashOf evs → RememberedRun H n s evs := by
  intro evs
  induction evs with
  | nil => intros; trivial
  | cons ev evs ih =>
    intro s hi hrun
    have hev := hrun ev (by simp)
    have hrest : OnceRun hashOf evs := fun e he => hrun e (by simp [he])
    cases ev with
    | cutOp k o => exact absurd hev (by simp)
    | crash => exact absurd hev (by simp)
    | op o =>
      refine ⟨?_, ih _ (op_once hi H o ?_ ?_) hrest⟩
      · unfold RememberedEv
        simp only [evOp]
        cases o <;> simp only [RememberedOp]
        · rename_i x m beg fin now
          intro _ _ ⟨r, hr, hrn⟩
          have := hi.cached r hr
          rw [hrn] at this
          intro hnone
          rw [hnone] at this
          cases this
        · exact absurd hev (by simp)
      · intro now ns ho; subst ho; exact hev
      · intro x m b f now ho; subst ho; exact hev

theorem oneHash_of_onceRun {hashOf : Name → String} {evs : List Ev} (h : OnceRun hashOf evs) :
    OneHash (perName hashOf) evs := by
  intro ev hev
  have := h ev hev
  unfold OneHashEv
  cases ev with
  | op o => cases o <;> simp_all [evOp, OneHashOp, perName]
  | cutOp k o => exact absurd this (by simp)
  | crash => simp [evOp]

/-- `log_once_partial` (Props/C05) obtained again from the theorem over all histories -/
theorem log_once_partial_again (H : Body → String) (hashOf : Name → String) (evs : List Ev)
    (hrun : OnceRun hashOf evs) :
    ∀ n, ((runEvs H init evs).disk.log.filter (·.name = n)).length ≤ 1 := by
  intro n
  have h := log_once_per_name_with_crashes_partial H n (hashOf n) evs
    (OneHash_mono (perName_le_oneName hashOf n) (oneHash_of_onceRun hrun))
    (remembered_of_onceRun H hashOf n evs init (OnceInv_init hashOf) hrun)
  rw [crashesBetween_zero_of_ops H n (hashOf n) evs init] at h
  · exact h
  · intro ev hev
    have := hrun ev hev
    cases ev with
    | op o => exact ⟨o, rfl⟩
    | cutOp k o => exact absurd this (by simp)
    | crash => exact absurd this (by simp)

/-! ## non-vacuity: concrete histories that meet the hypotheses -/

def c5h : Meta := ⟨"", "", 2, "h"⟩
def c5x : Meta := ⟨"", "", 2, "x"⟩

/-- "k" is received and validated; the receiver dies inside `putFileAway` between the log record
    and the move (first durable step of the finalize handler); restart, Recover, finalize handler.
    Harness ops: prepare k 2 0 / recv k - - 2 b1.2 0 2 1.2 0 / process k 1 / cut 1 finh k 5 /
    recover 9 k / finh k 10. -/
def crashBetweenRun : List Ev := [
  .op (.prepare "k" 2 0), .op (.recvOpen 1 "k"), .op (.recvWrite 1 0 [1, 2] 0),
  .op (.record "k" c5h 0 2 0), .op (.process "k" 1), .cutOp 1 (.finh "k" 5),
  .op (.recover 9 ["k"]), .op (.finh "k" 10)]

/-- the hypotheses hold; the record is repeated once (two records, one crash between log and
    move), the delivery happens once -/
example :
    OneHash (oneName "k" "h") crashBetweenRun ∧ RememberedRun exHb "k" init crashBetweenRun ∧
    RememberedVRun exHb init crashBetweenRun ∧
    logCount (runEvs exHb init crashBetweenRun).disk "k" "h" = 2 ∧
    crashesBetweenLogAndMove exHb init crashBetweenRun "k" "h" = 1 ∧
    deliveries exHb init crashBetweenRun "k" "h" = 1 ∧
    (runEvs exHb init crashBetweenRun).disk.final "k" = some 0 := by
  refine ⟨by decide, by decide, by decide, by decide, by decide, by decide, by decide⟩

/-- "a" is delivered and consumed; the last part arrives again (lost acknowledgement) and the
    receiver dies inside `Receive` after the companion's rename, before the duplicate branch
    removes `a.part`; restart, Recover (drops the staged duplicate), the handlers find nothing.
    Harness ops: prepare a 2 0 / recv a - - 2 b1.2 0 2 1.2 0 / settle 0 / consume a / prepare a 2 1 /
    cut 3 recv a - - 2 b1.2 0 2 1.2 1 / recover 5 a / settle 6. -/
def dupCutRun : List Ev := [
  .op (.prepare "a" 2 0), .op (.recvOpen 1 "a"), .op (.recvWrite 1 0 [1, 2] 0),
  .op (.record "a" c5h 0 2 0), .op (.process "a" 0), .op (.finh "a" 0), .op (.consume "a"),
  .op (.prepare "a" 2 1), .op (.recvOpen 3 "a"), .op (.recvWrite 3 0 [1, 2] 1),
  .cutOp 2 (.record "a" c5h 0 2 1), .op (.recover 5 ["a"]), .op (.process "a" 6), .op (.finh "a" 6)]

/-- the hypotheses hold (the cache build of Recover loads the record of "a"); one record, one
    delivery, no crash between log and move; the staged duplicate is gone and the consumed file
    does not reappear (`never_delivered_twice_partial` with `pre` = the first seven events) -/
example :
    OneHash (oneName "a" "h") dupCutRun ∧ RememberedRun exHb "a" init dupCutRun ∧
    RememberedVRun exHb init dupCutRun ∧
    logCount (runEvs exHb init dupCutRun).disk "a" "h" = 1 ∧
    crashesBetweenLogAndMove exHb init dupCutRun "a" "h" = 0 ∧
    deliveries exHb init (dupCutRun.take 7) "a" "h" = 1 ∧
    (runEvs exHb init (dupCutRun.take 7)).disk.final "a" = none ∧
    otherArrivals exHb (runEvs exHb init (dupCutRun.take 7)) (dupCutRun.drop 7) "a" "h" "a" = 0 ∧
    (runEvs exHb init (dupCutRun.take 11)).disk.part "a" = some 1 ∧
    (runEvs exHb init dupCutRun).disk.part "a" = none ∧ (runEvs exHb init dupCutRun).disk.full "a" = none ∧
    (runEvs exHb init dupCutRun).disk.cmp "a" = none ∧ (runEvs exHb init dupCutRun).disk.final "a" = none := by
  refine ⟨by decide, by decide, by decide, by decide, by decide, by decide, by decide, by decide,
    by decide, by decide, by decide, by decide, by decide⟩

/-- "n" is delivered; the receiver crashes and restarts (`Recover` with an empty staging area:
    its cache build loads the record); the whole file arrives again and is recognised by `Receive`.
    Harness ops: prepare n 2 0 / recv n - - 2 b1.2 0 2 1.2 0 / settle 0 / crash / recover 5 /
    prepare n 2 6 / recv n - - 2 b1.2 0 2 1.2 6 / settle 7. -/
def restartResendRun : List Ev := [
  .op (.prepare "n" 2 0), .op (.recvOpen 1 "n"), .op (.recvWrite 1 0 [1, 2] 0),
  .op (.record "n" c5h 0 2 0), .op (.process "n" 0), .op (.finh "n" 0), .crash, .op (.recover 5 []),
  .op (.prepare "n" 2 6), .op (.recvOpen 2 "n"), .op (.recvWrite 2 0 [1, 2] 6),
  .op (.record "n" c5h 0 2 6), .op (.process "n" 7), .op (.finh "n" 7)]

/-- the hypotheses hold after a restart (the cache entry of "n" comes from the receive log);
    one record, one delivery, the staged copy is gone -/
example :
    OneHash (oneName "n" "h") restartResendRun ∧ RememberedRun exHb "n" init restartResendRun ∧
    RememberedVRun exHb init restartResendRun ∧
    sig (runEvs exHb init (restartResendRun.take 8)).mem "n" = some (.logged, "h") ∧
    logCount (runEvs exHb init restartResendRun).disk "n" "h" = 1 ∧
    deliveries exHb init restartResendRun "n" "h" = 1 ∧
    (runEvs exHb init restartResendRun).disk.part "n" = none ∧
    (runEvs exHb init restartResendRun).disk.cmp "n" = none := by
  refine ⟨by decide, by decide, by decide, by decide, by decide, by decide, by decide, by decide⟩

/-! ## the hypotheses are needed -/

/-- "n" is delivered; the receiver restarts (bare crash: no Recover, no poll, so nothing loads the
    record into the cache); the whole file arrives again. -/
def forgetRun : List Ev := [
  .op (.prepare "n" 2 0), .op (.recvOpen 1 "n"), .op (.recvWrite 1 0 [1, 2] 0),
  .op (.record "n" c5h 0 2 0), .op (.process "n" 0), .op (.finh "n" 0), .crash,
  .op (.prepare "n" 2 1), .op (.recvOpen 2 "n"), .op (.recvWrite 2 0 [1, 2] 1),
  .op (.record "n" c5h 0 2 1), .op (.process "n" 1), .op (.finh "n" 1)]

/-- **`Remembered` is needed**: one hash per name, but the cache does not know the logged name
    when the retransmission completes — delivered and logged twice, no crash between log and
    move. (By design: `Receive` consults only the cache; S8.) -/
theorem remembered_needed :
    OneHash (oneName "n" "h") forgetRun ∧ ¬ RememberedRun exHb "n" init forgetRun ∧
    ¬ RememberedVRun exHb init forgetRun ∧
    deliveries exHb init forgetRun "n" "h" = 2 ∧ logCount (runEvs exHb init forgetRun).disk "n" "h" = 2 ∧
    crashesBetweenLogAndMove exHb init forgetRun "n" "h" = 0 := by
  refine ⟨by decide, by decide, by decide, by decide, by decide, by decide⟩

/-- version "h" of "n" is delivered, then version "x" (bytes [3, 4]), then version "h" again. -/
def comeBackRun : List Ev := [
  .op (.prepare "n" 2 0), .op (.recvOpen 1 "n"), .op (.recvWrite 1 0 [1, 2] 0),
  .op (.record "n" c5h 0 2 0), .op (.process "n" 0), .op (.finh "n" 0),
  .op (.prepare "n" 2 1), .op (.recvOpen 2 "n"), .op (.recvWrite 2 0 [3, 4] 1),
  .op (.record "n" c5x 0 2 1), .op (.process "n" 1), .op (.finh "n" 1),
  .op (.prepare "n" 2 2), .op (.recvOpen 3 "n"), .op (.recvWrite 3 0 [1, 2] 2),
  .op (.record "n" c5h 0 2 2), .op (.process "n" 2), .op (.finh "n" 2)]

/-- **some hypothesis on versions is needed**: a version that comes back after a different one is
    a new delivery (by design), so without `NoReturn` / `OneHash` the bound fails although the
    cache remembers everything. -/
theorem one_version_needed :
    RememberedRun exHb "n" init comeBackRun ∧ ¬ NoReturnN "n" comeBackRun ∧
    deliveries exHb init comeBackRun "n" "h" = 2 ∧
    crashesBetweenLogAndMove exHb init comeBackRun "n" "h" = 0 := by
  refine ⟨by decide, by decide, by decide, by decide⟩

/-! ## the statement at full strength is false -/

/-- "n" (version "h", bytes [1, 2]) is received completely: `Receive` hands the file to a validator
    (validation queue: one item). Before a validator takes it, `Recover()` runs in the middle of
    the run (`/restart`: `Stop(true); Recover()`): it finds `n.full` with a complete companion and
    validates it ITSELF; the item stays in the queue. The finalize handler delivers "n"; the
    consumer takes it. Then a DIFFERENT version "x" of "n" is announced and received completely,
    but the bytes written are those of "h" (a wrong announced hash; the same bytes arrive through
    a stale handle of a slow retransmission of "h" in the S1 race): second queue item. The validator takes
    the STALE item first: the cache state is `received` (of version "x"), the bytes hash to the
    item's hash "h" — valid; the cache entry becomes (validated, "h"), and the finalize handler
    logs and delivers version "h" a second time.
    Harness ops (component `stage`): prepare n 2 0 / recv n - - 2 b1.2 0 2 1.2 0 / recover 0 n /
    finh n 0 / consume n / prepare n 2 1 / recv n - - 2 b3.4 0 2 1.2 1 / process n 1 / finh n 1 /
    observe — replayed on the real receiver: `final{n=1.2}` again, `log{n,-,b1.2,2;n,-,b1.2,2}`. -/
def staleQueueRun : List Ev := [
  .op (.prepare "n" 2 0), .op (.recvOpen 1 "n"), .op (.recvWrite 1 0 [1, 2] 0),
  .op (.record "n" c5h 0 2 0),
  .op (.recover 0 ["n"]),
  .op (.finh "n" 0), .op (.consume "n"),
  .op (.prepare "n" 2 1), .op (.recvOpen 2 "n"), .op (.recvWrite 2 0 [1, 2] 1),
  .op (.record "n" c5x 0 2 1),
  .op (.process "n" 1), .op (.finh "n" 1)]

/-- **witness**: no crash at all, the announced versions of "n" are "h" then "x" (no return), the
    cache remembers everything — and version "h" is logged twice and delivered twice; after the
    consumer took the first delivery the file is in the final directory again. -/
theorem stale_queue_item_delivers_again :
    NoReturn staleQueueRun ∧ RememberedVRun exHb init staleQueueRun ∧
    RememberedRun exHb "n" init staleQueueRun ∧
    (runEvs exHb init (staleQueueRun.take 5)).mem.vq.map (fun q => (q.1, q.2.hash)) = [("n", "h")] ∧
    stateOf (runEvs exHb init (staleQueueRun.take 5)).mem "n" = some .validated ∧
    (runEvs exHb init (staleQueueRun.take 7)).disk.final "n" = none ∧
    (runEvs exHb init (staleQueueRun.take 11)).mem.vq.map (fun q => (q.1, q.2.hash)) = [("n", "h"), ("n", "x")] ∧
    sig (runEvs exHb init (staleQueueRun.take 11)).mem "n" = some (.received, "x") ∧
    sig (runEvs exHb init (staleQueueRun.take 12)).mem "n" = some (.validated, "h") ∧
    logCount (runEvs exHb init staleQueueRun).disk "n" "h" = 2 ∧
    crashesBetweenLogAndMove exHb init staleQueueRun "n" "h" = 0 ∧
    deliveries exHb init staleQueueRun "n" "h" = 2 ∧
    (runEvs exHb init staleQueueRun).disk.final "n" = some 1 := by
  refine ⟨?_, by decide, by decide, by decide, by decide, by decide, by decide, by decide, by decide,
    by decide, by decide, by decide, by decide⟩
  intro n
  by_cases hn : n = "n"
  · subst hn; decide
  · have : ∀ (evs : List Ev) (l : Option String) (r : List String),
        (∀ ev ∈ evs, recHash n ev = none) → noReturnFrom n l r evs = true := by
      intro evs
      induction evs with
      | nil => intros; rfl
      | cons e es ih =>
        intro l r h
        unfold noReturnFrom
        rw [h e (by simp)]
        exact ih l r (fun e' he' => h e' (by simp [he']))
    apply this
    intro ev hev
    simp only [staleQueueRun, List.mem_cons, List.mem_nil_iff, or_false] at hev
    rcases hev with h | h | h | h | h | h | h | h | h | h | h | h | h <;> subst h <;>
      simp [recHash, evOp, Ne.symm hn]

/-- **the statement at full strength is false** (of the model and, replayed, of the real receiver) -/
theorem C05LogOnce_false : ¬ C05LogOnce := by
  intro h
  obtain ⟨h1, h2, _, _, _, _, _, _, _, _, _, h3, _⟩ := stale_queue_item_delivers_again
  have := (h exHb staleQueueRun h1 h2 "n" "h").2
  rw [h3] at this
  omega

/-! ## the repair the witness calls for (a definition for this file only: NOT the code) -/

/-- `process` with one more test: a queue item whose hash is not the hash of the cache entry is
    ignored ("Ignoring invalid (process)"), as `finalize` ignores such an item -/
def processCoreChk (H : Body → String) (s : State) (n : Name) (e : Entry) (now : Int) : List Prim :=
  if (s.mem.cache n).map (·.hash) ≠ some e.hash then [Prim.lockAdd n] else processCore H s n e now

def effectsChk (H : Body → String) (s : State) : OpEv → List Prim
  | .process n now =>
    (match s.mem.vq.find? (·.1 == n) with
     | none => []
     | some (_, e) => [Prim.vqDel n] ++ processCoreChk H s n e now)
  | o => effects H s o

def runOpsChk (H : Body → String) (s : State) (os : List OpEv) : State :=
  os.foldl (fun s o => run s (effectsChk H s o)) s

def staleQueueOps : List OpEv := [
  .prepare "n" 2 0, .recvOpen 1 "n", .recvWrite 1 0 [1, 2] 0, .record "n" c5h 0 2 0,
  .recover 0 ["n"], .finh "n" 0, .consume "n",
  .prepare "n" 2 1, .recvOpen 2 "n", .recvWrite 2 0 [1, 2] 1, .record "n" c5x 0 2 1,
  .process "n" 1, .finh "n" 1, .process "n" 2, .finh "n" 2]

/-- the witness run is these operations (plus the second validator step), and with the extra test
    in `process` the stale item is ignored: version "x" is then validated against its own item,
    fails (its bytes do not hash to "x": status "failed", the sender sends again), and version "h"
    keeps its one record and one delivery. -/
theorem stale_item_ignored_with_check :
    staleQueueRun = (staleQueueOps.take 13).map Ev.op ∧
    sig (runOpsChk exHb init (staleQueueOps.take 12)).mem "n" = some (.received, "x") ∧
    sig (runOpsChk exHb init staleQueueOps).mem "n" = some (.failed, "x") ∧
    (runOpsChk exHb init staleQueueOps).disk.log.map (·.hash) = ["h"] ∧
    (runOpsChk exHb init staleQueueOps).disk.final "n" = none ∧
    statusAnswer (runOpsChk exHb init staleQueueOps) "n" = 1 := by
  refine ⟨rfl, by decide, by decide, by decide, by decide, by decide⟩

end Sts.Stage
