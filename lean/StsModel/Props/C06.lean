/-
  C06 — a receiver crash at any point loses nothing and delivers nothing unvalidated
  (decision level and crash mechanics: stage/local.go Recover, the crash model of
  Model/StageSem). The invariants that hold at every crash point are in Lemmas/StageLoggedHash
  (`finalized_implies_logged_hash`) and Props/C09Stage (`record_sound`).
-/
import StsModel.Lemmas.StageRec

namespace Sts.Stage

/-! ## the walk of Recover: classification of one name -/

theorem waitMatches_iff (H : Body → String) (d : Disk) (n : Name) (c : Cmp) :
    waitMatches H d n c = true ↔ ∃ i, d.wait n = some i ∧ H (d.body i) = c.hash := by
  unfold waitMatches
  cases d.wait n with
  | none => simp
  | some i => simp

/-- `recover_walk_cases`: the decision table of the walk, for ANY disk. The six conditions
    are exhaustive and mutually exclusive. -/
theorem recover_walk_cases (H : Body → String) (d : Disk) (n : Name) :
    (d.cmp n = none → recoverWalk H d n = ([], .nothing)) ∧
    (∀ c, d.cmp n = some c →
      (waitMatches H d n c = true → recoverWalk H d n = ([], .finalize c)) ∧
      (waitMatches H d n c = false → d.full n ≠ none → recoverWalk H d n = ([], .validate c)) ∧
      (waitMatches H d n c = false → d.full n = none → d.part n ≠ none →
        isComplete c.parts c.size = true → recoverWalk H d n = ([Prim.renPartFull n], .validate c)) ∧
      (waitMatches H d n c = false → d.full n = none → d.part n ≠ none →
        isComplete c.parts c.size = false → recoverWalk H d n = ([], .nothing)) ∧
      (waitMatches H d n c = false → d.full n = none → d.part n = none →
        recoverWalk H d n = ([Prim.rmCmp n], .nothing))) := by
  refine ⟨recoverWalk_none H d n, ?_⟩
  intro c hc
  rw [recoverWalk_some H d n c hc]
  refine ⟨?_, ?_, ?_, ?_, ?_⟩
  · intro h; simp [h]
  · intro h hf; simp [h, hf]
  · intro h hf hp hcomp; simp [h, hf, hp, hcomp]
  · intro h hf hp hcomp; simp [h, hf, hp, hcomp]
  · intro h hf hp; simp [h, hf, hp]

/-- finalize-list ⇔ a companion exists and a `.wait` file exists whose hash is the
    companion's -/
theorem recover_finalize_iff (H : Body → String) (d : Disk) (n : Name) (c : Cmp) :
    (recoverWalk H d n).2 = .finalize c ↔
      d.cmp n = some c ∧ ∃ i, d.wait n = some i ∧ H (d.body i) = c.hash := by
  rw [← waitMatches_iff]
  obtain ⟨h0, h1⟩ := recover_walk_cases H d n
  constructor
  · intro h
    cases hc : d.cmp n with
    | none => rw [h0 hc] at h; cases h
    | some c' =>
      obtain ⟨a, b, c3, d4, e⟩ := h1 c' hc
      cases hw : waitMatches H d n c' with
      | true => rw [a hw] at h; cases h; exact ⟨rfl, hw⟩
      | false =>
        by_cases hf : d.full n = none
        · by_cases hp : d.part n = none
          · rw [e hw hf hp] at h; cases h
          · cases hcomp : isComplete c'.parts c'.size with
            | true => rw [c3 hw hf hp hcomp] at h; cases h
            | false => rw [d4 hw hf hp hcomp] at h; cases h
        · rw [b hw hf] at h; cases h
  · rintro ⟨hc, hw⟩
    rw [(h1 c hc).1 hw]

/-- validate-list ⇔ companion, no matching `.wait`, and a `.full` or a complete `.part` -/
theorem recover_validate_iff (H : Body → String) (d : Disk) (n : Name) (c : Cmp) :
    (recoverWalk H d n).2 = .validate c ↔
      d.cmp n = some c ∧ (¬ ∃ i, d.wait n = some i ∧ H (d.body i) = c.hash) ∧
      (d.full n ≠ none ∨ (d.part n ≠ none ∧ isComplete c.parts c.size = true)) := by
  rw [← waitMatches_iff]
  obtain ⟨h0, h1⟩ := recover_walk_cases H d n
  constructor
  · intro h
    cases hc : d.cmp n with
    | none => rw [h0 hc] at h; cases h
    | some c' =>
      obtain ⟨a, b, c3, d4, e⟩ := h1 c' hc
      cases hw : waitMatches H d n c' with
      | true => rw [a hw] at h; cases h
      | false =>
        by_cases hf : d.full n = none
        · by_cases hp : d.part n = none
          · rw [e hw hf hp] at h; cases h
          · cases hcomp : isComplete c'.parts c'.size with
            | true =>
              rw [c3 hw hf hp hcomp] at h; cases h
              exact ⟨rfl, by simp [hw], Or.inr ⟨hp, hcomp⟩⟩
            | false => rw [d4 hw hf hp hcomp] at h; cases h
        · rw [b hw hf] at h; cases h
          exact ⟨rfl, by simp [hw], Or.inl hf⟩
  · rintro ⟨hc, hw, hfp⟩
    have hw' : waitMatches H d n c = false := by
      cases h : waitMatches H d n c with
      | true => exact absurd h hw
      | false => rfl
    obtain ⟨_, b, c3, _, _⟩ := h1 c hc
    by_cases hf : d.full n = none
    · rcases hfp with h | ⟨hp, hcomp⟩
      · exact absurd hf h
      · rw [c3 hw' hf hp hcomp]
    · rw [b hw' hf]

/-- the walk renames `<n>.part` to `<n>.full` exactly when there is a companion, no matching
    `.wait`, no `.full`, and the partial is complete by its companion -/
theorem recover_rename_iff (H : Body → String) (d : Disk) (n : Name) :
    (recoverWalk H d n).1 = [Prim.renPartFull n] ↔
      ∃ c, d.cmp n = some c ∧ (¬ ∃ i, d.wait n = some i ∧ H (d.body i) = c.hash) ∧
        d.full n = none ∧ d.part n ≠ none ∧ isComplete c.parts c.size = true := by
  obtain ⟨h0, h1⟩ := recover_walk_cases H d n
  constructor
  · intro h
    cases hc : d.cmp n with
    | none => rw [h0 hc] at h; cases h
    | some c' =>
      obtain ⟨a, b, c3, d4, e⟩ := h1 c' hc
      cases hw : waitMatches H d n c' with
      | true => rw [a hw] at h; cases h
      | false =>
        by_cases hf : d.full n = none
        · by_cases hp : d.part n = none
          · rw [e hw hf hp] at h; cases h
          · cases hcomp : isComplete c'.parts c'.size with
            | true => exact ⟨c', rfl, by rw [← waitMatches_iff]; simp [hw], hf, hp, hcomp⟩
            | false => rw [d4 hw hf hp hcomp] at h; cases h
        · rw [b hw hf] at h; cases h
  · rintro ⟨c, hc, hw, hf, hp, hcomp⟩
    have hw' : waitMatches H d n c = false := by
      cases h : waitMatches H d n c with
      | true => exact absurd ((waitMatches_iff H d n c).mp h) hw
      | false => rfl
    rw [(h1 c hc).2.2.1 hw' hf hp hcomp]

/-- the walk removes the companion exactly when it is an orphan: no matching `.wait`, no
    `.full`, no `.part` -/
theorem recover_rmCmp_iff (H : Body → String) (d : Disk) (n : Name) :
    (recoverWalk H d n).1 = [Prim.rmCmp n] ↔
      ∃ c, d.cmp n = some c ∧ (¬ ∃ i, d.wait n = some i ∧ H (d.body i) = c.hash) ∧
        d.full n = none ∧ d.part n = none := by
  obtain ⟨h0, h1⟩ := recover_walk_cases H d n
  constructor
  · intro h
    cases hc : d.cmp n with
    | none => rw [h0 hc] at h; cases h
    | some c' =>
      obtain ⟨a, b, c3, d4, e⟩ := h1 c' hc
      cases hw : waitMatches H d n c' with
      | true => rw [a hw] at h; cases h
      | false =>
        by_cases hf : d.full n = none
        · by_cases hp : d.part n = none
          · exact ⟨c', rfl, by rw [← waitMatches_iff]; simp [hw], hf, hp⟩
          · cases hcomp : isComplete c'.parts c'.size with
            | true => rw [c3 hw hf hp hcomp] at h; cases h
            | false => rw [d4 hw hf hp hcomp] at h; cases h
        · rw [b hw hf] at h; cases h
  · rintro ⟨c, hc, hw, hf, hp⟩
    have hw' : waitMatches H d n c = false := by
      cases h : waitMatches H d n c with
      | true => exact absurd ((waitMatches_iff H d n c).mp h) hw
      | false => rfl
    rw [(h1 c hc).2.2.2.2 hw' hf hp]

/-- in every other case the walk leaves the disk alone -/
theorem recover_walk_prims_cases (H : Body → String) (d : Disk) (n : Name) :
    (recoverWalk H d n).1 = [] ∨ (recoverWalk H d n).1 = [Prim.renPartFull n] ∨
    (recoverWalk H d n).1 = [Prim.rmCmp n] := by
  obtain ⟨h0, h1⟩ := recover_walk_cases H d n
  cases hc : d.cmp n with
  | none => rw [h0 hc]; exact Or.inl rfl
  | some c' =>
    obtain ⟨a, b, c3, d4, e⟩ := h1 c' hc
    cases hw : waitMatches H d n c' with
    | true => rw [a hw]; exact Or.inl rfl
    | false =>
      by_cases hf : d.full n = none
      · by_cases hp : d.part n = none
        · rw [e hw hf hp]; exact Or.inr (Or.inr rfl)
        · cases hcomp : isComplete c'.parts c'.size with
          | true => rw [c3 hw hf hp hcomp]; exact Or.inr (Or.inl rfl)
          | false => rw [d4 hw hf hp hcomp]; exact Or.inl rfl
      · rw [b hw hf]; exact Or.inl rfl

/-! ## what Recover can do at all -/

/-- the primitives that occur strictly inside Recover: removal of an orphan companion, the
    two renames `.part → .full → .wait`, removal of a `.full` that is not there (process on a
    missing file), and memory steps other than the ready flag. In particular nothing is
    logged or moved to the final directory, no partial is created, truncated, written or
    removed. -/
def recInner : Prim → Bool
  | .rmCmp .. | .renPartFull .. | .rmFull .. | .renFullWait .. => true
  | .cacheSet .. | .cacheDel .. | .cacheTimeSet .. | .cacheTimesSet .. | .lockAdd .. | .lockDel ..
  | .vqPush .. | .vqDel .. | .fqPush .. | .fqDel .. | .nextFinalSet .. => true
  | _ => false

theorem toCache_inner (m : Mem) (n : Name) (e : Entry) (st : FState) (now : Int) :
    (toCache m n e st now).all recInner = true := by
  unfold toCache
  simp only [List.all_append, Bool.and_eq_true]
  refine ⟨⟨?_, by simp [recInner]⟩, ?_⟩ <;> split <;> simp [recInner]

theorem processCore_inner (H : Body → String) (s : State) (n : Name) (e : Entry) (now : Int) :
    (processCore H s n e now).all recInner = true := by
  unfold processCore
  simp only [List.all_append, Bool.and_eq_true]
  refine ⟨by simp [recInner], ?_⟩
  split
  · simp
  · split
    · simp only [List.all_append, Bool.and_eq_true]
      exact ⟨by simp [recInner], toCache_inner _ _ _ _ _⟩
    · split
      · exact toCache_inner _ _ _ _ _
      · simp only [List.all_append, Bool.and_eq_true]
        exact ⟨⟨by simp [recInner], toCache_inner _ _ _ _ _⟩, by simp [recInner]⟩

theorem buildCache_inner (s : State) (frm now : Int) :
    (buildCacheEffects s frm now).all recInner = true := by
  have hl : ∀ recs cached, (buildCacheLoad recs cached now).all recInner = true := by
    intro recs cached
    simp only [List.all_eq_true]
    intro p hp
    obtain ⟨r, _, rfl⟩ := buildCacheLoad_mem recs cached now p hp
    rfl
  unfold buildCacheEffects
  split
  · split
    · simp
    · simp only [List.all_append, Bool.and_eq_true]
      refine ⟨⟨hl _ _, ?_⟩, by simp [recInner]⟩
      split <;> simp [recInner]
  · simp only [List.all_append, Bool.and_eq_true]
    refine ⟨⟨hl _ _, ?_⟩, by simp [recInner]⟩
    split <;> simp [recInner]

/-- `recover_ready_flag`: Recover is `setReady false`, then only inner primitives, then
    `setReady true`. -/
theorem recover_shape (H : Body → String) (s : State) (now : Int) (names : List Name) :
    ∃ mid, recoverEffects H s now names = [Prim.setReady false] ++ mid ++ [Prim.setReady true] ∧
      mid.all recInner = true := by
  have e : ∀ (W p2 r4 : List Prim), [Prim.setReady false] ++ W ++ p2 ++ r4 ++ [Prim.setReady true] =
      [Prim.setReady false] ++ ((W ++ p2) ++ r4) ++ [Prim.setReady true] := by
    intros; simp only [List.append_assoc]
  unfold recoverEffects
  simp only
  refine ⟨_, e _ _ _, ?_⟩
  simp only [List.all_append, Bool.and_eq_true]
  refine ⟨⟨?_, buildCache_inner _ _ _⟩, ?_⟩
  · simp only [List.all_flatMap, List.all_map, List.all_eq_true]
    intro n _
    simp only [Function.comp, List.all_eq_true]
    intro p hp
    rcases recoverWalk_prims H s.disk n p hp with h | h <;> (subst h; rfl)
  · apply fold_listP (fun ps => ps.all recInner = true)
    · intro a b ha hb; simp [ha, hb]
    · intro acc x
      exact ⟨_, recoverValOne_all recInner H _ now x rfl rfl rfl (toCache_inner _ _ _ _ _)
        (processCore_inner _ _ _ _ _), rfl⟩
    · apply fold_listP (fun ps => ps.all recInner = true)
      · intro a b ha hb; simp [ha, hb]
      · intro acc x
        refine ⟨_, ?_, rfl⟩
        simp only [List.all_append, Bool.and_eq_true]
        exact ⟨toCache_inner _ _ _ _ _, by simp [recInner]⟩
      · rfl

theorem ready_run_inner (ps : List Prim) (h : ps.all recInner = true) (s : State) :
    (run s ps).mem.ready = s.mem.ready := by
  induction ps generalizing s with
  | nil => rfl
  | cons p ps ih =>
    simp only [List.all_cons, Bool.and_eq_true] at h
    rw [run_cons, ih h.2]
    cases p <;> simp [recInner] at h <;> simp [applyPrim, applyMem]
    · split <;> rfl

/-- `recover_ready_flag`: the first primitive of Recover clears the ready flag, the last one
    sets it, no other touches it: after every non-empty proper prefix of Recover (every point
    strictly inside it) the receiver refuses requests. -/
theorem recover_ready_flag (H : Body → String) (s : State) (now : Int) (names : List Name)
    (pre post : List Prim) (hsplit : recoverEffects H s now names = pre ++ post)
    (hpre : pre ≠ []) (hpost : post ≠ []) : (run s pre).mem.ready = false := by
  obtain ⟨mid, hshape, hmid⟩ := recover_shape H s now names
  rw [hshape] at hsplit
  cases pre with
  | nil => exact absurd rfl hpre
  | cons p pre' =>
    simp only [List.cons_append, List.nil_append, List.cons.injEq] at hsplit
    obtain ⟨hp, hrest⟩ := hsplit
    subst hp
    have hsub : pre'.all recInner = true := by
      have h1 : (mid ++ [Prim.setReady true]).dropLast = mid := by simp
      have h2 : (pre' ++ post).dropLast = pre' ++ post.dropLast := List.dropLast_append_of_ne_nil hpost
      rw [hrest, h2] at h1
      rw [← h1] at hmid
      simp only [List.all_append, Bool.and_eq_true] at hmid
      exact hmid.1
    rw [run_cons, ready_run_inner pre' hsub]
    rfl

/-- Recover itself never logs, never moves a file into the final directory, and never
    creates, truncates, writes or removes a partial (it only enqueues work). -/
theorem recover_never_delivers (H : Body → String) (s : State) (now : Int) (names : List Name) :
    ∀ p ∈ recoverEffects H s now names,
      (∀ n t, p ≠ Prim.renWaitFinal n t) ∧ (∀ r, p ≠ Prim.logAppend r) ∧
      (∀ n, p ≠ Prim.rmPart n) ∧ (∀ n t, p ≠ Prim.createPart n t) ∧
      (∀ i b d t, p ≠ Prim.writeIno i b d t) := by
  obtain ⟨mid, hshape, hmid⟩ := recover_shape H s now names
  intro p hp
  rw [hshape] at hp
  simp only [List.mem_append, List.mem_singleton] at hp
  rcases hp with (hp | hp) | hp
  · subst hp; refine ⟨?_, ?_, ?_, ?_, ?_⟩ <;> intros <;> nofun
  · have := List.all_eq_true.mp hmid p hp
    cases p <;> simp [recInner] at this <;> (refine ⟨?_, ?_, ?_, ?_, ?_⟩ <;> intros <;> nofun)
  · subst hp; refine ⟨?_, ?_, ?_, ?_, ?_⟩ <;> intros <;> nofun

/-- `recover_validates_before_deliver` (finalize list): a name is queued for finalising only
    if its `.wait` file hashes to the companion's hash at the time of the walk. -/
theorem recover_finalize_checked (H : Body → String) (d : Disk) (n : Name) (c : Cmp)
    (h : (recoverWalk H d n).2 = .finalize c) :
    ∃ i, d.wait n = some i ∧ H (d.body i) = c.hash :=
  ((recover_finalize_iff H d n c).mp h).2

/-- `recover_validates_before_deliver` (validate list, and the validators in general):
    process(file) puts a file into state `validated` only after the hash of the `.full` it
    is about to rename equals the announced hash. -/
theorem process_validated_checked (H : Body → String) (s : State) (n : Name) (e : Entry)
    (now : Int) (n' : Name) (e' : Entry)
    (h : Prim.cacheSet n' e' ∈ processCore H s n e now) (hv : e'.state = .validated) :
    n' = n ∧ e'.hash = e.hash ∧ ∃ i, s.disk.full n = some i ∧ H (s.disk.body i) = e.hash := by
  have htc : ∀ st, Prim.cacheSet n' e' ∈ toCache s.mem n e st now →
      n' = n ∧ e' = { e with state := st, time := now } := by
    intro st hm
    unfold toCache at hm
    simp only [List.mem_append, List.mem_singleton] at hm
    rcases hm with (hm | hm) | hm
    · split at hm <;> simp at hm
    · injection hm with h1 h2; exact ⟨h1, h2⟩
    · split at hm <;> simp at hm
  unfold processCore at h
  simp only [List.mem_append, List.mem_singleton] at h
  rcases h with h | h
  · cases h
  · split at h
    · simp at h
    · split at h
      · simp only [List.mem_append, List.mem_cons, List.not_mem_nil, or_false] at h
        rcases h with (h | h) | h
        · cases h
        · cases h
        · obtain ⟨_, he⟩ := htc _ h; subst he; simp at hv
      · split at h
        · obtain ⟨_, he⟩ := htc _ h; subst he; simp at hv
        · rename_i i hi hh
          simp only [List.mem_append, List.mem_singleton] at h
          rcases h with (h | h) | h
          · cases h
          · obtain ⟨hn, he⟩ := htc _ h
            subst he
            exact ⟨hn, rfl, i, hi, by simpa using hh⟩
          · cases h

/-! ## crash mechanics -/

/-- `crash_keeps_disk` -/
theorem crash_keeps_disk (H : Body → String) (s : State) (k : Nat) (o : OpEv) :
    (step H s (.cutOp k o)).disk = (run s (cut k (effects H s o))).disk ∧
    (step H s .crash).disk = s.disk ∧
    (step H s (.cutOp k o)).mem.ready = true ∧
    (∀ n, (step H s (.cutOp k o)).mem.cache n = none) ∧ (step H s (.cutOp k o)).mem.vq = [] ∧
    (step H s (.cutOp k o)).mem.fq = [] ∧ (step H s (.cutOp k o)).mem.wait = [] ∧
    (step H s (.cutOp k o)).mem.handles = [] ∧
    (∀ n, (step H s .crash).mem.cache n = none) ∧ (step H s .crash).mem.vq = [] ∧
    (step H s .crash).mem.fq = [] ∧ (step H s .crash).mem.wait = [] ∧
    (step H s .crash).mem.handles = [] := by
  simp [step, crash]

theorem cut_durableCount (k : Nat) (ps : List Prim) : durableCount (cut k ps) ≤ k := by
  induction ps generalizing k with
  | nil => simp [cut, durableCount]
  | cons p ps ih =>
    cases k with
    | zero => simp [cut, durableCount]
    | succ k =>
      simp only [cut]
      split
      · rename_i hd
        have := ih k
        simp only [durableCount, List.filter_cons, hd, if_true, List.length_cons] at this ⊢
        omega
      · rename_i hd
        have := ih (k + 1)
        simp only [durableCount, List.filter_cons, hd] at this ⊢
        exact this

theorem cut_all (k : Nat) (ps : List Prim) (h : durableCount ps < k) : cut k ps = ps := by
  induction ps generalizing k with
  | nil => simp [cut]
  | cons p ps ih =>
    cases k with
    | zero => omega
    | succ k =>
      simp only [cut]
      by_cases hd : p.durable = true
      · simp only [hd, if_true, List.cons.injEq, true_and]
        apply ih
        simp only [durableCount, List.filter_cons, hd, if_true, List.length_cons] at h ⊢
        omega
      · have hd' : p.durable = false := by simpa using hd
        simp only [hd', Bool.false_eq_true, if_false, List.cons.injEq, true_and]
        apply ih
        simp only [durableCount, List.filter_cons, hd', Bool.false_eq_true, if_false] at h ⊢
        exact h

/-- `durable_prefix`: the disk after a crash inside an operation is the disk after a PREFIX
    of the operation's primitives, with at most `k` durable steps in it; with `k` beyond the
    number of durable steps it is the disk after the whole operation. "Every crash point" =
    "every prefix that ends at a durable step". -/
theorem durable_prefix (H : Body → String) (s : State) (k : Nat) (o : OpEv) :
    ∃ pre post, effects H s o = pre ++ post ∧ durableCount pre ≤ k ∧
      (step H s (.cutOp k o)).disk = (run s pre).disk ∧
      (durableCount (effects H s o) < k → post = []) := by
  obtain ⟨qs, hq⟩ := cut_prefix k (effects H s o)
  refine ⟨cut k (effects H s o), qs, hq, cut_durableCount _ _, rfl, ?_⟩
  intro hk
  have := cut_all k _ hk
  rw [this] at hq
  have hlen := congrArg List.length hq
  simp only [List.length_append] at hlen
  exact List.eq_nil_of_length_eq_zero (by omega)

/-- a crash changes nothing durable: the invariants of the disk proved for `run` carry over -/
theorem crash_disk (s : State) : (crash s).disk = s.disk := rfl

/-! ## non-vacuity -/

/-- the hash of the witnesses: every body hashes to "h" -/
def witH6 : Body → String := fun _ => "h"

/-- a complete file whose `record` died between the companion's rename and the `.part →
    .full` rename: the walk renames it and queues it for validation -/
example :
    let s := runEvs witH6 init
      [.op (.prepare "k" 2 0), .op (.recvOpen 1 "k"), .op (.recvWrite 1 0 [1, 2] 0),
       .cutOp 2 (.record "k" ⟨"", "", 2, "h"⟩ 0 2 0)]
    s.disk.part "k" = some 0 ∧ s.disk.full "k" = none ∧
    (recoverWalk witH6 s.disk "k").1.length = 1 ∧
    (recoverWalk witH6 s.disk "k").2 = .validate ⟨"", "", 2, "h", [⟨0, 2⟩]⟩ ∧
    (step witH6 s (.op (.recover 9 ["k"]))).disk.wait "k" = some 0 ∧
    stateOf (step witH6 s (.op (.recover 9 ["k"]))).mem "k" = some .validated := by
  refine ⟨by decide, by decide, by decide, ?_, by decide, by decide⟩
  rw [recover_validate_iff]
  refine ⟨by decide, ?_, Or.inr ⟨by decide, by decide⟩⟩
  rintro ⟨i, hi, _⟩
  have hw : (runEvs witH6 init
      [.op (.prepare "k" 2 0), .op (.recvOpen 1 "k"), .op (.recvWrite 1 0 [1, 2] 0),
       .cutOp 2 (.record "k" ⟨"", "", 2, "h"⟩ 0 2 0)]).disk.wait "k" = none := by decide
  rw [hw] at hi; cases hi

/-- a validated file whose delivery had not started: the walk queues it for finalising -/
example :
    let s := runEvs witH6 init
      [.op (.prepare "k" 2 0), .op (.recvOpen 1 "k"), .op (.recvWrite 1 0 [1, 2] 0),
       .op (.record "k" ⟨"", "", 2, "h"⟩ 0 2 0), .op (.process "k" 1), .crash]
    (recoverWalk witH6 s.disk "k").2 = .finalize ⟨"", "", 2, "h", [⟨0, 2⟩]⟩ := by
  intro s
  rw [recover_finalize_iff]
  exact ⟨by decide, 0, by decide, by decide⟩

/-- an orphan companion (crash of finalize between the move and the companion's removal) -/
example :
    let s := runEvs witH6 init
      [.op (.prepare "k" 2 0), .op (.recvOpen 1 "k"), .op (.recvWrite 1 0 [1, 2] 0),
       .op (.record "k" ⟨"", "", 2, "h"⟩ 0 2 0), .op (.process "k" 1), .cutOp 2 (.finh "k" 5)]
    s.disk.final "k" = some 0 ∧ s.disk.cmp "k" ≠ none ∧ s.disk.log.length = 1 ∧
    (recoverWalk witH6 s.disk "k").1.length = 1 ∧
    (step witH6 s (.op (.recover 9 ["k"]))).disk.cmp "k" = none ∧
    stateOf (step witH6 s (.op (.recover 9 ["k"]))).mem "k" = some .logged := by
  decide

end Sts.Stage
