import StsModel.Model.Move
/-
  Properties C01 / C06, last step of a delivery: fileutil.Move / fileutil.Copy (Model/Move.lean).
  Everything is proved for EVERY content of the source, every pre-existing destination, every
  leftover `<dst>.lck` (any length; or a directory of that name: Copy fails) and both values of
  `cross`.
-/
namespace Sts.Move

/-! ### the effect of the write loop -/

theorem run_append (d : Disk) (ps qs : List Prim) : run d (ps ++ qs) = run (run d ps) qs := by
  simp [run, List.foldl_append]

theorem run_cons (d : Disk) (p : Prim) (ps : List Prim) : run d (p :: ps) = run (applyPrim d p) ps := rfl

theorem run_nil (d : Disk) : run d [] = d := rfl

theorem length_writes (b : Bytes) : ∀ off, (writes off b).length = b.length := by
  induction b with
  | nil => intro off; rfl
  | cons x xs ih => intro off; simp [writes, ih]

/-- a prefix of the write steps is the write loop of a prefix of the bytes -/
theorem take_writes (b : Bytes) : ∀ off j, (writes off b).take j = writes off (b.take j) := by
  induction b with
  | nil => intro off j; simp [writes]
  | cons x xs ih =>
    intro off j
    cases j with
    | zero => simp [writes]
    | succ j => simp [writes, ih]

theorem pwrite_le (l : Bytes) (off : Nat) (x : UInt8) (h : off ≤ l.length) :
    pwrite l off x = l.take off ++ x :: l.drop (off + 1) := by
  have h0 : off - l.length = 0 := by omega
  simp [pwrite, h0]

/-- the write loop at offset `off` into a file holding `l` (`off` inside or at the end of it): the
    bytes replace what was there and extend the file; what lies behind them STAYS. -/
theorem run_writes (b : Bytes) : ∀ (d : Disk) (l : Bytes) (off : Nat), d.lck = some l → off ≤ l.length →
    run d (writes off b) = { d with lck := some (l.take off ++ b ++ l.drop (off + b.length)) } := by
  induction b with
  | nil =>
    intro d l off h _
    cases d; simp at h; subst h; simp [writes, run_nil]
  | cons x xs ih =>
    intro d l off h hle
    have hlen : (l.take off).length = off := by simp; omega
    rw [writes, run_cons]
    have hp : applyPrim d (.writeLck off x) = { d with lck := some (l.take off ++ x :: l.drop (off + 1)) } := by
      simp [applyPrim, h, pwrite_le l off x hle]
    rw [hp]
    rw [ih _ (l.take off ++ x :: l.drop (off + 1)) (off + 1) rfl (by simp; omega)]
    have e1 : (l.take off ++ x :: l.drop (off + 1)).take (off + 1) = l.take off ++ [x] := by
      have := List.take_length_add_append (l₁ := l.take off) (l₂ := x :: l.drop (off + 1)) (i := 1)
      rw [hlen] at this; rw [this]; simp
    have e2 : (l.take off ++ x :: l.drop (off + 1)).drop (off + 1 + xs.length)
        = l.drop (off + (xs.length + 1)) := by
      have := List.drop_length_add_append (l₁ := l.take off) (l₂ := x :: l.drop (off + 1)) (i := 1 + xs.length)
      rw [hlen] at this
      have e : off + 1 + xs.length = off + (1 + xs.length) := by omega
      rw [e, this]
      have e' : 1 + xs.length = xs.length + 1 := by omega
      rw [e', List.drop_succ_cons, List.drop_drop]
      congr 1; omega
    simp only [e1, e2, List.length_cons]
    simp

/-- with O_TRUNC the file is empty when the loop starts: it holds exactly the bytes written -/
theorem run_writes_empty (b : Bytes) (d : Disk) (h : d.lck = some []) :
    run d (writes 0 b) = { d with lck := some b } := by
  rw [run_writes b d [] 0 h (by simp)]; simp

/-! ### closed forms of `move` and `moveCut` -/

theorem createLck_trunc (d : Disk) : applyPrim d (.createLck true) = { d with lck := some [] } := by
  cases h : d.lck <;> simp [applyPrim, h]

theorem run_pre (d : Disk) :
    run d [Prim.renameFail, Prim.statSrc, Prim.openSrc, Prim.createLck true] = { d with lck := some [] } := by
  show applyPrim d (.createLck true) = _
  exact createLck_trunc d

theorem movePrims_cross (d : Disk) (b : Bytes) (hs : d.src = some b) (hc : d.cross = true)
    (hd : d.lckDir = false) (trunc : Bool) (ord : Order) :
    movePrims trunc ord d = [Prim.renameFail, Prim.statSrc, Prim.openSrc, Prim.createLck trunc] ++
      (writes 0 b ++ (Prim.closeLck :: tailPrims ord)) := by
  simp [movePrims, plan, hs, hc, hd, copyPrims]

/-- steps without an effect on the names -/
def Prim.inert : Prim → Bool
  | .renameFail | .statSrc | .openSrc | .createFail | .closeLck => true
  | _ => false

theorem run_inert (d : Disk) : ∀ ps : List Prim, (∀ p ∈ ps, p.inert = true) → run d ps = d := by
  intro ps
  induction ps with
  | nil => intro _; rfl
  | cons p ps ih =>
    intro h
    rw [run_cons]
    have hp := h p (by simp)
    have : applyPrim d p = d := by cases p <;> simp [Prim.inert] at hp <;> rfl
    rw [this]; exact ih (fun q hq => h q (by simp [hq]))

/-- the last three steps, from the complete copy on -/
theorem run_tail (ord : Order) (d : Disk) (b : Bytes) (hl : d.lck = some b) :
    run d (Prim.closeLck :: tailPrims ord) = { d with src := none, dst := some b, lck := none } := by
  cases ord <;> simp [run, applyPrim, tailPrims, hl]

theorem move_eq_closed (ord : Order) (d : Disk) : move ord d = moveClosed d := by
  cases hs : d.src with
  | none =>
    obtain ⟨s, t, l, dd, c⟩ := d
    simp at hs; subst hs
    simp [move, moveClosed, movePrims, plan, run, applyPrim]
  | some b =>
    cases hc : d.cross with
    | false =>
      obtain ⟨s, t, l, dd, c⟩ := d
      simp at hs hc; subst hs hc
      simp [move, moveClosed, movePrims, plan, run, applyPrim]
    | true =>
      cases hd : d.lckDir with
      | true =>
        obtain ⟨s, t, l, dd, c⟩ := d
        simp at hs hc hd; subst hs hc hd
        simp [move, moveClosed, movePrims, plan, run, applyPrim]
      | false =>
        unfold move
        rw [movePrims_cross d b hs hc hd, run_append, run_pre, run_append, run_writes_empty _ _ rfl,
          run_tail ord _ b rfl]
        obtain ⟨s, t, l, dd, c⟩ := d
        simp at hs hc hd; subst hs hc hd
        simp [moveClosed]

/-- the end result does not depend on the order of the last two steps -/
theorem move_order_irrelevant (d : Disk) : move .removeFirst d = move .renameFirst d := by
  rw [move_eq_closed, move_eq_closed]

/-- the copy path cut after `k` steps, whatever the steps behind the copy are (`tl`): nothing before
    the create, a prefix of the bytes under the lock name while writing, then the steps of `tl` on
    the complete copy -/
theorem cut_copy_path (d : Disk) (b : Bytes) (tl : List Prim) (k : Nat) :
    run d (([Prim.renameFail, Prim.statSrc, Prim.openSrc, Prim.createLck true] ++ (writes 0 b ++ tl)).take k) =
      if k < 4 then d
      else if k ≤ 4 + b.length then { d with lck := some (b.take (k - 4)) }
      else run { d with lck := some b } (tl.take (k - 4 - b.length)) := by
  by_cases h4 : k < 4
  · simp only [h4, if_true]
    have hk : k = 0 ∨ k = 1 ∨ k = 2 ∨ k = 3 := by omega
    rcases hk with rfl | rfl | rfl | rfl <;> simp [run, applyPrim]
  · simp only [h4, if_false]
    obtain ⟨j, rfl⟩ : ∃ j, k = 4 + j := ⟨k - 4, by omega⟩
    have ht : ([Prim.renameFail, Prim.statSrc, Prim.openSrc, Prim.createLck true] ++ (writes 0 b ++ tl)).take (4 + j)
        = [Prim.renameFail, Prim.statSrc, Prim.openSrc, Prim.createLck true] ++ (writes 0 b ++ tl).take j := by
      have := List.take_length_add_append (l₁ := [Prim.renameFail, Prim.statSrc, Prim.openSrc, Prim.createLck true])
        (l₂ := writes 0 b ++ tl) (i := j)
      simpa using this
    rw [ht, run_append, run_pre]
    have e4 : 4 + j - 4 = j := by omega
    rw [e4]
    by_cases hj : j ≤ b.length
    · have : 4 + j ≤ 4 + b.length := by omega
      simp only [this, if_true]
      have hw : (writes 0 b ++ tl).take j = writes 0 (b.take j) := by
        rw [List.take_append_of_le_length (by rw [length_writes]; exact hj), take_writes]
      rw [hw, run_writes_empty _ _ rfl]
    · have hn : ¬ (4 + j ≤ 4 + b.length) := by omega
      simp only [hn, if_false]
      obtain ⟨i, rfl⟩ : ∃ i, j = b.length + i := ⟨j - b.length, by omega⟩
      have hw : (writes 0 b ++ tl).take (b.length + i) = writes 0 b ++ tl.take i := by
        have := List.take_length_add_append (l₁ := writes 0 b) (l₂ := tl) (i := i)
        rw [length_writes] at this; exact this
      have ei : b.length + i - b.length = i := by omega
      rw [hw, run_append, run_writes_empty _ _ rfl, ei]

/-- the state after the first `k` steps of the copy path (src holds `b`, two file systems) -/
theorem moveCut_cross (ord : Order) (d : Disk) (b : Bytes) (hs : d.src = some b) (hc : d.cross = true)
    (hd : d.lckDir = false) (k : Nat) :
    moveCut ord k d =
      if k < 4 then d
      else if k ≤ 4 + b.length then { d with lck := some (b.take (k - 4)) }
      else if k = 4 + b.length + 1 then { d with lck := some b }
      else if k = 4 + b.length + 2 then
        (match ord with
         | .removeFirst => { d with src := none, lck := some b }
         | .renameFirst => { d with dst := some b, lck := none })
      else { d with src := none, dst := some b, lck := none } := by
  unfold moveCut cut
  rw [movePrims_cross d b hs hc hd, cut_copy_path]
  by_cases h4 : k < 4
  · simp [h4]
  · by_cases hj : k ≤ 4 + b.length
    · simp [h4, hj]
    · simp only [h4, hj, if_false]
      obtain ⟨i, rfl⟩ : ∃ i, k = 4 + b.length + (i + 1) := ⟨k - 4 - b.length - 1, by omega⟩
      have ei : 4 + b.length + (i + 1) - 4 - b.length = i + 1 := by omega
      rw [ei]
      match i with
      | 0 => simp [run, applyPrim]
      | 1 =>
        have h1 : ¬ (4 + b.length + (1 + 1) = 4 + b.length + 1) := by omega
        have h2 : 4 + b.length + (1 + 1) = 4 + b.length + 2 := by omega
        simp only [h1, h2, if_true, if_false]
        cases ord <;> simp [run, applyPrim, tailPrims]
      | i + 2 =>
        have h1 : ¬ (4 + b.length + (i + 2 + 1) = 4 + b.length + 1) := by omega
        have h2 : ¬ (4 + b.length + (i + 2 + 1) = 4 + b.length + 2) := by omega
        simp only [h1, h2, if_false]
        have : (Prim.closeLck :: tailPrims ord).take (i + 2 + 1) = Prim.closeLck :: tailPrims ord := by
          apply List.take_of_length_le; cases ord <;> simp [tailPrims]
        rw [this, run_tail ord _ b rfl]

theorem moveCut_same (ord : Order) (d : Disk) (b : Bytes) (hs : d.src = some b) (hc : d.cross = false) (k : Nat) :
    moveCut ord k d = if k = 0 then d else { d with src := none, dst := some b } := by
  have hp : movePrims true ord d = [.renameSrcDst] := by simp [movePrims, plan, hs, hc]
  unfold moveCut cut
  rw [hp]
  cases k with
  | zero => simp [run]
  | succ k => simp [run, applyPrim, hs]

theorem moveCut_nosrc (ord : Order) (d : Disk) (hs : d.src = none) (k : Nat) : moveCut ord k d = d := by
  have hp : movePrims true ord d = [.renameFail, .statSrc] := by simp [movePrims, plan, hs]
  unfold moveCut cut
  rw [hp]
  apply run_inert
  intro p hp
  have := List.mem_of_mem_take hp
  simp at this
  rcases this with rfl | rfl <;> rfl

/-- the lock name is a directory: Copy fails at os.Create, nothing changes at any cut -/
theorem moveCut_isdir (ord : Order) (d : Disk) (b : Bytes) (hs : d.src = some b) (hc : d.cross = true)
    (hd : d.lckDir = true) (k : Nat) : moveCut ord k d = d := by
  have hp : movePrims true ord d = [.renameFail, .statSrc, .openSrc, .createFail] := by
    simp [movePrims, plan, hs, hc, hd]
  unfold moveCut cut
  rw [hp]
  apply run_inert
  intro p hp
  have := List.mem_of_mem_take hp
  simp at this
  rcases this with rfl | rfl | rfl | rfl <;> rfl

/-- the driver's closed form is the step-by-step semantics -/
theorem moveCut_eq_closed (ord : Order) (k : Nat) (d : Disk) : moveCut ord k d = cutClosed ord k d := by
  cases hs : d.src with
  | none => rw [moveCut_nosrc ord d hs k]; simp [cutClosed, hs]
  | some b =>
    cases hc : d.cross with
    | false => rw [moveCut_same ord d b hs hc]; simp [cutClosed, hs, hc]
    | true =>
      cases hd : d.lckDir with
      | true => rw [moveCut_isdir ord d b hs hc hd]; simp [cutClosed, hs, hc, hd]
      | false => rw [moveCut_cross ord d b hs hc hd]; cases ord <;> simp [cutClosed, hs, hc, hd]

/-- cutting behind the last step is the whole Move -/
theorem moveCut_all (ord : Order) (d : Disk) (k : Nat) (h : (movePrims true ord d).length ≤ k) :
    moveCut ord k d = move ord d := by
  unfold moveCut cut move
  rw [List.take_of_length_le h]

/-! ### the property theorems (for BOTH orders of the last two steps) -/

/-- **Move delivers**: if src holds `b`, then after Move the destination holds exactly `b`, the
    source name is gone, Move returns nil, and on the copy path the lock name is gone too.
    Whatever was under dst or under the lock name before (as long as the copy path does not find a
    DIRECTORY under the lock name: `move_copy_fails`). -/
theorem move_delivers (ord : Order) (d : Disk) (b : Bytes) (hs : d.src = some b)
    (hd : d.cross = true → d.lckDir = false) :
    (move ord d).dst = some b ∧ (move ord d).src = none ∧ moveRes d = .ok ∧
    (d.cross = true → (move ord d).lck = none) ∧ (d.cross = false → (move ord d).lck = d.lck) := by
  rw [move_eq_closed]
  unfold moveClosed moveRes plan
  cases hc : d.cross <;> simp [hs, hc] at hd ⊢ <;> simp [hd]

/-- the error path of Copy that is modelled: the lock name is a directory - Move returns the error of
    os.Create and NOTHING changes, at any cut; the validated file stays staged -/
theorem move_copy_fails (ord : Order) (d : Disk) (b : Bytes) (hs : d.src = some b) (hc : d.cross = true)
    (hd : d.lckDir = true) : move ord d = d ∧ moveRes d = .isdir ∧ ∀ k, moveCut ord k d = d := by
  refine ⟨?_, ?_, moveCut_isdir ord d b hs hc hd⟩
  · rw [move_eq_closed]; simp [moveClosed, hs, hc, hd]
  · simp [moveRes, plan, hs, hc, hd]

/-- the error path: src missing - Move returns the error and NOTHING changes, at any cut -/
theorem move_nosrc (ord : Order) (d : Disk) (hs : d.src = none) :
    move ord d = d ∧ moveRes d = .noent ∧ ∀ k, moveCut ord k d = d := by
  refine ⟨?_, ?_, moveCut_nosrc ord d hs⟩
  · rw [move_eq_closed]; simp [moveClosed, hs]
  · simp [moveRes, plan, hs]

/-- **the final name is intact at EVERY cut point**: it holds what it held before or exactly `b` -
    never a mixture, never a prefix. -/
theorem move_cut_final_intact (ord : Order) (d : Disk) (b : Bytes) (hs : d.src = some b) (k : Nat) :
    (moveCut ord k d).dst = d.dst ∨ (moveCut ord k d).dst = some b := by
  rw [moveCut_eq_closed]
  unfold cutClosed
  simp only [hs]
  repeat' split
  all_goals simp

/-- partial content only ever sits under the lock name: at every cut point the lock name holds what
    it held before, or a prefix of `b`, or nothing -/
theorem move_cut_partial_only_lck (ord : Order) (d : Disk) (b : Bytes) (hs : d.src = some b) (k : Nat) :
    (moveCut ord k d).lck = d.lck ∨ (∃ j, (moveCut ord k d).lck = some (b.take j)) ∨
      (moveCut ord k d).lck = none := by
  rw [moveCut_eq_closed]
  unfold cutClosed
  simp only [hs]
  repeat' split
  all_goals first
    | (left; rfl)
    | (right; right; rfl)
    | (right; left; exact ⟨_, rfl⟩)
    | (right; left; exact ⟨b.length, by simp⟩)

/-- **no loss at any cut point**: the bytes `b` are completely available under src, or under dst, or
    (once src is removed) under the lock name. -/
theorem move_cut_no_loss (ord : Order) (d : Disk) (b : Bytes) (hs : d.src = some b) (k : Nat) :
    (moveCut ord k d).src = some b ∨ (moveCut ord k d).dst = some b ∨
    ((moveCut ord k d).src = none ∧ (moveCut ord k d).lck = some b) := by
  rw [moveCut_eq_closed]
  unfold cutClosed
  simp only [hs]
  repeat' split
  all_goals simp [hs]

/-- the source is never damaged: while the name is there it holds `b` -/
theorem move_cut_src_intact (ord : Order) (d : Disk) (b : Bytes) (hs : d.src = some b) (k : Nat) :
    (moveCut ord k d).src = some b ∨ (moveCut ord k d).src = none := by
  rw [moveCut_eq_closed]
  unfold cutClosed
  simp only [hs]
  repeat' split
  all_goals simp [hs]

/-- a copy that stops anywhere (a crash, or an error of Copy: Move then returns before its Remove)
    leaves the source and the final name as they were: up to and including the close, only the
    lock name changes -/
theorem move_cut_copy_phase (ord : Order) (d : Disk) (b : Bytes) (hs : d.src = some b) (hc : d.cross = true)
    (hd : d.lckDir = false) (k : Nat) (hk : k ≤ 4 + b.length + 1) :
    (moveCut ord k d).src = some b ∧ (moveCut ord k d).dst = d.dst := by
  rw [moveCut_cross ord d b hs hc hd]
  repeat' split
  all_goals first
    | exact ⟨hs, rfl⟩
    | omega

/-- **a leftover lock-named file is harmless**: what Move leaves under src and dst does not depend on
    it, and on the copy path (the only one that touches the name) the whole disk does not. -/
theorem leftover_lck_harmless (ord : Order) (d : Disk) (l₁ l₂ : Option Bytes) :
    (move ord { d with lck := l₁ }).dst = (move ord { d with lck := l₂ }).dst ∧
    (move ord { d with lck := l₁ }).src = (move ord { d with lck := l₂ }).src ∧
    (d.src ≠ none → d.cross = true → d.lckDir = false →
      move ord { d with lck := l₁ } = move ord { d with lck := l₂ }) := by
  simp only [move_eq_closed, moveClosed]
  cases hs : d.src <;> cases hc : d.cross <;> cases hd : d.lckDir <;> simp

/-- the same at every cut point for the FINAL name: a leftover never shows under dst -/
theorem leftover_lck_harmless_cut (ord : Order) (d : Disk) (l₁ l₂ : Option Bytes) (k : Nat) :
    (moveCut ord k { d with lck := l₁ }).dst = (moveCut ord k { d with lck := l₂ }).dst := by
  simp only [moveCut_eq_closed, cutClosed]
  cases hs : d.src <;> cases hc : d.cross <;> cases hd : d.lckDir <;> cases ord <;> simp <;> repeat' split <;> simp

/-! ### the seeded variant: Copy without O_TRUNC -/

/-- general form: without the truncation a longer leftover keeps its tail - Move delivers
    `b ++ tail of the leftover` under the final name -/
theorem moveNoTrunc_delivers_tail (d : Disk) (b l : Bytes) (hs : d.src = some b) (hc : d.cross = true)
    (hd : d.lckDir = false) (hl : d.lck = some l) : (moveNoTrunc d).dst = some (b ++ l.drop b.length) := by
  unfold moveNoTrunc
  rw [movePrims_cross d b hs hc hd, run_append]
  have h0 : run d [Prim.renameFail, Prim.statSrc, Prim.openSrc, Prim.createLck false] = d := by
    show applyPrim d (.createLck false) = d
    simp [applyPrim, hl]
  rw [h0, run_append, run_writes b d l 0 hl (by simp)]
  simp [run, applyPrim, tailPrims]

/-- concrete witness (the shrunk C01e input): source [1,2], leftover lock file [9,8,7,6] on two
    file systems: the variant delivers [1,2,7,6], the code as it is delivers [1,2]. The truncation
    is what `move_delivers` rests on. -/
theorem copyNoTrunc_delivers_old_tail :
    (moveNoTrunc { src := some [1, 2], dst := none, lck := some [9, 8, 7, 6], cross := true }).dst
      = some [1, 2, 7, 6] ∧
    (move .removeFirst { src := some [1, 2], dst := none, lck := some [9, 8, 7, 6], cross := true }).dst
      = some [1, 2] := by
  decide

/-- so `move_delivers` is false for the variant -/
theorem moveNoTrunc_not_delivers :
    ¬ ∀ (d : Disk) (b : Bytes), d.src = some b → (moveNoTrunc d).dst = some b := by
  intro h
  have := h { src := some [1, 2], dst := none, lck := some [9, 8, 7, 6], cross := true } [1, 2] rfl
  revert this; decide

/-! ### non-vacuity: the hypotheses are satisfiable and the cut points really differ -/

/-- a copy-path Move over an existing destination and a longer leftover -/
def exDisk : Disk := { src := some [1, 2, 3], dst := some [4, 4], lck := some [9, 9, 9, 9, 9], cross := true }

example : move .removeFirst exDisk = { src := none, dst := some [1, 2, 3], lck := none, cross := true } := by decide
example : (movePrims true .removeFirst exDisk).length = 10 := by decide
-- created: the leftover is truncated, dst still the old file
example : moveCut .removeFirst 4 exDisk = { exDisk with lck := some [] } := by decide
-- a prefix under the lock name only
example : moveCut .removeFirst 6 exDisk = { exDisk with lck := some [1, 2] } := by decide
-- after Remove(src): the bytes live under the lock name only (hook point fileutil.d.move.lck)
example : moveCut .removeFirst 9 exDisk = { src := none, dst := some [4, 4], lck := some [1, 2, 3], cross := true } := by
  decide
-- the other order at the same cut: the file is delivered and still staged
example : moveCut .renameFirst 9 exDisk = { src := some [1, 2, 3], dst := some [1, 2, 3], lck := none, cross := true } := by
  decide
example : moveCut .removeFirst 10 exDisk = move .removeFirst exDisk := by decide
example : hookPos .removeFirst exDisk "lck" = some 9 ∧ hookPos .renameFirst exDisk "lck" = some 8 := by decide
-- same file system: one atomic step, the leftover stays where it was
example : move .removeFirst { exDisk with cross := false }
    = { src := none, dst := some [1, 2, 3], lck := some [9, 9, 9, 9, 9], cross := false } := by decide
-- a missing source: error, nothing changes
example : move .removeFirst { exDisk with src := none } = { exDisk with src := none } ∧
    moveRes { exDisk with src := none } = .noent := by decide
-- a directory under the lock name: Copy fails, nothing changes
example : move .removeFirst { exDisk with lck := none, lckDir := true } = { exDisk with lck := none, lckDir := true } ∧
    moveRes { exDisk with lck := none, lckDir := true } = .isdir := by decide

end Sts.Move
