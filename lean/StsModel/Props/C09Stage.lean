/-
  C09 (state-machine part) — the receiver claims to hold a byte range only if exactly those
  bytes were written into the staged file (stage/local.go Receive / Received / Scan together
  with initStageFile, cleanStrays, finalize and Recover, which move the file the companion
  describes).

  Ghost: `Disk.written i` = ranges written into inode `i` since it was created / truncated.
  The model splits Receive into `recvOpen`, `recvWrite`, `record`; the sequencing "a part is
  recorded right after its bytes were written through the handle Receive opened" is the
  hypothesis `RecordOk` of an OK run.

  RESULT. The natural statement (`RecordSoundNatural` below: every range of every companion
  was written into a file currently staged under that name) is FALSE for the unchanged
  code — witnesses `natural_fails_prepare`, `natural_fails_duplicate` (and, before `fix: the
  stray cleaner removed the partial of a retransmission of a file that failed validation`,
  `natural_fails_clean_orig`). What is proved (`record_sound`): in every run in which
    (P) Prepare does not (re)create `<n>.part` under a companion that survives,
    (R) every recorded range was written into the current staged file,
    (D) the "ignoring duplicate" branch of Receive does not drop a partial in state
        received / validated,
    (C) cleanStrays removes a partial only when its companion's version is logged (after the
        repair of the cleaner this fails only beside a validated copy held as `.wait`, or for
        a companion without hash: `cleanOk_of`, `cleanOk_fails_validated`),
    (M) finalize finds the companion of the version it delivers — or a staged `.part` /
        `.full` of the version the companion does describe (still needed after `fix: putting
        a file away removed the companion of a newer version in progress`, witness
        `record_sound_needs_finhOk`),
  every companion's ranges were ALL written into the ONE current staged file of its name
  (`.part`, else `.full`, else `.wait`), or the companion's version (name, hash) is already in
  the receive log (a left-over of a delivered version: crash windows of finalize, cleanStrays
  and the duplicate branch, where the file goes first and the companion second).
-/
import StsModel.Lemmas.StageRec
import StsModel.Props.C20

namespace Sts.Stage

/-! ## OK runs -/

/-- conditions on the events that can move or reset the file a companion describes; every
    other event is unconstrained (in particular `recvWrite`: a write only adds to `written`,
    so a stale handle cannot make a recorded range unwritten). -/
def RecOpOk (s : State) : OpEv → Prop
  | .prepare n size _ => PrepareOk s n size
  | .record n m beg fin _ => RecordOk s n m beg fin
  | .finh n _ => FinhOk s n
  | .cleanStrays now names => CleanOk s now names
  | _ => True

def RecEvOk (s : State) : Ev → Prop
  | .op o => RecOpOk s o
  | .cutOp _ o => RecOpOk s o
  | .crash => True

/-- every event is OK in the state it is executed in -/
def RecOkRun (H : Body → String) : State → List Ev → Prop
  | _, [] => True
  | s, e :: es => RecEvOk s e ∧ RecOkRun H (step H s e) es

def RecReachableOk (H : Body → String) (s : State) : Prop :=
  ∃ evs, RecOkRun H init evs ∧ s = runEvs H init evs

theorem RecReachableOk.reachable {H : Body → String} {s : State} (h : RecReachableOk H s) :
    Reachable H s := by
  obtain ⟨evs, _, hs⟩ := h
  exact ⟨evs, hs⟩

/-- the sequencing of the real Receive ("the range was written into the current partial")
    gives clause (R) of `RecordOk` -/
theorem cur_of_part (d : Disk) (n : Name) (r : Rng)
    (h : ∃ i, d.part n = some i ∧ r ∈ d.written i) : ∃ i, Cur d n = some i ∧ r ∈ d.written i := by
  obtain ⟨i, hp, hr⟩ := h
  exact ⟨i, by simp [Cur, hp], hr⟩

/-- clause (C) in terms of what the cleaner reads, after `fix: the stray cleaner removed the
    partial of a retransmission of a file that failed validation`: it holds when the companion
    has a hash and the cache does not hold the same version as `validated` (then the complete
    validated copy is held as `<n>.wait` and the stale partial is a left-over duplicate:
    clause (c) of `C20_only_delivered`). The cache state `failed` is no longer excluded: there
    the cleaner now asks the receive log. That the remaining exclusion is needed for `CleanOk`
    as defined: `cleanOk_fails_validated`. -/
theorem cleanOk_of {H : Body → String} {s : State} (hr : Reachable H s) (now : Int)
    (names : List Name)
    (h : ∀ n ∈ names, ∀ c, s.disk.cmp n = some c → c.hash ≠ "" ∧
      ¬ ∃ e, s.mem.cache n = some e ∧ e.hash = c.hash ∧ e.state = .validated) :
    CleanOk s now names := by
  intro n hn hdec c hc
  rcases C20_only_delivered hr now n c hc hdec with h1 | ⟨h2, _⟩ | ⟨e, _, he, hst, hh, _⟩
  · exact h1
  · exact absurd h2 (h n hn c hc).1
  · exact absurd ⟨e, he, hh, hst⟩ (h n hn c hc).2

/-- in particular clause (C) holds whenever no walked name is in cache state `validated` and no
    companion has an empty hash -/
theorem cleanOk_of_not_validated {H : Body → String} {s : State} (hr : Reachable H s) (now : Int)
    (names : List Name)
    (h : ∀ n ∈ names, stateOf s.mem n ≠ some .validated ∧
      ∀ c, s.disk.cmp n = some c → c.hash ≠ "") :
    CleanOk s now names := by
  apply cleanOk_of hr
  intro n hn c hc
  refine ⟨(h n hn).2 c hc, ?_⟩
  rintro ⟨e, he, _, hst⟩
  exact (h n hn).1 (by simp [stateOf, he, hst])

/-! ## the invariant -/

theorem effects_GuardsR (H : Body → String) (s : State) (o : OpEv)
    (hi : RecInv s) (hl : LoggedHashInv s) (hok : RecOpOk s o) :
    Guards RecG s (effects H s o) := by
  cases o with
  | prepare n size now => exact prepare_Guards s n size now hok
  | recvOpen h n =>
    apply FreeList.of_all; simp only [effects]; split <;> simp [recFree]
  | recvWrite h beg data now =>
    apply FreeList.of_all; simp only [effects]; split <;> simp [recFree]
  | record n m beg fin now => exact record_Guards s n m beg fin now hi hl hok
  | process n now => exact process_freeList H s n now s
  | finh n now => exact finh_Guards s n now hok
  | timer n => exact FreeList.of_all (timer_free s n) s
  | buildCache frm now => exact FreeList.of_all (buildCache_free s frm now) s
  | receivedQ n m => exact FreeList.of_all (received_free s n m) s
  | recover now names => exact recover_GuardsR H s now names hl
  | cleanStrays now names => exact cleanStrays_Guards s now names hok
  | cleanWaiting names => exact FreeList.of_all (cleanWaiting_free s names) s
  | consume t => apply FreeList.of_all; simp [effects, recFree]
  | corrupt n ext pos v =>
    apply FreeList.of_all; simp only [effects]; split <;> simp [recFree]

theorem RecInv_ok_step {H : Body → String} (s : State) (e : Ev) (hr : Reachable H s)
    (hi : RecInv s) (hok : RecEvOk s e) : RecInv (step H s e) := by
  have hstep : ∀ s p, (InoInv s.disk ∧ RecInv s) → RecG s p →
      (InoInv (applyPrim s p).disk ∧ RecInv (applyPrim s p)) :=
    fun s p h g => ⟨InoInv_step s.disk p h.1, RecInv_step s p h.1 h.2 g⟩
  have h0 : InoInv s.disk ∧ RecInv s := ⟨InoInv_reachable hr, hi⟩
  have hl := finalized_implies_logged_hash hr
  cases e with
  | op o => exact (inv_run hstep _ s h0 (effects_GuardsR H s o hi hl hok)).2
  | cutOp k o => exact (inv_cut hstep _ s h0 (effects_GuardsR H s o hi hl hok) k).2
  | crash => exact hi

theorem RecInv_okrun {H : Body → String} : ∀ (evs : List Ev) (s : State), Reachable H s →
    RecInv s → RecOkRun H s evs → RecInv (runEvs H s evs) := by
  intro evs
  induction evs with
  | nil => intro s _ hi _; simpa [runEvs] using hi
  | cons e es ih =>
    intro s hr hi hok
    simp only [runEvs, List.foldl_cons]
    exact ih _ (hr.step e) (RecInv_ok_step s e hr hi hok.1) hok.2

/-- `record_sound` (proved under the named hypotheses of an OK run; the statement without
    them is false, see the witnesses below): every range of the companion of `n` was written
    into the current staged file of `n`, or the companion's version is already logged. Holds
    at every crash point of every operation of the run. -/
theorem record_sound {H : Body → String} {s : State} (h : RecReachableOk H s) (n : Name) (c : Cmp)
    (hc : s.disk.cmp n = some c) :
    (∃ i, Cur s.disk n = some i ∧ ∀ r ∈ c.parts, r ∈ s.disk.written i) ∨
    LoggedV s.disk n c.hash := by
  obtain ⟨evs, hok, rfl⟩ := h
  exact RecInv_okrun evs init (Reachable.init H) (by intro n c hc; simp [init] at hc) hok n c hc

/-- the form asked for in DESIGN.md: each range was written into a file staged under `n` -/
theorem record_sound_held {H : Body → String} {s : State} (h : RecReachableOk H s) (n : Name)
    (c : Cmp) (hc : s.disk.cmp n = some c) (hnl : ¬ LoggedV s.disk n c.hash) :
    ∀ r ∈ c.parts, ∃ i, (s.disk.part n = some i ∨ s.disk.full n = some i ∨ s.disk.wait n = some i) ∧
      r ∈ s.disk.written i := by
  intro r hr
  rcases record_sound h n c hc with ⟨i, hi, hp⟩ | hl
  · exact ⟨i, Cur_held _ _ _ hi, hp r hr⟩
  · exact absurd hl hnl

/-! ## consequences for the claims made to the sender -/

theorem covered_of_mem_written {ps qs : List Rng} (h : ∀ r ∈ ps, r ∈ qs) (x : Int)
    (hx : covered ps x) : covered qs x := by
  obtain ⟨p, hp, hx⟩ := hx
  exact ⟨p, h p hp, hx⟩

/-- `received_claim_sound`: when the cache does not know the file, "part `[beg,fin)` already
    received" is answered only if every byte of the range lies in a range written into the
    current staged file (or the announced version is already logged). -/
theorem received_claim_sound {H : Body → String} {s : State} (h : RecReachableOk H s) (n : Name)
    (m : Meta) (beg fin : Int) (hcache : s.mem.cache n = none)
    (hans : receivedAnswer s n m beg fin = true) :
    (∃ i, Cur s.disk n = some i ∧ ∀ x, beg ≤ x → x < fin → covered (s.disk.written i) x) ∨
    LoggedV s.disk n m.hash := by
  unfold receivedAnswer at hans
  simp only [hcache] at hans
  cases hc : s.disk.cmp n with
  | none => simp [hc] at hans
  | some c =>
    simp only [hc] at hans
    split at hans
    · simp at hans
    · rename_i hne
      have hh : m.hash = c.hash := by
        by_cases h' : m.hash = c.hash
        · exact h'
        · exact absurd (Or.inr (Or.inl h')) hne
      rcases record_sound h n c hc with ⟨i, hi, hp⟩ | hl
      · left
        refine ⟨i, hi, ?_⟩
        intro x hx1 hx2
        exact covered_of_mem_written hp x (partExists_sound c.parts beg fin hans x hx1 hx2)
      · right; rw [hh]; exact hl

/-- `complete_claim_sound` (decision level, any state): Receive renames the partial to
    `.full` only if the updated companion's ranges cover the file from the first to the last
    byte. -/
theorem complete_claim_sound (s : State) (n : Name) (m : Meta) (beg fin now : Int)
    (h : Prim.renPartFull n ∈ recordEffects s n m beg fin now) :
    ∀ x, 0 ≤ x → x < (nextCmp s.disk n m beg fin).size →
      covered (nextCmp s.disk n m beg fin).parts x := by
  have hcomp : isComplete (nextCmp s.disk n m beg fin).parts (nextCmp s.disk n m beg fin).size = true := by
    unfold recordEffects at h
    simp only [List.mem_append] at h
    rcases h with h | h
    · simp at h
    · split at h
      · assumption
      · simp at h
  exact fun x h0 h1 => isComplete_sound _ _ hcomp x h0 h1

/-- … and in an OK run every byte of the file was written into the very inode that becomes
    `<n>.full` (or that version is already logged). -/
theorem complete_claim_written {H : Body → String} {s : State} (hr : RecReachableOk H s) (n : Name)
    (m : Meta) (beg fin now : Int) (hok : RecordOk s n m beg fin)
    (h : Prim.renPartFull n ∈ recordEffects s n m beg fin now) :
    (∃ i, Cur s.disk n = some i ∧
      ∀ x, 0 ≤ x → x < (nextCmp s.disk n m beg fin).size → covered (s.disk.written i) x) ∨
    LoggedV s.disk n m.hash := by
  have hcov := complete_claim_sound s n m beg fin now h
  rcases nextCmp_ok s.disk n m beg fin (fun c hc => record_sound hr n c hc) hok.1 with
    ⟨i, hi, hp⟩ | hl
  · exact Or.inl ⟨i, hi, fun x h0 h1 => covered_of_mem_written hp x (hcov x h0 h1)⟩
  · right; rw [nextCmp_hash] at hl; exact hl

/-! ## record_kept -/

/-- what `record` leaves on disk when the file is not yet complete: the updated companion -/
theorem record_commits (s : State) (n : Name) (m : Meta) (beg fin now : Int)
    (hinc : isComplete (nextCmp s.disk n m beg fin).parts (nextCmp s.disk n m beg fin).size = false) :
    (run s (recordEffects s n m beg fin now)).disk.cmp n = some (nextCmp s.disk n m beg fin) := by
  unfold recordEffects
  simp [hinc, applyPrim, applyDisk]

/-- `record_kept` (one step): a part that is disjoint from, or identical to, every range on
    record for the same hash keeps every acknowledged byte on record. -/
theorem record_kept (d : Disk) (n : Name) (m : Meta) (beg fin : Int) (c : Cmp)
    (hc : d.cmp n = some c) (hh : c.hash = m.hash)
    (hsame : ∀ p ∈ c.parts, (p.fin ≤ beg ∨ fin ≤ p.beg) ∨ p = ⟨beg, fin⟩) :
    ∀ x, covered c.parts x → covered (nextCmp d n m beg fin).parts x := by
  intro x hx
  unfold nextCmp
  simp only [hc, hh, if_true]
  exact addPart_retains_identical c.parts beg fin x hx hsame

/-- … in particular for a part disjoint from everything on record nothing is replaced -/
theorem record_kept_disjoint (d : Disk) (n : Name) (m : Meta) (beg fin : Int) (c : Cmp)
    (hc : d.cmp n = some c) (hh : c.hash = m.hash)
    (hdis : ∀ p ∈ c.parts, p.fin ≤ beg ∨ fin ≤ p.beg) :
    (addPart c.parts beg fin).2 = none ∧
    ∀ x, covered c.parts x → covered (nextCmp d n m beg fin).parts x := by
  refine ⟨(addPart_retains c.parts beg fin hdis).1, ?_⟩
  intro x hx
  unfold nextCmp
  simp only [hc, hh, if_true]
  exact (addPart_retains c.parts beg fin hdis).2 x hx

/-- the new part itself is always on record afterwards -/
theorem record_new_mem (d : Disk) (n : Name) (m : Meta) (beg fin : Int) :
    (⟨beg, fin⟩ : Rng) ∈ (nextCmp d n m beg fin).parts := by
  unfold nextCmp
  simp only
  exact addPart_new_mem _ _ _

/-- a part announced with a different hash (or the first part) starts from an empty record -/
theorem record_new_version (d : Disk) (n : Name) (m : Meta) (beg fin : Int)
    (h : ∀ c, d.cmp n = some c → c.hash ≠ m.hash) :
    (nextCmp d n m beg fin).parts = [⟨beg, fin⟩] ∧ (nextCmp d n m beg fin).hash = m.hash ∧
    (nextCmp d n m beg fin).size = m.size := by
  unfold nextCmp
  cases hc : d.cmp n with
  | none => simp [addPart]
  | some c => simp [h c hc, addPart]

/-- state level: after an incomplete `record` event in which the part conflicts with
    nothing, every byte that was on record is still on record on disk. -/
theorem record_kept_state (H : Body → String) (s : State) (n : Name) (m : Meta)
    (beg fin now : Int) (c : Cmp) (hc : s.disk.cmp n = some c) (hh : c.hash = m.hash)
    (hsame : ∀ p ∈ c.parts, (p.fin ≤ beg ∨ fin ≤ p.beg) ∨ p = ⟨beg, fin⟩)
    (hinc : isComplete (nextCmp s.disk n m beg fin).parts (nextCmp s.disk n m beg fin).size = false) :
    ∃ c', (step H s (.op (.record n m beg fin now))).disk.cmp n = some c' ∧ c'.hash = c.hash ∧
      (⟨beg, fin⟩ : Rng) ∈ c'.parts ∧ ∀ x, covered c.parts x → covered c'.parts x := by
  refine ⟨nextCmp s.disk n m beg fin, record_commits s n m beg fin now hinc, ?_,
    record_new_mem _ _ _ _ _, record_kept s.disk n m beg fin c hc hh hsame⟩
  rw [nextCmp_hash, hh]

/-! ## the natural statement is false: witnesses -/

/-- the statement of DESIGN.md section 7 without hypotheses -/
def RecordSoundNatural (s : State) : Prop :=
  ∀ n c, s.disk.cmp n = some c → ∀ r ∈ c.parts,
    ∃ i, (s.disk.part n = some i ∨ s.disk.full n = some i ∨ s.disk.wait n = some i) ∧
      r ∈ s.disk.written i

/-- refuting the natural statement from facts about one name with a single staged inode -/
theorem not_natural_of (s : State) (n : Name) (c : Cmp) (r : Rng) (j : Nat)
    (hc : s.disk.cmp n = some c) (hr : r ∈ c.parts)
    (hheld : ∀ i, (s.disk.part n = some i ∨ s.disk.full n = some i ∨ s.disk.wait n = some i) → i = j)
    (hnot : r ∉ s.disk.written j) : ¬ RecordSoundNatural s := by
  intro h
  obtain ⟨i, hi, hw⟩ := h n c hc r hr
  rw [hheld i hi] at hw
  exact hnot hw

/-- (P) Prepare truncates a partial under a surviving companion. `g` version "h" is
    delivered and known to the cache from the log; version "Y" (4 bytes) is being received,
    `[0,2)` acknowledged; the file is announced again with 6 bytes: initStageFile keeps the
    companion (cache state logged) and truncates the partial. After a restart the receiver
    answers "part [0,2) of Y already received" for bytes that are zero. Harm: the sender
    skips the range; the completed file then fails its hash check and is sent again as a
    whole — one wasted round, nothing wrong is delivered. -/
theorem natural_fails_prepare :
    let s := runEvs witH init (witLoggedEvs ++ [.op (.prepare "g" 6 300), .crash])
    ¬ RecordSoundNatural s ∧ ¬ LoggedV s.disk "g" "Y" ∧
    receivedAnswer s "g" ⟨"", "", 4, "Y"⟩ 0 2 = true ∧
    s.disk.part "g" = some 1 ∧ s.disk.body 1 = [0, 0, 0, 0, 0, 0] ∧ s.disk.written 1 = [] ∧
    ¬ PrepareOk (runEvs witH init witLoggedEvs) "g" 6 := by
  intro s
  refine ⟨?_, ?_, by decide, by decide, by decide, by decide, ?_⟩
  · refine not_natural_of s "g" ⟨"", "", 4, "Y", [⟨0, 2⟩]⟩ ⟨0, 2⟩ 1 (by decide) (by decide) ?_ (by decide)
    intro i hi
    have h1 : s.disk.part "g" = some 1 := by decide
    have h2 : s.disk.full "g" = none := by decide
    have h3 : s.disk.wait "g" = none := by decide
    rw [h1, h2, h3] at hi
    rcases hi with hi | hi | hi <;> cases hi
    rfl
  · rintro ⟨r, hr, _, hh⟩
    have hlog : s.disk.log = [⟨"g", "", "h", 2, 5, ""⟩] := by decide
    rw [hlog] at hr
    simp at hr
    subst hr
    simp at hh
  · intro h
    have hc : (runEvs witH init witLoggedEvs).disk.cmp "g" = some ⟨"", "", 4, "Y", [⟨0, 2⟩]⟩ := by decide
    have hlog : (runEvs witH init witLoggedEvs).disk.log = [⟨"g", "", "h", 2, 5, ""⟩] := by decide
    rcases h with ⟨i, hi, hl⟩ | h | h | h
    · have h1 : (runEvs witH init witLoggedEvs).disk.part "g" = some 1 := by decide
      rw [h1] at hi; cases hi
      revert hl; decide
    · revert h; decide
    · revert h; decide
    · obtain ⟨r, hr, _, hh⟩ := h _ hc
      rw [hlog] at hr
      simp at hr
      subst hr
      simp at hh

/-- (C) cleanStrays AS FOUND (`cleanStraysEffectsOrig` of Props/C20, before `fix: the stray
    cleaner removed the partial of a retransmission of a file that failed validation`) removed
    the partial and kept the companion (cache state `failed`, same hash —
    `clean_removes_retransmission`): the listing of partials (`scan`) went on claiming `[0,2)`
    of a file whose only staged copy was the `.full` that failed validation. Harm: the sender
    resumed after `[0,2)`; the next Prepare removed the stale companion (state failed), so the
    file completed only after a further round. -/
theorem natural_fails_clean_orig :
    let s0 := runEvs witH init witFailedEvs
    let s := run s0 (cleanStraysEffectsOrig s0 86410 ["f"])
    ¬ RecordSoundNatural s ∧ s.disk.log = [] ∧
    (cleanDecisionOrig s0 86410 "f").1 = true ∧
    ¬ (∀ c, s0.disk.cmp "f" = some c → LoggedV s0.disk "f" c.hash) := by
  intro s0 s
  refine ⟨?_, by decide, by decide, ?_⟩
  · refine not_natural_of s "f" ⟨"", "", 4, "X", [⟨0, 2⟩]⟩ ⟨0, 2⟩ 0 (by decide) (by decide) ?_ (by decide)
    intro i hi
    have h1 : s.disk.part "f" = none := by decide
    have h2 : s.disk.full "f" = some 0 := by decide
    have h3 : s.disk.wait "f" = none := by decide
    rw [h1, h2, h3] at hi
    rcases hi with hi | hi | hi <;> cases hi
    rfl
  · intro h
    have hc : s0.disk.cmp "f" = some ⟨"", "", 4, "X", [⟨0, 2⟩]⟩ := by decide
    obtain ⟨r, hr, _⟩ := h _ hc
    have hlog : s0.disk.log = [] := by decide
    rw [hlog] at hr
    cases hr

/-- … the repaired cleaner meets clause (C) in that state and leaves the retransmission
    alone: the claimed range `[0,2)` is still held by the staged partial -/
theorem clean_failed_ok :
    let s0 := runEvs witH init witFailedEvs
    let s := step witH s0 (.op (.cleanStrays 86410 ["f"]))
    CleanOk s0 86410 ["f"] ∧
    s.disk.cmp "f" = some ⟨"", "", 4, "X", [⟨0, 2⟩]⟩ ∧
    s.disk.part "f" = some 1 ∧ (⟨0, 2⟩ : Rng) ∈ s.disk.written 1 := by
  intro s0 s
  refine ⟨?_, by decide, by decide, by decide⟩
  intro n hn hdec
  simp only [List.mem_singleton] at hn
  subst hn
  have hd : (cleanDecision s0 86410 "f").1 = false := by decide
  rw [hd] at hdec; cases hdec

/-- version "h" of `a` is validated and held (predecessor "p" missing); the file is announced
    again and nothing more arrives -/
def witHeldEvs : List Ev :=
  [.op (.prepare "a" 2 0), .op (.recvOpen 1 "a"), .op (.recvWrite 1 0 [7, 8] 0),
   .op (.record "a" ⟨"", "p", 2, "h"⟩ 0 2 0), .op (.process "a" 1), .op (.finh "a" 2),
   .op (.prepare "a" 2 10)]

/-- what remains of the hypothesis of `cleanOk_of`: in cache state `validated` with the
    companion's hash the cleaner removes a day-old partial although the version is not logged
    (clause (c) of `C20_only_delivered`: the validated copy is held as `a.wait`), so `CleanOk`
    as defined fails; here the companion's range was written into that held copy, so the
    conclusion of `record_sound` is not affected. -/
theorem cleanOk_fails_validated :
    let s0 := runEvs witH init witHeldEvs
    let s := step witH s0 (.op (.cleanStrays 86500 ["a"]))
    ¬ CleanOk s0 86500 ["a"] ∧ ValidatedHeld s0 "a" "h" ∧ s0.disk.log = [] ∧
    s.disk.part "a" = none ∧ s.disk.cmp "a" = some ⟨"", "p", 2, "h", [⟨0, 2⟩]⟩ ∧
    Cur s.disk "a" = some 0 ∧ (⟨0, 2⟩ : Rng) ∈ s.disk.written 0 := by
  intro s0 s
  refine ⟨?_, ⟨_, 0, rfl, by decide, by decide, by decide⟩, by decide, by decide, by decide,
    by decide, by decide⟩
  intro h
  have hc : s0.disk.cmp "a" = some ⟨"", "p", 2, "h", [⟨0, 2⟩]⟩ := by decide
  obtain ⟨r, hr, _⟩ := h "a" (by simp) (by decide) _ hc
  have hlog : s0.disk.log = [] := by decide
  rw [hlog] at hr
  cases hr

/-- a complete file awaits validation; it is sent again, cut differently -/
def witDupEvs : List Ev :=
  [.op (.prepare "d" 4 0), .op (.recvOpen 1 "d"), .op (.recvWrite 1 0 [1, 2, 3, 4] 0),
   .op (.record "d" ⟨"", "", 4, "h"⟩ 0 4 0),
   .op (.prepare "d" 4 1),
   .op (.recvOpen 2 "d"), .op (.recvWrite 2 0 [1, 2] 1), .op (.record "d" ⟨"", "", 4, "h"⟩ 0 2 1),
   .op (.recvOpen 3 "d"), .op (.recvWrite 3 2 [3, 4] 1), .op (.record "d" ⟨"", "", 4, "h"⟩ 2 4 1)]

/-- (D) the "ignoring duplicate" branch: the retransmitted partial is removed, the companion
    stays with the ranges `[0,2),[2,4)` that were written into the removed inode; the staged
    `.full` was written as `[0,4)`. The natural statement fails at range level although
    every claimed BYTE is covered by what was written into the `.full` — harmless. -/
theorem natural_fails_duplicate :
    let s := runEvs witH init witDupEvs
    ¬ RecordSoundNatural s ∧ s.disk.log = [] ∧
    s.disk.full "d" = some 0 ∧ s.disk.written 0 = [⟨0, 4⟩] ∧
    (s.disk.cmp "d").map (·.parts) = some [⟨0, 2⟩, ⟨2, 4⟩] ∧
    (∀ x, covered [⟨0, 2⟩, ⟨2, 4⟩] x → covered (s.disk.written 0) x) := by
  intro s
  refine ⟨?_, by decide, by decide, by decide, by decide, ?_⟩
  · refine not_natural_of s "d" ⟨"", "", 4, "h", [⟨0, 2⟩, ⟨2, 4⟩]⟩ ⟨0, 2⟩ 0 (by decide) (by decide) ?_ (by decide)
    intro i hi
    have h1 : s.disk.part "d" = none := by decide
    have h2 : s.disk.full "d" = some 0 := by decide
    have h3 : s.disk.wait "d" = none := by decide
    rw [h1, h2, h3] at hi
    rcases hi with hi | hi | hi <;> cases hi
    rfl
  · have hw : s.disk.written 0 = [⟨0, 4⟩] := by decide
    rw [hw]
    rintro x ⟨p, hp, h1, h2⟩
    simp only [List.mem_cons, List.not_mem_nil, or_false] at hp
    refine ⟨⟨0, 4⟩, by simp, ?_, ?_⟩ <;> rcases hp with hp | hp <;> subst hp <;> simp at h1 h2 ⊢ <;> omega

/-- version "h" of `a` is validated and queued for delivery; version "Y" is being received -/
def witFinEvs : List Ev :=
  [.op (.prepare "a" 2 0), .op (.recvOpen 1 "a"), .op (.recvWrite 1 0 [7, 8] 0),
   .op (.record "a" ⟨"", "", 2, "h"⟩ 0 2 0), .op (.process "a" 1),
   .op (.prepare "a" 4 2), .op (.recvOpen 2 "a"), .op (.recvWrite 2 0 [1, 2] 2),
   .op (.record "a" ⟨"", "", 4, "Y"⟩ 0 2 2)]

/-- finalize(file) BEFORE `fix: putting a file away removed the companion of a newer version
    in progress` (putFileAway removed `<n>.cmp` unconditionally: `Prim.rmCmp n` where the
    repaired code has `Prim.rmCmpIf n e.hash`); kept to state the defect the commit repairs. -/
def finalizeEffectsOrig (s : State) (n : Name) (e : Entry) (now : Int) : List Prim :=
  [Prim.lockAdd n] ++
  (if stateOf s.mem n ≠ some .validated ∨ (s.mem.cache n).map (·.hash) ≠ some e.hash then []
   else
     [Prim.timerDel n, Prim.logAppend ⟨n, e.renamed, e.hash, e.size, now, e.prev⟩] ++
     (match s.disk.wait n with
      | none => []
      | some _ =>
        let t := targetOf n e.renamed
        [Prim.renWaitFinal n t] ++
        toCache s.mem n { e with logged := some now } .finalized now ++
        [Prim.rmCmp n, Prim.waitTake n] ++
        (s.mem.wait.filter (fun w => w.1 == n)).map (fun w => Prim.fqPush w.2.1 w.2.2))) ++
  [Prim.lockDel n]

/-- the finalize handler around `finalizeEffectsOrig` (otherwise `finhEffects`) -/
def finhEffectsOrig (s : State) (n : Name) (now : Int) : List Prim :=
  match s.mem.fq.find? (·.1 == n) with
  | none => []
  | some (_, e) =>
    [Prim.fqDel n] ++
    (if stateOf s.mem n ≠ some .validated then []
     else match isFileReady s n e now with
       | .yes => finalizeEffectsOrig s n e now
       | .park timer e' =>
         [Prim.timerDel n] ++ (if timer then [Prim.timerSet n] else []) ++ [Prim.waitAdd e'.prev n e'])

/-- the repair changes one primitive: the unconditional removal became conditional -/
theorem finalizeEffects_vs_orig (s : State) (n : Name) (e : Entry) (now : Int) :
    finalizeEffects s n e now =
      (finalizeEffectsOrig s n e now).map
        (fun p => match p with | .rmCmp m => Prim.rmCmpIf m e.hash | q => q) := by
  unfold finalizeEffects finalizeEffectsOrig
  have htc : ∀ (m : Mem) (e' : Entry) (st : FState),
      (toCache m n e' st now).map (fun p => match p with | .rmCmp m => Prim.rmCmpIf m e.hash | q => q) =
        toCache m n e' st now := by
    intro m e' st
    unfold toCache
    simp only [List.map_append, List.map_cons, List.map_nil]
    congr 1
    · congr 1
      split <;> rfl
    · split <;> rfl
  by_cases hcond : stateOf s.mem n ≠ some .validated ∨ (s.mem.cache n).map (·.hash) ≠ some e.hash
  · simp only [if_pos hcond]; rfl
  · simp only [if_neg hcond]
    cases hw : s.disk.wait n with
    | none => rfl
    | some i =>
      simp only [List.map_append, List.map_cons, List.map_nil, htc, List.map_map]
      congr 6

/-- (M) / `record_kept` at the state-machine level WAS violated (the defect; repaired in
    /repo): finalize of the OLDER version removed `<a>.cmp`, which by then recorded the
    acknowledged part `[0,2)` of the NEWER version "Y" (neither complete nor replaced by a
    different version). The partial stayed without record: the sender had to send `[0,2)`
    again — loss of progress, no corruption. -/
theorem finalize_drops_live_record_orig :
    let s := runEvs witH init witFinEvs
    let s' := run s (finhEffectsOrig s "a" 5)
    (s.disk.cmp "a").map (fun c => (c.hash, c.parts)) = some ("Y", [⟨0, 2⟩]) ∧
    s'.disk.cmp "a" = none ∧ s'.disk.part "a" = some 1 ∧ s'.disk.written 1 = [⟨0, 2⟩] ∧
    s'.disk.final "a" = some 0 := by
  decide

/-- … and the repaired finalize delivers the older version and leaves the companion of the
    newer one, with its partial, alone -/
theorem finalize_keeps_live_record :
    let s := runEvs witH init witFinEvs
    let s' := step witH s (.op (.finh "a" 5))
    (s.disk.cmp "a").map (fun c => (c.hash, c.parts)) = some ("Y", [⟨0, 2⟩]) ∧
    (s'.disk.cmp "a").map (fun c => (c.hash, c.parts)) = some ("Y", [⟨0, 2⟩]) ∧
    s'.disk.part "a" = some 1 ∧ s'.disk.written 1 = [⟨0, 2⟩] ∧
    s'.disk.final "a" = some 0 ∧ FinhOk s "a" := by
  refine ⟨by decide, by decide, by decide, by decide, by decide, ?_⟩
  intro x _ c _ hp
  have : (runEvs witH init witFinEvs).disk.part "a" = some 1 := by decide
  rw [this] at hp; cases hp

/-! ### the finalize handler keeps every companion of another version (all states) -/

/-- primitives that cannot remove or replace the companion `c` of `n` (`h` = `c.hash`) -/
def cmpSafe (n : Name) (h : String) : Prim → Bool
  | .rmCmp m => m != n
  | .cmpCommit m _ => m != n
  | .rmCmpIf m h' => m != n || h' != h
  | _ => true

theorem cmpSafe_applyDisk (d : Disk) (p : Prim) (n : Name) (c : Cmp) (hc : d.cmp n = some c)
    (hs : cmpSafe n c.hash p = true) : (applyDisk d p).cmp n = some c := by
  cases p with
  | rmCmp m =>
    have hnm : n ≠ m := by intro h; subst h; simp [cmpSafe] at hs
    simpa [applyDisk, upd_other _ _ _ _ hnm] using hc
  | cmpCommit m now =>
    have hnm : n ≠ m := by intro h; subst h; simp [cmpSafe] at hs
    simp only [applyDisk]
    split
    · simpa [upd_other _ _ _ _ hnm] using hc
    · exact hc
  | rmCmpIf m h' =>
    by_cases hnm : n = m
    · subst hnm
      have hh : ¬ c.hash = h' := by
        intro h; subst h; simp [cmpSafe] at hs
      simp [applyDisk, hc, hh]
    · simp only [applyDisk]
      split
      · split
        · simpa [upd_other _ _ _ _ hnm] using hc
        · exact hc
      · exact hc
  | _ => simp only [applyDisk] <;> (try split) <;> exact hc

theorem cmpSafe_run (n : Name) (c : Cmp) (ps : List Prim) (hs : ps.all (cmpSafe n c.hash) = true) :
    ∀ s : State, s.disk.cmp n = some c → (run s ps).disk.cmp n = some c := by
  induction ps with
  | nil => intro s h; simpa using h
  | cons p ps ih =>
    intro s h
    simp only [List.all_cons, Bool.and_eq_true] at hs
    exact ih hs.2 _ (cmpSafe_applyDisk s.disk p n c h hs.1)

theorem all_cut (q : Prim → Bool) (k : Nat) (ps : List Prim) (h : ps.all q = true) :
    (cut k ps).all q = true := by
  obtain ⟨qs, hq⟩ := cut_prefix k ps
  rw [hq, List.all_append, Bool.and_eq_true] at h
  exact h.1

theorem toCache_cmpSafe (n' : Name) (h : String) (m : Mem) (n : Name) (e : Entry) (st : FState)
    (now : Int) : (toCache m n e st now).all (cmpSafe n' h) = true := by
  unfold toCache
  simp only [List.all_append, Bool.and_eq_true]
  refine ⟨⟨?_, by simp [cmpSafe]⟩, ?_⟩ <;> split <;> simp [cmpSafe]

/-- `finalize` of the item `e` of `n` is harmless for the companion `c` of `m` unless it is the
    companion of `n` itself with the item's hash -/
theorem finalize_cmpSafe (s : State) (n : Name) (e : Entry) (now : Int) (m : Name) (h : String)
    (hne : m = n → e.hash ≠ h) : (finalizeEffects s n e now).all (cmpSafe m h) = true := by
  unfold finalizeEffects
  simp only [List.all_append, Bool.and_eq_true]
  refine ⟨⟨by simp [cmpSafe], ?_⟩, by simp [cmpSafe]⟩
  split
  · rfl
  · simp only [List.all_append, Bool.and_eq_true]
    refine ⟨by simp [cmpSafe], ?_⟩
    split
    · rfl
    · simp only [List.all_append, Bool.and_eq_true, List.all_map]
      refine ⟨⟨⟨by simp [cmpSafe], toCache_cmpSafe _ _ _ _ _ _ _⟩, ?_⟩, ?_⟩
      · simp only [List.all_cons, List.all_nil, Bool.and_true, Bool.and_eq_true]
        refine ⟨?_, by simp [cmpSafe]⟩
        simp only [cmpSafe, Bool.or_eq_true, bne_iff_ne, ne_eq]
        by_cases hnm : n = m
        · exact Or.inr (hne hnm.symm)
        · exact Or.inl hnm
      · simp only [List.all_eq_true]
        intro w _; rfl

theorem finh_cmpSafe (s : State) (n : Name) (now : Int) (m : Name) (h : String)
    (hne : m = n → ∀ x, s.mem.fq.find? (·.1 == n) = some x → x.2.hash ≠ h) :
    (finhEffects s n now).all (cmpSafe m h) = true := by
  unfold finhEffects
  split
  · rfl
  · rename_i k e hfind
    simp only [List.all_append, Bool.and_eq_true]
    refine ⟨by simp [cmpSafe], ?_⟩
    split
    · rfl
    · split
      · exact finalize_cmpSafe s n e now m h (fun hmn => hne hmn _ hfind)
      · simp only [List.all_append, Bool.and_eq_true]
        refine ⟨⟨by simp [cmpSafe], ?_⟩, by simp [cmpSafe]⟩
        split <;> simp [cmpSafe]

/-- `finalize_keeps_other_version` (what the repair establishes, all states, every crash
    point): the finalize handler of `n` leaves every companion in place — of any other name,
    and of `n` itself when it records a version (hash) other than the one being put away. -/
theorem finalize_keeps_other_version (H : Body → String) (s : State) (n : Name) (now : Int)
    (m : Name) (c : Cmp) (hc : s.disk.cmp m = some c)
    (hne : m = n → ∀ x, s.mem.fq.find? (·.1 == n) = some x → x.2.hash ≠ c.hash) :
    (step H s (.op (.finh n now))).disk.cmp m = some c ∧
    ∀ k, (step H s (.cutOp k (.finh n now))).disk.cmp m = some c := by
  have hall := finh_cmpSafe s n now m c.hash hne
  refine ⟨cmpSafe_run m c _ hall s hc, ?_⟩
  intro k
  exact cmpSafe_run m c _ (all_cut _ k _ hall) s hc

/-- non-vacuity: in `witFinEvs` the queued item of "a" has hash "h", the companion "Y" -/
example : ∃ c, (runEvs witH init witFinEvs).disk.cmp "a" = some c ∧
    ∀ x, (runEvs witH init witFinEvs).mem.fq.find? (·.1 == "a") = some x → x.2.hash ≠ c.hash := by
  refine ⟨⟨"", "", 4, "Y", [⟨0, 2⟩]⟩, by decide, ?_⟩
  intro x hx
  have h1 : ((runEvs witH init witFinEvs).mem.fq.find? (·.1 == "a")).map (·.2.hash) = some "h" := by
    decide
  have hx' : List.find? (fun x => x.fst == "a") (runEvs witH init witFinEvs).mem.fq = some x := hx
  rw [hx'] at h1
  simp only [Option.map_some, Option.some.injEq] at h1
  rw [h1]; decide

/-- clause (D) of `RecordOk` is void for a name the cache does not know -/
theorem recordOk_of_unknown (s : State) (n : Name) (m : Meta) (beg fin : Int)
    (hw : ∃ i, Cur s.disk n = some i ∧ (⟨beg, fin⟩ : Rng) ∈ s.disk.written i)
    (hc : s.mem.cache n = none) : RecordOk s n m beg fin := by
  refine ⟨hw, ?_⟩
  intro _ ex hex
  rw [hc] at hex; cases hex

/-- version "h" of `b` is validated and queued for delivery; then a part of a version "Y" is
    recorded for `b` although no `.part` was prepared (the range `[0,2)` it names was written
    into the file that is now `<b>.wait`, so clause (R) of `RecordOk`, which speaks about the
    current staged file, holds) -/
def witNoPartEvs : List Ev :=
  [.op (.prepare "b" 2 0), .op (.recvOpen 1 "b"), .op (.recvWrite 1 0 [7, 8] 0),
   .op (.record "b" ⟨"", "", 2, "h"⟩ 0 2 0), .op (.process "b" 1),
   .op (.record "b" ⟨"", "", 4, "Y"⟩ 0 2 2)]

/-- (M) cannot be dropped from `record_sound`, also after the repair: every event of
    `witNoPartEvs` meets its clause (P)/(R)/(D)/(C), only the final `finh` violates (M) — the
    companion on disk is of version "Y", the item delivered of version "h", and there is no
    `.part` / `.full`. Finalize moves `<b>.wait` away and (now) keeps the companion, which then
    describes no staged file and no logged version. (Before the repair the companion was
    removed a moment later, so the violation lasted for the crash window between the move and
    the removal only.) The run needs a `record` without a partial, which the real Receive
    cannot do (it opens `<n>.part` first); with clause (R) restricted to the `.part` the
    hypothesis (M) may be derivable — not attempted. -/
theorem record_sound_needs_finhOk :
    let s := runEvs witH init witNoPartEvs
    let s' := step witH s (.op (.finh "b" 5))
    RecReachableOk witH s ∧ ¬ FinhOk s "b" ∧
    (s'.disk.cmp "b").map (fun c => (c.hash, c.parts)) = some ("Y", [⟨0, 2⟩]) ∧
    Cur s'.disk "b" = none ∧ ¬ LoggedV s'.disk "b" "Y" := by
  intro s s'
  refine ⟨⟨witNoPartEvs, ?_, rfl⟩, ?_, by decide, by decide, ?_⟩
  · refine ⟨?_, trivial, trivial, ?_, trivial, ?_, trivial⟩
    · exact Or.inr (Or.inl (by decide))
    · exact recordOk_of_unknown _ _ _ _ _ ⟨0, by decide, by decide⟩ (by decide)
    · refine ⟨⟨0, by decide, by decide⟩, ?_⟩
      intro hcomp
      revert hcomp; decide
  · intro h
    have hx : s.mem.fq.find? (·.1 == "b") =
        some ("b", { renamed := "", prev := "", hash := "h", size := 2, state := .validated, time := 1 }) := by
      decide
    have hc : s.disk.cmp "b" = some ⟨"", "", 4, "Y", [⟨0, 2⟩]⟩ := by decide
    have := h _ hx _ hc (by decide) (by decide)
    revert this; decide
  · rintro ⟨r, hr, _, hh⟩
    have hlog : s'.disk.log = [⟨"b", "", "h", 2, 5, ""⟩] := by decide
    rw [hlog] at hr
    simp at hr
    subst hr
    simp at hh

/-! ## non-vacuity: an ordinary transfer with a crash inside `record` is an OK run -/

def okEvs : List Ev :=
  [.op (.prepare "k" 4 0), .op (.recvOpen 1 "k"), .op (.recvWrite 1 0 [1, 2] 0),
   .op (.record "k" ⟨"", "", 4, "h"⟩ 0 2 0),
   .op (.recvOpen 2 "k"), .op (.recvWrite 2 2 [3, 4] 0),
   .cutOp 1 (.record "k" ⟨"", "", 4, "h"⟩ 2 4 0),     -- dies after writing `<k>.cmp.lck`
   .op (.recover 10 ["k"]),
   .op (.recvOpen 3 "k"), .op (.recvWrite 3 2 [3, 4] 11),
   .op (.record "k" ⟨"", "", 4, "h"⟩ 2 4 11),           -- complete: `.part` becomes `.full`
   .op (.process "k" 12)]

example : RecReachableOk witH (runEvs witH init okEvs) ∧
    (runEvs witH init okEvs).disk.cmp "k" = some ⟨"", "", 4, "h", [⟨0, 2⟩, ⟨2, 4⟩]⟩ ∧
    Cur (runEvs witH init okEvs).disk "k" = some 0 ∧
    (runEvs witH init okEvs).disk.written 0 = [⟨2, 4⟩, ⟨2, 4⟩, ⟨0, 2⟩] ∧
    (runEvs witH init okEvs).disk.wait "k" = some 0 := by
  refine ⟨⟨okEvs, ?_, rfl⟩, by decide, by decide, by decide, by decide⟩
  refine ⟨?_, trivial, trivial, ?_, trivial, trivial, ?_, trivial, trivial, trivial, ?_, trivial, trivial⟩
  · exact Or.inr (Or.inl (by decide))
  · exact recordOk_of_unknown _ _ _ _ _ ⟨0, by decide, by decide⟩ (by decide)
  · exact recordOk_of_unknown _ _ _ _ _ ⟨0, by decide, by decide⟩ (by decide)
  · exact recordOk_of_unknown _ _ _ _ _ ⟨0, by decide, by decide⟩ (by decide)

/-- … and delivery plus a cleaning are OK events, too -/
example : RecReachableOk witH (runEvs witH init (okEvs ++ [.op (.finh "k" 13), .op (.cleanStrays 100000 ["k"])])) ∧
    (runEvs witH init (okEvs ++ [.op (.finh "k" 13), .op (.cleanStrays 100000 ["k"])])).disk.final "k" = some 0 := by
  refine ⟨⟨_, ?_, rfl⟩, by decide⟩
  refine ⟨?_, trivial, trivial, ?_, trivial, trivial, ?_, trivial, trivial, trivial, ?_, trivial, ?_, ?_, trivial⟩
  · exact Or.inr (Or.inl (by decide))
  · exact recordOk_of_unknown _ _ _ _ _ ⟨0, by decide, by decide⟩ (by decide)
  · exact recordOk_of_unknown _ _ _ _ _ ⟨0, by decide, by decide⟩ (by decide)
  · exact recordOk_of_unknown _ _ _ _ _ ⟨0, by decide, by decide⟩ (by decide)
  · intro x hx c hc _ _
    have h1 : ((runEvs witH init okEvs).mem.fq.find? (·.1 == "k")).map (·.2.hash) = some "h" := by decide
    have h2 : ((runEvs witH init okEvs).disk.cmp "k").map (·.hash) = some "h" := by decide
    have hx' : (List.find? (fun x => x.fst == "k") (runEvs witH init okEvs).mem.fq) = some x := hx
    have hc' : (runEvs witH init okEvs).disk.cmp "k" = some c := hc
    rw [hx'] at h1; rw [hc'] at h2
    simp only [Option.map_some, Option.some.injEq] at h1 h2
    rw [h1, h2]
  · intro n hn hdec
    simp only [List.mem_singleton] at hn
    subst hn
    have hd : (cleanDecision (runEvs witH init (okEvs ++ [.op (.finh "k" 13)])) 100000 "k").1 = false := by
      decide
    have hdec' : (cleanDecision (runEvs witH init (okEvs ++ [.op (.finh "k" 13)])) 100000 "k").1 = true := hdec
    rw [hd] at hdec'; cases hdec'

example : receivedAnswer (runEvs witH init (okEvs.take 7)) "k" ⟨"", "", 4, "h"⟩ 0 2 = true ∧
    receivedAnswer (runEvs witH init (okEvs.take 7)) "k" ⟨"", "", 4, "h"⟩ 2 4 = false := by decide

example : (recordEffects (runEvs witH init (okEvs.take 10)) "k" ⟨"", "", 4, "h"⟩ 2 4 11).any
    (fun p => match p with | .renPartFull "k" => true | _ => false) = true := by decide

/-! ## the answer to "how many of these parts did you receive" -/

theorem receivedCount_le (ask : State → PartQ → Bool × State) (s : State) (qs : List PartQ) :
    (receivedCount ask s qs).1 ≤ qs.length := by
  induction qs generalizing s with
  | nil => simp [receivedCount]
  | cons q qs ih =>
    unfold receivedCount
    split
    · simp
    · rename_i s' _
      have := ih s'
      simp only [List.length_cons]
      omega

/-- `received_count_is_prefix`: every part the count covers — the parts the sender will treat
    as delivered — was itself answered "received" in the state in which it was asked (so
    `received_claim_sound` applies to each of them); and the part right behind the count, if
    any, was answered "not received". -/
theorem received_count_is_prefix (ask : State → PartQ → Bool × State) (s : State) (qs : List PartQ) :
    (∀ i (h : i < (receivedCount ask s qs).1),
      (ask (askState ask s qs i) (qs[i]'(Nat.lt_of_lt_of_le h (receivedCount_le ask s qs)))).1 = true) ∧
    (∀ (h : (receivedCount ask s qs).1 < qs.length),
      (ask (askState ask s qs (receivedCount ask s qs).1) (qs[(receivedCount ask s qs).1]'h)).1 = false) := by
  induction qs generalizing s with
  | nil => exact ⟨fun i h => by simp [receivedCount] at h, fun h => by simp at h⟩
  | cons q qs ih =>
    cases hq : ask s q with
    | mk a s' =>
      cases a with
      | false =>
        have hc : receivedCount ask s (q :: qs) = (0, s') := by simp [receivedCount, hq]
        refine ⟨fun i h => by rw [hc] at h; exact absurd h (Nat.not_lt_zero _), fun _ => ?_⟩
        simp only [hc, askState, List.getElem_cons_zero, hq]
      | true =>
        have hc : (receivedCount ask s (q :: qs)).1 = (receivedCount ask s' qs).1 + 1 := by
          simp [receivedCount, hq]
        obtain ⟨ih1, ih2⟩ := ih s'
        constructor
        · intro i h
          cases i with
          | zero => simp [askState, hq]
          | succ i =>
            have hi : i < (receivedCount ask s' qs).1 := by omega
            have := ih1 i hi
            simpa [askState, hq] using this
        · intro h
          have h' : (receivedCount ask s' qs).1 < qs.length := by
            simp only [List.length_cons] at h; omega
          have := ih2 h'
          simpa [hc, askState, hq] using this

/-! ### … tied to the reachable states of the receiver -/

theorem RecOkRun_append {H : Body → String} : ∀ (evs : List Ev) (s : State) (e : Ev),
    RecOkRun H s evs → RecEvOk (runEvs H s evs) e → RecOkRun H s (evs ++ [e]) := by
  intro evs
  induction evs with
  | nil => intro s e _ he; exact ⟨by simpa [runEvs] using he, trivial⟩
  | cons x xs ih =>
    intro s e h he
    refine ⟨h.1, ih _ e h.2 ?_⟩
    simpa [runEvs, List.foldl_cons] using he

theorem RecReachableOk.step {H : Body → String} {s : State} (h : RecReachableOk H s) (e : Ev)
    (he : RecEvOk s e) : RecReachableOk H (Stage.step H s e) := by
  obtain ⟨evs, hok, rfl⟩ := h
  exact ⟨evs ++ [e], RecOkRun_append evs _ e hok he, by simp [runEvs, List.foldl_append]⟩

/-- one `partReceived` is two unconstrained events: the cache extension and the query -/
theorem askPart_eq (H : Body → String) (now : Int) (s : State) (q : PartQ) :
    askPart now s q =
      (receivedAnswer (Stage.step H s (.op (.buildCache (receivedFrom q.ftime now) now))) q.n q.m q.beg q.fin,
       Stage.step H (Stage.step H s (.op (.buildCache (receivedFrom q.ftime now) now))) (.op (.receivedQ q.n q.m))) := rfl

theorem askState_ok {H : Body → String} (now : Int) : ∀ (qs : List PartQ) (s : State) (i : Nat),
    RecReachableOk H s → RecReachableOk H (askState (askPart now) s qs i) := by
  intro qs
  induction qs with
  | nil => intro s i h; cases i <;> simpa [askState] using h
  | cons q qs ih =>
    intro s i h
    cases i with
    | zero => simpa [askState] using h
    | succ i =>
      simp only [askState]
      apply ih
      rw [askPart_eq H]
      exact (h.step (.op (.buildCache (receivedFrom q.ftime now) now)) trivial).step
        (.op (.receivedQ q.n q.m)) trivial

/-- `received_count_sound`: in every OK-reachable state of the receiver, for every query and
    every part the answer counts (the parts the sender then drops from the payload as
    delivered): the part was answered in an OK-reachable state, and when the cache does not
    know the file there, every byte of the part lies in a range written into the current
    staged file, or the announced version is already logged. -/
theorem received_count_sound {H : Body → String} {s : State} (h : RecReachableOk H s) (now : Int)
    (qs : List PartQ) (i : Nat) (hi : i < (receivedCount (askPart now) s qs).1) :
    ∃ s1, RecReachableOk H s1 ∧
      receivedAnswer s1 (qs[i]'(Nat.lt_of_lt_of_le hi (receivedCount_le _ s qs))).n
        (qs[i]'(Nat.lt_of_lt_of_le hi (receivedCount_le _ s qs))).m
        (qs[i]'(Nat.lt_of_lt_of_le hi (receivedCount_le _ s qs))).beg
        (qs[i]'(Nat.lt_of_lt_of_le hi (receivedCount_le _ s qs))).fin = true ∧
      (s1.mem.cache (qs[i]'(Nat.lt_of_lt_of_le hi (receivedCount_le _ s qs))).n = none →
        (∃ j, Cur s1.disk (qs[i]'(Nat.lt_of_lt_of_le hi (receivedCount_le _ s qs))).n = some j ∧
          ∀ x, (qs[i]'(Nat.lt_of_lt_of_le hi (receivedCount_le _ s qs))).beg ≤ x →
            x < (qs[i]'(Nat.lt_of_lt_of_le hi (receivedCount_le _ s qs))).fin → covered (s1.disk.written j) x) ∨
        LoggedV s1.disk (qs[i]'(Nat.lt_of_lt_of_le hi (receivedCount_le _ s qs))).n
          (qs[i]'(Nat.lt_of_lt_of_le hi (receivedCount_le _ s qs))).m.hash) := by
  have hp := (received_count_is_prefix (askPart now) s qs).1 i hi
  have hs := askState_ok (H := H) now qs s i h
  generalize hq : (qs[i]'(Nat.lt_of_lt_of_le hi (receivedCount_le _ s qs))) = q at hp ⊢
  rw [askPart_eq H] at hp
  have h1 := hs.step (.op (.buildCache (receivedFrom q.ftime now) now)) trivial
  exact ⟨_, h1, hp, fun hc => received_claim_sound h1 q.n q.m q.beg q.fin hc hp⟩


/-- counting every part on record instead of the leading ones claims a part that was never
    received: query [not received, received] is answered 1, i.e. "the first part arrived". -/
example :
    let ask : State → PartQ → Bool × State := fun s q => (q.beg == 2, s)
    let qs : List PartQ := [⟨"f", ⟨"", "", 4, "h"⟩, 0, 2, 0⟩, ⟨"f", ⟨"", "", 4, "h"⟩, 2, 4, 0⟩]
    (receivedCount ask init qs).1 = 0 ∧ (receivedCountAll ask init qs).1 = 1 ∧
      (ask init qs[0]).1 = false := by decide

end Sts.Stage
