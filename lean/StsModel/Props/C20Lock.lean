import StsModel.Model.CleanLock
import StsModel.Generated.Cleaning
/-
  Property C20, "one cleaning at a time; the timer is re-armed after each run"
  (stage/local.go clean / CleanNow / scheduleClean), proved about Model/CleanLock.lean for every
  sequence of events (any number of overlapping CleanNow calls and timer firings, any interleaving),
  and the tie T3 of that model and of Model/Prune.lean to the source text.
-/
namespace Sts.CleanLock

/-- the inductive invariant -/
def Inv (s : St) : Prop :=
  holders s = (if s.locked then 1 else 0) ∧
  s.armed = (if s.refArmed then 1 else 0) ∧
  (s.refArmed = true → s.ref = true) ∧
  (s.refArmed = true ∨ 0 < active s)

theorem inv_new : Inv new := by simp [Inv, new, holders, active]

theorem inv_next {s : St} (h : Inv s) (e : Ev) : Inv (next s e) := by
  obtain ⟨wc, st, cl, ws, ar, dn, locked, ref, refArmed, armed⟩ := s
  cases e with
  | call =>
    cases locked <;> cases refArmed <;> simp [Inv, holders, active, next] at h ⊢ <;> omega
  | fireRef =>
    cases locked <;> cases refArmed <;> simp [Inv, holders, active, next] at h ⊢ <;> omega
  | fireOther =>
    cases locked <;> cases refArmed <;> simp [Inv, holders, active, next] at h ⊢ <;>
      (try split) <;> (try simp) <;> omega
  | step pc =>
    cases pc <;> cases locked <;> cases ref <;> cases refArmed <;>
      simp [Inv, holders, active, next, stopRef] at h ⊢ <;>
      (try split) <;> (try simp) <;> (try omega)

theorem inv_exec {s : St} (h : Inv s) (es : List Ev) : Inv (exec s es) := by
  induction es generalizing s with
  | nil => exact h
  | cons e es ih => exact ih (inv_next h e)

/-- **one_cleaning_at_a_time.**  Whatever CleanNow calls and timer firings overlap, in whatever
    interleaving: at most one thread holds the clean lock, so at most one runs cleanStrays /
    cleanWaiting, and nobody re-arms the timer while a cleaning runs. -/
theorem one_cleaning_at_a_time (es : List Ev) :
    (exec new es).cleaning ≤ 1 ∧ (exec new es).stopping + (exec new es).cleaning + (exec new es).arming ≤ 1 := by
  have h := (inv_exec inv_new es).1
  simp only [holders] at h
  split at h <;> omega

/-- **at most one armed timer**, and it is the one `cleanTimeout` points to: the periodic cleaning never
    multiplies (both places that replace `cleanTimeout` stop the old timer first). -/
theorem at_most_one_timer (es : List Ev) :
    (exec new es).armed ≤ 1 ∧ ((exec new es).armed = 1 ↔ (exec new es).refArmed = true) := by
  have h := (inv_exec inv_new es).2.1
  split at h <;> simp_all

/-- **the timer is armed again after every run**: whenever no cleaning is pending or running (every
    thread has finished), a timer is armed; so the periodic cleaning never dies out. -/
theorem timer_rearmed (es : List Ev) (hq : active (exec new es) = 0) :
    (exec new es).refArmed = true ∧ (exec new es).armed = 1 := by
  have h := inv_exec inv_new es
  rcases h.2.2.2 with h' | h'
  · exact ⟨h', (at_most_one_timer es).2.2 h'⟩
  · omega

/-- **no deadlock**: as long as a thread has not finished, some thread can move (the deferred calls
    of `clean` run `Unlock` before `scheduleClean` takes the lock again). -/
theorem no_deadlock (es : List Ev) (ha : 0 < active (exec new es)) :
    ∃ pc, next (exec new es) (.step pc) ≠ exec new es := by
  have h := (inv_exec inv_new es).1
  generalize exec new es = s at *
  obtain ⟨wc, st, cl, ws, ar, dn, locked, ref, refArmed, armed⟩ := s
  simp only [holders, active] at h ha
  cases locked
  · -- lock free: nobody holds it, so somebody waits for it
    simp at h
    by_cases hw : 0 < wc
    · exact ⟨.waitClean, by simp [next, hw]⟩
    · exact ⟨.waitSched, by simp [next]; omega⟩
  · simp at h
    by_cases h1 : 0 < st
    · exact ⟨.stopping, by cases ref <;> cases refArmed <;> simp [next, stopRef, h1] <;> omega⟩
    · by_cases h2 : 0 < cl
      · exact ⟨.cleaning, by simp [next, h2]⟩
      · exact ⟨.arming, by
          have : 0 < ar := by omega
          cases ref <;> cases refArmed <;> simp [next, stopRef, this] <;> omega⟩

/-- every started cleaning can be brought to its end, after which the timer is armed: an example run
    (constructor, two overlapping CleanNow calls, the timer firing while the first one cleans) -/
example :
    let s := exec new [.step .waitSched, .step .arming, .call, .call, .step .waitClean, .fireRef, .step .stopping,
      .step .waitClean, .step .cleaning, .step .waitClean, .step .stopping, .step .cleaning,
      .step .waitSched, .step .arming, .step .waitSched, .step .arming,
      .step .waitClean, .step .stopping, .step .cleaning, .step .waitSched, .step .arming]
    active s = 0 ∧ s.done = 4 ∧ s.refArmed = true ∧ s.armed = 1 := by decide

/-- witness: without the `Stop()` before `cleanTimeout` is replaced two timers are armed after two
    overlapping cleanings (the second `scheduleClean` would not cancel the first one's timer) -/
theorem no_stop_leaks_timer :
    ([Ev.step .waitSched, .step .arming, .call, .call, .step .waitClean, .step .stopping, .step .cleaning,
      .step .waitClean, .step .stopping, .step .cleaning, .step .waitSched, .step .arming,
      .step .waitSched, .step .arming].foldl nextNoStop new).armed = 2 := by decide

end Sts.CleanLock

/-! ## Tie T3: the source text the two models mirror -/
namespace Sts.Cleaning

namespace Expected

def bodies : List (String × List String) :=
  [("Stage.CleanNow", [
     "s.clean()"]),
   ("Stage.clean", [
     "s.cleanLock.Lock()",
     "defer s.scheduleClean()",
     "defer s.cleanLock.Unlock()",
     "if s.cleanTimeout != nil {",
     "s.cleanTimeout.Stop()",
     "s.cleanTimeout = nil",
     "}",
     "s.cleanStrays(time.Hour * 24)",
     "s.cleanWaiting()"]),
   ("Stage.scheduleClean", [
     "s.cleanLock.Lock()",
     "defer s.cleanLock.Unlock()",
     "if s.cleanTimeout != nil {",
     "s.cleanTimeout.Stop()",
     "}",
     "s.cleanTimeout = time.AfterFunc(s.cleanInterval, func() {",
     "s.clean()",
     "})"]),
   ("Stage.Prune", [
     "s.pruneTree(s.rootDir, minAge)",
     "s.pruneTree(s.targetDir, minAge)"]),
   ("Stage.pruneTree", [
     "s.logInfo(\"Pruning empty directories ...\")",
     "defer s.logInfo(\"Pruning complete\")",
     "var dirs []string",
     "err := filepath.Walk(dir,",
     "func(path string, info os.FileInfo, err error) error {",
     "if err != nil || time.Since(info.ModTime()) < minAge {",
     "return nil",
     "}",
     "if info.IsDir() {",
     "dirs = append(dirs, path)",
     "}",
     "return nil",
     "})",
     "if err != nil {",
     "s.logError(err.Error())",
     "}",
     "for i := len(dirs) - 1; i >= 0; i-- {",
     "dir := dirs[i]",
     "entries, err := os.ReadDir(dir)",
     "if err != nil {",
     "s.logError(\"Prune: failed to read directory:\", dir, err.Error())",
     "continue",
     "}",
     "if len(entries) == 0 {",
     "if err = os.Remove(dir); err != nil {",
     "s.logError(\"Prune: failed to remove [supposedly empty] directory:\", dir, err.Error())",
     "} else {",
     "s.logInfo(\"Prune: removed empty directory:\", dir)",
     "}",
     "}",
     "}"])]

def fieldUses : List (String × String) :=
  [("New", "cleanInterval = time.Minute*30"),
   ("Stage.clean", "cleanLock.Lock()"),
   ("Stage.clean", "cleanLock.Unlock()"),
   ("Stage.clean", "cleanTimeout"),
   ("Stage.clean", "cleanTimeout.Stop()"),
   ("Stage.clean", "cleanTimeout = nil"),
   ("Stage.scheduleClean", "cleanLock.Lock()"),
   ("Stage.scheduleClean", "cleanLock.Unlock()"),
   ("Stage.scheduleClean", "cleanTimeout"),
   ("Stage.scheduleClean", "cleanTimeout.Stop()"),
   ("Stage.scheduleClean", "cleanTimeout = time.AfterFunc(…)"),
   ("Stage.scheduleClean", "cleanInterval")]

def cleanCalls : List (String × String) :=
  [("New", "s.scheduleClean"),
   ("Stage.CleanNow", "s.clean"),
   ("Stage.clean", "s.scheduleClean"),
   ("Stage.clean", "s.cleanStrays"),
   ("Stage.clean", "s.cleanWaiting"),
   ("Stage.scheduleClean.func", "s.clean"),
   ("Stage.Prune", "s.pruneTree"),
   ("Stage.Prune", "s.pruneTree")]

end Expected

/-- the bodies of CleanNow / clean / scheduleClean (Model/CleanLock.lean) and of Prune / pruneTree
    (Model/Prune.lean) are the text the models were written from -/
theorem clean_bodies_match : Generated.bodies = Expected.bodies := by decide

/-- nobody but `clean` and `scheduleClean` touches the clean lock or the timer -/
theorem clean_field_uses_match : Generated.fieldUses = Expected.fieldUses := by decide

/-- `clean` is entered from `CleanNow` and from the timer callback only, `scheduleClean` from `New` and
    from `clean` only; cleanStrays / cleanWaiting are called by `clean` only (so they run under the
    lock); `pruneTree` is called by `Prune` only, twice, and outside the clean lock -/
theorem clean_calls_match : Generated.cleanCalls = Expected.cleanCalls := by decide

end Sts.Cleaning
