/-
  Tie T3 — obligations over facts regenerated from the source on every run
  (`StsModel/Generated/Orders.lean`, written by /verif/extract from /repo's working tree).

  The receiver model's primitive lists (Model/StageOps.lean) were written against these
  statement orders of the durable-step procedures of stage/local.go and fileutil. Each
  theorem below pins one of them; if the code is reordered or an effect call is added or
  dropped, exactly that obligation stops checking (and `./check` searches for a failing
  input, e.g. through the crash images of the `stage` component).
-/
import StsModel.Generated.Orders
import StsModel.Generated.Consts

namespace Sts.Orders
open Sts.Generated

/-- initStageFile: stale companion removed first, then os.Create, then Truncate
    (model: `prepareEffects` = [rmCmp?] ++ [createPart, truncPart]). -/
theorem initStageFile_order_matches :
    order_initStageFile = ["rm:comp", "create:part", "trunc"] := by decide

/-- Receive: data before record (open, copy, then read/extend/write the companion), the
    completion test after the companion is written, duplicate branch (remove partial, remove
    companion, drop the path lock) before the rename to `.full`, cache `received` after the
    rename, hand-off to the validators last (model: `[writeIno] ++ recordEffects`). -/
theorem receive_order_matches :
    order_Receive = ["open:part", "copy", "readcmp", "addpart", "cmp", "complete?", "rm:part",
      "rm:comp", "unlockpath", "ren:part>full", "cache:Failed", "cache:Received", "vq"] := by decide

/-- process: hash first; on a read error companion and `.full` are removed and the file fails;
    on mismatch it fails; only then the rename to `.wait`, then cache `validated`, then the
    hand-off to the finalize handler (model: `processCore`). -/
theorem process_order_matches :
    order_process = ["md5:full", "rm:comp", "rm:full", "cache:Failed", "cache:Failed",
      "ren:full>wait", "cache:Failed", "cache:Validated", "fq"] := by decide

/-- putFileAway: log before move, state `finalized` only after the move, companion removed
    last (model: `finalizeEffects`: logAppend, renWaitFinal, cacheSet finalized, rmCmpIf). -/
theorem putFileAway_order_matches :
    order_putFileAway = ["log", "move:wait", "fq", "cache:Finalized", "rm:comp"] := by decide

/-- finalize: putFileAway, then the release of the files parked on the delivered one. -/
theorem finalize_order_matches :
    order_finalize = ["unlockpath", "putaway", "rm:-", "release", "fq"] := by decide

/-- Recover: not ready first / ready last (deferred), `.wait` hashed before it is put on the
    finalize list, complete partials renamed to `.full`, orphan companions removed, cache built
    from the log before anything is queued, finalize list before validate list; in the validate
    loop the duplicate test comes first (remove `.full`, remove the companion, drop the path
    lock), then cache `received` and process (model: `recoverEffects`). -/
theorem recover_order_matches :
    order_Recover = ["ready:false", "ready:true", "md5:wait", "complete?", "ren:part>full", "rm:-",
      "complete?", "ren:->full", "buildcache", "cache:Validated", "fq", "rm:full", "rm:comp", "unlockpath",
      "cache:Received", "process"] := by
  decide

/-- cleanStrays: the only effects are a log search and the removal of the partial and of the
    companion (model: `cleanStrayOne`). -/
theorem cleanStrays_order_matches :
    order_cleanStrays = ["logsearch", "rm:-", "rm:-"] := by decide

/-- isFileReady: a log search, then parking — nothing else has an effect. -/
theorem isFileReady_order_matches : order_isFileReady = ["logsearch", "park"] := by decide

/-- partReceived / GetFileStatus: the cache is built from the log before the answer. -/
theorem queries_order_match :
    order_partReceived = ["buildcache", "unlockpath", "unlockpath"] ∧
    order_GetFileStatus = ["buildcache"] := by decide

/-- fileutil.writeJSON: temporary file first, rename second (model: cmpTmp, cmpCommit). -/
theorem writeJSON_order_matches : order_writeJSON = ["writefile:lock", "ren:lock>-"] := by decide

/-- fileutil.Move: the direct rename first; the lock name only in the copy fallback, where the
    copy gets its name BEFORE the original is removed (model: the single primitive `renWaitFinal`
    for the rename path, Model/Move.lean `Order.renameFirst` for the copy path). -/
theorem move_order_matches :
    order_Move = ["ren:->-", "copyfile", "ren:lock>-", "rm:-"] := by decide

end Sts.Orders

/-! ## constants the model's numbers come from -/
namespace Sts.Orders
open Sts.Generated

/-- staging extensions, cache ages, validator count and the numeric order of the receiver
    states (`>= stateFinalized`, `> stateReceived` in the code; `FState.num` in the model). -/
theorem stage_consts_match :
    consts_stage = [("compExt", "\".cmp\""), ("partExt", "\".part\""), ("fullExt", "\".full\""),
      ("waitExt", "\".wait\""), ("cacheAgeLogged", "time.Hour*24"), ("cacheAgeLoaded", "time.Hour*1"),
      ("cacheCnt", "1000"), ("nValidators", "24"), ("stateUnknown", "?"), ("stateReceived", "0"),
      ("stateValidated", "1"), ("stateFailed", "2"), ("stateFinalized", "3"), ("stateLogged", "4")] := by
  decide

/-- payload slack (10 % of the size), lock extension, confirmation codes of the poll. -/
theorem other_consts_match :
    consts_payload = [("binFluff", "0.1")] ∧ consts_fileutil = [("LockExt", "\".lck\"")] ∧
    consts_confirm = [("ConfirmNone", "0"), ("ConfirmFailed", "1"), ("ConfirmPassed", "2"),
      ("ConfirmWaiting", "3")] := by decide

end Sts.Orders
