/-
  C17 — only eligible files are sent, each version once, changed files again: the L0 /
  scan-time part (eligibility decision of the store scan, cache based change detection,
  clean-up step of `Broker.scan()`, configuration of the store by main).

  The history clauses (`ineligible_never_touched`, `each_version_once`, `never_a_mixture`)
  need the sender state machine and are not in this file.

  Main statements (all FULL: for every tree, configuration, cache, tag table, time):
    eligible_iff                     what `Local.Scan(includeScannedFile)` returns, as an iff
    storeScan_iff, storeScan_filter  the same for an arbitrary caller filter
    unchanged_not_again, changed_again, zero_length_never, disabled_nothing
    configure_ignore_iff, standard_ignores_hold   main's configuration of the store
    canDelete_iff
    cleanup_only_done_deletable      the clean-up removes only hashed, done, deletable entries
    cleanup_never_removes_changed    ... and never one whose file `Sync` calls changed (against
                                     the tree at scan start); cleanup_spares_changed_file
    cleanup_effects                  tree and cache change only through the logged removals
    add_resets_done                  `cache.Add` starts a new, not-done version
    ready_only_scanned_or_straggler  what `scan()` hands on (stragglers are not re-decided)
  Witnesses of the defects of the code before the six `fix:` repairs (`…_orig`):
    relative_link_aborted_orig (S16), dangling_link_aborted_orig, root_path_matched_orig,
    cleanup_removed_changed_orig (S3), add_kept_done_orig, requeued_version_deleted_orig.

  Where the code differs from the wording of C17 (and the theorem says what the code does):
    * patterns are matched against the RELATIVE PATH, not the base name; hidden-ness is decided
      on the base name of every path element;
    * ignore patterns (not include patterns) are applied to directories and prune them;
    * a symbolic link that is not followed is aged by the link's own mtime, but reported (and
      compared with the cache) with the target's size and mtime;
    * the disable marker disables only as an entry of the root; elsewhere it is just ignored;
    * a tag counts as non-HTTP by its method after `setDefaults`, which stops defaulting at
      the default tag (a method-less tag listed after it is treated as non-HTTP).
-/
import StsModel.Model.Scan

namespace Sts

/-! ## The walk returns exactly what is reachable through traversed directories -/

/-- `n` is an entry of the directory reached from `kids` through the directories `ds`
    (real directories; links to directories only with FollowSymlinks). -/
inductive Reach (follow : Bool) : List Node → List String → Node → Prop
  | here {kids : List Node} {n : Node} : n ∈ kids → Reach follow kids [] n
  | dir {kids : List Node} {d : String} {ks : List Node} {ds : List String} {n : Node} :
      Node.dir d ks ∈ kids → Reach follow ks ds n → Reach follow kids (d :: ds) n
  | link {kids : List Node} {d : String} {lm : Int} {r : Bool} {ks : List Node} {ds : List String}
      {n : Node} : follow = true → Node.linkDir d lm r ks ∈ kids → Reach follow ks ds n →
      Reach follow kids (d :: ds) n

/-- no directory on the way (`ds` below `pre`) is pruned by `shouldIgnore(rel, true)` -/
def dirsOk (c : StoreConf) : List String → List String → Prop
  | _, [] => True
  | pre, d :: ds => shouldIgnore c (relStr (pre ++ [d])) d true = false ∧ dirsOk c (pre ++ [d]) ds

/-- `n` is a regular file called `name` (or a link to one) with the given size and mtime;
    `ageT` is the time its age is measured by: its own mtime, but for a link that is not
    followed the LINK's mtime. -/
def IsFileNode (follow : Bool) (n : Node) (name : String) (ageT size mtime : Int) : Prop :=
  (n = .file name size mtime ∧ ageT = mtime) ∨
  ∃ lm r, n = .linkFile name lm r size mtime ∧ ageT = if follow then mtime else lm

theorem walkList_mem (c : StoreConf) (now : Int) (allow : Found → Bool) (pre : List String)
    (ks : List Node) (f : Found) :
    f ∈ walkList c now allow pre ks ↔ ∃ n ∈ ks, f ∈ walkNode c now allow pre n := by
  induction ks with
  | nil => simp [walkList]
  | cons k ks ih => simp [walkList, ih]

theorem leaf_mem (c : StoreConf) (now : Int) (allow : Found → Bool) (segs : List String)
    (base : String) (ageT size mtime : Int) (f : Found) :
    f ∈ leaf c now allow segs base ageT size mtime ↔
      f = ⟨segs, size, mtime⟩ ∧ shouldIgnore c (relStr segs) base false = false ∧
      c.minAge ≤ now - ageT ∧ allow f = true := by
  unfold leaf
  by_cases h1 : shouldIgnore c (relStr segs) base false = true
  · simp [h1]
  · have h1' : shouldIgnore c (relStr segs) base false = false := by simpa using h1
    by_cases h2 : now - ageT < c.minAge
    · simp [h1', h2]; intro _; omega
    · by_cases h3 : allow ⟨segs, size, mtime⟩ = true
      · simp only [h1', h2, h3, Bool.false_eq_true, if_false, if_true, List.mem_singleton]
        constructor
        · rintro rfl; exact ⟨rfl, trivial, by omega, h3⟩
        · rintro ⟨rfl, _⟩; rfl
      · simp only [h1', h2, h3, Bool.false_eq_true, if_false]
        constructor
        · intro h; cases h
        · rintro ⟨rfl, _, _, h4⟩; exact absurd h4 h3

/-- what `walkNode` returns for one entry: the entry itself if it is a file, or something
    found below it if it is a traversed directory -/
def NodeYields (c : StoreConf) (now : Int) (allow : Found → Bool) (pre : List String)
    (n : Node) (f : Found) : Prop :=
  ∃ ds name m ageT, Reach c.follow [n] ds m ∧ IsFileNode c.follow m name ageT f.size f.mtime ∧
    f.segs = pre ++ ds ++ [name] ∧ dirsOk c pre ds ∧
    shouldIgnore c (relStr f.segs) name false = false ∧ c.minAge ≤ now - ageT ∧ allow f = true

theorem reach_single_of_mem {follow : Bool} {kids : List Node} {k : Node} {ds : List String}
    {m : Node} (hk : k ∈ kids) (h : Reach follow [k] ds m) : Reach follow kids ds m := by
  cases h with
  | here h => simp at h; subst h; exact .here hk
  | dir h1 h2 => simp at h1; subst h1; exact .dir hk h2
  | link hf h1 h2 => simp at h1; subst h1; exact .link hf hk h2

theorem reach_mem_single {follow : Bool} {kids : List Node} {ds : List String} {m : Node}
    (h : Reach follow kids ds m) : ∃ k ∈ kids, Reach follow [k] ds m := by
  cases h with
  | here h => exact ⟨_, h, .here (by simp)⟩
  | dir h1 h2 => exact ⟨_, h1, .dir List.mem_cons_self h2⟩
  | link hf h1 h2 => exact ⟨_, h1, .link hf List.mem_cons_self h2⟩

mutual
theorem walkNode_sound (c : StoreConf) (now : Int) (allow : Found → Bool) :
    ∀ (n : Node) (pre : List String) (f : Found),
      f ∈ walkNode c now allow pre n → NodeYields c now allow pre n f
  | .file n sz mt, pre, f, h => by
    simp only [walkNode] at h
    obtain ⟨rfl, h1, h2, h3⟩ := (leaf_mem ..).1 h
    exact ⟨[], n, _, mt, .here (by simp), Or.inl ⟨rfl, rfl⟩, by simp, trivial, h1, h2, h3⟩
  | .dir d kids, pre, f, h => by
    simp only [walkNode] at h
    split at h
    · cases h
    · rename_i hd
      obtain ⟨ds, name, m, ageT, hr, hf, hs, hok, hi, ha, hal⟩ :=
        walkList_sound c now allow kids (pre ++ [d]) f h
      exact ⟨d :: ds, name, m, ageT, .dir List.mem_cons_self hr, hf, by simp [hs],
        ⟨by simpa using hd, hok⟩, hi, ha, hal⟩
  | .linkFile n lmt r sz mt, pre, f, h => by
    simp only [walkNode] at h
    obtain ⟨rfl, h1, h2, h3⟩ := (leaf_mem ..).1 h
    exact ⟨[], n, _, _, .here (by simp), Or.inr ⟨lmt, r, rfl, rfl⟩, by simp, trivial, h1, h2, h3⟩
  | .linkDir d lmt r kids, pre, f, h => by
    simp only [walkNode] at h
    split at h
    · rename_i hfo
      split at h
      · cases h
      · rename_i hd
        obtain ⟨ds, name, m, ageT, hr, hf, hs, hok, hi, ha, hal⟩ :=
          walkList_sound c now allow kids (pre ++ [d]) f h
        exact ⟨d :: ds, name, m, ageT, .link hfo List.mem_cons_self hr, hf, by simp [hs],
          ⟨by simpa using hd, hok⟩, hi, ha, hal⟩
    · cases h
  | .linkLoop _ _ _, _, _, h => by simp [walkNode] at h
  | .linkDead _ _ _, _, _, h => by simp [walkNode] at h
theorem walkList_sound (c : StoreConf) (now : Int) (allow : Found → Bool) :
    ∀ (ks : List Node) (pre : List String) (f : Found),
      f ∈ walkList c now allow pre ks →
      ∃ ds name m ageT, Reach c.follow ks ds m ∧ IsFileNode c.follow m name ageT f.size f.mtime ∧
        f.segs = pre ++ ds ++ [name] ∧ dirsOk c pre ds ∧
        shouldIgnore c (relStr f.segs) name false = false ∧ c.minAge ≤ now - ageT ∧ allow f = true
  | [], _, _, h => by simp [walkList] at h
  | k :: ks, pre, f, h => by
    simp only [walkList, List.mem_append] at h
    rcases h with h | h
    · obtain ⟨ds, name, m, ageT, hr, rest⟩ := walkNode_sound c now allow k pre f h
      exact ⟨ds, name, m, ageT, reach_single_of_mem (by simp) hr, rest⟩
    · obtain ⟨ds, name, m, ageT, hr, rest⟩ := walkList_sound c now allow ks pre f h
      obtain ⟨k', hk', hr'⟩ := reach_mem_single hr
      exact ⟨ds, name, m, ageT, reach_single_of_mem (List.mem_cons_of_mem _ hk') hr', rest⟩
end


theorem walkList_complete (c : StoreConf) (now : Int) (allow : Found → Bool)
    {kids : List Node} {ds : List String} {m : Node} (hr : Reach c.follow kids ds m) :
    ∀ (pre : List String) (name : String) (ageT size mtime : Int),
      IsFileNode c.follow m name ageT size mtime → dirsOk c pre ds →
      shouldIgnore c (relStr (pre ++ ds ++ [name])) name false = false → c.minAge ≤ now - ageT →
      allow ⟨pre ++ ds ++ [name], size, mtime⟩ = true →
      (⟨pre ++ ds ++ [name], size, mtime⟩ : Found) ∈ walkList c now allow pre kids := by
  induction hr with
  | here hmem =>
    intro pre name ageT size mtime hf _ hi ha hal
    rw [walkList_mem]
    refine ⟨_, hmem, ?_⟩
    rcases hf with ⟨rfl, rfl⟩ | ⟨lm, r, rfl, rfl⟩
    · simp only [walkNode]
      rw [leaf_mem]
      simp only [List.append_nil] at hi hal ⊢
      exact ⟨trivial, hi, ha, hal⟩
    · simp only [walkNode]
      rw [leaf_mem]
      simp only [List.append_nil] at hi hal ⊢
      exact ⟨trivial, hi, ha, hal⟩
  | @dir kids d ks ds n hmem _ ih =>
    intro pre name ageT size mtime hf hok hi ha hal
    rw [walkList_mem]
    refine ⟨_, hmem, ?_⟩
    simp only [walkNode]
    obtain ⟨hd, hok'⟩ := hok
    rw [if_neg (by simp [hd])]
    have := ih (pre ++ [d]) name ageT size mtime hf hok' (by simpa using hi) ha (by simpa using hal)
    simpa using this
  | @link kids d lm r ks ds n hfo hmem _ ih =>
    intro pre name ageT size mtime hf hok hi ha hal
    rw [walkList_mem]
    refine ⟨_, hmem, ?_⟩
    simp only [walkNode]
    obtain ⟨hd, hok'⟩ := hok
    rw [if_pos hfo, if_neg (by simp [hd])]
    have := ih (pre ++ [d]) name ageT size mtime hf hok' (by simpa using hi) ha (by simpa using hal)
    simpa using this

/-- The walk below `pre` returns exactly the files reachable through directories that are
    not pruned, that pass the file rules, are old enough, and that the caller allows. -/
theorem walkList_iff (c : StoreConf) (now : Int) (allow : Found → Bool) (pre : List String)
    (kids : List Node) (f : Found) :
    f ∈ walkList c now allow pre kids ↔
      ∃ ds name m ageT, Reach c.follow kids ds m ∧ IsFileNode c.follow m name ageT f.size f.mtime ∧
        f.segs = pre ++ ds ++ [name] ∧ dirsOk c pre ds ∧
        shouldIgnore c (relStr f.segs) name false = false ∧ c.minAge ≤ now - ageT ∧ allow f = true := by
  constructor
  · exact walkList_sound c now allow kids pre f
  · rintro ⟨ds, name, m, ageT, hr, hf, hs, hok, hi, ha, hal⟩
    have := walkList_complete c now allow hr pre name ageT f.size f.mtime hf hok
      (by rw [← hs]; exact hi) ha (by rw [← hs]; exact hal)
    rw [← hs] at this
    exact this

/-! ## `shouldIgnore` spelled out -/

theorem relStr_snoc_empty (xs : List String) (n : String) (h : relStr (xs ++ [n]) = "") : n = "" := by
  induction xs with
  | nil => simpa [relStr] using h
  | cons x xs _ =>
    cases xs with
    | nil => simp [relStr] at h
    | cons y ys => simp [relStr] at h

theorem hiddenName_empty : hiddenName "" = false := by decide

/-- A directory `rel` (last element `base`) is traversed iff it is not hidden (unless hidden
    names are included) and no ignore pattern matches its relative path.  Include patterns
    are not applied to directories. -/
theorem shouldIgnore_dir_false_iff (c : StoreConf) (xs : List String) (base : String) :
    shouldIgnore c (relStr (xs ++ [base])) base true = false ↔
      (c.includeHidden = true ∨ hiddenName base = false) ∧
      (∀ p ∈ c.ignore, p.test (relStr (xs ++ [base])) = false) := by
  unfold shouldIgnore
  by_cases hh : hiddenName base = true
  · have hne : relStr (xs ++ [base]) ≠ "" := by
      intro h0
      have := relStr_snoc_empty xs base h0
      subst this
      simp [hiddenName_empty] at hh
    cases hc : c.includeHidden <;> simp [hh, hne, List.any_eq_true]
  · have hh' : hiddenName base = false := by simpa using hh
    simp [hh', List.any_eq_true]

/-- A file passes the name rules iff its base name is not hidden (unless hidden names are
    included), no ignore pattern matches its relative path, and, when include patterns are
    configured, one of them matches its relative path. -/
theorem shouldIgnore_file_false_iff (c : StoreConf) (xs : List String) (base : String) :
    shouldIgnore c (relStr (xs ++ [base])) base false = false ↔
      (c.includeHidden = true ∨ hiddenName base = false) ∧
      (∀ p ∈ c.ignore, p.test (relStr (xs ++ [base])) = false) ∧
      (c.incl = [] ∨ ∃ p ∈ c.incl, p.test (relStr (xs ++ [base])) = true) := by
  unfold shouldIgnore
  by_cases hh : hiddenName base = true
  · have hne : relStr (xs ++ [base]) ≠ "" := by
      intro h0
      have := relStr_snoc_empty xs base h0
      subst this
      simp [hiddenName_empty] at hh
    cases hc : c.includeHidden <;> cases hi : c.incl with
    | nil => simp [hh, hne, List.any_eq_true]
    | cons q qs =>
      simp [hh, hne, List.any_eq_true]
      try (intro _; cases q.test (relStr (xs ++ [base])) <;> simp)
  · have hh' : hiddenName base = false := by simpa using hh
    cases hi : c.incl with
    | nil => simp [hh', List.any_eq_true]
    | cons q qs =>
      simp [hh', List.any_eq_true]
      intro _; cases q.test (relStr (xs ++ [base])) <;> simp

/-- `dirsOk` spelled out: every directory on the way is not hidden (unless enabled) and
    matches no ignore pattern with its relative path. -/
def DirsTraversed (c : StoreConf) : List String → List String → Prop
  | _, [] => True
  | pre, d :: ds =>
    ((c.includeHidden = true ∨ hiddenName d = false) ∧
      ∀ p ∈ c.ignore, p.test (relStr (pre ++ [d])) = false) ∧ DirsTraversed c (pre ++ [d]) ds

theorem dirsOk_iff (c : StoreConf) (pre ds : List String) : dirsOk c pre ds ↔ DirsTraversed c pre ds := by
  induction ds generalizing pre with
  | nil => simp [dirsOk, DirsTraversed]
  | cons d ds ih => simp only [dirsOk, DirsTraversed, shouldIgnore_dir_false_iff, ih]


/-! ## Change detection (`includeScannedFile`) -/

theorem cacheGet_some {cache : List CEntry} {k : List String} {e : CEntry}
    (h : cacheGet cache k = some e) : e ∈ cache ∧ e.segs = k := by
  unfold cacheGet at h
  exact ⟨List.mem_of_find?_eq_some h, by simpa using List.find?_some h⟩

/-- A scanned file is taken iff it is not empty and either unknown to the cache or different
    in size or mtime from its cache entry. -/
theorem includeScanned_iff (cache : List CEntry) (f : Found) :
    includeScanned cache f = true ↔
      f.size ≠ 0 ∧ ∀ e, cacheGet cache f.segs = some e → e.size ≠ f.size ∨ e.mtime ≠ f.mtime := by
  unfold includeScanned
  by_cases h0 : f.size = 0
  · simp [h0]
  · cases hg : cacheGet cache f.segs with
    | none => simp [h0]
    | some e =>
      simp only [beq_iff_eq, h0, if_false, Bool.or_eq_true, bne_iff_ne, ne_eq, not_false_eq_true,
        Option.some.injEq, forall_eq', true_and]

/-! ## The eligibility theorem -/

/-- `Local.Scan(allow)` returns nothing when the root is disabled, else the walk's result. -/
theorem storeScan_iff (c : StoreConf) (now : Int) (allow : Found → Bool) (kids : List Node) (f : Found) :
    f ∈ storeScan c now allow kids ↔
      hasDisabled kids = false ∧
      ∃ ds name m ageT,
        Reach c.follow kids ds m ∧ IsFileNode c.follow m name ageT f.size f.mtime ∧
        f.segs = ds ++ [name] ∧
        DirsTraversed c [] ds ∧
        (c.includeHidden = true ∨ hiddenName name = false) ∧
        (∀ p ∈ c.ignore, p.test f.name = false) ∧
        (c.incl = [] ∨ ∃ p ∈ c.incl, p.test f.name = true) ∧
        c.minAge ≤ now - ageT ∧ allow f = true := by
  unfold storeScan
  by_cases hd : hasDisabled kids = true
  · simp [hd]
  · have hd' : hasDisabled kids = false := by simpa using hd
    simp only [hd', Bool.false_eq_true, if_false, true_and]
    rw [walkList_iff]
    constructor
    · rintro ⟨ds, name, m, ageT, hr, hf, hs, hok, hi, ha, hal⟩
      simp only [List.nil_append] at hs
      rw [hs, shouldIgnore_file_false_iff] at hi
      refine ⟨ds, name, m, ageT, hr, hf, hs, (dirsOk_iff ..).1 hok, hi.1, ?_, ?_, ha, hal⟩
      · simpa [Found.name, hs] using hi.2.1
      · simpa [Found.name, hs] using hi.2.2
    · rintro ⟨ds, name, m, ageT, hr, hf, hs, hok, hh, hig, hin, ha, hal⟩
      refine ⟨ds, name, m, ageT, hr, hf, by simpa using hs, (dirsOk_iff ..).2 hok, ?_, ha, hal⟩
      rw [hs, shouldIgnore_file_false_iff]
      exact ⟨hh, by simpa [Found.name, hs] using hig, by simpa [Found.name, hs] using hin⟩

/-- **eligible_iff** (full).  The scan of `Broker.scan()` — `Local.Scan` filtered by
    `includeScannedFile` — returns `f` if and only if
    * the root holds no entry called `.disabled`,
    * `f` is a regular file, or a symbolic link to one, reached from the root through real
      directories (through links to directories only with FollowSymlinks), and `f` carries
      the size and mtime of the file (of the link's TARGET for a link),
    * no directory on that way has a hidden name (unless hidden names are included) or a
      relative path matched by an ignore pattern (include patterns do not apply to
      directories),
    * its own base name is not hidden (unless enabled),
    * no ignore pattern matches its relative path (the patterns of `configure` contain the
      `.lck` suffix, the disable-marker name and the patterns of the non-HTTP tags),
    * there are no include patterns or one matches its relative path,
    * its age, measured at the scan's start, is at least the minimum age (for a link that
      is not followed: the age of the LINK, not of the target),
    * it is not empty, and
    * it is not in the cache, or its size or its mtime differ from the cache entry. -/
theorem eligible_iff (c : StoreConf) (now : Int) (cache : List CEntry) (kids : List Node) (f : Found) :
    f ∈ storeScan c now (includeScanned cache) kids ↔
      hasDisabled kids = false ∧
      ∃ ds name m ageT,
        Reach c.follow kids ds m ∧ IsFileNode c.follow m name ageT f.size f.mtime ∧
        f.segs = ds ++ [name] ∧
        DirsTraversed c [] ds ∧
        (c.includeHidden = true ∨ hiddenName name = false) ∧
        (∀ p ∈ c.ignore, p.test f.name = false) ∧
        (c.incl = [] ∨ ∃ p ∈ c.incl, p.test f.name = true) ∧
        c.minAge ≤ now - ageT ∧
        f.size ≠ 0 ∧
        (∀ e, cacheGet cache f.segs = some e → e.size ≠ f.size ∨ e.mtime ≠ f.mtime) := by
  rw [storeScan_iff]
  simp only [includeScanned_iff]

/-- the caller's filter only removes results -/
theorem storeScan_filter (c : StoreConf) (now : Int) (allow : Found → Bool) (kids : List Node) (f : Found) :
    f ∈ storeScan c now allow kids ↔ f ∈ storeScan c now (fun _ => true) kids ∧ allow f = true := by
  simp only [storeScan_iff]
  constructor
  · rintro ⟨h0, ds, name, m, ageT, h1, h2, h3, h4, h5, h6, h7, h8, h9⟩
    exact ⟨⟨h0, ds, name, m, ageT, h1, h2, h3, h4, h5, h6, h7, h8, trivial⟩, h9⟩
  · rintro ⟨⟨h0, ds, name, m, ageT, h1, h2, h3, h4, h5, h6, h7, h8, _⟩, h9⟩
    exact ⟨h0, ds, name, m, ageT, h1, h2, h3, h4, h5, h6, h7, h8, h9⟩

/-- **unchanged_not_again**: a file whose size and mtime equal its cache entry is not
    returned by a scan, whatever the tree and the settings. -/
theorem unchanged_not_again (c : StoreConf) (now : Int) (cache : List CEntry) (kids : List Node)
    (f : Found) (e : CEntry) (hg : cacheGet cache f.segs = some e)
    (hs : e.size = f.size) (ht : e.mtime = f.mtime) :
    f ∉ storeScan c now (includeScanned cache) kids := by
  intro h
  have := ((storeScan_filter ..).1 h).2
  rw [includeScanned_iff] at this
  rcases this.2 e hg with h' | h' <;> contradiction

/-- **changed_again**: a non-empty file that the store would return (eligible by name, place
    and age) IS returned when it is unknown to the cache or differs from its cache entry in
    size or mtime. -/
theorem changed_again (c : StoreConf) (now : Int) (cache : List CEntry) (kids : List Node)
    (f : Found) (hel : f ∈ storeScan c now (fun _ => true) kids) (h0 : f.size ≠ 0)
    (hch : ∀ e, cacheGet cache f.segs = some e → e.size ≠ f.size ∨ e.mtime ≠ f.mtime) :
    f ∈ storeScan c now (includeScanned cache) kids :=
  (storeScan_filter ..).2 ⟨hel, (includeScanned_iff ..).2 ⟨h0, hch⟩⟩

/-- an empty file is never returned -/
theorem zero_length_never (c : StoreConf) (now : Int) (cache : List CEntry) (kids : List Node)
    (f : Found) (h : f ∈ storeScan c now (includeScanned cache) kids) : f.size ≠ 0 :=
  (((includeScanned_iff ..).1 ((storeScan_filter ..).1 h).2)).1

/-- a disabled root yields nothing -/
theorem disabled_nothing (c : StoreConf) (now : Int) (allow : Found → Bool) (kids : List Node)
    (h : hasDisabled kids = true) : storeScan c now allow kids = [] := by
  simp [storeScan, h]

/-! ## Configuration by main (`clientApp.init`) -/

theorem mem_nonHttpPats (ts : List TagConf) (p : Pat) :
    p ∈ nonHttpPats ts ↔ ∃ t ∈ ts, t.pat = some p ∧ t.method ≠ methodHTTP := by
  induction ts with
  | nil => simp [nonHttpPats]
  | cons t ts ih =>
    unfold nonHttpPats
    cases hp : t.pat with
    | none => simp [ih, hp]
    | some q =>
      by_cases hm : t.method = methodHTTP
      · simp [hm, ih, hp]
      · simp only [beq_iff_eq, hm, if_false, List.mem_cons, ih, exists_eq_or_imp, hp,
          Option.some.injEq, ne_eq, not_false_eq_true, and_true]
        constructor
        · rintro (rfl | h)
          · exact Or.inl rfl
          · exact Or.inr h
        · rintro (h | h)
          · exact Or.inl h.symm
          · exact Or.inr h

/-- The ignore patterns main gives the store: the configured ones, the lock extension, the
    disable marker, and the pattern of every tag whose (defaulted) method is not HTTP. -/
theorem configure_ignore_iff (hidden follow : Bool) (minAge : Int) (incl ign : List Pat)
    (tags : List TagConf) (p : Pat) :
    p ∈ (configure hidden follow minAge incl ign tags).1.ignore ↔
      p ∈ ign ∨ p = ⟨.suf, lockExt⟩ ∨ p = ⟨.seg, disabledName⟩ ∨
      ∃ t ∈ setDefaultTags tags, t.pat = some p ∧ t.method ≠ methodHTTP := by
  simp [configure, addStandardIgnore, mem_nonHttpPats]

/-- Files with the lock extension, files called like the disable marker, and files matching
    the pattern of a non-HTTP tag are never returned by a scan of a store configured by main. -/
theorem standard_ignores_hold (hidden follow : Bool) (minAge : Int) (incl ign : List Pat)
    (tags : List TagConf) (now : Int) (allow : Found → Bool) (kids : List Node) (f : Found)
    (h : f ∈ storeScan (configure hidden follow minAge incl ign tags).1 now allow kids) :
    (⟨.suf, lockExt⟩ : Pat).test f.name = false ∧
    (⟨.seg, disabledName⟩ : Pat).test f.name = false ∧
    (∀ p ∈ ign, p.test f.name = false) ∧
    ∀ t ∈ setDefaultTags tags, ∀ p, t.pat = some p → t.method ≠ methodHTTP → p.test f.name = false := by
  obtain ⟨_, ds, name, m, ageT, _, _, _, _, _, hig, _⟩ := (storeScan_iff ..).1 h
  refine ⟨hig _ ?_, hig _ ?_, fun p hp => hig _ ?_, fun t ht p hp hm => hig _ ?_⟩
  · exact (configure_ignore_iff ..).2 (Or.inr (Or.inl rfl))
  · exact (configure_ignore_iff ..).2 (Or.inr (Or.inr (Or.inl rfl)))
  · exact (configure_ignore_iff ..).2 (Or.inl hp)
  · exact (configure_ignore_iff ..).2 (Or.inr (Or.inr (Or.inr ⟨t, ht, hp, hm⟩)))

/-- the other store settings are passed through unchanged -/
theorem configure_passthrough (hidden follow : Bool) (minAge : Int) (incl ign : List Pat)
    (tags : List TagConf) :
    let c := (configure hidden follow minAge incl ign tags).1
    c.includeHidden = hidden ∧ c.follow = follow ∧ c.minAge = minAge ∧ c.incl = incl := by
  simp [configure]


/-! ## `canDelete` and the clean-up step of `Broker.scan()` -/

theorem getTag_foldl (tags : List Tag) (n : String) (r0 : Option Tag) (t : Tag)
    (h : tags.foldl (fun r t => if t.name == n then some t else r) r0 = some t) :
    (t ∈ tags ∧ t.name = n) ∨ r0 = some t := by
  induction tags generalizing r0 with
  | nil => exact Or.inr h
  | cons a as ih =>
    simp only [List.foldl_cons] at h
    rcases ih _ h with h' | h'
    · exact Or.inl ⟨List.mem_cons_of_mem _ h'.1, h'.2⟩
    · by_cases ha : (a.name == n) = true
      · simp only [ha, if_true, Option.some.injEq] at h'
        subst h'
        exact Or.inl ⟨List.mem_cons_self, by simpa using ha⟩
      · simp only [ha, Bool.false_eq_true, if_false] at h'
        exact Or.inr h'

theorem getTag_some {tags : List Tag} {n : String} {t : Tag} (h : getTag tags n = some t) :
    t ∈ tags ∧ t.name = n := by
  rcases getTag_foldl tags n none t h with h' | h'
  · exact h'
  · cases h'

/-- `canDelete` holds iff the tag the Tagger names for the file exists, has `delete` set,
    and its delete-delay is zero or shorter than the file's age (by its cached mtime). -/
theorem canDelete_iff (b : BConf) (now : Int) (e : CEntry) :
    canDelete b now e = true ↔
      ∃ t, getTag b.tags (b.tagger (relStr e.segs)) = some t ∧ t.delete = true ∧
        (t.delay = 0 ∨ t.delay < now - e.mtime) := by
  unfold canDelete
  cases hg : getTag b.tags (b.tagger (relStr e.segs)) with
  | none => simp
  | some t =>
    have hm := (getTag_some hg).1
    by_cases hd : t.delete = true
    · have hany : b.tags.any (·.delete) = true := List.any_eq_true.2 ⟨t, hm, hd⟩
      by_cases h0 : t.delay = 0
      · simp [hany, hd, h0]
      · simp [hany, hd, h0]
    · simp [hd]

theorem storeRemove_some {tree : List Node} {k : List String} {t' : List Node}
    (h : storeRemove tree k = some t') : t' = removeAt tree k := by
  unfold storeRemove at h
  split at h <;> simp at h <;> exact h.symm

/-- One iteration of the (repaired) clean-up loop either leaves tree, cache and removal log
    alone, or it removes the path of an entry that has a hash, is done, may be deleted now,
    and whose file `Sync` reports as unchanged or as already gone. -/
theorem cleanStep_cases (follow : Bool) (b : BConf) (now : Int) (acc : CleanAcc) (e : CEntry) :
    ((cleanStep follow b now acc e).tree = acc.tree ∧
      (cleanStep follow b now acc e).cache = acc.cache ∧
      (cleanStep follow b now acc e).removed = acc.removed) ∨
    (e.hashed = true ∧ e.done = true ∧ canDelete b now e = true ∧
      (syncRes follow acc.tree e = .same ∨ syncRes follow acc.tree e = .missing) ∧
      (cleanStep follow b now acc e).tree = removeAt acc.tree e.segs ∧
      (cleanStep follow b now acc e).cache = cacheRemove acc.cache e.segs ∧
      (cleanStep follow b now acc e).removed = acc.removed ++ [e.segs]) := by
  unfold cleanStep
  by_cases hh : e.hashed = true
  · by_cases hd : (e.done && canDelete b now e) = true
    · have hd' := hd
      simp only [Bool.and_eq_true] at hd'
      simp only [hh, Bool.not_true, Bool.false_eq_true, if_false, hd, if_true]
      cases hs : syncRes follow acc.tree e with
      | changed => left; simp
      | error => left; simp
      | same =>
        cases hr : storeRemove acc.tree e.segs with
        | none => left; simp
        | some t' =>
          right
          have := storeRemove_some hr
          subst this
          exact ⟨trivial, hd'.1, hd'.2, Or.inl rfl, rfl, rfl, rfl⟩
      | missing =>
        cases hr : storeRemove acc.tree e.segs with
        | none => left; simp
        | some t' =>
          right
          have := storeRemove_some hr
          subst this
          exact ⟨trivial, hd'.1, hd'.2, Or.inr rfl, rfl, rfl, rfl⟩
    · left
      simp [hh, hd]
  · left
    simp [hh]

/-- **cleanup_never_removes_changed** (step): when `Sync` says the file is not the cached
    version any more, the clean-up step removes nothing — neither the file nor the entry. -/
theorem cleanStep_keeps_changed (follow : Bool) (b : BConf) (now : Int) (acc : CleanAcc) (e : CEntry)
    (h : syncRes follow acc.tree e = .changed) :
    (cleanStep follow b now acc e).tree = acc.tree ∧
    (cleanStep follow b now acc e).cache = acc.cache ∧
    (cleanStep follow b now acc e).removed = acc.removed := by
  rcases cleanStep_cases follow b now acc e with h' | ⟨_, _, _, hs, _⟩
  · exact h'
  · rcases hs with hs | hs <;> rw [h] at hs <;> cases hs

/-- a regular file whose size or mtime differ from the entry is "changed" for `Sync` -/
theorem syncRes_changed_of_file (follow : Bool) (tree : List Node) (e : CEntry) (n : String)
    (sz mt : Int) (hl : lookup tree e.segs = .node (.file n sz mt))
    (hd : sz ≠ e.size ∨ mt ≠ e.mtime) : syncRes follow tree e = .changed := by
  unfold syncRes
  rw [hl]
  rcases hd with hd | hd <;> simp [syncOf, hd]

theorem syncRes_changed_of_linkFile (follow : Bool) (tree : List Node) (e : CEntry) (n : String)
    (lm : Int) (r : Bool) (sz mt : Int) (hl : lookup tree e.segs = .node (.linkFile n lm r sz mt))
    (hd : sz ≠ e.size ∨ mt ≠ e.mtime) : syncRes follow tree e = .changed := by
  unfold syncRes
  rw [hl]
  rcases hd with hd | hd <;> simp [syncOf, hd]

/-- invariant of the clean-up fold -/
theorem cleanup_fold_inv (follow : Bool) (b : BConf) (now : Int) (P : List String → Prop)
    (Q : CEntry → Prop) (hstep : ∀ e, Q e → e.hashed = true → e.done = true →
      canDelete b now e = true → P e.segs) :
    ∀ (es : List CEntry) (acc : CleanAcc), (∀ e ∈ es, Q e) → (∀ k ∈ acc.removed, P k) →
      ∀ k ∈ (es.foldl (cleanStep follow b now) acc).removed, P k := by
  intro es
  induction es with
  | nil => intro acc _ h; simpa using h
  | cons e es ih =>
    intro acc hq h
    simp only [List.foldl_cons]
    apply ih
    · intro e' he'; exact hq e' (List.mem_cons_of_mem _ he')
    · rcases cleanStep_cases follow b now acc e with h' | ⟨h1, h2, h3, _, _, _, h7⟩
      · rw [h'.2.2]; exact h
      · rw [h7]
        intro k hk
        simp only [List.mem_append, List.mem_singleton] at hk
        rcases hk with hk | rfl
        · exact h k hk
        · exact hstep e (hq e List.mem_cons_self) h1 h2 h3

/-- **cleanup_only_done_deletable**: every path the scan clean-up removes is the name of a
    cache entry that has a hash, is done, and whose tag allows deletion now. -/
theorem cleanup_only_done_deletable (follow : Bool) (b : BConf) (now : Int) (s : SState) :
    ∀ k ∈ (cleanup follow b now s).removed,
      ∃ e ∈ s.cache, e.segs = k ∧ e.hashed = true ∧ e.done = true ∧ canDelete b now e = true := by
  unfold cleanup
  exact cleanup_fold_inv follow b now
    (fun k => ∃ e ∈ s.cache, e.segs = k ∧ e.hashed = true ∧ e.done = true ∧ canDelete b now e = true)
    (fun e => e ∈ s.cache) (fun e he h1 h2 h3 => ⟨e, he, rfl, h1, h2, h3⟩)
    s.cache ⟨s.tree, s.cache, [], []⟩ (fun e he => he) (fun k hk => by cases hk)

/-- the clean-up changes tree and cache only through the logged removals, in order -/
theorem cleanup_effects (follow : Bool) (b : BConf) (now : Int) (s : SState) :
    (cleanup follow b now s).tree = (cleanup follow b now s).removed.foldl removeAt s.tree ∧
    (cleanup follow b now s).cache = (cleanup follow b now s).removed.foldl cacheRemove s.cache := by
  unfold cleanup
  suffices h : ∀ (es : List CEntry) (acc : CleanAcc),
      acc.tree = acc.removed.foldl removeAt s.tree ∧ acc.cache = acc.removed.foldl cacheRemove s.cache →
      (es.foldl (cleanStep follow b now) acc).tree =
        (es.foldl (cleanStep follow b now) acc).removed.foldl removeAt s.tree ∧
      (es.foldl (cleanStep follow b now) acc).cache =
        (es.foldl (cleanStep follow b now) acc).removed.foldl cacheRemove s.cache by
    exact h s.cache ⟨s.tree, s.cache, [], []⟩ ⟨rfl, rfl⟩
  intro es
  induction es with
  | nil => intro acc h; simpa using h
  | cons e es ih =>
    intro acc h
    simp only [List.foldl_cons]
    apply ih
    rcases cleanStep_cases follow b now acc e with h' | ⟨_, _, _, _, h5, h6, h7⟩
    · rw [h'.1, h'.2.1, h'.2.2]; exact h
    · rw [h5, h6, h7, List.foldl_append, List.foldl_append, ← h.1, ← h.2]
      simp


/-! ### removals of other paths do not hide a change -/

theorem findKid_cons (a : Node) (as : List Node) (m : String) :
    findKid (a :: as) m = if a.name = m then some a else findKid as m := by
  unfold findKid
  by_cases h : a.name = m <;> simp [h]

theorem findKid_eraseP_ne (kids : List Node) (n m : String) (h : m ≠ n) :
    findKid (kids.eraseP (fun k => k.name == n)) m = findKid kids m := by
  induction kids with
  | nil => rfl
  | cons a as ih =>
    by_cases ha : a.name = n
    · have hne : ¬ a.name = m := by rw [ha]; exact fun h' => h h'.symm
      have hb : (a.name == n) = true := by simp [ha]
      rw [List.eraseP_cons, hb, findKid_cons, if_neg hne]
      rfl
    · have hb : (a.name == n) = false := by simpa using ha
      rw [List.eraseP_cons, hb]
      simp only [cond_false]
      rw [findKid_cons, findKid_cons, ih]

theorem findKid_updFirst_ne (d m : String) (g : Node → Node) (kids : List Node) (h : m ≠ d)
    (hg : ∀ k, (g k).name = k.name) : findKid (updFirst d g kids) m = findKid kids m := by
  induction kids with
  | nil => rfl
  | cons a as ih =>
    unfold updFirst
    by_cases ha : a.name = d
    · have hne : ¬ a.name = m := by rw [ha]; exact fun h' => h h'.symm
      have hb : (a.name == d) = true := by simp [ha]
      rw [if_pos hb, findKid_cons, findKid_cons, hg, if_neg hne, if_neg hne]
    · have hb : ¬ (a.name == d) = true := by simpa using ha
      rw [if_neg hb, findKid_cons, findKid_cons, ih]

theorem findKid_updFirst_eq (d : String) (g : Node → Node) (kids : List Node)
    (hg : ∀ k, (g k).name = k.name) : findKid (updFirst d g kids) d = (findKid kids d).map g := by
  induction kids with
  | nil => rfl
  | cons a as ih =>
    unfold updFirst
    by_cases ha : a.name = d
    · have hb : (a.name == d) = true := by simp [ha]
      rw [if_pos hb, findKid_cons, findKid_cons, hg, if_pos ha, if_pos ha]
      rfl
    · have hb : ¬ (a.name == d) = true := by simpa using ha
      rw [if_neg hb, findKid_cons, findKid_cons, if_neg ha, if_neg ha, ih]

/-- what is found is not something a path can run through -/
def Look.notDirish : Look → Prop
  | .node (.dir _ _) => False
  | .node (.linkDir _ _ _ _) => False
  | _ => True

/-- the function `removeAt` applies to the directory on the way -/
def descend (ds : List String) : Node → Node
  | .dir n ks => .dir n (removeAt ks ds)
  | .linkDir n l r ks => .linkDir n l r (removeAt ks ds)
  | k => k

theorem descend_name (ds : List String) (k : Node) : (descend ds k).name = k.name := by
  cases k <;> rfl

theorem removeAt_cons2 (kids : List Node) (d d2 : String) (ds : List String) :
    removeAt kids (d :: d2 :: ds) = updFirst d (descend (d2 :: ds)) kids := by
  simp only [removeAt]
  congr 1

theorem lookup_cons2 (kids : List Node) (d d2 : String) (ds : List String) :
    lookup kids (d :: d2 :: ds) =
      match findKid kids d with
      | some (.dir _ ks) => lookup ks (d2 :: ds)
      | some (.linkDir _ _ _ ks) => lookup ks (d2 :: ds)
      | some (.file _ _ _) => .notdir
      | some (.linkFile _ _ _ _ _) => .notdir
      | _ => .noent := by
  simp only [lookup]
  cases findKid kids d with
  | none => rfl
  | some k0 => cases k0 <;> rfl

/-- Removing a path `k` at which there is no directory cannot turn a `changed` verdict of
    `Sync` for another path `p` into something else. -/
theorem syncOf_changed_removeAt (follow : Bool) (e : CEntry) :
    ∀ (k p : List String) (tree : List Node), p ≠ k → (lookup tree k).notDirish →
      syncOf follow e (lookup tree p) = .changed →
      syncOf follow e (lookup (removeAt tree k) p) = .changed := by
  intro k
  induction k with
  | nil => intro p tree _ _ h; simpa [removeAt] using h
  | cons d ds ih =>
    cases ds with
    | nil =>
      intro p tree hne hnd h
      simp only [removeAt]
      match p, hne, h with
      | [], _, h => simpa [lookup] using h
      | [m], hne, h =>
        have hm : m ≠ d := fun h' => hne (by rw [h'])
        simp only [lookup] at h ⊢
        rw [findKid_eraseP_ne _ _ _ hm]
        exact h
      | m :: q :: qs, _, h =>
        by_cases hm : m = d
        · subst hm
          exfalso
          rw [lookup_cons2] at h
          simp only [lookup] at hnd
          cases hf : findKid tree m with
          | none => simp [hf, syncOf] at h
          | some k0 =>
            rw [hf] at h hnd
            cases k0 <;> simp [syncOf, Look.notDirish] at h hnd
        · rw [lookup_cons2] at h ⊢
          rw [findKid_eraseP_ne _ _ _ hm]
          exact h
    | cons d2 ds' =>
      intro p tree hne hnd h
      rw [removeAt_cons2]
      match p, hne, h with
      | [], _, h => simpa [lookup] using h
      | [m], _, h =>
        by_cases hm : m = d
        · subst hm
          simp only [lookup] at h ⊢
          rw [findKid_updFirst_eq _ _ _ (descend_name _)]
          cases hf : findKid tree m with
          | none => simp [hf] at h ⊢; exact h
          | some k0 =>
            rw [hf] at h
            cases k0 <;> (simp [descend, syncOf] at h ⊢ <;> try exact h)
        · simp only [lookup] at h ⊢
          rw [findKid_updFirst_ne _ _ _ _ hm (descend_name _)]
          exact h
      | m :: q :: qs, hne, h =>
        by_cases hm : m = d
        · subst hm
          have hne' : q :: qs ≠ d2 :: ds' := fun h' => hne (by rw [h'])
          rw [lookup_cons2] at h ⊢
          rw [lookup_cons2] at hnd
          rw [findKid_updFirst_eq _ _ _ (descend_name _)]
          cases hf : findKid tree m with
          | none => simp [hf] at h ⊢; exact h
          | some k0 =>
            rw [hf] at h hnd
            cases k0 with
            | dir n ks => exact ih (q :: qs) ks hne' hnd h
            | linkDir n l r ks => exact ih (q :: qs) ks hne' hnd h
            | file _ _ _ => simpa [descend] using h
            | linkFile _ _ _ _ _ => simpa [descend] using h
            | linkLoop _ _ _ => simpa [descend] using h
            | linkDead _ _ _ => simpa [descend] using h
        · rw [lookup_cons2] at h ⊢
          rw [findKid_updFirst_ne _ _ _ _ hm (descend_name _)]
          exact h


theorem notDirish_of_sync (follow : Bool) (e : CEntry) (l : Look)
    (h : syncOf follow e l = .same ∨ syncOf follow e l = .missing) : l.notDirish := by
  cases l with
  | noent => trivial
  | notdir => trivial
  | node n =>
    cases n <;> simp [Look.notDirish]
    · rcases h with h | h <;> simp [syncOf] at h
    · rcases h with h | h <;> (cases follow <;> simp [syncOf] at h)

/-- **cleanup_never_removes_changed** (whole clean-up, against the tree the scan started
    with): every path the repaired clean-up removes is the name of a cache entry that has a
    hash, is done, may be deleted now, and for which `Sync` on the INITIAL tree does not say
    "changed".  In particular a regular file (or a link to one) whose size or mtime differ
    from every done entry of its name survives the clean-up. -/
theorem cleanup_never_removes_changed (follow : Bool) (b : BConf) (now : Int) (s : SState) :
    ∀ k ∈ (cleanup follow b now s).removed,
      ∃ e ∈ s.cache, e.segs = k ∧ e.hashed = true ∧ e.done = true ∧ canDelete b now e = true ∧
        syncRes follow s.tree e ≠ .changed := by
  unfold cleanup
  suffices h : ∀ (es : List CEntry) (acc : CleanAcc), (∀ e ∈ es, e ∈ s.cache) →
      (∀ e', syncRes follow s.tree e' = .changed →
        syncRes follow acc.tree e' = .changed ∨ e'.segs ∈ acc.removed) →
      (∀ k ∈ acc.removed, ∃ e ∈ s.cache, e.segs = k ∧ e.hashed = true ∧ e.done = true ∧
        canDelete b now e = true ∧ syncRes follow s.tree e ≠ .changed) →
      ∀ k ∈ (es.foldl (cleanStep follow b now) acc).removed,
        ∃ e ∈ s.cache, e.segs = k ∧ e.hashed = true ∧ e.done = true ∧
          canDelete b now e = true ∧ syncRes follow s.tree e ≠ .changed by
    exact h s.cache ⟨s.tree, s.cache, [], []⟩ (fun e he => he) (fun e' he' => Or.inl he')
      (fun k hk => by cases hk)
  intro es
  induction es with
  | nil => intro acc _ _ h; simpa using h
  | cons e es ih =>
    intro acc hmem hinv hP
    simp only [List.foldl_cons]
    have hmem' : ∀ e' ∈ es, e' ∈ s.cache := fun e' he' => hmem e' (List.mem_cons_of_mem _ he')
    rcases cleanStep_cases follow b now acc e with h' | ⟨h1, h2, h3, h4, h5, _, h7⟩
    · apply ih _ hmem'
      · rw [h'.1, h'.2.2]; exact hinv
      · rw [h'.2.2]; exact hP
    · have hnd : (lookup acc.tree e.segs).notDirish := notDirish_of_sync follow e _ h4
      apply ih _ hmem'
      · intro e' he'
        rw [h5, h7]
        rcases hinv e' he' with hc | hc
        · by_cases hk : e'.segs = e.segs
          · right; simp [hk]
          · left
            exact syncOf_changed_removeAt follow e' e.segs e'.segs acc.tree hk hnd hc
        · right; simp [hc]
      · rw [h7]
        intro k hk
        simp only [List.mem_append, List.mem_singleton] at hk
        rcases hk with hk | rfl
        · exact hP k hk
        · by_cases hc : syncRes follow s.tree e = .changed
          · rcases hinv e hc with hc' | hc'
            · exfalso
              rcases h4 with h4 | h4 <;> rw [hc'] at h4 <;> cases h4
            · exact hP _ hc'
          · exact ⟨e, hmem e List.mem_cons_self, rfl, h1, h2, h3, hc⟩

/-- the concrete reading: if the tree at scan start holds at `k` a regular file whose size
    or mtime differ from EVERY cache entry of that name, the clean-up does not remove `k`. -/
theorem cleanup_spares_changed_file (follow : Bool) (b : BConf) (now : Int) (s : SState)
    (k : List String) (n : String) (sz mt : Int)
    (hl : lookup s.tree k = .node (.file n sz mt))
    (hd : ∀ e ∈ s.cache, e.segs = k → sz ≠ e.size ∨ mt ≠ e.mtime) :
    k ∉ (cleanup follow b now s).removed := by
  intro hk
  obtain ⟨e, he, hs, _, _, _, hc⟩ := cleanup_never_removes_changed follow b now s k hk
  apply hc
  apply syncRes_changed_of_file follow s.tree e n sz mt
  · rw [hs]; exact hl
  · exact hd e he hs


/-! ## The cache: `Add` starts a new version -/

theorem cacheAdd_get (cache : List CEntry) (k : List String) (size mtime : Int) (hashed : Bool) :
    cacheGet (cacheAdd cache k size mtime hashed) k = some ⟨k, size, mtime, hashed, false⟩ := by
  induction cache with
  | nil => simp [cacheAdd, cacheGet]
  | cons e es ih =>
    unfold cacheAdd
    by_cases he : e.segs = k
    · simp [he, cacheGet]
    · have : (e.segs == k) = false := by simpa using he
      simp only [this, Bool.false_eq_true, if_false]
      unfold cacheGet at ih ⊢
      simp only [List.find?_cons, this]
      exact ih

theorem cacheAdd_get_ne (cache : List CEntry) (k k' : List String) (size mtime : Int) (hashed : Bool)
    (h : k' ≠ k) : cacheGet (cacheAdd cache k size mtime hashed) k' = cacheGet cache k' := by
  induction cache with
  | nil =>
    have : (k == k') = false := by simpa using fun h' => h h'.symm
    simp [cacheAdd, cacheGet, this]
  | cons e es ih =>
    unfold cacheAdd
    by_cases he : e.segs = k
    · have h1 : (e.segs == k) = true := by simpa using he
      have h2 : (e.segs == k') = false := by rw [he]; simpa using fun h' => h h'.symm
      have h3 : (k == k') = false := by simpa using fun h' => h h'.symm
      simp [cacheGet, he, h3]
    · have : (e.segs == k) = false := by simpa using he
      simp only [this, Bool.false_eq_true, if_false]
      unfold cacheGet at ih ⊢
      simp only [List.find?_cons]
      split
      · rfl
      · exact ih

/-- **add_resets_done**: whatever the cache held, after `Add` the entry of that name carries
    the new size and mtime and is NOT done; other names are untouched. -/
theorem add_resets_done (cache : List CEntry) (k : List String) (size mtime : Int) (hashed : Bool) :
    ∃ e, cacheGet (cacheAdd cache k size mtime hashed) k = some e ∧ e.size = size ∧
      e.mtime = mtime ∧ e.done = false :=
  ⟨_, cacheAdd_get .., rfl, rfl, rfl⟩

/-! ## What `scan()` hands on -/

theorem cleanup_strag (follow : Bool) (b : BConf) (now : Int) (s : SState) :
    ∀ k ∈ (cleanup follow b now s).strag, ∃ e ∈ s.cache, e.hashed = false ∧ e.segs = k := by
  unfold cleanup
  suffices h : ∀ (es : List CEntry) (acc : CleanAcc), (∀ e ∈ es, e ∈ s.cache) →
      (∀ k ∈ acc.strag, ∃ e ∈ s.cache, e.hashed = false ∧ e.segs = k) →
      ∀ k ∈ (es.foldl (cleanStep follow b now) acc).strag, ∃ e ∈ s.cache, e.hashed = false ∧ e.segs = k by
    exact h s.cache ⟨s.tree, s.cache, [], []⟩ (fun e he => he) (fun k hk => by cases hk)
  intro es
  induction es with
  | nil => intro acc _ h; simpa using h
  | cons e es ih =>
    intro acc hmem h
    simp only [List.foldl_cons]
    apply ih _ (fun e' he' => hmem e' (List.mem_cons_of_mem _ he'))
    unfold cleanStep
    by_cases hh : e.hashed = true
    · simp only [hh, Bool.not_true, Bool.false_eq_true, if_false]
      split
      · split <;> try exact h
        split <;> exact h
      · exact h
    · have hh' : e.hashed = false := by simpa using hh
      simp only [hh', Bool.not_false, if_true]
      intro k hk
      simp only [List.mem_append, List.mem_singleton] at hk
      rcases hk with hk | rfl
      · exact h k hk
      · exact ⟨e, hmem e List.mem_cons_self, hh', rfl⟩

/-- **ready_only_scanned_or_straggler**: every name `scan()` hands on for queueing was
    returned by the store scan under the cache-based filter (so it satisfies `eligible_iff`),
    or it is the name of a cache entry that never got a hash (a file whose hashing failed in
    an earlier scan; these are retried without a new eligibility decision). -/
theorem ready_only_scanned_or_straggler (sc : StoreConf) (b : BConf) (now : Int) (stuck : Option Int)
    (s : SState) :
    let cache0 := match stuck with
      | some t => sweep sc.follow s.tree t s.cache
      | none => s.cache
    ∀ k ∈ (brokerScan sc b now stuck s).2,
      (∃ f ∈ storeScan sc now (includeScanned cache0) s.tree, f.segs = k) ∨
      (∃ e ∈ cache0, e.hashed = false ∧ e.segs = k) := by
  intro cache0 k hk
  simp only [brokerScan, brokerScanWith, List.mem_map, List.mem_filter, List.mem_append] at hk
  obtain ⟨w, ⟨hw, _⟩, rfl⟩ := hk
  rcases hw with ⟨f, hf, rfl⟩ | ⟨k', hk', rfl⟩
  · exact Or.inl ⟨f, hf, rfl⟩
  · right
    have := cleanup_strag sc.follow b now ⟨s.tree, cache0⟩ k' hk'
    exact this


/-! ## Witnesses: the code before the repairs violated the statements above

  Each `…_orig` theorem evaluates the model of the UNREPAIRED code (`…Orig` definitions of
  Model/Scan.lean) on a concrete input, next to the repaired model on the same input.  The
  same inputs are corpus cases of the harness component `scan`, where the real code is run. -/

/-- the store settings of an otherwise empty configuration -/
def demoConf : StoreConf := (configure false false 0 [] [] []).1

/-- a small outgoing directory: two files and a link with a RELATIVE target -/
def demoTreeRel : List Node :=
  [.file "a.dat" 5 (-7200), .dir "sub" [.file "t.dat" 7 (-7200)], .linkFile "l1" (-7200) true 9 (-18000)]

/-- S16: a relative symbolic link made the whole scan fail (no file at all was returned);
    the repaired walk returns the two files and the link's target. -/
theorem relative_link_aborted_orig :
    storeScanOrig demoConf 0 (fun _ => true) "/data/out" "out" demoTreeRel = none ∧
    storeScan demoConf 0 (fun _ => true) demoTreeRel =
      [⟨["a.dat"], 5, -7200⟩, ⟨["sub", "t.dat"], 7, -7200⟩, ⟨["l1"], 9, -18000⟩] := by
  decide

/-- a dangling link had the same effect -/
theorem dangling_link_aborted_orig :
    storeScanOrig demoConf 0 (fun _ => true) "/data/out" "out"
      [.file "a.dat" 5 (-7200), .linkDead "dead" (-7200) false] = none ∧
    storeScan demoConf 0 (fun _ => true) [.file "a.dat" 5 (-7200), .linkDead "dead" (-7200) false] =
      [⟨["a.dat"], 5, -7200⟩] := by
  decide

/-- the root directory's own path was subjected to the hidden rule and to the ignore
    patterns: an outgoing directory called `.out`, or one whose path contains the text of an
    ignore pattern, was never scanned. -/
theorem root_path_matched_orig :
    storeScanOrig demoConf 0 (fun _ => true) "/data/.out" ".out" [.file "a.dat" 5 (-7200)] = some [] ∧
    storeScanOrig (configure false false 0 [] [⟨.inf, "dat"⟩] []).1 0 (fun _ => true) "/data/out" "out"
      [.file "a.txt" 5 (-7200)] = some [] ∧
    storeScan (configure false false 0 [] [⟨.inf, "dat"⟩] []).1 0 (fun _ => true)
      [.file "a.txt" 5 (-7200)] = [⟨["a.txt"], 5, -7200⟩] := by
  decide

/-- one default tag with delete enabled and a delete-delay of 3 (hours, say) -/
def demoB : BConf := ⟨[⟨"", true, 3⟩], fun _ => ""⟩

mutual
/-- the files (and links to files) that exist in a tree, with size and mtime: an observation
    of the tree that can be compared by evaluation -/
def nodeFiles (pre : List String) : Node → List Found
  | .file n sz mt => [⟨pre ++ [n], sz, mt⟩]
  | .dir n ks => listFiles (pre ++ [n]) ks
  | .linkFile n _ _ sz mt => [⟨pre ++ [n], sz, mt⟩]
  | .linkDir n _ _ ks => listFiles (pre ++ [n]) ks
  | .linkLoop _ _ _ => []
  | .linkDead _ _ _ => []
def listFiles (pre : List String) : List Node → List Found
  | [] => []
  | k :: ks => nodeFiles pre k ++ listFiles pre ks
end

/-- S3: a confirmed version (size 5, mtime -26) past its delete-delay, the file rewritten
    (size 9, mtime -2): the clean-up of the unrepaired `scan()` removed the NEW file, the
    scan handed nothing on and forgot the name; the repaired scan keeps the file, hands it
    on and records the new version as not done. -/
theorem cleanup_removed_changed_orig :
    let s0 : SState := ⟨[.file "a.dat" 9 (-2)], [⟨["a.dat"], 5, -26, true, true⟩]⟩
    (cleanupOrig false demoB 0 s0).removed = [["a.dat"]] ∧
    listFiles [] (brokerScanOrig demoConf demoB 0 none s0).1.tree = [] ∧
    (brokerScanOrig demoConf demoB 0 none s0).1.cache = [] ∧
    (brokerScanOrig demoConf demoB 0 none s0).2 = [] ∧
    listFiles [] (brokerScan demoConf demoB 0 none s0).1.tree = [⟨["a.dat"], 9, -2⟩] ∧
    (brokerScan demoConf demoB 0 none s0).1.cache = [⟨["a.dat"], 9, -2, true, false⟩] ∧
    (brokerScan demoConf demoB 0 none s0).2 = [["a.dat"]] := by
  decide

/-- `cache.Add` kept the done mark of the entry it replaced … -/
theorem add_kept_done_orig :
    cacheGet (cacheAddOrig [⟨["a.dat"], 5, -26, true, true⟩] ["a.dat"] 9 (-5) true) ["a.dat"]
      = some ⟨["a.dat"], 9, -5, true, true⟩ := by
  decide

/-- … so that, even with the clean-up repaired, the re-queued version was deleted by the
    NEXT scan's clean-up without ever having been confirmed (delete-delay 0). -/
theorem requeued_version_deleted_orig :
    let b : BConf := ⟨[⟨"", true, 0⟩], fun _ => ""⟩
    let s0 : SState := ⟨[.file "a.dat" 9 (-5)], [⟨["a.dat"], 5, -26, true, true⟩]⟩
    let s1 := (brokerScanWith cleanup cacheAddOrig demoConf b 0 none s0).1
    s1.cache = [⟨["a.dat"], 9, -5, true, true⟩] ∧
    listFiles [] (brokerScanWith cleanup cacheAddOrig demoConf b 0 none s1).1.tree = [] ∧
    listFiles [] (brokerScan demoConf b 0 none (brokerScan demoConf b 0 none s0).1).1.tree
      = [⟨["a.dat"], 9, -5⟩] := by
  decide

/-! ## Non-vacuity -/

/-- a tree and settings where every clause of `eligible_iff` decides some file -/
def demoTree : List Node :=
  [.file "a.dat" 5 (-7200), .file "b.dat" 0 (-7200), .file "c.txt" 5 (-7200), .file ".h.dat" 5 (-7200),
   .file "y.dat" 5 (-1800), .file "a.dat.lck" 5 (-7200), .file "keep.dat" 5 (-7200),
   .dir ".hd" [.file "i.dat" 5 (-7200)], .dir "tmp" [.file "j.dat" 5 (-7200)],
   .dir "sub" [.file "k.dat" 3 (-7200), .file "raw.dat" 3 (-7200)],
   .linkDir "lk" (-7200) false [.file "m.dat" 2 (-7200)]]

def demoStore : StoreConf :=
  (configure false false 3600 [⟨.suf, ".dat"⟩] [⟨.pre, "tmp"⟩] [⟨"disk", some ⟨.inf, "raw"⟩, false, 0⟩]).1

/-- of the thirteen files only two are returned: the others are empty, not included, hidden,
    too young, locked, cached unchanged, in a hidden or ignored directory, matched by a
    non-HTTP tag, or behind a directory link that is not followed -/
example : storeScan demoStore 0 (includeScanned [⟨["keep.dat"], 5, -7200, true, false⟩]) demoTree =
    [⟨["a.dat"], 5, -7200⟩, ⟨["sub", "k.dat"], 3, -7200⟩] := by decide

/-- with FollowSymlinks the file behind the directory link is returned too -/
example : storeScan { demoStore with follow := true } 0 (includeScanned []) demoTree =
    [⟨["a.dat"], 5, -7200⟩, ⟨["keep.dat"], 5, -7200⟩, ⟨["sub", "k.dat"], 3, -7200⟩,
     ⟨["lk", "m.dat"], 2, -7200⟩] := by decide

/-- `Reach`, `IsFileNode`, `DirsTraversed` are inhabited for a nested file -/
example : Reach false [.dir "sub" [.file "k.dat" 3 (-7200)]] ["sub"] (.file "k.dat" 3 (-7200)) :=
  .dir List.mem_cons_self (.here List.mem_cons_self)
example : IsFileNode false (.file "k.dat" 3 (-7200)) "k.dat" (-7200) 3 (-7200) := Or.inl ⟨rfl, rfl⟩
example : DirsTraversed demoStore [] ["sub"] := by
  refine ⟨⟨Or.inr (by decide), ?_⟩, trivial⟩
  decide

/-- `unchanged_not_again` / `changed_again`: the hypotheses are satisfiable -/
example : cacheGet [⟨["keep.dat"], 5, -7200, true, false⟩] ["keep.dat"] =
    some ⟨["keep.dat"], 5, -7200, true, false⟩ := by decide
example : (⟨["a.dat"], 5, -7200⟩ : Found) ∈ storeScan demoStore 0 (fun _ => true) demoTree := by decide

/-- `canDelete_iff`, `cleanup_only_done_deletable`, `cleanup_never_removes_changed`: a
    clean-up that does remove something (unchanged, done, past its delay) and spares the
    changed file and the entry that is not done -/
example :
    (cleanup false demoB 0
      ⟨[.file "a.dat" 5 (-26), .file "b.dat" 9 (-2), .file "c.dat" 5 (-26)],
       [⟨["a.dat"], 5, -26, true, true⟩, ⟨["b.dat"], 5, -26, true, true⟩, ⟨["c.dat"], 5, -26, true, false⟩,
        ⟨["gone.dat"], 5, -26, true, true⟩]⟩).removed = [["a.dat"], ["gone.dat"]] := by decide
example : canDelete demoB 0 ⟨["a.dat"], 5, -26, true, true⟩ = true := by decide
example : canDelete demoB 0 ⟨["a.dat"], 5, -2, true, true⟩ = false := by decide

/-- `configure`: the quirk of `setDefaults` — a tag without a method that stands AFTER the
    default tag is not defaulted to HTTP, so its pattern becomes an ignore pattern -/
example : (configure false false 0 [] []
      [⟨"", some ⟨.suf, ".a"⟩, false, 0⟩, ⟨"", none, false, 0⟩, ⟨"", some ⟨.suf, ".b"⟩, false, 0⟩]).1.ignore =
    [⟨.suf, ".lck"⟩, ⟨.seg, ".disabled"⟩, ⟨.suf, ".b"⟩] := by decide

/-- `ready_only_scanned_or_straggler`: both kinds occur -/
example : (brokerScan demoConf demoB 0 none
      ⟨[.file "a.dat" 5 (-26), .file "s.dat" 4 (-26)], [⟨["s.dat"], 4, -26, false, false⟩]⟩).2 =
    [["a.dat"], ["s.dat"]] := by decide

end Sts
