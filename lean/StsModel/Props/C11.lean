/-
  C11 — chunks and payload parts tile every file exactly (L0: queue/queue.go sortedFile
  allocation, client/client.go recoverFile and binnable, payload/bin.go Bin, and the packing
  loop of client/client.go startBin).

  Property theorems (all full under their stated side conditions; the side conditions are
  the excluded points listed at the end of this file, each replayed on the real code by the
  harness corpus):
    allocate_tiles                               plain files
    resume_tiles, TilesAll.mem, TilesAll.pairwise, resume_tiles_cover   resumed files
    add_takes_min, bin_bounded, add_cuts_adjacent  Bin.Add
    packing_loses_nothing (+ _orig, packing_orig_drops)   startBin
    split_partitions, remove_spec                Bin.Split / Bin.Remove
    every_byte_once, every_byte_once_plain, every_byte_once_resumed
-/
import StsModel.Model.Chunk
import StsModel.Model.Bin
import StsModel.Lemmas.Tiles

namespace Sts

/-! ## Tilings (definitions and general lemmas: Lemmas/Tiles.lean) -/

theorem Tiles.sumLens {a b : Int} {l : List Rng} (h : Tiles a b l) : sumLens l = b - a := by
  induction l generalizing a with
  | nil => simp [Tiles] at h; simp [Sts.sumLens]; omega
  | cons q qs ih =>
    obtain ⟨h1, h2, h3⟩ := h
    simp [Sts.sumLens, rngLen, ih h3]; omega

/-! ## allocate_tiles: queue/queue.go sortedFile.allocate / isAllocated -/

/-- number of chunks of `n` remaining bytes with chunk size `c` (0 = everything at once) -/
def chunkCount (n c : Int) : Int :=
  if c = 0 then (if n = 0 then 0 else 1) else (n + c - 1) / c

theorem FileAlloc.run_done (c size : Int) (m : Nat) :
    FileAlloc.run c m ⟨size, size⟩ = ([], ⟨size, size⟩) := by
  cases m <;> simp [FileAlloc.run, FileAlloc.isAllocated]

theorem FileAlloc.run_spec (size c : Int) (hc : 0 ≤ c) :
    ∀ (k : Nat) (a : Int), 0 ≤ a → a ≤ size → (size - a).toNat = k →
      ∃ g, Tiles a size g ∧ (0 < c → ∀ r ∈ g, rngLen r ≤ c) ∧
        (g.length : Int) = chunkCount (size - a) c ∧
        ∀ m, FileAlloc.run c (g.length + m) ⟨size, a⟩ = (g, ⟨size, size⟩) := by
  intro k
  induction k using Nat.strongRecOn with
  | _ k ih =>
    intro a ha0 ha hk
    by_cases hdone : a = size
    · subst hdone
      refine ⟨[], by simp [Tiles], by simp, ?_, ?_⟩
      · simp only [chunkCount, Int.sub_self, List.length_nil]
        split
        · simp
        · rw [Int.ediv_eq_zero_of_lt (by omega) (by omega)]; rfl
      · intro m; simpa using FileAlloc.run_done c a m
    · have hlt : a < size := by omega
      by_cases hwhole : c = 0 ∨ a + c > size
      · -- the rest of the file in one chunk
        refine ⟨[⟨a, size⟩], ⟨rfl, hlt, rfl⟩, ?_, ?_, ?_⟩
        · intro hc0 r hr
          simp at hr; subst hr
          simp [rngLen]; omega
        · simp only [chunkCount, List.length_cons, List.length_nil]
          split
          · have : size - a ≠ 0 := by omega
            simp [this]
          · have hc0 : 0 < c := by omega
            have := (Int.ediv_emod_unique (a := size - a + c - 1) (r := size - a - 1) (q := 1) hc0).mpr
              ⟨by omega, by omega, by omega⟩
            omega
        · intro m
          have hna : FileAlloc.isAllocated ⟨size, a⟩ = false := by
            simp [FileAlloc.isAllocated]; omega
          simp only [List.length_cons, List.length_nil, Nat.zero_add, Nat.add_comm 1 m,
            FileAlloc.run, hna, FileAlloc.allocate, hwhole, if_true]
          have : a + (size - a) = size := by omega
          simp [this, FileAlloc.run_done]
      · -- a full chunk of c bytes
        have hc0 : 0 < c := by omega
        have hfit : a + c ≤ size := by omega
        obtain ⟨g, hg, hb, hn, hrun⟩ := ih (size - (a + c)).toNat (by omega) (a + c) (by omega) hfit rfl
        refine ⟨⟨a, a + c⟩ :: g, ⟨rfl, by simp; omega, hg⟩, ?_, ?_, ?_⟩
        · intro _ r hr
          rcases List.mem_cons.mp hr with rfl | hr
          · simp [rngLen]; omega
          · exact hb hc0 r hr
        · simp only [List.length_cons, Int.natCast_add, hn, chunkCount]
          have hne : c ≠ 0 := by omega
          simp only [hne, if_false]
          have := Int.add_mul_ediv_right (size - (a + c) + c - 1) 1 hne
          have h2 : size - (a + c) + c - 1 + 1 * c = size - a + c - 1 := by omega
          rw [h2] at this
          omega
        · intro m
          have hna : FileAlloc.isAllocated ⟨size, a⟩ = false := by
            simp [FileAlloc.isAllocated]; omega
          have : g.length + 1 + m = (g.length + m) + 1 := by omega
          simp only [List.length_cons, this, FileAlloc.run, hna, FileAlloc.allocate, hwhole,
            if_false]
          simp [hrun m]

/-- C11, plain files (full statement). For a file of `size > 0` bytes and any chunk size
    `c ≥ 0` (0 = whole file) the Pop loop — allocate while not isAllocated — ends after
    exactly ⌈size/c⌉ calls (1 call for c = 0), whatever number of further rounds it is
    given; the chunks handed out are non-empty, at most `c` long, each starts where the one
    before ended, the first at 0, the last ends at `size`; the file is then allocated. -/
theorem allocate_tiles (size c : Int) (hsize : 0 < size) (hc : 0 ≤ c) :
    ∃ g : List Rng,
      (∀ m, FileAlloc.run c (g.length + m) ⟨size, 0⟩ = (g, ⟨size, size⟩)) ∧
      FileAlloc.isAllocated ⟨size, size⟩ = true ∧
      (g.length : Int) = (if c = 0 then 1 else (size + c - 1) / c) ∧
      Tiles 0 size g ∧ (0 < c → ∀ r ∈ g, r.fin - r.beg ≤ c) := by
  obtain ⟨g, hg, hb, hn, hrun⟩ := FileAlloc.run_spec size c hc (size - 0).toNat 0 (by omega) (by omega) rfl
  refine ⟨g, hrun, by simp [FileAlloc.isAllocated], ?_, hg, hb⟩
  rw [hn]
  have : size ≠ 0 := by omega
  simp [chunkCount, this]

/-- the loop hands out at most one chunk per round -/
theorem FileAlloc.run_mono (c : Int) (n : Nat) (f : FileAlloc) :
    (FileAlloc.run c n f).1.length ≤ n := by
  induction n generalizing f with
  | zero => simp [FileAlloc.run]
  | succ n ih =>
    simp only [FileAlloc.run]
    split
    · simp
    · simp only [List.length_cons]
      have := ih (f.allocate c).1
      omega

/-! ## resume_tiles: client/client.go recoverFile.Allocate / IsAllocated / GetSendSize -/

/-- `TilesAll c rs gs`: the chunk list `gs` is the concatenation, range by range and in the
    order of `rs`, of a tiling of each range of `rs` by chunks of at most `c` bytes. -/
inductive TilesAll (c : Int) : List Rng → List Rng → Prop
  | nil : TilesAll c [] []
  | cons {r : Rng} {rs g gs : List Rng} : Tiles r.beg r.fin g → (∀ x ∈ g, rngLen x ≤ c) →
      TilesAll c rs gs → TilesAll c (r :: rs) (g ++ gs)

/-- every chunk is non-empty, at most `c` long and lies inside one of the ranges -/
theorem TilesAll.mem {c : Int} {rs gs : List Rng} (h : TilesAll c rs gs) :
    ∀ x ∈ gs, x.beg < x.fin ∧ x.fin - x.beg ≤ c ∧ ∃ r ∈ rs, r.beg ≤ x.beg ∧ x.fin ≤ r.fin := by
  induction h with
  | nil => intro x hx; cases hx
  | @cons r rs g gs hg hb _ ih =>
    intro x hx
    rcases List.mem_append.mp hx with hx | hx
    · have := hg.mem x hx
      exact ⟨this.2.1, hb x hx, r, by simp, this.1, this.2.2⟩
    · obtain ⟨h1, h2, q, hq, h3⟩ := ih x hx
      exact ⟨h1, h2, q, by simp [hq], h3⟩

/-- exact cover: every point lies in exactly as many chunks as it lies in given ranges
    (so in exactly one chunk if it is missing, in none otherwise, when the ranges are
    disjoint: `resume_tiles_cover`) -/
theorem TilesAll.coverCount {c : Int} {rs gs : List Rng} (h : TilesAll c rs gs) (x : Int) :
    coverCount gs x = coverCount rs x := by
  induction h with
  | nil => rfl
  | @cons r rs g gs hg _ _ ih =>
    rw [coverCount_append, ih, hg.coverCount x]
    simp [Sts.coverCount]

theorem sumLens_append (l₁ l₂ : List Rng) : sumLens (l₁ ++ l₂) = sumLens l₁ + sumLens l₂ := by
  induction l₁ with
  | nil => simp [sumLens]
  | cons r rs ih => simp only [List.cons_append, sumLens, ih]; omega

theorem TilesAll.sumLens {c : Int} {rs gs : List Rng} (h : TilesAll c rs gs) :
    sumLens gs = sumLens rs := by
  induction h with
  | nil => rfl
  | @cons r rs g gs hg _ _ ih =>
    rw [sumLens_append, ih, hg.sumLens]; simp [Sts.sumLens, rngLen]

/-- ascending and disjoint chunks, if the ranges are ascending and disjoint -/
theorem TilesAll.pairwise {c : Int} {rs gs : List Rng} (h : TilesAll c rs gs)
    (hrs : rs.Pairwise (fun r s => r.fin ≤ s.beg)) : gs.Pairwise (fun r s => r.fin ≤ s.beg) := by
  induction h with
  | nil => exact List.Pairwise.nil
  | @cons r rs g gs hg _ hall ih =>
    rw [List.pairwise_cons] at hrs
    refine List.pairwise_append.mpr ⟨hg.pairwise, ih hrs.2, ?_⟩
    intro x hx y hy
    obtain ⟨_, _, q, hq, h3⟩ := hall.mem y hy
    have := hrs.1 q hq
    have := (hg.mem x hx).2.2
    omega

theorem Resume.run_done (c : Int) (left : List Rng) (u : Int) (m : Nat) :
    Resume.run c m ⟨left, left.length, u⟩ = ([], ⟨left, left.length, u⟩) := by
  cases m <;> simp [Resume.run, Resume.isAllocated]

/-- handing out the rest of one range -/
theorem Resume.run_range (c : Int) (hc : 0 < c) (left : List Rng) (p : Nat) (r : Rng)
    (post : List Rng) (hdrop : left.drop p = r :: post) :
    ∀ (k : Nat) (u : Int), 0 ≤ u → r.beg + u < r.fin → (r.fin - r.beg - u).toNat = k →
      ∃ g, Tiles (r.beg + u) r.fin g ∧ (∀ x ∈ g, rngLen x ≤ c) ∧
        ∀ m, Resume.run c (g.length + m) ⟨left, p, u⟩ =
          (g ++ (Resume.run c m ⟨left, p + 1, 0⟩).1, (Resume.run c m ⟨left, p + 1, 0⟩).2) := by
  have hget : left[p]? = some r := by
    have := List.getElem?_drop (xs := left) (i := p) (j := 0)
    rw [hdrop] at this
    simpa using this.symm
  have hna : ∀ u, Resume.isAllocated ⟨left, p, u⟩ = false := by
    intro u
    have : ¬ left.length ≤ p := by
      intro h
      have := List.drop_eq_nil_iff.mpr h
      rw [hdrop] at this
      cases this
    simp [Resume.isAllocated]; omega
  intro k
  induction k using Nat.strongRecOn with
  | _ k ih =>
    intro u hu hlt hk
    by_cases hlast : r.beg + u + c ≥ r.fin
    · refine ⟨[⟨r.beg + u, r.fin⟩], ⟨rfl, hlt, rfl⟩, ?_, ?_⟩
      · intro x hx; simp at hx; subst hx; simp [rngLen]; omega
      · intro m
        have : r.beg + u + (r.fin - (r.beg + u)) = r.fin := by omega
        simp only [List.length_cons, List.length_nil, Nat.zero_add, Nat.add_comm 1 m, Resume.run,
          hna, Resume.allocate, hget, hlast, if_true, this]
        simp
    · have hfit : r.beg + (u + c) < r.fin := by omega
      obtain ⟨g, hg, hb, hrun⟩ := ih (r.fin - r.beg - (u + c)).toNat (by omega) (u + c) (by omega) hfit rfl
      refine ⟨⟨r.beg + u, r.beg + u + c⟩ :: g, ⟨rfl, by simp; omega, ?_⟩, ?_, ?_⟩
      · have : r.beg + u + c = r.beg + (u + c) := by omega
        simpa [this] using hg
      · intro x hx
        rcases List.mem_cons.mp hx with rfl | hx
        · simp [rngLen]; omega
        · exact hb x hx
      · intro m
        have : g.length + 1 + m = (g.length + m) + 1 := by omega
        simp only [List.length_cons, this, Resume.run, hna, Resume.allocate, hget, hlast, if_false]
        simp [hrun m]

theorem Resume.run_spec (c : Int) (hc : 0 < c) (left : List Rng) :
    ∀ (post : List Rng) (p : Nat), p ≤ left.length → left.drop p = post →
      (∀ r ∈ post, r.beg < r.fin) →
      ∃ gs, TilesAll c post gs ∧
        ∀ m, Resume.run c (gs.length + m) ⟨left, p, 0⟩ = (gs, ⟨left, left.length, 0⟩) := by
  intro post
  induction post with
  | nil =>
    intro p hp hdrop _
    have : p = left.length := by
      have := List.drop_eq_nil_iff.mp hdrop
      omega
    subst this
    exact ⟨[], TilesAll.nil, fun m => by simpa using Resume.run_done c left 0 m⟩
  | cons r post ih =>
    intro p hp hdrop hne
    have hr := hne r (by simp)
    obtain ⟨g, hg, hb, hrun⟩ := Resume.run_range c hc left p r post hdrop
      (r.fin - r.beg - 0).toNat 0 (by omega) (by omega) rfl
    have hp' : p + 1 ≤ left.length := by
      have : ¬ left.length ≤ p := by
        intro h
        have := List.drop_eq_nil_iff.mpr h
        rw [hdrop] at this
        cases this
      omega
    have hdrop' : left.drop (p + 1) = post := by
      have := List.drop_drop (i := 1) (j := p) (l := left)
      rw [hdrop] at this
      simpa using this.symm
    obtain ⟨gs, hgs, hrun'⟩ := ih (p + 1) hp' hdrop' (fun q hq => hne q (by simp [hq]))
    refine ⟨g ++ gs, TilesAll.cons (by simpa using hg) hb hgs, ?_⟩
    intro m
    have : (g ++ gs).length + m = g.length + (gs.length + m) := by simp; omega
    rw [this, hrun (gs.length + m), hrun' m]

/-- C11, resumed files (full statement under the stated side conditions: every missing
    range is non-empty, chunk size `c > 0`). The Pop loop over a resumed file ends after
    exactly as many calls as there are chunks, the file is then allocated, and the chunks
    are, range by range and in order, tilings of the missing ranges by non-empty chunks of
    at most `c` bytes (`TilesAll`); `GetSendSize` is the number of missing bytes. The
    consequences (inside one range, exact cover, ascending, disjoint) are the theorems
    `TilesAll.mem`, `resume_tiles_cover`, `TilesAll.pairwise`. -/
theorem resume_tiles (left : List Rng) (c : Int) (hc : 0 < c)
    (hne : ∀ r ∈ left, r.beg < r.fin) :
    ∃ gs : List Rng,
      (∀ m, Resume.run c (gs.length + m) ⟨left, 0, 0⟩ = (gs, ⟨left, left.length, 0⟩)) ∧
      Resume.isAllocated ⟨left, left.length, 0⟩ = true ∧
      TilesAll c left gs ∧
      Resume.sendSize ⟨left, 0, 0⟩ = sumLens gs := by
  obtain ⟨gs, hgs, hrun⟩ := Resume.run_spec c hc left left 0 (by omega) (by simp) hne
  exact ⟨gs, hrun, by simp [Resume.isAllocated], hgs, by simp [Resume.sendSize, hgs.sumLens]⟩

/-- for ascending disjoint missing ranges a point is covered by at most one of them -/
theorem coverCount_le_one {rs : List Rng} (hne : ∀ r ∈ rs, r.beg < r.fin)
    (hrs : rs.Pairwise (fun r s => r.fin ≤ s.beg)) (x : Int) :
    coverCount rs x = if ∃ r ∈ rs, r.beg ≤ x ∧ x < r.fin then 1 else 0 := by
  induction rs with
  | nil => simp [coverCount]
  | cons r rs ih =>
    rw [List.pairwise_cons] at hrs
    have := ih (fun q hq => hne q (by simp [hq])) hrs.2
    simp only [coverCount, this]
    by_cases hx : r.beg ≤ x ∧ x < r.fin
    · have hno : ¬ ∃ q ∈ rs, q.beg ≤ x ∧ x < q.fin := by
        rintro ⟨q, hq, h1, h2⟩
        have := hrs.1 q hq
        omega
      have hyes : ∃ q ∈ r :: rs, q.beg ≤ x ∧ x < q.fin := ⟨r, by simp, hx⟩
      simp [hx, hno]
    · by_cases hex : ∃ q ∈ rs, q.beg ≤ x ∧ x < q.fin
      · have hyes : ∃ q ∈ r :: rs, q.beg ≤ x ∧ x < q.fin := by
          obtain ⟨q, hq, h⟩ := hex
          exact ⟨q, by simp [hq], h⟩
        simp [hx, hex]
      · have hno : ¬ ∃ q ∈ r :: rs, q.beg ≤ x ∧ x < q.fin := by
          rintro ⟨q, hq, h⟩
          rcases List.mem_cons.mp hq with rfl | hq
          · exact hx h
          · exact hex ⟨q, hq, h⟩
        simp [hx, hex]

/-- C11, resumed files, exact cover: for non-empty, ascending, disjoint missing ranges every
    missing byte lies in exactly one chunk and every other byte in none. -/
theorem resume_tiles_cover {c : Int} {left gs : List Rng} (h : TilesAll c left gs)
    (hne : ∀ r ∈ left, r.beg < r.fin) (hasc : left.Pairwise (fun r s => r.fin ≤ s.beg)) (x : Int) :
    coverCount gs x = if ∃ r ∈ left, r.beg ≤ x ∧ x < r.fin then 1 else 0 := by
  rw [h.coverCount, coverCount_le_one hne hasc]

/-! ## payload/bin.go: Add, IsFull, the allowance -/

theorem f64min_eq (a b : Int) (ha : -lim53 ≤ a ∧ a ≤ lim53) (hb : -lim53 ≤ b ∧ b ≤ lim53) :
    f64min a b = min a b := by
  simp [f64min, ha, hb]

theorem binFluff_small (s : Int) (h : -lim49 < s ∧ s < lim49) : binFluff s = Int.tdiv s 10 := by
  simp [binFluff, h]

theorem binFluff_nonneg (s : Int) (h0 : 0 ≤ s) (h : s < lim49) : 0 ≤ binFluff s ∧ binFluff s ≤ s := by
  rw [binFluff_small s ⟨by simp [lim49]; omega, h⟩]
  have := Int.tdiv_eq_ediv_of_nonneg (a := s) (b := 10) h0
  omega

/-- well-formed bin: `bytes` is the sum of the part lengths, every part is non-empty, and
    the bin holds no more than its allowance (capacity plus slack). -/
structure Bin.WF (b : Bin) : Prop where
  sum : b.bytes = partsBytes b.parts
  pos : ∀ p ∈ b.parts, p.beg < p.fin
  bound : b.bytes ≤ b.capacity + b.fluff

theorem partsBytes_append (l₁ l₂ : List Part) :
    partsBytes (l₁ ++ l₂) = partsBytes l₁ + partsBytes l₂ := by
  induction l₁ with
  | nil => simp [partsBytes]
  | cons p ps ih => simp only [List.cons_append, partsBytes, ih]; omega

theorem partsBytes_nonneg {l : List Part} (h : ∀ p ∈ l, p.beg < p.fin) : 0 ≤ partsBytes l := by
  induction l with
  | nil => simp [partsBytes]
  | cons p ps ih =>
    have := ih (fun q hq => h q (by simp [hq]))
    have := h p (by simp)
    simp only [partsBytes, Part.len]; omega

theorem partsBytes_eq_zero {l : List Part} (h : ∀ p ∈ l, p.beg < p.fin) (h0 : partsBytes l = 0) :
    l = [] := by
  cases l with
  | nil => rfl
  | cons p ps =>
    have := partsBytes_nonneg (l := ps) (fun q hq => h q (by simp [hq]))
    have := h p (by simp)
    simp only [partsBytes, Part.len] at h0; omega

theorem Bin.WF.bytes_nonneg {b : Bin} (h : b.WF) : 0 ≤ b.bytes := by
  rw [h.sum]; exact partsBytes_nonneg h.pos

/-- the float64 detour of Add is exact for this bin and chunk -/
def AddExact (b : Bin) (ch : Chunk) : Prop :=
  (-lim53 ≤ ch.beg + ch.len ∧ ch.beg + ch.len ≤ lim53) ∧
  (-lim53 ≤ ch.beg + ch.allocated + (b.capacity + b.fluff - b.bytes) ∧
    ch.beg + ch.allocated + (b.capacity + b.fluff - b.bytes) ≤ lim53)

/-- what Add takes: the rest of the chunk or the room left below the allowance -/
def Bin.take (b : Bin) (ch : Chunk) : Int :=
  min (ch.len - ch.allocated) (b.capacity + b.fluff - b.bytes)

instance (b : Bin) (ch : Chunk) : Decidable (AddExact b ch) := by
  unfold AddExact; infer_instance

/-- C11 `add_takes_min` (full, for values inside the exact float64 range): Add cuts
    `take = min(rest of the chunk, allowance − bytes)` bytes from the chunk, starting at
    the chunk's allocation mark, appends them as one part, advances the mark and the byte
    count by `take`; if `take ≤ 0` nothing changes and it answers false. -/
theorem add_takes_min (b : Bin) (ch : Chunk) (hex : AddExact b ch) :
    b.add ch =
      if 0 < b.take ch then
        ({ b with
            parts := b.parts ++ [⟨ch.name, ch.beg + ch.allocated, ch.beg + ch.allocated + b.take ch⟩]
            bytes := b.bytes + b.take ch },
          { ch with allocated := ch.allocated + b.take ch }, true)
      else (b, ch, false) := by
  obtain ⟨h1, h2⟩ := hex
  have hmin : f64min (ch.beg + ch.len) (ch.beg + ch.allocated + (b.capacity + b.fluff - b.bytes)) =
      ch.beg + ch.allocated + b.take ch := by
    rw [f64min_eq _ _ h1 h2]; simp only [Bin.take]; omega
  simp only [Bin.add, Chunk.nextAlloc, Chunk.addAlloc, hmin]
  have e : ch.beg + ch.allocated + b.take ch - (ch.beg + ch.allocated) = b.take ch := by omega
  rw [e]

/-- C11 `bin_bounded`: Add keeps a bin well-formed — in particular `bytes ≤ capacity +
    slack` — and never changes capacity or slack. -/
theorem bin_bounded (b : Bin) (ch : Chunk) (hwf : b.WF) (hex : AddExact b ch) :
    (b.add ch).1.WF ∧ (b.add ch).1.capacity = b.capacity ∧ (b.add ch).1.fluff = b.fluff := by
  rw [add_takes_min b ch hex]
  split
  · next h =>
    refine ⟨⟨?_, ?_, ?_⟩, rfl, rfl⟩
    · simp only [partsBytes_append, partsBytes, Part.len, hwf.sum]; omega
    · intro p hp
      rcases List.mem_append.mp hp with hp | hp
      · exact hwf.pos p hp
      · simp at hp; subst hp; simp; omega
    · simp only [Bin.take] at h ⊢; omega
  · exact ⟨hwf, rfl, rfl⟩

def partRng (p : Part) : Rng := ⟨p.beg, p.fin⟩

theorem newBin_WF (cap : Int) (h0 : 0 ≤ cap) (h : cap < lim49) : (newBin cap).WF := by
  have := binFluff_nonneg cap h0 h
  exact ⟨rfl, by simp [newBin], by simp [newBin]; omega⟩

/-- the parts `ps`, in order, all carry the name `name`, are non-empty, adjacent, start at
    `a` and end at `b` -/
def PartsTile (name : String) (a b : Int) (ps : List Part) : Prop :=
  (∀ p ∈ ps, p.name = name) ∧ Tiles a b (ps.map partRng)

theorem PartsTile.nil (n : String) (a : Int) : PartsTile n a a [] :=
  ⟨by simp, rfl⟩

theorem PartsTile.cons {n : String} {a b t : Int} {g : List Part} (ht : 0 < t)
    (h : PartsTile n (a + t) b g) : PartsTile n a b (⟨n, a, a + t⟩ :: g) := by
  refine ⟨?_, ?_⟩
  · intro p hp
    rcases List.mem_cons.mp hp with rfl | hp
    · rfl
    · exact h.1 p hp
  · exact ⟨rfl, by simp [partRng]; omega, h.2⟩


/-! ## parts cut from one chunk -/

/-- add the chunk to each bin of a list in turn (whatever happens to the bins in between);
    collect the parts this creates. Mirrors what startBin does with one `current` chunk
    over successive payloads. -/
def cutInto : List Bin → Chunk → List Part × Chunk
  | [], ch => ([], ch)
  | b :: bs, ch =>
    let r := b.add ch
    let rest := cutInto bs r.2.1
    (r.1.parts.drop b.parts.length ++ rest.1, rest.2)

/-- C11 (second half of `bin_bounded` in DESIGN.md): the parts cut from one chunk by
    successive Adds, into whatever well-formed bins, are non-empty, adjacent, ascending,
    carry the chunk's name, start at the chunk's allocation mark and end at its new mark,
    which never passes the end of the chunk; when the chunk `IsAllocated` they tile it. -/
theorem add_cuts_adjacent (bins : List Bin) :
    ∀ (ch : Chunk), (∀ b ∈ bins, b.WF ∧ ch.beg + ch.len + (b.capacity + b.fluff) ≤ lim53) →
      0 ≤ ch.beg → 0 ≤ ch.allocated → ch.allocated ≤ ch.len →
      PartsTile ch.name (ch.beg + ch.allocated) (ch.beg + (cutInto bins ch).2.allocated)
          (cutInto bins ch).1 ∧
        (cutInto bins ch).2.allocated ≤ ch.len ∧
        ((cutInto bins ch).2.isAllocated = true →
          PartsTile ch.name (ch.beg + ch.allocated) (ch.beg + ch.len) (cutInto bins ch).1) := by
  have key : ∀ (bins : List Bin) (ch : Chunk),
      (∀ b ∈ bins, b.WF ∧ ch.beg + ch.len + (b.capacity + b.fluff) ≤ lim53) →
      0 ≤ ch.beg → 0 ≤ ch.allocated → ch.allocated ≤ ch.len →
      PartsTile ch.name (ch.beg + ch.allocated) (ch.beg + (cutInto bins ch).2.allocated)
          (cutInto bins ch).1 ∧
        (cutInto bins ch).2.allocated ≤ ch.len ∧ (cutInto bins ch).2.len = ch.len := by
    intro bins
    induction bins with
    | nil => intro ch _ _ _ ha; exact ⟨PartsTile.nil _ _, ha, rfl⟩
    | cons b bs ih =>
      intro ch hb h0 ha0 ha
      obtain ⟨hwf, hlim⟩ := hb b (by simp)
      have hb0 := hwf.bytes_nonneg
      have hbd := hwf.bound
      have h53 : 0 ≤ lim53 := by decide
      have hex : AddExact b ch := by simp only [AddExact]; omega
      have hadd := add_takes_min b ch hex
      simp only [cutInto]
      by_cases ht : 0 < b.take ch
      · simp only [hadd, ht, if_true, List.drop_left]
        have hle : ch.allocated + b.take ch ≤ ch.len := by simp only [Bin.take]; omega
        obtain ⟨h1, h2, h3⟩ := ih { ch with allocated := ch.allocated + b.take ch }
          (fun b' hb' => hb b' (by simp [hb'])) h0 (by simp only; omega) hle
        refine ⟨?_, h2, h3⟩
        have e : ch.beg + (ch.allocated + b.take ch) = ch.beg + ch.allocated + b.take ch := by omega
        simp only [e] at h1
        exact PartsTile.cons ht h1
      · simp only [hadd, ht, if_false, List.drop_length, List.nil_append]
        exact ih ch (fun b' hb' => hb b' (by simp [hb'])) h0 ha0 ha
  intro ch hb h0 ha0 ha
  obtain ⟨h1, h2, h3⟩ := key bins ch hb h0 ha0 ha
  refine ⟨h1, h2, ?_⟩
  intro hall
  have : (cutInto bins ch).2.allocated = ch.len := by
    simp only [Chunk.isAllocated, beq_iff_eq] at hall; omega
  rw [this] at h1
  exact h1

/-! ## packing_loses_nothing: client/client.go startBin -/

/-- all parts of a sequence of payloads, in emission order -/
def binsParts (bs : List Bin) : List Part := bs.flatMap Bin.parts

/-- parts already sent plus the parts of the payload being filled -/
def Pack.allParts (st : Pack) : List Part :=
  binsParts st.out ++ (match st.payload with | some b => b.parts | none => [])

/-- a payload built for the configured size `cap` -/
structure BinOK (cap : Int) (b : Bin) : Prop where
  wf : b.WF
  cap_eq : b.capacity = cap
  fluff_eq : b.fluff = binFluff cap

/-- what the packing loop needs from the IsFull in force: a payload that is not full has
    room for at least one more byte, and a new payload is not full. -/
structure FullOK (cap : Int) (full : Bin → Bool) : Prop where
  cap0 : 0 ≤ cap
  cap49 : cap < lim49
  room : ∀ b, BinOK cap b → full b = false → b.bytes < cap + binFluff cap
  fresh : full (newBin cap) = false

structure PackInv (cap : Int) (full : Bin → Bool) (st : Pack) : Prop where
  out : ∀ b ∈ st.out, BinOK cap b ∧ 0 < b.bytes
  cur : ∀ b, st.payload = some b → BinOK cap b ∧ full b = false

/-- the chunk's byte range and the allowance stay inside the exact float64 range -/
def ChunkOK (cap : Int) (ch : Chunk) : Prop :=
  0 ≤ ch.beg ∧ 0 ≤ ch.len ∧ ch.beg + ch.len + (cap + binFluff cap) ≤ lim53

instance (cap : Int) (ch : Chunk) : Decidable (ChunkOK cap ch) := by
  unfold ChunkOK; infer_instance

theorem newBin_OK {cap : Int} {full : Bin → Bool} (hf : FullOK cap full) : BinOK cap (newBin cap) :=
  ⟨newBin_WF cap hf.cap0 hf.cap49, rfl, rfl⟩

theorem packStep_spec {cap : Int} {full : Bin → Bool} (hf : FullOK cap full) (st : Pack) (ch : Chunk)
    (hinv : PackInv cap full st) (hok : ChunkOK cap ch) (ha0 : 0 ≤ ch.allocated)
    (ha : ch.allocated ≤ ch.len) :
    ∃ st' g cur, packStep cap full st ch = (st', cur) ∧ PackInv cap full st' ∧
      st'.allParts = st.allParts ++ g ∧
      ((ch.allocated = ch.len ∧ g = [] ∧ cur = none) ∨
       (∃ t, 0 < t ∧ ch.allocated + t ≤ ch.len ∧
          g = [⟨ch.name, ch.beg + ch.allocated, ch.beg + ch.allocated + t⟩] ∧
          cur = if ch.allocated + t = ch.len then none
                else some { ch with allocated := ch.allocated + t })) := by
  -- the bin the body works on
  have hbin : ∃ bin, st.payload.getD (newBin cap) = bin ∧ BinOK cap bin ∧ full bin = false ∧
      (match st.payload with | some b => b.parts | none => []) = bin.parts := by
    cases hp : st.payload with
    | none => exact ⟨newBin cap, rfl, newBin_OK hf, hf.fresh, by simp [newBin]⟩
    | some b => exact ⟨b, rfl, (hinv.cur b hp).1, (hinv.cur b hp).2, rfl⟩
  obtain ⟨bin, hbin, hbok, hnf, hall⟩ := hbin
  have hroom := hf.room bin hbok hnf
  have hb0 := hbok.wf.bytes_nonneg
  have h53 : 0 ≤ lim53 := by decide
  obtain ⟨hk1, hk2, hk3⟩ := hok
  have hex : AddExact bin ch := by
    simp only [AddExact, hbok.cap_eq, hbok.fluff_eq]
    omega
  have hadd := add_takes_min bin ch hex
  have hbb := bin_bounded bin ch hbok.wf hex
  simp only [packStep, hbin]
  by_cases hrem : ch.allocated = ch.len
  · -- nothing left of the chunk: Add answers false
    have ht : ¬ 0 < bin.take ch := by simp only [Bin.take]; omega
    simp only [hadd, ht, if_false]
    simp only [hnf, Bool.not_false, Bool.true_or, if_true]
    refine ⟨_, [], _, rfl, ⟨hinv.out, ?_⟩, ?_, Or.inl ⟨hrem, rfl, rfl⟩⟩
    · intro b hb
      simp at hb; subst hb
      exact ⟨hbok, hnf⟩
    · simp [Pack.allParts, hall]
  · have ht : 0 < bin.take ch := by
      simp only [Bin.take, hbok.cap_eq, hbok.fluff_eq]; omega
    have hle : ch.allocated + bin.take ch ≤ ch.len := by simp only [Bin.take]; omega
    rw [hadd] at hbb
    simp only [ht, if_true] at hbb
    simp only [hadd, ht, if_true]
    have hok' : BinOK cap { bin with
        parts := bin.parts ++ [⟨ch.name, ch.beg + ch.allocated, ch.beg + ch.allocated + bin.take ch⟩]
        bytes := bin.bytes + bin.take ch } :=
      ⟨hbb.1, by simp [hbok.cap_eq], by simp [hbok.fluff_eq]⟩
    have hcur : (if (!true || Chunk.isAllocated { ch with allocated := ch.allocated + bin.take ch }) = true
          then none else some { ch with allocated := ch.allocated + bin.take ch }) =
        (if ch.allocated + bin.take ch = ch.len then (none : Option Chunk)
          else some { ch with allocated := ch.allocated + bin.take ch }) := by
      simp [Chunk.isAllocated]
    split
    · next hfull =>
      refine ⟨_, _, _, rfl, ⟨?_, ?_⟩, ?_, Or.inr ⟨bin.take ch, ht, hle, rfl, hcur⟩⟩
      · intro b hb
        rcases List.mem_append.mp hb with hb | hb
        · exact hinv.out b hb
        · simp at hb; subst hb
          exact ⟨hok', by simp only; omega⟩
      · intro b hb; simp at hb
      · simp [Pack.allParts, hall, binsParts, List.flatMap_append]
    · next hfull =>
      refine ⟨_, _, _, rfl, ⟨hinv.out, ?_⟩, ?_, Or.inr ⟨bin.take ch, ht, hle, rfl, hcur⟩⟩
      · intro b hb
        simp at hb; subst hb
        exact ⟨hok', by simpa using hfull⟩
      · simp [Pack.allParts, hall]

/-- the loop over one chunk: with `len − allocated + 1` passes or more it ends with
    `current = nil`, and the parts it produced tile the rest of the chunk -/
theorem packChunk_spec {cap : Int} {full : Bin → Bool} (hf : FullOK cap full) :
    ∀ (k : Nat) (st : Pack) (ch : Chunk), PackInv cap full st → ChunkOK cap ch →
      0 ≤ ch.allocated → ch.allocated ≤ ch.len → (ch.len - ch.allocated).toNat = k →
      ∀ fuel, k + 1 ≤ fuel →
        ∃ st' g, packChunk cap full fuel st ch = (st', none) ∧ PackInv cap full st' ∧
          st'.allParts = st.allParts ++ g ∧
          PartsTile ch.name (ch.beg + ch.allocated) (ch.beg + ch.len) g := by
  intro k
  induction k using Nat.strongRecOn with
  | _ k ih =>
    intro st ch hinv hok ha0 ha hk fuel hfuel
    obtain ⟨n, rfl⟩ : ∃ n, fuel = n + 1 := ⟨fuel - 1, by omega⟩
    obtain ⟨st1, g1, cur, hstep, hinv1, hall1, hcase⟩ := packStep_spec hf st ch hinv hok ha0 ha
    rcases hcase with ⟨hrem, hg, hcur⟩ | ⟨t, ht, hle, hg, hcur⟩
    · subst hg hcur
      refine ⟨st1, [], by simp [packChunk, hstep], hinv1, hall1, ?_⟩
      simp [PartsTile, Tiles, hrem]
    · by_cases hdone : ch.allocated + t = ch.len
      · simp only [hdone, if_true] at hcur
        subst hcur
        refine ⟨st1, g1, by simp [packChunk, hstep], hinv1, hall1, ?_⟩
        subst hg
        have e : ch.beg + ch.len = ch.beg + ch.allocated + t := by omega
        rw [e]
        exact PartsTile.cons ht (PartsTile.nil _ _)
      · simp only [hdone, if_false] at hcur
        subst hcur
        obtain ⟨st2, g2, hrun, hinv2, hall2, htile⟩ :=
          ih (ch.len - (ch.allocated + t)).toNat (by omega) st1
            { ch with allocated := ch.allocated + t } hinv1 hok (by simp only; omega)
            (by simp only; omega) rfl n (by omega)
        refine ⟨st2, g1 ++ g2, by simp [packChunk, hstep, hrun], hinv2, ?_, ?_⟩
        · rw [hall2, hall1, List.append_assoc]
        · subst hg
          have e : ch.beg + (ch.allocated + t) = ch.beg + ch.allocated + t := by omega
          simp only [e] at htile
          exact PartsTile.cons ht htile

theorem packFlush_spec {cap : Int} {full : Bin → Bool} (st : Pack) (hinv : PackInv cap full st) :
    PackInv cap full (packFlush st) ∧ (packFlush st).allParts = st.allParts := by
  unfold packFlush
  cases hp : st.payload with
  | none => simpa [hp] using hinv
  | some b =>
    simp only
    split
    · next hb =>
      refine ⟨⟨?_, by intro b' hb'; simp at hb'⟩, ?_⟩
      · intro b' hb'
        rcases List.mem_append.mp hb' with hb' | hb'
        · exact hinv.out b' hb'
        · simp at hb'; subst hb'
          exact ⟨(hinv.cur b' hp).1, hb⟩
      · simp [Pack.allParts, hp, binsParts, List.flatMap_append]
    · exact ⟨hinv, rfl⟩

/-- after the final flush nothing is left behind in the payload being filled -/
theorem packFlush_out {cap : Int} {full : Bin → Bool} (st : Pack) (hinv : PackInv cap full st) :
    binsParts (packFlush st).out = st.allParts := by
  unfold packFlush
  cases hp : st.payload with
  | none => simp [Pack.allParts, hp]
  | some b =>
    simp only
    split
    · simp [Pack.allParts, hp, binsParts, List.flatMap_append]
    · next hb =>
      have hwf := (hinv.cur b hp).1.wf
      have h0 : b.bytes = 0 := by have := hwf.bytes_nonneg; omega
      have : b.parts = [] := partsBytes_eq_zero hwf.pos (by rw [← hwf.sum]; exact h0)
      simp [Pack.allParts, hp, this]

/-- `PackedAs items ps`: the part list `ps` is, chunk by chunk in input order, a tiling of
    every chunk's byte range by parts that carry the chunk's file name (timeouts contribute
    nothing). -/
inductive PackedAs : List (Option Chunk) → List Part → Prop
  | nil : PackedAs [] []
  | timeout {items : List (Option Chunk)} {ps : List Part} :
      PackedAs items ps → PackedAs (none :: items) ps
  | chunk {ch : Chunk} {items : List (Option Chunk)} {g ps : List Part} :
      PartsTile ch.name ch.beg (ch.beg + ch.len) g → PackedAs items ps →
      PackedAs (some ch :: items) (g ++ ps)

theorem pack_fold_spec {cap : Int} {full : Bin → Bool} (hf : FullOK cap full)
    (items : List (Option Chunk)) :
    ∀ st, PackInv cap full st →
      (∀ ch, some ch ∈ items → ChunkOK cap ch ∧ ch.allocated = 0) →
      ∃ ps, PackedAs items ps ∧ PackInv cap full (items.foldl (packInput cap full) st) ∧
        (items.foldl (packInput cap full) st).allParts = st.allParts ++ ps := by
  induction items with
  | nil => intro st hinv _; exact ⟨[], PackedAs.nil, hinv, by simp⟩
  | cons it items ih =>
    intro st hinv hitems
    have hrest : ∀ ch, some ch ∈ items → ChunkOK cap ch ∧ ch.allocated = 0 :=
      fun ch hch => hitems ch (by simp [hch])
    cases it with
    | none =>
      obtain ⟨hinv1, hall1⟩ := packFlush_spec st hinv
      obtain ⟨ps, hps, hinv2, hall2⟩ := ih (packFlush st) hinv1 hrest
      exact ⟨ps, PackedAs.timeout hps, by simpa [packInput] using hinv2,
        by simp only [List.foldl_cons, packInput]; rw [hall2, hall1]⟩
    | some ch =>
      obtain ⟨hok, ha⟩ := hitems ch (by simp)
      obtain ⟨st1, g, hrun, hinv1, hall1, htile⟩ :=
        packChunk_spec hf (ch.len - ch.allocated).toNat st ch hinv hok (by omega)
          (by have := hok.2.1; omega) rfl (ch.len.toNat + 1) (by rw [ha]; simp)
      obtain ⟨ps, hps, hinv2, hall2⟩ := ih st1 hinv1 hrest
      have hst : packInput cap full st (some ch) = st1 := by simp [packInput, hrun]
      refine ⟨g ++ ps, PackedAs.chunk (by simpa [ha] using htile) hps,
        by simpa [hst] using hinv2, ?_⟩
      simp only [List.foldl_cons, hst]
      rw [hall2, hall1, List.append_assoc]

/-- The general packing theorem, for any IsFull that satisfies `FullOK`. -/
theorem packWith_loses_nothing {cap : Int} {full : Bin → Bool} (hf : FullOK cap full)
    (items : List (Option Chunk))
    (hitems : ∀ ch, some ch ∈ items → ChunkOK cap ch ∧ ch.allocated = 0) :
    PackedAs items (binsParts (packWith full cap items)) ∧
    ∀ b ∈ packWith full cap items,
      b.WF ∧ b.capacity = cap ∧ b.fluff = binFluff cap ∧ 0 < b.bytes ∧ b.bytes ≤ cap + binFluff cap := by
  have hinit : PackInv cap full { payload := none, out := [] } :=
    ⟨(by intro b hb; cases hb), (by intro b hb; cases hb)⟩
  obtain ⟨ps, hps, hinv, hall⟩ := pack_fold_spec hf items _ hinit hitems
  obtain ⟨hinv', _⟩ := packFlush_spec _ hinv
  refine ⟨?_, ?_⟩
  · unfold packWith
    rw [packFlush_out _ hinv, hall]
    simpa [Pack.allParts, binsParts] using hps
  · intro b hb
    obtain ⟨hok, hpos⟩ := hinv'.out b hb
    have := hok.wf.bound
    exact ⟨hok.wf, hok.cap_eq, hok.fluff_eq, hpos, by rw [← hok.cap_eq, ← hok.fluff_eq] at *; omega⟩

theorem isFull_OK (cap : Int) (h0 : 0 < cap) (h49 : cap < lim49) : FullOK cap Bin.isFull := by
  have hfl := binFluff_nonneg cap (by omega) h49
  refine ⟨by omega, h49, ?_, ?_⟩
  · intro b hb hnf
    simp [Bin.isFull, hb.cap_eq, hb.fluff_eq] at hnf
    omega
  · simp [Bin.isFull, newBin]
    omega

theorem isFullOrig_OK (cap : Int) (hfl : 0 < binFluff cap) (h0 : 0 ≤ cap) (h49 : cap < lim49) :
    FullOK cap Bin.isFullOrig := by
  have hfl' := binFluff_nonneg cap h0 h49
  refine ⟨h0, h49, ?_, ?_⟩
  · intro b hb hnf
    simp [Bin.isFullOrig, hb.cap_eq, hb.fluff_eq] at hnf
    omega
  · simp [Bin.isFullOrig, newBin]
    omega

/-- C11 `packing_loses_nothing` (full statement for the repaired IsFull; side conditions:
    configured payload size `0 < cap < 2^49`, every chunk has `0 ≤ beg`, `0 ≤ len` and
    `beg + len + allowance ≤ 2^53`, and enters the loop unallocated). For ANY input history
    of startBin — chunks of any mix of files, in any order, with timeouts anywhere — the
    parts of the emitted payloads, concatenated in emission order, are chunk by chunk a
    tiling of the chunk's byte range by non-empty adjacent parts carrying the chunk's file
    name: nothing lost, nothing repeated, nothing reordered. Every emitted payload is
    non-empty, its byte count is the sum of its parts and it never exceeds the allowance
    `cap + ⌊cap/10⌋`. -/
theorem packing_loses_nothing (cap : Int) (h0 : 0 < cap) (h49 : cap < lim49)
    (items : List (Option Chunk))
    (hitems : ∀ ch, some ch ∈ items → ChunkOK cap ch ∧ ch.allocated = 0) :
    PackedAs items (binsParts (pack cap items)) ∧
    ∀ b ∈ pack cap items,
      b.WF ∧ b.capacity = cap ∧ b.fluff = binFluff cap ∧ 0 < b.bytes ∧ b.bytes ≤ cap + binFluff cap :=
  packWith_loses_nothing (isFull_OK cap h0 h49) items hitems

/-- The same for the original IsFull (`space < 0 || space < fluff`), which needs a slack of
    at least one byte, i.e. a configured payload size of at least 10 bytes. -/
theorem packing_loses_nothing_orig (cap : Int) (hfl : 0 < binFluff cap) (h0 : 0 ≤ cap)
    (h49 : cap < lim49) (items : List (Option Chunk))
    (hitems : ∀ ch, some ch ∈ items → ChunkOK cap ch ∧ ch.allocated = 0) :
    PackedAs items (binsParts (packOrig cap items)) ∧
    ∀ b ∈ packOrig cap items,
      b.WF ∧ b.capacity = cap ∧ b.fluff = binFluff cap ∧ 0 < b.bytes ∧ b.bytes ≤ cap + binFluff cap :=
  packWith_loses_nothing (isFullOrig_OK cap hfl h0 h49) items hitems

/-- The defect repaired by `fix: a payload without free space is full` (S4): with a payload
    size below 10 bytes the slack is 0, a payload that is exactly full is not "full", the next
    Add adds nothing and startBin drops the rest of the chunk — and every later chunk until
    a timeout sends the payload. Payload size 5, chunks a[0,3) b[0,3) c[0,4): the original
    sends a[0,3) b[0,2) only; the repaired code sends all ten bytes. -/
theorem packing_orig_drops :
    (binsParts (packOrig 5 [some ⟨"a", 0, 3, 0⟩, some ⟨"b", 0, 3, 0⟩, some ⟨"c", 0, 4, 0⟩])).map partRng
      = [⟨0, 3⟩, ⟨0, 2⟩] ∧
    (binsParts (pack 5 [some ⟨"a", 0, 3, 0⟩, some ⟨"b", 0, 3, 0⟩, some ⟨"c", 0, 4, 0⟩])).map partRng
      = [⟨0, 3⟩, ⟨0, 2⟩, ⟨2, 3⟩, ⟨0, 4⟩] := by
  decide

/-! ## every_byte_once -/

/-- number of parts in `ps` that carry the file name `n` and contain byte `x` -/
def partCount : List Part → String → Int → Nat
  | [], _, _ => 0
  | p :: ps, n, x => (if p.name = n ∧ p.beg ≤ x ∧ x < p.fin then 1 else 0) + partCount ps n x

/-- the byte ranges of the chunks of file `n` in an input history of startBin, in order -/
def chunksOf (n : String) : List (Option Chunk) → List Rng
  | [] => []
  | none :: items => chunksOf n items
  | some ch :: items =>
    if ch.name = n then ⟨ch.beg, ch.beg + ch.len⟩ :: chunksOf n items else chunksOf n items

theorem partCount_append (l₁ l₂ : List Part) (n : String) (x : Int) :
    partCount (l₁ ++ l₂) n x = partCount l₁ n x + partCount l₂ n x := by
  induction l₁ with
  | nil => simp [partCount]
  | cons p ps ih => simp only [List.cons_append, partCount, ih]; omega

theorem PartsTile.partCount {nm : String} {a b : Int} {g : List Part} (h : PartsTile nm a b g)
    (n : String) (x : Int) :
    partCount g n x = if nm = n ∧ a ≤ x ∧ x < b then 1 else 0 := by
  induction g generalizing a with
  | nil =>
    have : a = b := h.2
    subst this
    simp only [Sts.partCount]
    split <;> omega
  | cons p ps ih =>
    obtain ⟨hn, h1, h2, h3⟩ := h
    have hle := h3.le
    have hp : p.name = nm := hn p (by simp)
    have := ih (a := p.fin) ⟨fun q hq => hn q (by simp [hq]), h3⟩
    simp only [partRng] at h1 h2 hle
    simp only [Sts.partCount, this, hp]
    by_cases hnm : nm = n
    · simp only [hnm, true_and]
      split <;> split <;> split <;> omega
    · simp [hnm]

theorem PackedAs.partCount {items : List (Option Chunk)} {ps : List Part} (h : PackedAs items ps)
    (n : String) (x : Int) : partCount ps n x = coverCount (chunksOf n items) x := by
  induction h with
  | nil => rfl
  | timeout _ ih => simpa [chunksOf] using ih
  | @chunk ch items g ps hg _ ih =>
    rw [partCount_append, ih, hg.partCount n x]
    simp only [chunksOf]
    by_cases hn : ch.name = n
    · simp only [hn, true_and, if_true, Sts.coverCount]
    · simp [hn]

/-- C11 `every_byte_once` (corollary, same side conditions as `packing_loses_nothing`): in
    a run without failures every byte `x` of every file `n` lies in exactly as many parts
    of the emitted payloads as it lies in chunks popped from the queue. -/
theorem every_byte_once (cap : Int) (h0 : 0 < cap) (h49 : cap < lim49)
    (items : List (Option Chunk))
    (hitems : ∀ ch, some ch ∈ items → ChunkOK cap ch ∧ ch.allocated = 0) (n : String) (x : Int) :
    partCount (binsParts (pack cap items)) n x = coverCount (chunksOf n items) x :=
  (packing_loses_nothing cap h0 h49 items hitems).1.partCount n x

/-- … hence exactly once for a plain file whose chunks came out of the queue's allocation
    loop (any chunk size `c ≥ 0`), wherever the chunks of other files and the timeouts fall. -/
theorem every_byte_once_plain (cap : Int) (h0 : 0 < cap) (h49 : cap < lim49)
    (items : List (Option Chunk))
    (hitems : ∀ ch, some ch ∈ items → ChunkOK cap ch ∧ ch.allocated = 0)
    (n : String) (size c : Int) (hsize : 0 < size) (hc : 0 ≤ c) (fuel : Nat)
    (hfuel : (if c = 0 then 1 else (size + c - 1) / c) ≤ (fuel : Int))
    (hq : chunksOf n items = (FileAlloc.run c fuel ⟨size, 0⟩).1) (x : Int) :
    partCount (binsParts (pack cap items)) n x = if 0 ≤ x ∧ x < size then 1 else 0 := by
  obtain ⟨g, hrun, _, hlen, htile, _⟩ := allocate_tiles size c hsize hc
  have : fuel = g.length + (fuel - g.length) := by omega
  rw [every_byte_once cap h0 h49 items hitems, hq, this, hrun]
  exact htile.coverCount x

/-- … and exactly once for every missing byte of a resumed file (never for a byte that is
    not missing), for non-empty ascending disjoint missing ranges and chunk size `c > 0`. -/
theorem every_byte_once_resumed (cap : Int) (h0 : 0 < cap) (h49 : cap < lim49)
    (items : List (Option Chunk))
    (hitems : ∀ ch, some ch ∈ items → ChunkOK cap ch ∧ ch.allocated = 0)
    (n : String) (left : List Rng) (c : Int)
    (hne : ∀ r ∈ left, r.beg < r.fin) (hasc : left.Pairwise (fun r s => r.fin ≤ s.beg))
    (gs : List Rng) (hgs : TilesAll c left gs) (hq : chunksOf n items = gs) (x : Int) :
    partCount (binsParts (pack cap items)) n x =
      if ∃ r ∈ left, r.beg ≤ x ∧ x < r.fin then 1 else 0 := by
  rw [every_byte_once cap h0 h49 items hitems, hq]
  exact resume_tiles_cover hgs hne hasc x

/-! ## split_partitions: payload/bin.go Split -/

theorem partsBytes_take_drop (l : List Part) (k : Nat) :
    partsBytes (l.take k) + partsBytes (l.drop k) = partsBytes l := by
  have := partsBytes_append (l.take k) (l.drop k)
  rw [List.take_append_drop] at this
  omega

/-- C11 `split_partitions` (full): `Split(n)` is refused (nil, bin unchanged) unless
    `1 ≤ n < len(parts)`; otherwise head and tail hold the first `n` and the remaining
    parts, their byte counts add up to the old one, and for a well-formed bin (slack ≥ 0,
    fewer than 2^49 bytes) both are well-formed again: byte count = sum of the parts, no
    empty part, within the allowance. -/
theorem split_partitions (b : Bin) (n : Int) :
    (¬ (1 ≤ n ∧ n < b.parts.length) → b.split n = none) ∧
    (1 ≤ n ∧ n < b.parts.length →
      ∃ h t, b.split n = some (h, t) ∧ h.parts ++ t.parts = b.parts ∧
        (h.parts.length : Int) = n ∧ h.bytes + t.bytes = b.bytes ∧
        (b.WF → 0 ≤ b.fluff → b.bytes < lim49 → h.WF ∧ t.WF)) := by
  refine ⟨?_, ?_⟩
  · intro hn
    have : n < 1 ∨ n ≥ b.parts.length := by omega
    simp [Bin.split, this]
  · intro hn
    have : ¬ (n < 1 ∨ n ≥ b.parts.length) := by omega
    simp only [Bin.split, this, if_false]
    refine ⟨_, _, rfl, by simp, ?_, by simp only; omega, ?_⟩
    · simp only [List.length_take]; omega
    · intro hwf hfl h49
      have hsum := partsBytes_take_drop b.parts n.toNat
      have hd : ∀ p ∈ b.parts.drop n.toNat, p.beg < p.fin :=
        fun p hp => hwf.pos p (List.mem_of_mem_drop hp)
      have ht : ∀ p ∈ b.parts.take n.toNat, p.beg < p.fin :=
        fun p hp => hwf.pos p (List.mem_of_mem_take hp)
      have hd0 := partsBytes_nonneg hd
      have ht0 := partsBytes_nonneg ht
      have hs := hwf.sum
      refine ⟨⟨by simp only; omega, ht, by simp only; omega⟩, ⟨rfl, hd, ?_⟩⟩
      have := binFluff_nonneg (partsBytes (b.parts.drop n.toNat)) hd0 (by omega)
      simp only; omega

/-! ## payload/bin.go Remove -/

theorem partsBytes_dropLast (l : List Part) (d : Part) (hne : l ≠ []) :
    partsBytes l.dropLast = partsBytes l - (l.getLast?.getD d).len := by
  induction l with
  | nil => exact absurd rfl hne
  | cons x xs ih =>
    cases xs with
    | nil => simp [partsBytes]
    | cons y ys =>
      have := ih (by simp)
      simp only [List.dropLast_cons_cons, partsBytes, List.getLast?_cons_cons] at this ⊢
      omega

theorem swapRemove_spec : ∀ (l : List Part) (i : Nat) (p : Part), l[i]? = some p →
    partsBytes ((l.set i (l.getLast?.getD p)).dropLast) = partsBytes l - p.len ∧
    ((l.set i (l.getLast?.getD p)).dropLast).length + 1 = l.length ∧
    ∀ q ∈ (l.set i (l.getLast?.getD p)).dropLast, q ∈ l := by
  intro l
  induction l with
  | nil => intro i p h; simp at h
  | cons x xs ih =>
    intro i p h
    cases xs with
    | nil =>
      cases i with
      | zero => simp at h; subst h; simp [partsBytes]
      | succ j => simp at h
    | cons y ys =>
      cases i with
      | zero =>
        simp at h; subst h
        have hd := partsBytes_dropLast (y :: ys) x (by simp)
        simp only [List.set_cons_zero, List.getLast?_cons_cons, List.dropLast_cons_cons, partsBytes,
          List.length_cons, List.length_dropLast] at hd ⊢
        refine ⟨by omega, by simp, ?_⟩
        intro q hq
        have hlast : (y :: ys).getLast?.getD x ∈ y :: ys := by
          cases hl : (y :: ys).getLast? with
          | none => simp at hl
          | some z => simpa using List.mem_of_getLast? hl
        rcases List.mem_cons.mp hq with h | hq
        · rw [h]; exact List.mem_cons_of_mem _ hlast
        · exact List.mem_cons_of_mem _ (List.dropLast_subset _ hq)
      | succ j =>
        have h' : (y :: ys)[j]? = some p := by simpa using h
        obtain ⟨h1, h2, h3⟩ := ih j p h'
        simp only [List.set_cons_succ, List.getLast?_cons_cons] at h1 h2 h3 ⊢
        have hne : (y :: ys).set j ((y :: ys).getLast?.getD p) ≠ [] := by simp
        obtain ⟨z, zs, hz⟩ := List.exists_cons_of_ne_nil hne
        rw [hz] at h1 h2 h3 ⊢
        simp only [List.dropLast_cons_cons, partsBytes, List.length_cons] at h1 h2 h3 ⊢
        refine ⟨by omega, by omega, ?_⟩
        intro q hq
        rcases List.mem_cons.mp hq with rfl | hq
        · simp
        · exact List.mem_cons_of_mem _ (h3 q hq)

/-- payload/bin.go Remove of a part that is in the bin: exactly that part's bytes leave the
    byte count, one part fewer, no part invented; a well-formed bin stays well-formed. A part
    that is not in the bin changes nothing. -/
theorem remove_spec (b : Bin) (i : Nat) :
    (b.parts[i]? = none → b.remove i = b) ∧
    (∀ p, b.parts[i]? = some p →
      (b.remove i).bytes = b.bytes - p.len ∧
      partsBytes (b.remove i).parts = partsBytes b.parts - p.len ∧
      (b.remove i).parts.length + 1 = b.parts.length ∧
      (∀ q ∈ (b.remove i).parts, q ∈ b.parts) ∧
      (b.WF → (b.remove i).WF)) := by
  refine ⟨fun h => by simp [Bin.remove, h], ?_⟩
  intro p hp
  obtain ⟨h1, h2, h3⟩ := swapRemove_spec b.parts i p hp
  have hrem : b.remove i = { b with parts := (b.parts.set i (b.parts.getLast?.getD p)).dropLast
                                    bytes := b.bytes - p.len } := by
    simp [Bin.remove, hp]
  rw [hrem]
  refine ⟨rfl, h1, h2, h3, ?_⟩
  intro hwf
  have hpos : p.beg < p.fin := hwf.pos p (List.mem_of_getElem? hp)
  exact ⟨by simp only [h1, hwf.sum], fun q hq => hwf.pos q (h3 q hq),
    by have := hwf.bound; simp only [Part.len]; omega⟩

/-! ## the model's dispatch on resumed files (queue/queue.go `orig.(sts.Recovered)`) -/

theorem SFile.run_plain (c : Int) (n : Nat) (f : FileAlloc) :
    SFile.run c n (.plain f) = ((FileAlloc.run c n f).1, .plain (FileAlloc.run c n f).2) := by
  induction n generalizing f with
  | zero => rfl
  | succ n ih =>
    by_cases h : f.isAllocated = true
    · simp [SFile.run, SFile.isAllocated, FileAlloc.run, h]
    · simp [SFile.run, SFile.isAllocated, FileAlloc.run, h, SFile.allocate, ih]

theorem SFile.run_resumed (c : Int) (n : Nat) (sz : Int) (f : Resume) :
    SFile.run c n (.resumed sz f) = ((Resume.run c n f).1, .resumed sz (Resume.run c n f).2) := by
  induction n generalizing f with
  | zero => rfl
  | succ n ih =>
    by_cases h : f.isAllocated = true
    · simp [SFile.run, SFile.isAllocated, Resume.run, h]
    · cases ha : f.allocate c with
      | none => simp [SFile.run, SFile.isAllocated, Resume.run, h, SFile.allocate, ha]
      | some r => simp [SFile.run, SFile.isAllocated, Resume.run, h, SFile.allocate, ha, ih]

/-! ## excluded points: what the model (and, through the correspondence check, the code)
    does outside the hypotheses -/

/-- Excluded point of `resume_tiles` (chunk size 0): `Allocate(0)` on a resumed file hands
    out an empty chunk and does not advance — the Pop loop would never end. Unreachable
    from `main`, which replaces a chunk size of 0 by the payload size. -/
theorem resume_chunk0_stuck (f : Resume) (r : Rng) (h : f.left[f.part]? = some r)
    (hlt : r.beg + f.used < r.fin) :
    f.allocate 0 = some (f, r.beg + f.used, 0) ∧ f.isAllocated = false := by
  have hp : f.part < f.left.length := by
    cases hlen : decide (f.part < f.left.length) with
    | true => simpa using hlen
    | false =>
      have : f.left.length ≤ f.part := by simpa using hlen
      rw [List.getElem?_eq_none this] at h; cases h
  have hno : ¬ (r.beg + f.used + 0 ≥ r.fin) := by omega
  refine ⟨?_, by simp [Resume.isAllocated]; omega⟩
  obtain ⟨left, part, used⟩ := f
  simp only at h hlt hno
  have hno' : ¬ (r.beg + used ≥ r.fin) := by omega
  simp [Resume.allocate, h, hno']

/-- Excluded point of `resume_tiles` (S5): an overlapping receiver record `[2,8) [6,10)` of
    a 12-byte file makes `recover()` compute the "missing" ranges `[0,2) [8,6) [10,12)`; the
    resumed file then hands out the chunk (8, −2): negative length, and `GetSendSize` is 2,
    not 4. -/
theorem resume_negative_range :
    missing [⟨2, 8⟩, ⟨6, 10⟩] 12 = [⟨0, 2⟩, ⟨8, 6⟩, ⟨10, 12⟩] ∧
    (Resume.run 4 10 ⟨[⟨0, 2⟩, ⟨8, 6⟩, ⟨10, 12⟩], 0, 0⟩).1 = [⟨0, 2⟩, ⟨8, 6⟩, ⟨10, 12⟩] ∧
    Resume.sendSize ⟨[⟨0, 2⟩, ⟨8, 6⟩, ⟨10, 12⟩], 0, 0⟩ = 2 := by
  decide

/-- Excluded point of `packing_loses_nothing` (payload size ≤ 0, repaired and original
    IsFull alike): a payload of capacity 0 never accepts a byte, every chunk is dropped. -/
theorem packing_cap0_drops :
    binsParts (pack 0 [some ⟨"a", 0, 3, 0⟩, none, some ⟨"b", 0, 1, 0⟩]) = [] ∧
    binsParts (packOrig 0 [some ⟨"a", 0, 3, 0⟩, none, some ⟨"b", 0, 1, 0⟩]) = [] := by
  decide

/-- Excluded point of `packing_loses_nothing` (a chunk of negative length, as produced by
    S5): Add refuses it, startBin drops it silently. -/
theorem packing_negative_chunk_dropped :
    (binsParts (pack 100 [some ⟨"a", 8, -2, 0⟩, some ⟨"b", 0, 7, 0⟩])).map partRng = [⟨0, 7⟩] := by
  decide

/-! ## non-vacuity -/

example : (FileAlloc.run 4 10 ⟨13, 0⟩).1 = [⟨0, 4⟩, ⟨4, 8⟩, ⟨8, 12⟩, ⟨12, 13⟩] := by decide
example : (FileAlloc.run 0 10 ⟨13, 0⟩).1 = [⟨0, 13⟩] := by decide
example : Tiles 0 13 [⟨0, 4⟩, ⟨4, 8⟩, ⟨8, 12⟩, ⟨12, 13⟩] := by decide
example : (Resume.run 4 20 ⟨[⟨3, 12⟩, ⟨20, 30⟩], 0, 0⟩).1 =
    [⟨3, 7⟩, ⟨7, 11⟩, ⟨11, 12⟩, ⟨20, 24⟩, ⟨24, 28⟩, ⟨28, 30⟩] := by decide
example : TilesAll 4 [⟨3, 12⟩, ⟨20, 30⟩] ([⟨3, 7⟩, ⟨7, 11⟩, ⟨11, 12⟩] ++ ([⟨20, 24⟩, ⟨24, 28⟩, ⟨28, 30⟩] ++ [])) :=
  TilesAll.cons (by decide) (by decide) (TilesAll.cons (by decide) (by decide) TilesAll.nil)
example : ChunkOK 100 ⟨"e", 0, 250, 0⟩ ∧ (0 : Int) < 100 ∧ (100 : Int) < lim49 := by decide
example : ((pack 100 [some ⟨"a", 0, 30, 0⟩, some ⟨"b", 0, 90, 0⟩, none, some ⟨"e", 0, 250, 0⟩]).map
    (fun b => (b.bytes, b.parts.map partRng))) =
    [(110, [⟨0, 30⟩, ⟨0, 80⟩]), (10, [⟨80, 90⟩]), (110, [⟨0, 110⟩]), (110, [⟨110, 220⟩]), (30, [⟨220, 250⟩])] := by
  decide
example : ((newBin 100).add ⟨"a", 0, 60, 0⟩).1.WF := newBin_WF 100 (by decide) (by decide) |>
  fun h => (bin_bounded _ _ h (by decide)).1
example : (({ parts := [⟨"a", 0, 4⟩, ⟨"b", 4, 8⟩, ⟨"c", 8, 11⟩], capacity := 10, fluff := 1, bytes := 11 } : Bin).split 1).map
    (fun r => (r.1.bytes, r.2.bytes, r.2.fluff)) = some (4, 7, 0) := by decide

end Sts
