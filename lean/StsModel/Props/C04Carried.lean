/-
  C04 end to end, the link derived: where the predecessor of a receive-log record comes from.

  Props/C04Compose.lean composes the sender's chain with the receiver's "no record before its
  predecessor" under the hypothesis `AnnouncementsCarried` (the ghost field `LogRec.prev` of a
  record = the predecessor the sender announced). Here that hypothesis is DERIVED from the
  receiver model (Lemmas/StageCarried.lean) and replaced by hypotheses about what the receiver
  was GIVEN:

  (1) for every history `evs` from the empty staging area (`RunsTo H evs s`; every `Reachable`
      state has one), with `announced evs n h` = the predecessors announced by the headers of the
      `record n m …` events (complete or cut by a crash) with `m.hash = h`:
      * `companion_prev_announced`          full  companion.prev ∈ announced, never blank
      * `entry_prev_announced_or_blank`     full  cache entry: announced or ""
      * `queued_prev_announced_or_blank`    full  validate queue, finalize queue, parked entries
      * `record_prev_announced_or_blank`    full  log record: announced or ""
      * `record_prev_announced_or_blank_reachable`  the same for `Reachable H s`
      when the blank occurs:
      * `loaded_entry_is_blank`             full  buildCache loads entries with state logged, prev ""
      * `recover_takes_companion_prev`      full  every entry Recover builds is loaded from the log
                                                  (blank) or carries its companion's hash and prev
      * `restart_keeps_records`             full  a crash leaves the log (and its ghost field) alone
      * `entry_prev_announced_or_loaded`    full  under `CleanerSpared`: a cache entry is announced,
                                                  or loaded from the log (state logged, prev "")
      * `record_prev_announced`             full  under `CleanerSpared`: a record's prev is announced
                                                  (so "" only if a header of that version announced "")
  (2) * `record_prev_is_the_announced`      full  all headers of (n, h) announce p, cleaner spared n
                                                  ⇒ every record of (n, h) has prev = p
      * `NoCycleCleaned.spared`             full  `NoCycleCleaned` (no cleaner event ran in a state in
                                                  which `detectLoop` answers true for some name) ⇒
                                                  `CleanerSpared` for every set of names
      * `announcements_carried_any`         full  derives `AnnouncementsCarriedAny` from
                                                  `HeadersAreAnnouncements` (the wire, C13: a named
                                                  hypothesis) and `CleanerSpared` for the group
      * `announcements_carried`             full  … and `AnnouncementsCarried` with `SteadyAnnouncements`
      * `announcements_carried_of_agreeing_headers`  full  any `prevOf`: all headers given for a file
                                                  of the group announce `prevOf` of it
      * `delivery_order_is_emission_order_from_headers`        full (hypotheses: `PlainOrderedGroup`,
                                                  `SteadyAnnouncements`, `HeadersAreAnnouncements`,
                                                  `NoCycleCleaned`)
      * `delivery_order_is_emission_order_from_headers_spared` the same with `CleanerSpared` for the
                                                  files of the group instead of `NoCycleCleaned`
      * `delivered_files_are_prefix_of_emission_from_headers`  prefix form
  (3) witnesses:
      * `cleaned_record_is_blank`   a cycle was cleaned: the header of `c` announced `b`, the record
                                    of `c` carries "" (the run of `cleaner_gave_up_breaks_order`);
                                    `NoCycleCleaned` and `CleanerSpared {c}` fail for it
      * `which_header_wins`         two headers of one version announce different predecessors:
                                    live, the record carries the header of the part that COMPLETED
                                    the file at the receiver (not the last header given); after a
                                    restart it carries the companion's = the LAST header recorded
      * `steady_cannot_be_dropped`  (reuse of `first_chunk_may_announce_less`)
-/
import StsModel.Lemmas.StageCarried
import StsModel.Props.C04Compose

namespace Sts.Stage

/-! ## (1) where a predecessor comes from -/

/-- **companion_prev_announced**: after every history the companion `<n>.cmp` carries the
    predecessor announced by a header the receiver was given for the companion's version (the
    last one recorded: `which_header_wins`); it is never blanked. -/
theorem companion_prev_announced {H : Body → String} {evs : List Ev} {s : State} (hr : RunsTo H evs s)
    {n : Name} {c : Cmp} (hc : s.disk.cmp n = some c) : c.prev ∈ announced evs n c.hash :=
  (carried_or_blank hr).cmp n c hc

/-- **entry_prev_announced_or_blank**: a cache entry (`finalFile`) carries a predecessor
    announced by a header given for its version - or none. -/
theorem entry_prev_announced_or_blank {H : Body → String} {evs : List Ev} {s : State} (hr : RunsTo H evs s)
    {n : Name} {e : Entry} (he : s.mem.cache n = some e) : e.prev = "" ∨ e.prev ∈ announced evs n e.hash := by
  rcases (carried_or_blank hr).cache n e he with h | h
  · exact Or.inl h.2
  · exact h

/-- **queued_prev_announced_or_blank**: the same for the items of the validate queue, of the
    finalize queue and for the parked entries. -/
theorem queued_prev_announced_or_blank {H : Body → String} {evs : List Ev} {s : State} (hr : RunsTo H evs s) :
    (∀ x ∈ s.mem.vq, x.2.prev = "" ∨ x.2.prev ∈ announced evs x.1 x.2.hash) ∧
    (∀ x ∈ s.mem.fq, x.2.prev = "" ∨ x.2.prev ∈ announced evs x.1 x.2.hash) ∧
    (∀ w ∈ s.mem.wait, w.2.2.prev = "" ∨ w.2.2.prev ∈ announced evs w.2.1 w.2.2.hash) :=
  ⟨(carried_or_blank hr).vq, (carried_or_blank hr).fq, (carried_or_blank hr).wait⟩

/-- **record_prev_announced_or_blank**: for every history (calls, worker actions, timer and
    cleaner firings, crashes, crashes inside operations, restarts) every receive-log record of
    version `h` of `n` carries - in the ghost field `prev`, the predecessor the entry carried when
    it was finalized - a predecessor announced by a header the receiver was given for that
    version, or none. -/
theorem record_prev_announced_or_blank {H : Body → String} {evs : List Ev} {s : State} (hr : RunsTo H evs s) :
    ∀ r ∈ s.disk.log, r.prev = "" ∨ r.prev ∈ announced evs r.name r.hash :=
  (carried_or_blank hr).log

/-- the same, for `Reachable` -/
theorem record_prev_announced_or_blank_reachable {H : Body → String} {s : State} (hr : Reachable H s) :
    ∃ evs, s = runEvs H init evs ∧
      ∀ r ∈ s.disk.log, r.prev = "" ∨ r.prev ∈ announced evs r.name r.hash := by
  obtain ⟨evs, h⟩ := hr.runsTo
  exact ⟨evs, h.eq, record_prev_announced_or_blank h⟩

/-! ### when the blank occurs -/

/-- **loaded_entry_is_blank**: the entries `buildCache` loads from the receive log have state
    `logged` and no predecessor (the log file has no such field). -/
theorem loaded_entry_is_blank (s : State) (frm now : Int) (n : Name) (e : Entry)
    (h : Prim.cacheSet n e ∈ buildCacheEffects s frm now) : e.state = .logged ∧ e.prev = "" := by
  have := buildCache_CG (Ac := fun _ _ _ => False) (A := fun _ _ _ => False) s frm now _ h
  simpa [CG] using this

/-- **recover_takes_companion_prev**: every cache entry, queue item that `Recover` writes is
    loaded from the receive log (state `logged`, blank) or built from the name's companion: it
    carries the companion's hash and the companion's predecessor. -/
theorem recover_takes_companion_prev (H : Body → String) (s : State) (now : Int) (names : List Name) :
    (∀ n e, Prim.cacheSet n e ∈ recoverEffects H s now names →
      (e.state = .logged ∧ e.prev = "") ∨ ∃ c, s.disk.cmp n = some c ∧ c.hash = e.hash ∧ c.prev = e.prev) ∧
    (∀ n e, Prim.fqPush n e ∈ recoverEffects H s now names →
      ∃ c, s.disk.cmp n = some c ∧ c.hash = e.hash ∧ c.prev = e.prev) := by
  have := recover_CG (Ac := fun _ _ _ => False)
    (A := fun n h p => ∃ c, s.disk.cmp n = some c ∧ c.hash = h ∧ c.prev = p) H s now names
    (fun n c hc => ⟨c, hc, rfl, rfl⟩)
  exact ⟨fun n e h => this _ h, fun n e h => this _ h⟩

/-- **restart_keeps_records**: a crash loses the memory, not the log: the records - and what
    the ghost field says about them - stay; the cache entries built from them later are blank
    (`loaded_entry_is_blank`) and are never finalized again (`record_prev_announced`: no record
    takes its predecessor from them). -/
theorem restart_keeps_records (s : State) : (crash s).disk.log = s.disk.log ∧ (crash s).disk.cmp = s.disk.cmp :=
  ⟨rfl, rfl⟩

/-- **entry_prev_announced_or_loaded**: in a history in which the cleaner never wrote an entry
    of `n`, the cache entry of `n` was loaded from the receive log (state `logged`, no
    predecessor) or carries a predecessor announced by a header given for its version. -/
theorem entry_prev_announced_or_loaded {H : Body → String} {N : Name → Prop} {evs : List Ev} {s : State}
    (hr : RunsTo H evs s) (hc : CleanerSpared H N evs) {n : Name} {e : Entry} (hn : N n)
    (he : s.mem.cache n = some e) :
    (e.state = .logged ∧ e.prev = "") ∨ e.prev ∈ announced evs n e.hash :=
  ((carried_spared hr hc).cache n e he).imp id (fun h => h hn)

/-- **record_prev_announced**: in a history in which the cleaner never wrote an entry of a
    name in `N`, every receive-log record of a name in `N` carries a predecessor announced by a
    header the receiver was given for that version of that name. In particular it is blank only
    if such a header announced no predecessor: besides the cleaner nothing blanks a predecessor
    that reaches the log. -/
theorem record_prev_announced {H : Body → String} {N : Name → Prop} {evs : List Ev} {s : State}
    (hr : RunsTo H evs s) (hc : CleanerSpared H N evs) :
    ∀ r ∈ s.disk.log, N r.name → r.prev ∈ announced evs r.name r.hash :=
  (carried_spared hr hc).log

/-! ## (2) the cleaner hypothesis in terms of `detectLoop` -/

/-- no cleaner event (complete or cut by a crash) of the history `evs`, run from `s`, started
    in a state in which `detectLoop` answers true for some name -/
def NoCycleFrom (H : Body → String) : State → List Ev → Prop
  | _, [] => True
  | s, e :: evs => (e.cleaned.isSome → ∀ p, detectLoop s.mem p = false) ∧ NoCycleFrom H (step H s e) evs

/-- **NoCycleCleaned**: the cleaner never found a cycle: every `cleanWaiting` event of the
    history started in a state whose wait map has no cycle that `detectLoop` finds. -/
def NoCycleCleaned (H : Body → String) (evs : List Ev) : Prop := NoCycleFrom H init evs

theorem NoCycleFrom.append {H : Body → String} {l1 l2 : List Ev} {s : State}
    (h1 : NoCycleFrom H s l1) (h2 : NoCycleFrom H (runEvs H s l1) l2) : NoCycleFrom H s (l1 ++ l2) := by
  induction l1 generalizing s with
  | nil => simpa [runEvs] using h2
  | cons e l ih => exact ⟨h1.1, ih h1.2 (by simpa [runEvs] using h2)⟩

/-- a history without cleaner events -/
theorem NoCycleFrom.of_no_cleaner {H : Body → String} {l : List Ev} (h : ∀ e ∈ l, e.cleaned = none)
    (s : State) : NoCycleFrom H s l := by
  induction l generalizing s with
  | nil => trivial
  | cons e l ih =>
    refine ⟨?_, ih (fun x hx => h x (by simp [hx])) _⟩
    rw [h e (by simp)]; intro hh; cases hh

theorem NoCycleFrom.at_split {H : Body → String} {evs : List Ev} {s0 : State} (h : NoCycleFrom H s0 evs)
    {pre : List Ev} {e : Ev} {post : List Ev} {names : List Name} (hsplit : evs = pre ++ e :: post)
    (he : e.cleaned = some names) : ∀ p, detectLoop (runEvs H s0 pre).mem p = false := by
  induction pre generalizing evs s0 with
  | nil =>
    subst hsplit
    exact h.1 (by rw [he]; rfl)
  | cons x pre ih =>
    subst hsplit
    exact ih h.2 rfl

/-- **NoCycleCleaned.spared**: if the cleaner never found a cycle it never wrote anything
    (`cleanWaiting_noop_without_cycle`): `CleanerSpared` holds for every set of names. -/
theorem NoCycleCleaned.spared {H : Body → String} {evs : List Ev} (h : NoCycleCleaned H evs)
    (N : Name → Prop) : CleanerSpared H N evs := by
  intro pre e post names hsplit he p hp
  rw [cleanWaiting_noop_without_cycle _ names (h.at_split hsplit he)] at hp
  cases hp

/-- `detectLoop` answers false for a name nobody is parked on -/
theorem detectLoop_false_of_no_waiters (m : Mem) (p : Name) (h : waitersOf m p = []) :
    detectLoop m p = false := by
  simp [detectLoop, detectLoopAux, h]

/-- **record_prev_is_the_announced**: if all headers the receiver was given for version `h` of
    `n` announce the same predecessor `p`, and the cleaner never wrote an entry of `n`, then
    every receive-log record of that version carries `p`. -/
theorem record_prev_is_the_announced {H : Body → String} {N : Name → Prop} {evs : List Ev} {s : State}
    (hr : RunsTo H evs s) (hc : CleanerSpared H N evs) {n : Name} {h p : String} (hn : N n)
    (hsame : ∀ q ∈ announced evs n h, q = p) :
    ∀ r ∈ s.disk.log, r.name = n → r.hash = h → r.prev = p := by
  intro r hr' hrn hrh
  subst hrn; subst hrh
  exact hsame _ (record_prev_announced hr hc r hr' hn)

end Sts.Stage

/-! ## (2) the link of Props/C04Compose.lean, derived -/

namespace Sts

open Queue Stage

/-- **HeadersAreAnnouncements** (a hypothesis: the wire, property C13, and the sender's
    client code between Pop and the payload): every header the receiver was given for a file of
    the group carries the predecessor of SOME chunk the sender's queue cut from that file. -/
def HeadersAreAnnouncements (as : List (Option Chunk)) (grp : String) (evs : List Ev) : Prop :=
  ∀ e ∈ evs, ∀ n m, e.header = some (n, m) → n ∈ completedNames as grp →
    ∃ (k : Nat) (ch : Chunk), as[k]? = some (some ch) ∧ ch.group = grp ∧ ch.name = n ∧ m.prev = ch.prev

/-- a checkable form of `HeadersAreAnnouncements` for concrete histories -/
def headersOk (as : List (Option Chunk)) (grp : String) (evs : List Ev) : Bool :=
  evs.all (fun e => match e.header with
    | none => true
    | some (n, m) => !(completedNames as grp).contains n ||
        as.any (fun a => match a with
          | some ch => ch.group == grp && ch.name == n && m.prev == ch.prev
          | none => false))

theorem headersOk_sound {as : List (Option Chunk)} {grp : String} {evs : List Ev}
    (h : headersOk as grp evs = true) : HeadersAreAnnouncements as grp evs := by
  intro e he n m hh hn
  have := List.all_eq_true.mp h e he
  simp only [hh, Bool.or_eq_true, Bool.not_eq_true', List.contains_eq_mem, decide_eq_false_iff_not,
    List.any_eq_true] at this
  rcases this with h1 | ⟨a, ha, hp⟩
  · exact absurd hn h1
  · cases a with
    | none => simp at hp
    | some ch =>
      simp only [Bool.and_eq_true, beq_iff_eq] at hp
      obtain ⟨k, hk, hka⟩ := List.mem_iff_getElem.mp ha
      exact ⟨k, ch, by rw [List.getElem?_eq_getElem hk, hka], hp.1.1, hp.1.2, hp.2⟩

/-- **announcements_carried_any**: `AnnouncementsCarriedAny` derived. For every history of
    the receiver in which the headers given for the files of the group are announcements of the
    sender's queue and the cleaner never wrote an entry of a file of the group, every record of
    a file of the group carries the predecessor announced with some chunk of that file. -/
theorem announcements_carried_any {H : Body → String} {evs : List Ev} {s : Stage.State} (hr : RunsTo H evs s)
    {as : List (Option Chunk)} {grp : String} (hw : HeadersAreAnnouncements as grp evs)
    (hc : CleanerSpared H (fun n => n ∈ completedNames as grp) evs) : AnnouncementsCarriedAny as grp s := by
  intro r hrl hm
  have := record_prev_announced hr hc r hrl hm
  obtain ⟨e, he, m, hh, _, hp⟩ := mem_announced.mp this
  obtain ⟨k, ch, hk, hg, hn, hpp⟩ := hw e he r.name m hh hm
  exact ⟨k, ch, hk, hg, hn, by rw [← hp, hpp]⟩

/-- **announcements_carried**: `AnnouncementsCarried` derived, for sender histories in which
    the chunks of a file agree (`SteadyAnnouncements`). -/
theorem announcements_carried {H : Body → String} {evs : List Ev} {s : Stage.State} (hr : RunsTo H evs s)
    {as : List (Option Chunk)} {grp : String} (hst : SteadyAnnouncements as grp)
    (hw : HeadersAreAnnouncements as grp evs)
    (hc : CleanerSpared H (fun n => n ∈ completedNames as grp) evs) :
    AnnouncementsCarried (completionPrev as grp) (completedNames as grp) s :=
  (announcements_carried_any hr hw hc).carried hst

/-- **announcements_carried_of_agreeing_headers**: `AnnouncementsCarried` for any assignment
    `prevOf`: if every header the receiver was given for a file `n` of the group (any version)
    announces `prevOf n` and the cleaner never wrote an entry of a file of the group, the
    records of the group's files carry `prevOf`. -/
theorem announcements_carried_of_agreeing_headers {H : Body → String} {evs : List Ev} {s : Stage.State}
    (hr : RunsTo H evs s) {prevOf : Name → Name} {emitted : List Name}
    (hagree : ∀ n ∈ emitted, ∀ h, ∀ q ∈ announced evs n h, q = prevOf n)
    (hc : CleanerSpared H (fun n => n ∈ emitted) evs) : AnnouncementsCarried prevOf emitted s := by
  intro r hrl hm
  exact hagree r.name hm r.hash _ (record_prev_announced hr hc r hrl hm)

/-- **delivery_order_is_emission_order_from_headers_spared**. Sender: any history `ops` of Push
    and Pop from the empty queue whose group `grp` satisfies `PlainOrderedGroup` and whose chunks
    of one file agree (`SteadyAnnouncements`). Receiver: any history `evs` from the empty staging
    area (all arrival orders, crashes, restarts, timer and cleaner firings). Link: the headers
    the receiver was GIVEN for files of the group are announcements of the sender's queue
    (`HeadersAreAnnouncements`: the wire, C13), and the cleaner never wrote an entry of a file of
    the group (`CleanerSpared`). Then the files of the group appear in the receive log in the
    order the sender's queue completed them. -/
theorem delivery_order_is_emission_order_from_headers_spared {c : Conf} {ops : List Queue.Op} {grp : String}
    (hs : PlainOrderedGroup c ops grp) (hst : SteadyAnnouncements (Queue.run c [] ops).2 grp)
    {H : Body → String} (evs : List Ev)
    (hw : HeadersAreAnnouncements (Queue.run c [] ops).2 grp evs)
    (hc : CleanerSpared H (fun n => n ∈ completedNames (Queue.run c [] ops).2 grp) evs)
    {i j : Nat} {a b : String} (hij : i < j)
    (ha : (completedNames (Queue.run c [] ops).2 grp)[i]? = some a)
    (hb : (completedNames (Queue.run c [] ops).2 grp)[j]? = some b)
    {pre post : List LogRec} {r : LogRec}
    (hsplit : (runEvs H Stage.init evs).disk.log = pre ++ r :: post) (hrb : r.name = b) :
    ∃ q ∈ pre, q.name = a :=
  delivery_order_is_emission_order hs ⟨evs, rfl⟩
    (announcements_carried (runsTo_runEvs H evs) hst hw hc) hij ha hb hsplit hrb

/-- **delivery_order_is_emission_order_from_headers**: the same with the cleaner hypothesis in
    terms of `detectLoop`: no cleaner event of the history started in a state in which
    `detectLoop` answers true for some name (`NoCycleCleaned`). The hypothesis about the log
    records (`AnnouncementsCarried`) is gone; what remains between the two models is
    `HeadersAreAnnouncements`. -/
theorem delivery_order_is_emission_order_from_headers {c : Conf} {ops : List Queue.Op} {grp : String}
    (hs : PlainOrderedGroup c ops grp) (hst : SteadyAnnouncements (Queue.run c [] ops).2 grp)
    {H : Body → String} (evs : List Ev)
    (hw : HeadersAreAnnouncements (Queue.run c [] ops).2 grp evs) (hnc : NoCycleCleaned H evs)
    {i j : Nat} {a b : String} (hij : i < j)
    (ha : (completedNames (Queue.run c [] ops).2 grp)[i]? = some a)
    (hb : (completedNames (Queue.run c [] ops).2 grp)[j]? = some b)
    {pre post : List LogRec} {r : LogRec}
    (hsplit : (runEvs H Stage.init evs).disk.log = pre ++ r :: post) (hrb : r.name = b) :
    ∃ q ∈ pre, q.name = a :=
  delivery_order_is_emission_order_from_headers_spared hs hst evs hw (hnc.spared _) hij ha hb hsplit hrb

/-- **delivered_files_are_prefix_of_emission_from_headers** (prefix form): the files of the
    group, in the order of their first record in the receive log, are an initial segment of the
    sender's completion order. -/
theorem delivered_files_are_prefix_of_emission_from_headers {c : Conf} {ops : List Queue.Op} {grp : String}
    (hs : PlainOrderedGroup c ops grp) (hst : SteadyAnnouncements (Queue.run c [] ops).2 grp)
    {H : Body → String} (evs : List Ev)
    (hw : HeadersAreAnnouncements (Queue.run c [] ops).2 grp evs) (hnc : NoCycleCleaned H evs) :
    Compose.firstSeen (completedNames (Queue.run c [] ops).2 grp)
        ((runEvs H Stage.init evs).disk.log.map (·.name)) <+:
      completedNames (Queue.run c [] ops).2 grp :=
  delivered_files_are_prefix_of_emission hs ⟨evs, rfl⟩
    (announcements_carried (runsTo_runEvs H evs) hst hw (hnc.spared _))

end Sts

/-! ## non-vacuity -/

namespace Sts

open Queue Stage

/-- the headers the receiver was given in the end-to-end example of Props/C04Compose.lean -/
example : announced e2eRecv "g/c" "h" = ["g/b"] ∧ announced e2eRecv "g/b" "h" = ["g/a"] ∧
    announced e2eRecv "g/a" "h" = [""] := by decide

/-- (1) and (2) on that run: the records carry exactly what was announced -/
example : (runEvs exH Stage.init e2eRecv).disk.log.map (fun r => (r.name, r.hash, r.prev)) =
    [("g/a", "h", ""), ("g/b", "h", "g/a"), ("g/c", "h", "g/b")] := by decide

theorem e2e_headers : HeadersAreAnnouncements (Queue.run e2eConf [] e2eOps).2 "g" e2eRecv :=
  headersOk_sound (by decide)

theorem e2e_noCycle : NoCycleCleaned exH e2eRecv :=
  NoCycleFrom.of_no_cleaner (by decide) _

/-- all hypotheses of `delivery_order_is_emission_order_from_headers` hold together on the
    example, and the theorem applies: every record of `g/c` is preceded by a record of `g/a` -/
example {pre post : List LogRec} {r : LogRec}
    (hsplit : (runEvs exH Stage.init e2eRecv).disk.log = pre ++ r :: post) (hrc : r.name = "g/c") :
    ∃ q ∈ pre, q.name = "g/a" :=
  delivery_order_is_emission_order_from_headers e2e_plain
    (by
      apply steady_of_whole_files e2e_plain
      intro k ch hk _
      have : ∀ a ∈ (Queue.run e2eConf [] e2eOps).2, ∀ ch, a = some ch → ch.completed = true := by decide
      exact this _ (List.mem_of_getElem? hk) ch rfl)
    e2eRecv e2e_headers e2e_noCycle (i := 0) (j := 2) (by decide) (by decide) (by decide) hsplit hrc

/-- a history in which the cleaner RUNS while `b` is parked on `a` and finds no cycle: `b`
    (announcing `a`) arrives first and is parked, the cleaner fires, `a` is delivered, `b` is
    released -/
def exCleanNoCycle : List Ev := exRecv "b" "a" ++ exRecv "a" "" ++ [.op (.finh "b" 0)] ++
  ([.op (.cleanWaiting ["a", "b"])] ++ [.op (.finh "a" 0), .op (.finh "b" 0)])

theorem exCleanNoCycle_ok : NoCycleCleaned exH exCleanNoCycle := by
  unfold NoCycleCleaned exCleanNoCycle
  refine NoCycleFrom.append (NoCycleFrom.of_no_cleaner (by decide) _)
    (NoCycleFrom.append ⟨?_, trivial⟩ (NoCycleFrom.of_no_cleaner (by decide) _))
  intro _ p
  by_cases hp : p = "a"
  · subst hp; decide
  · apply detectLoop_false_of_no_waiters
    have hw : (runEvs exH Stage.init (exRecv "b" "a" ++ exRecv "a" "" ++ [.op (.finh "b" 0)])).mem.wait.map (·.1)
        = ["a"] := by decide
    simp only [waitersOf, List.map_eq_nil_iff, List.filter_eq_nil_iff, beq_iff_eq]
    intro w hwm hw1
    have : w.1 ∈ ["a"] := by rw [← hw]; exact List.mem_map.mpr ⟨w, hwm, rfl⟩
    simp only [List.mem_singleton] at this
    exact hp (hw1 ▸ this)

/-- … and `record_prev_is_the_announced` applies: the record of `b` carries `a` -/
example : (runEvs exH Stage.init exCleanNoCycle).disk.log.map (fun r => (r.name, r.prev)) = [("a", ""), ("b", "a")] ∧
    (runEvs exH Stage.init (exCleanNoCycle.take 11)).mem.wait.map (fun w => (w.1, w.2.1)) = [("a", "b")] ∧
    ∀ r ∈ (runEvs exH Stage.init exCleanNoCycle).disk.log, r.name = "b" → r.hash = "h" → r.prev = "a" :=
  ⟨by decide, by decide,
   record_prev_is_the_announced (N := fun _ => True) (runsTo_runEvs exH exCleanNoCycle)
     (exCleanNoCycle_ok.spared _) trivial (by decide)⟩

/-! ## (3) witnesses -/

/-- **cleaned_record_is_blank** (the cleaner hypothesis cannot be dropped; the run of
    `cleaner_gave_up_breaks_order`): the only header the receiver was given for `c` announced
    `b`; a cycle was cleaned (`detectLoop` answered true for `b` when the cleaner started), the
    cleaner wrote the entry of `c`, and the record of `c` carries no predecessor - the blank
    alternative of `record_prev_announced_or_blank`; `NoCycleCleaned` and `CleanerSpared` for
    `c` fail, and so does the conclusion of `record_prev_announced`. -/
theorem cleaned_record_is_blank :
    let evs := exS6 ++ [.op (.cleanWaiting ["a", "b", "c"]), .op (.finh "c" 0)]
    let s := runEvs exH Stage.init evs
    announced evs "c" "h" = ["b"] ∧
    detectLoop (runEvs exH Stage.init exS6).mem "b" = true ∧
    s.disk.log.map (fun r => (r.name, r.hash, r.prev)) = [("c", "h", "")] ∧
    ¬ NoCycleCleaned exH evs ∧ ¬ CleanerSpared exH (fun n => n = "c") evs ∧
    ¬ (∀ r ∈ s.disk.log, r.prev ∈ announced evs r.name r.hash) := by
  refine ⟨by decide, by decide, by decide, ?_, ?_, by decide⟩
  · intro h
    have := h.at_split (pre := exS6) (e := .op (.cleanWaiting ["a", "b", "c"])) (post := [.op (.finh "c" 0)])
      (names := ["a", "b", "c"]) rfl rfl "b"
    revert this
    decide
  · intro h
    have := h exS6 (.op (.cleanWaiting ["a", "b", "c"])) [.op (.finh "c" 0)] ["a", "b", "c"] rfl rfl
    have hmem : ∃ p ∈ cleanWaitingEffects (runEvs exH Stage.init exS6) ["a", "b", "c"], p.entryName = some "c" := by
      decide
    obtain ⟨p, hp, hn⟩ := hmem
    exact this p hp "c" hn rfl

/-- `a` and `b` are delivered; then the two halves of `m` (version "h", 8 bytes) -/
def whPre : List Ev := exRecv "a" "" ++ [.op (.finh "a" 0)] ++ exRecv "b" "" ++ [.op (.finh "b" 0)]

/-- one part of `m` announcing `prev` -/
def whPart (hd : Nat) (beg : Nat) (data : Body) (prev : String) : List Ev := [
  .op (.prepare "m" 8 0), .op (.recvOpen hd "m"), .op (.recvWrite hd beg data 0),
  .op (.record "m" ⟨"", prev, 8, "h"⟩ beg (beg + data.length) 0)]

/-- first half announcing `a`, second half announcing `b` -/
def whP1 : List Ev := whPart 1 0 [1, 2, 3, 4] "a"
def whP2 : List Ev := whPart 2 4 [5, 6, 7, 8] "b"

/-- **which_header_wins**: two headers of ONE version of `m` announce different predecessors
    (`a` with the first half, `b` with the second half; both delivered already).
    (i)   first half, then second half: the record carries `b`;
    (ii)  second half, then first half: the record carries `a` - live, the entry is built from
          the header of the part that COMPLETES the file at the receiver (`recordEffects`,
          `Entry.ofMeta m`);
    (iii) first, second, and the first half once more (a re-sent duplicate: "Ignoring duplicate
          (receive)"): the companion is rewritten with the last header (`a`), the cache entry
          keeps the completing header (`b`), and live the record carries `b` - not the last
          header given;
    (iv)  the same followed by a restart before the file is finalized: `Recover` builds the
          entry from the companion, and the record carries `a` - the LAST header recorded.
    In all four runs the record's predecessor is one of the two announced ones
    (`record_prev_announced`). -/
theorem which_header_wins :
    let fin : List Ev := [.op (.process "m" 0), .op (.finh "m" 0)]
    let recOf := fun (evs : List Ev) =>
      ((runEvs exH Stage.init evs).disk.log.filter (fun r => r.name == "m")).map (fun r => (r.hash, r.prev))
    announced (whPre ++ whP1 ++ whP2) "m" "h" = ["a", "b"] ∧
    recOf (whPre ++ whP1 ++ whP2 ++ fin) = [("h", "b")] ∧
    recOf (whPre ++ whP2 ++ whP1 ++ fin) = [("h", "a")] ∧
    announced (whPre ++ whP1 ++ whP2 ++ whP1) "m" "h" = ["a", "b", "a"] ∧
    ((runEvs exH Stage.init (whPre ++ whP1 ++ whP2 ++ whP1)).disk.cmp "m").map (·.prev) = some "a" ∧
    ((runEvs exH Stage.init (whPre ++ whP1 ++ whP2 ++ whP1)).mem.cache "m").map (·.prev) = some "b" ∧
    recOf (whPre ++ whP1 ++ whP2 ++ whP1 ++ fin) = [("h", "b")] ∧
    recOf (whPre ++ whP1 ++ whP2 ++ whP1 ++ [.op (.process "m" 0), .crash, .op (.recover 0 ["m"]),
      .op (.finh "m" 0)]) = [("h", "a")] := by
  refine ⟨by decide, by decide, by decide, by decide, by decide, by decide, by decide, by decide⟩

/-- **steady_cannot_be_dropped** (from `first_chunk_may_announce_less`): with
    `HeadersAreAnnouncements` and no cleaner event at all, but chunks of one file that announce
    different predecessors, the record of `m` carries the announcement of its FIRST chunk (the
    part that reached the receiver last) and `m` is logged although `a`, completed before it, is
    not: `SteadyAnnouncements` is needed to get from `AnnouncementsCarriedAny` (which
    `announcements_carried_any` still gives) to `AnnouncementsCarried`. -/
theorem steady_cannot_be_dropped :
    PlainOrderedGroup ovConf ovOps "g" ∧
    HeadersAreAnnouncements (Queue.run ovConf [] ovOps).2 "g" ovRecv ∧ NoCycleCleaned exH ovRecv ∧
    ¬ SteadyAnnouncements (Queue.run ovConf [] ovOps).2 "g" ∧
    AnnouncementsCarriedAny (Queue.run ovConf [] ovOps).2 "g" (runEvs exH Stage.init ovRecv) ∧
    completedNames (Queue.run ovConf [] ovOps).2 "g" = ["g/a", "g/m"] ∧
    (runEvs exH Stage.init ovRecv).disk.log.map (fun r => (r.name, r.prev)) = [("g/m", "")] := by
  have hh : HeadersAreAnnouncements (Queue.run ovConf [] ovOps).2 "g" ovRecv := headersOk_sound (by decide)
  have hn : NoCycleCleaned exH ovRecv := NoCycleFrom.of_no_cleaner (by decide) _
  exact ⟨first_chunk_may_announce_less.1, hh, hn, first_chunk_may_announce_less.2.2.2.1,
    announcements_carried_any (runsTo_runEvs exH ovRecv) hh (hn.spared _), by decide, by decide⟩

end Sts
