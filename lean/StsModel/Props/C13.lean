/-
  C13 — the payload wire format round-trips.  Theorems about Model/Wire.lean.

  Full (for all inputs): nano_roundtrip, atoi_itoa, sep_convert, encoder_stream (with
  Tiles), part_never_exceeds, decoder_splits, C13_roundtrip, C13_roundtrip_mem, truncated_request,
  truncated_header_refused, header_cut_refused, refuse_malformed, refuse_malformed_wire,
  unsafe_name_refused, unsafe_name_no_effect, no_part_beyond_length, index_overflow_refused,
  extra_trailing_ignored, metalen_nonpositive_refused, metalen_nonpositive_no_bytes,
  metalen_short_refused, metalen_oversized_refused, metalen_mismatch_refused.
  Theorems about routeData that end in Prepare/Receive carry the hypothesis `SafeNames` (the
  data route's confinement check, http/server.go findUnsafePartName).
  No partial theorem is left: the hypothesis `MetaLenExact` of the former
  refuse_malformed_partial is gone since `fix: NewDecoder accepted a metadata length larger
  than the metadata` (S11). What the three `fix:` commits changed is shown by witnesses about
  the code as found: metalen_oversized_shifts (S11, about routeDataOrig / newDecoderOrig),
  receive_old_records_short (F5) and decoder_old_hangs.
-/
import StsModel.Model.Wire

namespace Sts.Wire

/-! ## Decimal strings, NanoTime -/

theorem digitVal_digitChar (d : Nat) (h : d < 10) : digitVal? (digitChar d) = some d := by
  have : d = 0 ∨ d = 1 ∨ d = 2 ∨ d = 3 ∨ d = 4 ∨ d = 5 ∨ d = 6 ∨ d = 7 ∨ d = 8 ∨ d = 9 := by omega
  rcases this with h|h|h|h|h|h|h|h|h|h <;> subst h <;> decide

theorem parseNatAux_append (a b : List Char) (acc : Nat) :
    parseNatAux (a ++ b) acc = (parseNatAux a acc).bind (parseNatAux b) := by
  induction a generalizing acc with
  | nil => simp [parseNatAux]
  | cons c cs ih =>
    simp only [List.cons_append, parseNatAux]
    cases digitVal? c with
    | none => simp
    | some d => simp [ih]

theorem parseNatAux_natDigits (n : Nat) : parseNatAux (natDigits n) 0 = some n := by
  induction n using natDigits.induct with
  | case1 n h => 
    rw [natDigits]; simp [h, parseNatAux, digitVal_digitChar n h]
  | case2 n h ih =>
    rw [natDigits]; simp only [h, if_false]
    rw [parseNatAux_append, ih]
    simp [parseNatAux, digitVal_digitChar (n % 10) (by omega)]
    omega

/-- a decimal digit character is neither a sign nor a separator -/
abbrev isDigitC (c : Char) : Prop := 48 ≤ c.toNat ∧ c.toNat ≤ 57

theorem digitChar_isDigit (d : Nat) (h : d < 10) : isDigitC (digitChar d) := by
  have : d = 0 ∨ d = 1 ∨ d = 2 ∨ d = 3 ∨ d = 4 ∨ d = 5 ∨ d = 6 ∨ d = 7 ∨ d = 8 ∨ d = 9 := by omega
  rcases this with h|h|h|h|h|h|h|h|h|h <;> subst h <;> decide

theorem natDigits_isDigit (n : Nat) : ∀ c ∈ natDigits n, isDigitC c := by
  induction n using natDigits.induct with
  | case1 n h => rw [natDigits]; simp [h]; exact digitChar_isDigit n h
  | case2 n h ih =>
    rw [natDigits]; simp only [h, if_false]
    intro c hc
    simp only [List.mem_append, List.mem_singleton] at hc
    rcases hc with hc | hc
    · exact ih c hc
    · subst hc; exact digitChar_isDigit _ (by omega)

theorem natDigits_ne_nil (n : Nat) : natDigits n ≠ [] := by
  rw [natDigits]; split <;> simp

theorem parseUint_natDigits (n : Nat) : parseUint? (natDigits n) = some n := by
  unfold parseUint?
  have := natDigits_ne_nil n
  split
  · contradiction
  · exact parseNatAux_natDigits n

theorem isDigit_ne_plus {c : Char} (h : isDigitC c) : c ≠ '+' := by
  intro hc; subst hc; revert h; decide
theorem isDigit_ne_minus {c : Char} (h : isDigitC c) : c ≠ '-' := by
  intro hc; subst hc; revert h; decide

theorem parseInt64_intDigits (i : Int) (h1 : -9223372036854775808 ≤ i) (h2 : i < 9223372036854775808) :
    parseInt64? (intDigits i) = some i := by
  unfold intDigits
  split
  · rename_i hneg
    simp only [parseInt64?, if_true, parseUint_natDigits]
    simp only [Option.bind]
    have : (-i).toNat ≤ 9223372036854775808 := by omega
    simp [this]; omega
  · rename_i hpos
    have hne := natDigits_ne_nil i.toNat
    have hd := natDigits_isDigit i.toNat
    have hp := parseUint_natDigits i.toNat
    cases hl : natDigits i.toNat with
    | nil => contradiction
    | cons c r =>
      rw [hl] at hd hp
      have hc := hd c (by simp)
      simp only [parseInt64?, isDigit_ne_minus hc, isDigit_ne_plus hc, if_false, hp, Option.bind]
      have : i.toNat < 9223372036854775808 := by omega
      simp [this]; omega

theorem splitOnC_ne_nil (sep : Char) (l : List Char) : splitOnC sep l ≠ [] := by
  cases l with
  | nil => simp [splitOnC]
  | cons c cs =>
    unfold splitOnC
    split
    · simp
    · split <;> simp

theorem splitOnC_no_sep (sep : Char) (l : List Char) (h : ∀ c ∈ l, c ≠ sep) : splitOnC sep l = [l] := by
  induction l with
  | nil => simp [splitOnC]
  | cons c cs ih =>
    have hc : c ≠ sep := h c (by simp)
    have := ih (fun x hx => h x (by simp [hx]))
    simp [splitOnC, hc, this]

theorem splitOnC_append_sep (sep : Char) (a b : List Char) (h : ∀ c ∈ a, c ≠ sep) :
    splitOnC sep (a ++ sep :: b) = a :: splitOnC sep b := by
  induction a with
  | nil => simp [splitOnC]
  | cons c cs ih =>
    have hc : c ≠ sep := h c (by simp)
    have := ih (fun x hx => h x (by simp [hx]))
    simp [splitOnC, hc, this]

theorem intDigits_no_plus (i : Int) : ∀ c ∈ intDigits i, c ≠ '+' := by
  intro c hc
  unfold intDigits at hc
  split at hc
  · simp only [List.mem_cons] at hc
    rcases hc with hc | hc
    · subst hc; decide
    · exact isDigit_ne_plus (natDigits_isDigit _ c hc)
  · exact isDigit_ne_plus (natDigits_isDigit _ c hc)

/-- `nano_roundtrip`  -/
theorem nano_roundtrip (sec nano : Int)
    (hs1 : -9223372036854775808 ≤ sec) (hs2 : sec < 9223372036854775808)
    (hn1 : 0 ≤ nano) (hn2 : nano < 1000000000) :
    nanoDec (nanoEnc sec nano) = some (sec, nano) := by
  unfold nanoDec nanoEnc
  rw [splitOnC_append_sep _ _ _ (intDigits_no_plus sec), splitOnC_no_sep _ _ (intDigits_no_plus nano)]
  simp only [parseInt64_intDigits sec hs1 hs2, parseInt64_intDigits nano (by omega) (by omega)]
  simp only [unixNorm]
  congr 2 <;> omega

/-! ## Separator conversion -/




theorem splitOnC_joinC (sep : Char) (segs : List (List Char)) (hne : segs ≠ [])
    (h : ∀ s ∈ segs, ∀ c ∈ s, c ≠ sep) : splitOnC sep (joinC sep segs) = segs := by
  induction segs with
  | nil => contradiction
  | cons a r ih =>
    cases r with
    | nil => simp [joinC]; exact splitOnC_no_sep sep a (h a (by simp))
    | cons b r =>
      simp only [joinC]
      rw [splitOnC_append_sep sep a _ (h a (by simp))]
      rw [ih (by simp) (fun s hs => h s (by simp [hs]))]

/-- a "real" path element for `Clean`: not empty, not `.`, not `..`. -/
abbrev RealSeg (s : List Char) : Prop := s ≠ [] ∧ s ≠ ['.'] ∧ s ≠ ['.', '.']

theorem cleanSegs_real (rooted : Bool) (segs stack : List (List Char)) (h : ∀ s ∈ segs, RealSeg s) :
    cleanSegs rooted segs stack = stack.reverse ++ segs := by
  induction segs generalizing stack with
  | nil => simp [cleanSegs]
  | cons s r ih =>
    obtain ⟨h1, h2, h3⟩ := h s (by simp)
    unfold cleanSegs
    simp only [h1, h2, h3, false_or, if_false]
    rw [ih _ (fun x hx => h x (by simp [hx]))]
    simp

theorem joinC_head (sep : Char) (a : List Char) (r : List (List Char)) (c : Char) (t : List Char)
    (ha : a = c :: t) : ∃ t', joinC sep (a :: r) = c :: t' := by
  cases r with
  | nil => exact ⟨t, by simp [joinC, ha]⟩
  | cons b r => exact ⟨t ++ sep :: joinC sep (b :: r), by simp [joinC, ha]⟩

/-- `sep_convert` -/
theorem sep_convert (sep : Char) (name : List Char)
    (hreal : ∀ s ∈ splitOnC sep name, RealSeg s)
    (hfree : ∀ s ∈ splitOnC sep name, ∀ c ∈ s, c ≠ '/') :
    sepConvert sep name = joinC '/' (splitOnC sep name) ∧
    splitOnC '/' (sepConvert sep name) = splitOnC sep name := by
  have key : sepConvert sep name = joinC '/' (splitOnC sep name) := by
    unfold sepConvert goJoin
    generalize hs : splitOnC sep name = segs at *
    cases segs with
    | nil => simp [joinC]
    | cons a r =>
      obtain ⟨ha, _, _⟩ := hreal a (by simp)
      have hd : List.dropWhile (fun x => decide (x = [])) (a :: r) = a :: r := by
        simp [List.dropWhile, ha]
      rw [hd]
      cases hal : a with
      | nil => exact absurd hal ha
      | cons c t =>
        have hc : c ≠ '/' := hfree a (by simp) c (by simp [hal])
        obtain ⟨t', ht'⟩ := joinC_head '/' a r c t hal
        rw [← hal]
        simp only
        unfold clean
        rw [ht']
        simp only [hc, decide_false, if_false]
        rw [← ht', splitOnC_joinC '/' (a :: r) (by simp) hfree, cleanSegs_real false _ _ hreal]
        simp [ht']
  refine ⟨key, ?_⟩
  rw [key]
  exact splitOnC_joinC '/' _ (splitOnC_ne_nil sep name) hfree

/-! ## Encoder -/

def EPart.bytes (p : EPart) : List UInt8 := (p.avail.getD []).take p.left
def EPart.Ok (p : EPart) : Prop := ∃ a, p.avail = some a ∧ p.left ≤ a.length ∧ 0 < p.left

/-- the bytes still to be put on the wire, part by part (current part first). -/
def Enc.pendingParts (e : Enc) : List (List UInt8) :=
  (match e.cur with | none => [] | some p => [p.bytes]) ++ e.rest.map EPart.bytes

def Enc.Wf (e : Enc) : Prop :=
  (∀ p ∈ e.rest, p.Ok) ∧
  match e.cur with
  | none => e.eob = false ∧ e.rest ≠ []
  | some p => if e.eob then p.left = 0 ∧ e.rest = [] else p.Ok

/-- `Tiles outs parts`: the successive read results `outs` cut the parts `parts` into
    non-empty consecutive pieces: no piece spans two parts, nothing is skipped or repeated;
    the reads may stop early (`stop`). -/
inductive Tiles : List (List UInt8) → List (List UInt8) → Prop
  | stop (parts) : Tiles [] parts
  | next (outs parts) : Tiles outs parts → Tiles outs ([] :: parts)
  | chunk (o rem outs parts) : o ≠ [] → Tiles outs (rem :: parts) → Tiles (o :: outs) ((o ++ rem) :: parts)

theorem readCur_spec (e1 : Enc) (p : EPart) (k : Nat) (stale : List UInt8)
    (hp : p.Ok) (hrest : ∀ q ∈ e1.rest, q.Ok) (heob : e1.eob = false)
    (hk : 0 < k) :
    ∃ out res e' rem, e1.readCur p k stale = (out, res, e') ∧ out ≠ [] ∧ p.bytes = out ++ rem ∧
      e'.Wf ∧ res ≠ .err ∧ (res = .eof ↔ e'.eob = true) ∧
      ((e'.eob = false ∧ rem ≠ [] ∧ e'.pendingParts = rem :: e1.rest.map EPart.bytes) ∨
       (rem = [] ∧ (e'.eob = false → e'.pendingParts = e1.rest.map EPart.bytes) ∧
         (e'.eob = true → e1.rest = [] ∧ e'.pendingParts = [[]]))) := by
  obtain ⟨a, ha, hle, hpos⟩ := hp
  have hn : min k p.left ≤ a.length := by omega
  have hgot : (a.take (min k p.left)).length = min k p.left := by simp; omega
  unfold Enc.readCur
  simp only [ha, Option.getD_some, hgot, Nat.lt_irrefl, Nat.sub_self, List.take_zero, List.append_nil,
    false_or, Option.map_some]
  have hn0 : min k p.left ≠ 0 := by omega
  simp only [hn0, false_or]
  by_cases hl : p.left - min k p.left = 0
  · -- the part is exhausted by this read
    have hmin : min k p.left = p.left := by omega
    simp only [hl, if_true]
    cases hr : e1.rest with
    | nil =>
      refine ⟨_, _, _, [], rfl, ?_, ?_, ?_, ?_, ?_, ?_⟩
      · intro h; have := congrArg List.length h; rw [hgot] at this; simp at this; omega
      · simp [EPart.bytes, ha, hmin]
      · simp [Enc.startNext, Enc.Wf]
      · simp [Enc.startNext]
      · simp [Enc.startNext]
      · right; simp [Enc.startNext, Enc.pendingParts, EPart.bytes]
    | cons q qs =>
      have hq : q.Ok := hrest q (by simp [hr])
      obtain ⟨b, hb, _, _⟩ := hq
      refine ⟨_, _, _, [], rfl, ?_, ?_, ?_, ?_, ?_, ?_⟩
      · intro h; have := congrArg List.length h; rw [hgot] at this; simp at this; omega
      · simp [EPart.bytes, ha, hmin]
      · simp only [Enc.startNext, Enc.Wf, heob]
        refine ⟨fun x hx => hrest x (by simp [hr, hx]), ?_⟩
        simp; exact hrest q (by simp [hr])
      · simp [Enc.startNext, hb, heob]
      · simp [Enc.startNext, hb, heob]
      · right; simp [Enc.startNext, heob, Enc.pendingParts]
  · simp only [hl, if_false]
    refine ⟨_, _, _, (a.drop (min k p.left)).take (p.left - min k p.left), rfl, ?_, ?_, ?_, ?_, ?_, ?_⟩
    · intro h; have := congrArg List.length h; rw [hgot] at this; simp at this; omega
    · simp only [EPart.bytes, ha, Option.getD_some]
      have : p.left = min k p.left + (p.left - min k p.left) := by omega
      conv => lhs; rw [this]
      rw [List.take_add]
    · simp only [Enc.Wf, heob]
      refine ⟨hrest, ?_⟩
      simp
      exact ⟨a.drop (min k p.left), rfl, by dsimp only; rw [List.length_drop]; omega, by dsimp only; omega⟩
    · simp
    · simp [heob]
    · left
      refine ⟨heob, ?_, ?_⟩
      · intro h; have := congrArg List.length h
        rw [List.length_take, List.length_drop] at this; simp at this; omega
      · simp [Enc.pendingParts, EPart.bytes]


theorem read_spec (e : Enc) (k : Nat) (stale : List UInt8) (hwf : e.Wf) (heob : e.eob = false)
    (hk : 0 < k) :
    ∃ out res e' rem hd tl, e.pendingParts = hd :: tl ∧ e.read k stale = (out, res, e') ∧ out ≠ [] ∧
      hd = out ++ rem ∧ e'.Wf ∧ res ≠ .err ∧ (res = .eof ↔ e'.eob = true) ∧
      ((e'.eob = false ∧ rem ≠ [] ∧ e'.pendingParts = rem :: tl) ∨
       (rem = [] ∧ (e'.eob = false → e'.pendingParts = tl) ∧
         (e'.eob = true → tl = [] ∧ e'.pendingParts = [[]]))) := by
  obtain ⟨hrest, hc⟩ := hwf
  cases hcur : e.cur with
  | some p =>
    rw [hcur] at hc
    simp only [heob] at hc
    obtain ⟨out, res, e', rem, h1, h2, h3, h4, h5, h6, h7⟩ := readCur_spec e p k stale hc hrest heob hk
    refine ⟨out, res, e', rem, p.bytes, e.rest.map EPart.bytes, ?_, ?_, h2, h3, h4, h5, h6, ?_⟩
    · simp [Enc.pendingParts, hcur]
    · simp [Enc.read, hcur, h1]
    · rcases h7 with h7 | ⟨h7, h8, h9⟩
      · exact Or.inl h7
      · refine Or.inr ⟨h7, h8, fun h => ?_⟩
        have := h9 h
        exact ⟨by simp [this.1], this.2⟩
  | none =>
    rw [hcur] at hc
    obtain ⟨_, hne⟩ := hc
    cases hr : e.rest with
    | nil => exact absurd hr hne
    | cons q qs =>
      have hq : q.Ok := hrest q (by simp [hr])
      obtain ⟨b, hb, _, _⟩ := hq
      have hqs : ∀ x ∈ qs, x.Ok := fun x hx => hrest x (by simp [hr, hx])
      let e1 : Enc := { cur := some q, rest := qs, eob := e.eob }
      obtain ⟨out, res, e', rem, h1, h2, h3, h4, h5, h6, h7⟩ :=
        readCur_spec e1 q k stale (hrest q (by simp [hr])) hqs heob hk
      refine ⟨out, res, e', rem, q.bytes, qs.map EPart.bytes, ?_, ?_, h2, h3, h4, h5, h6, ?_⟩
      · simp [Enc.pendingParts, hcur, hr]
      · simp [Enc.read, hcur, Enc.startNext, hr, hb]; exact h1
      · rcases h7 with h7 | ⟨h7, h8, h9⟩
        · exact Or.inl h7
        · refine Or.inr ⟨h7, h8, fun h => ?_⟩
          have := h9 h
          exact ⟨by simpa using this.1, this.2⟩

theorem run_spec (fill : UInt8) (sizes : List Nat) (e : Enc) (hwf : e.Wf) (heob : e.eob = false)
    (hk : ∀ k ∈ sizes, 0 < k) :
    Tiles (e.run fill sizes).1 e.pendingParts ∧ (e.run fill sizes).2.1 ≠ .err ∧
    (e.run fill sizes).2.2.Wf ∧
    ((e.run fill sizes).2.1 = .eof ↔ (e.run fill sizes).2.2.eob = true) ∧
    e.pendingParts.flatten = (e.run fill sizes).1.flatten ++ (e.run fill sizes).2.2.pendingParts.flatten ∧
    ((e.run fill sizes).2.2.eob = true → (e.run fill sizes).2.2.pendingParts.flatten = []) ∧
    (e.pendingParts.flatten.length ≤ sizes.length → (e.run fill sizes).2.1 = .eof) := by
  induction sizes generalizing e with
  | nil =>
    simp only [Enc.run]
    refine ⟨Tiles.stop _, by simp, hwf, by simp [heob], by simp, by simp [heob], ?_⟩
    intro hlen
    -- nothing pending is impossible while eob = false
    exfalso
    obtain ⟨out, res, e', rem, hd, tl, h0, _, h2, h3, _⟩ := read_spec e 1 [] hwf heob (by omega)
    rw [h0, h3] at hlen
    have : out.length ≠ 0 := by intro h; exact h2 (List.length_eq_zero_iff.mp h)
    simp only [List.flatten_cons, List.length_append, List.length_nil] at hlen; omega
  | cons k ks ih =>
    obtain ⟨out, res, e', rem, hd, tl, h0, h1, h2, h3, h4, h5, h6, h7⟩ :=
      read_spec e k (List.replicate k fill) hwf heob (hk k (by simp))
    have hks : ∀ x ∈ ks, 0 < x := fun x hx => hk x (by simp [hx])
    have hout : 0 < out.length := by
      cases out with
      | nil => exact absurd rfl h2
      | cons => simp
    cases res with
    | err => exact absurd rfl h5
    | ok =>
      have he' : e'.eob = false := by
        cases h : e'.eob with
        | false => rfl
        | true => have := h6.mpr h; cases this
      obtain ⟨i1, i2, i3, i4, i5, i6, i7⟩ := ih e' h4 he' hks
      have hrun : e.run fill (k :: ks) = (out :: (e'.run fill ks).1, (e'.run fill ks).2) := by
        simp [Enc.run, h1]
      rw [hrun]
      simp only
      rcases h7 with ⟨_, hrem, hp⟩ | ⟨hrem, hp, _⟩
      · refine ⟨?_, i2, i3, i4, ?_, i6, ?_⟩
        · rw [h0, h3]; rw [hp] at i1; exact Tiles.chunk _ _ _ _ h2 i1
        · rw [h0, h3]; rw [hp] at i5; simp at i5 ⊢; rw [i5]
        · intro hlen; apply i7; rw [h0, h3] at hlen; rw [hp]; simp at hlen ⊢; omega
      · have hp := hp he'
        refine ⟨?_, i2, i3, i4, ?_, i6, ?_⟩
        · rw [h0, h3, hrem]; rw [hp] at i1
          exact Tiles.chunk _ _ _ _ h2 (Tiles.next _ _ i1)
        · rw [h0, h3, hrem]; rw [hp] at i5; simp at i5 ⊢; rw [i5]
        · intro hlen; apply i7; rw [h0, h3, hrem] at hlen; rw [hp]; simp at hlen ⊢; omega
    | eof =>
      have he' : e'.eob = true := h6.mp rfl
      have hrun : e.run fill (k :: ks) = ([out], .eof, e') := by
        simp [Enc.run, h1]
      rw [hrun]
      simp only
      rcases h7 with ⟨hf, _, _⟩ | ⟨hrem, _, hp⟩
      · rw [he'] at hf; cases hf
      · obtain ⟨htl, hpp⟩ := hp he'
        refine ⟨?_, by simp, h4, by simp [he'], ?_, ?_, by simp⟩
        · rw [h0, h3, hrem, htl]
          exact Tiles.chunk _ _ _ _ h2 (Tiles.next _ _ (Tiles.stop _))
        · rw [h0, h3, hrem, htl, hpp]; simp
        · intro _; rw [hpp]; simp

/-! ## Part decoder -/

theorem take_min_length {α} (l : List α) (n : Nat) : l.take (min n l.length) = l.take n := by
  by_cases h : n ≤ l.length
  · rw [Nat.min_eq_left h]
  · rw [Nat.min_eq_right (by omega), List.take_length, List.take_of_length_le (by omega)]

theorem drop_min_length {α} (l : List α) (n : Nat) : l.drop (min n l.length) = l.drop n := by
  by_cases h : n ≤ l.length
  · rw [Nat.min_eq_left h]
  · rw [Nat.min_eq_right (by omega), List.drop_length, List.drop_of_length_le (by omega)]

/-- PartDecoder.Read in closed form -/
theorem pread_eq (total : Int) (pos : Nat) (s : Stream) (k : Nat) (h : (pos : Int) ≤ total) :
    (PDec.mk total pos).read s k =
      (s.data.take (min (min (total - pos).toNat k) s.data.length),
       (if ((pos + min (min (total - pos).toNat k) s.data.length : Nat) : Int) = total then RdRes.eof
        else if min (min (total - pos).toNat k) s.data.length = 0 ∧ 0 < min (total - pos).toNat k then
          (if s.broken then RdRes.err else RdRes.eof)
        else RdRes.ok),
       PDec.mk total (pos + min (min (total - pos).toNat k) s.data.length),
       Stream.mk (s.data.drop (min (min (total - pos).toNat k) s.data.length)) s.broken) := by
  have h0 : ¬ (total - (pos : Int) < 0) := by omega
  simp only [PDec.read, h0, if_false, List.length_take, take_min_length, drop_min_length]
  split
  · rfl
  · split <;> rfl

theorem readAll_prefix (total : Int) (sizes : List Nat) (pos : Nat) (s : Stream) (h : (pos : Int) ≤ total) :
    (((PDec.mk total pos).readAll s sizes).1.length : Int) ≤ total - pos ∧
    ((PDec.mk total pos).readAll s sizes).1 = s.data.take ((PDec.mk total pos).readAll s sizes).1.length ∧
    ((PDec.mk total pos).readAll s sizes).2.2.2.data = s.data.drop ((PDec.mk total pos).readAll s sizes).1.length ∧
    ((PDec.mk total pos).readAll s sizes).2.2.2.broken = s.broken ∧
    ((PDec.mk total pos).readAll s sizes).2.1 ≠ .panic := by
  induction sizes generalizing pos s with
  | nil => simp [PDec.readAll]; omega
  | cons k ks ih =>
    rw [PDec.readAll, pread_eq total pos s k h]
    generalize hg : min (min (total - (pos:Int)).toNat k) s.data.length = g
    have hg1 : g ≤ (total - (pos:Int)).toNat := by omega
    have hg2 : g ≤ s.data.length := by omega
    by_cases c1 : ((pos + g : Nat) : Int) = total
    · simp only [c1, if_true]
      refine ⟨by rw [List.length_take]; omega, by rw [List.length_take, Nat.min_eq_left hg2], ?_, trivial, by simp⟩
      rw [List.length_take, Nat.min_eq_left hg2]
    · simp only [c1, if_false]
      by_cases c2 : g = 0 ∧ 0 < min (total - (pos:Int)).toNat k
      · simp only [c2, and_self, if_true]
        obtain ⟨c2a, _⟩ := c2
        subst c2a
        cases hb : s.broken <;> simp <;> omega
      · simp only [c2, if_false]
        have hpos' : ((pos + g : Nat) : Int) ≤ total := by omega
        obtain ⟨i1, i2, i3, i4, i5⟩ := ih (pos + g) ⟨s.data.drop g, s.broken⟩ hpos'
        simp only at i1 i2 i3 i4 i5 ⊢
        generalize ((PDec.mk total (pos + g)).readAll ⟨s.data.drop g, s.broken⟩ ks) = r at *
        refine ⟨?_, ?_, ?_, i4, i5⟩
        · rw [List.length_append, List.length_take, Nat.min_eq_left hg2]; omega
        · rw [List.length_append, List.length_take, Nat.min_eq_left hg2, List.take_add]
          congr 1
        · rw [List.length_append, List.length_take, Nat.min_eq_left hg2, i3, List.drop_drop]


theorem readAll_eq_copyPart (total : Int) (sizes : List Nat) (pos : Nat) (s : Stream)
    (h : (pos : Int) ≤ total) (hk : ∀ k ∈ sizes, 0 < k) (hlen : (total - pos).toNat < sizes.length) :
    ((PDec.mk total pos).readAll s sizes).1 = (copyPart (total - pos) s).1 ∧
    ((PDec.mk total pos).readAll s sizes).2.1 = (copyPart (total - pos) s).2.1 ∧
    ((PDec.mk total pos).readAll s sizes).2.2.2 = (copyPart (total - pos) s).2.2 := by
  induction sizes generalizing pos s with
  | nil => simp at hlen
  | cons k ks ih =>
    have hk0 : 0 < k := hk k (by simp)
    have hks : ∀ x ∈ ks, 0 < x := fun x hx => hk x (by simp [hx])
    rw [PDec.readAll, pread_eq total pos s k h]
    have hneg : ¬ (total - (pos:Int) < 0) := by omega
    generalize hrem : (total - (pos:Int)).toNat = rem at *
    generalize hg : min (min rem k) s.data.length = g
    by_cases c1 : ((pos + g : Nat) : Int) = total
    · have hgr : g = rem := by omega
      have hrl : rem ≤ s.data.length := by omega
      subst hgr
      simp only [c1, if_true, copyPart, hneg, if_false, hrem, hrl]
      exact ⟨trivial, trivial, trivial⟩
    · simp only [c1, if_false]
      by_cases c2 : g = 0 ∧ 0 < min rem k
      · obtain ⟨c2a, c2b⟩ := c2
        subst c2a
        have hl0 : s.data.length = 0 := by omega
        have hd : s.data = [] := List.length_eq_zero_iff.mp hl0
        have hrl : ¬ rem ≤ s.data.length := by omega
        have hr0 : rem ≠ 0 := by omega
        simp only [c2b, and_self, if_true, copyPart, hneg, if_false, hrem, hd]
        cases hb : s.broken <;> simp [hr0]
      · simp only [c2, if_false]
        have hg0 : 0 < g := by omega
        have hpos' : ((pos + g : Nat) : Int) ≤ total := by omega
        have hlen' : (total - ((pos + g : Nat) : Int)).toNat < ks.length := by simp at hlen; omega
        obtain ⟨i1, i2, i3⟩ := ih (pos + g) ⟨s.data.drop g, s.broken⟩ hpos' hks hlen'
        have hrem' : (total - ((pos + g : Nat) : Int)).toNat = rem - g := by omega
        have hneg' : ¬ (total - ((pos + g : Nat):Int) < 0) := by omega
        simp only [copyPart, hneg', if_false, hrem', List.length_drop] at i1 i2 i3
        simp only [i1, i2, i3, copyPart, hneg, if_false, hrem]
        by_cases hrl : rem ≤ s.data.length
        · have hrl' : rem - g ≤ s.data.length - g := by omega
          simp only [hrl, hrl', if_true]
          refine ⟨?_, trivial, ?_⟩
          · have : rem = g + (rem - g) := by omega
            conv => rhs; rw [this]
            rw [List.take_add]
          · congr 1
            rw [List.drop_drop]; congr 1; omega
        · have hrl' : ¬ rem - g ≤ s.data.length - g := by omega
          simp only [hrl, hrl', if_false]
          exact ⟨List.take_append_drop g s.data, trivial, trivial⟩

/-! ## routeData -/

/-- a descriptor list fits a list of byte strings: announced length = actual length, and the
    offset is one `Seek` accepts. -/
def Fits : List Desc → List (List UInt8) → Prop
  | [], [] => True
  | d :: ds, b :: bs => (d.len = b.length ∧ 0 ≤ d.beg) ∧ Fits ds bs
  | _, _ => False

theorem copyPart_exact (b rest : List UInt8) (br : Bool) (n : Int) (h : n = b.length) :
    copyPart n ⟨b ++ rest, br⟩ = (b, .eof, ⟨rest, br⟩) := by
  subst h
  have h1 : ¬ ((b.length : Int) < 0) := by omega
  simp [copyPart, h1]

theorem receive_exact (rk : RecvKind) (d : Desc) (b rest : List UInt8) (br : Bool)
    (h : d.len = b.length) (hb : 0 ≤ d.beg) :
    receive rk d ⟨b ++ rest, br⟩ = (b, .ok, ⟨rest, br⟩) := by
  have h1 : ¬ (rk ≠ .stub ∧ d.beg < 0) := by omega
  simp only [receive, h1, if_false, copyPart_exact b rest br d.len h]
  simp [h]

/-- all parts present (and anything after them): every part gets exactly its bytes, 200. -/
theorem routeLoop_exact (rk : RecvKind) (ds : List Desc) (bs : List (List UInt8)) (hf : Fits ds bs)
    (i : Nat) (extra : List UInt8) (br : Bool) :
    routeLoop rk ds 0 i ⟨bs.flatten ++ extra, br⟩ = (ds.zip bs, .ok200) := by
  induction ds generalizing bs i with
  | nil => cases bs with
    | nil => simp [routeLoop]
    | cons => simp [Fits] at hf
  | cons d ds ih => cases bs with
    | nil => simp [Fits] at hf
    | cons b bs =>
      obtain ⟨⟨h1, h2⟩, h3⟩ := hf
      simp only [List.flatten_cons, List.append_assoc, routeLoop, receive_exact rk d b _ br h1 h2]
      rw [ih bs h3]
      simp

/-- what the repaired server does with a body cut after `m` bytes of the parts' bytes. -/
def truncSpec : List Desc → List (List UInt8) → Nat → Nat → List (Desc × List UInt8) × Status
  | d :: ds, b :: bs, m, i =>
    if b.length ≤ m then
      let r := truncSpec ds bs (m - b.length) (i + 1)
      ((d, b) :: r.1, r.2)
    else ([(d, b.take m)], .partial206 i)
  | _, _, _, _ => ([], .ok200)

theorem routeLoop_trunc (ds : List Desc) (bs : List (List UInt8)) (hf : Fits ds bs)
    (m i : Nat) (br : Bool) :
    routeLoop .stage ds 0 i ⟨bs.flatten.take m, br⟩ = truncSpec ds bs m i := by
  induction ds generalizing bs i m with
  | nil => cases bs with
    | nil => simp [routeLoop, truncSpec]
    | cons => simp [Fits] at hf
  | cons d ds ih => cases bs with
    | nil => simp [Fits] at hf
    | cons b bs =>
      obtain ⟨⟨h1, h2⟩, h3⟩ := hf
      by_cases hm : b.length ≤ m
      · have : (b :: bs).flatten.take m = b ++ bs.flatten.take (m - b.length) := by
          simp [List.take_append, List.take_of_length_le hm]
        rw [this]
        simp only [routeLoop, receive_exact .stage d b _ br h1 h2, truncSpec, hm, if_true]
        rw [ih bs h3]
      · have hlt : m < b.length := by omega
        have : (b :: bs).flatten.take m = b.take m := by
          simp [List.take_append]; omega
        rw [this]
        have h0 : ¬ (RecvKind.stage ≠ .stub ∧ d.beg < 0) := by omega
        have hn : ¬ (d.len < 0) := by omega
        have hle : ¬ (d.len.toNat ≤ (b.take m).length) := by
          rw [List.length_take]; omega
        simp only [routeLoop, receive, h0, if_false, copyPart, hn, hle, truncSpec, hm]
        have hl : (b.take m).length = m := by rw [List.length_take]; omega
        cases br
        · have hne : ¬ ((min m b.length : Nat) : Int) = d.len := by omega
          simp [hne]
        · simp


/-! ## Top level: sender side -/

/-- the slices `file[beg, end)` of a payload, in part order. -/
def slices : List Desc → List (Option (List UInt8)) → List (List UInt8)
  | [], _ => []
  | d :: ds, fs => slice ((fs.headD none).getD []) d.beg d.fin :: slices ds fs.tail

/-- hypothesis of `encoder_stream`: every part is a non-empty range of a file that can be
    opened and has at least `end` bytes (what `Bin.Add` produces for an unchanged file). -/
def PartsOk : List Desc → List (Option (List UInt8)) → Prop
  | [], _ => True
  | d :: ds, fs =>
    (∃ f, fs.headD none = some f ∧ 0 ≤ d.beg ∧ d.beg < d.fin ∧ d.fin ≤ f.length) ∧ PartsOk ds fs.tail

theorem eparts_ok (ds : List Desc) (fs : List (Option (List UInt8))) (h : PartsOk ds fs) :
    (∀ p ∈ eparts ds fs, p.Ok) ∧ (eparts ds fs).map EPart.bytes = slices ds fs := by
  induction ds generalizing fs with
  | nil => simp [eparts, slices]
  | cons d ds ih =>
    obtain ⟨⟨f, hf, h0, h1, h2⟩, hrest⟩ := h
    obtain ⟨i1, i2⟩ := ih fs.tail hrest
    constructor
    · intro p hp
      simp only [eparts, List.mem_cons] at hp
      rcases hp with hp | hp
      · subst hp
        have hnb : ¬ (d.beg < 0) := by omega
        refine ⟨f.drop d.beg.toNat, by simp only [mkEPart, hf, Option.map_some, hnb, if_false], ?_, ?_⟩
        · simp only [mkEPart, List.length_drop]; omega
        · simp only [mkEPart]; omega
      · exact i1 p hp
    · simp only [eparts, List.map_cons, slices, i2, hf]
      have hnb : ¬ (d.beg < 0) := by omega
      simp [EPart.bytes, mkEPart, slice, hnb]

theorem tiles_flatten_prefix (outs parts : List (List UInt8)) (h : Tiles outs parts) :
    outs.flatten <+: parts.flatten := by
  induction h with
  | stop parts => simp
  | next outs parts _ ih => simpa using ih
  | chunk o rem outs parts _ _ ih =>
    simp only [List.flatten_cons, List.append_assoc] at ih ⊢
    exact (List.prefix_append_right_inj o).mpr ih

/-- `encoder_stream`. For EVERY sequence of positive read-buffer sizes, reading the real
    Encoder's model yields: no error; successive reads that cut the slices into consecutive
    non-empty pieces, none spanning two parts (`Tiles`); hence a prefix of
    `concat slices`; exactly `concat slices` when EOF is reported; and EOF is reported once
    as many reads were made as there are bytes (each read returns at least one byte). -/
theorem encoder_stream (fill : UInt8) (ds : List Desc) (files : List (Option (List UInt8)))
    (sizes : List Nat) (hne : ds ≠ []) (hok : PartsOk ds files) (hk : ∀ k ∈ sizes, 0 < k) :
    let r := (Enc.init (eparts ds files)).run fill sizes
    Tiles r.1 (slices ds files) ∧ r.1.flatten <+: (slices ds files).flatten ∧ r.2.1 ≠ .err ∧
    (r.2.1 = .eof → r.1.flatten = (slices ds files).flatten) ∧
    ((slices ds files).flatten.length ≤ sizes.length → r.2.1 = .eof) := by
  obtain ⟨hp, hb⟩ := eparts_ok ds files hok
  have hne' : eparts ds files ≠ [] := by
    cases ds with
    | nil => exact absurd rfl hne
    | cons d ds => simp [eparts]
  have hwf : (Enc.init (eparts ds files)).Wf := ⟨hp, by simp [Enc.init, hne']⟩
  have hpp : (Enc.init (eparts ds files)).pendingParts = slices ds files := by
    simp [Enc.pendingParts, Enc.init, hb]
  obtain ⟨h1, h2, _, h4, h5, h6, h7⟩ := run_spec fill sizes _ hwf rfl hk
  rw [hpp] at h1 h5 h7
  refine ⟨h1, tiles_flatten_prefix _ _ h1, h2, ?_, h7⟩
  intro heof
  have := h6 (h4.mp heof)
  rw [this] at h5
  simpa using h5.symm

/-- the quirk behind the hypothesis of `encoder_stream`: a file shorter than `end` makes
    `Read` return `n` bytes of which only the first were read (the rest is the buffer's old
    contents, `0xEE` here) and the rest of the part is silently dropped from the stream —
    the body is then shorter than announced. -/
theorem encoder_short_file_quirk :
    ((Enc.init [mkEPart (some [1, 2, 3]) 0 6, mkEPart (some [7, 8]) 0 2]).run 0xEE [4, 4, 4]).1
      = [[1, 2, 3, 0xEE], [7, 8]] := by decide

/-! ## Top level: receiver side -/

/-- `part_never_exceeds` ("no part ever receives bytes beyond its announced length"): for
    ANY sequence of read sizes (zeros included, any length) and ANY stream, the bytes a
    part reader returns are at most `end - beg`, they are the front of the stream, and the
    stream loses exactly them. -/
theorem part_never_exceeds (total : Int) (h0 : 0 ≤ total) (sizes : List Nat) (s : Stream) :
    let r := (PDec.mk total 0).readAll s sizes
    (r.1.length : Int) ≤ total ∧ r.1 = s.data.take r.1.length ∧ r.2.2.2.data = s.data.drop r.1.length := by
  have := readAll_prefix total sizes 0 s (by simpa using h0)
  simp only [Int.natCast_zero, Int.sub_zero] at this
  exact ⟨this.1, this.2.1, this.2.2.1⟩

/-- hypothesis of `decoder_splits`: part i is read with positive read sizes, one more than
    it has bytes (each successful read returns at least one byte, the last reports EOF). -/
def SizesOk : List (List UInt8) → List (List Nat) → Prop
  | [], _ => True
  | b :: bs, szs => ((∀ k ∈ szs.headD [], 0 < k) ∧ b.length < (szs.headD []).length) ∧ SizesOk bs szs.tail

/-- `decoder_splits`. For EVERY sequence of positive read sizes per part, part reader i
    returns exactly `slices[i]` and reports EOF exactly there — whatever follows the last
    part on the stream. -/
theorem decoder_splits (ds : List Desc) (bs : List (List UInt8)) (hf : Fits ds bs)
    (szs : List (List Nat)) (hs : SizesOk bs szs) (extra : List UInt8) (br : Bool) :
    decodeParts ds szs ⟨bs.flatten ++ extra, br⟩ = bs.map (fun b => (b, RdRes.eof)) := by
  induction ds generalizing bs szs with
  | nil => cases bs with
    | nil => simp [decodeParts]
    | cons => simp [Fits] at hf
  | cons d ds ih => cases bs with
    | nil => simp [Fits] at hf
    | cons b bs =>
      obtain ⟨⟨h1, _⟩, h3⟩ := hf
      obtain ⟨⟨hk, hl⟩, hs'⟩ := hs
      have hz : ((0 : Nat) : Int) ≤ d.len := by omega
      obtain ⟨e1, e2, e3⟩ := readAll_eq_copyPart d.len (szs.headD []) 0 ⟨(b :: bs).flatten ++ extra, br⟩ hz hk
        (by simp only [Int.natCast_zero, Int.sub_zero]; omega)
      simp only [Int.natCast_zero, Int.sub_zero, List.flatten_cons, List.append_assoc,
        copyPart_exact b _ br d.len h1] at e1 e2 e3
      simp only [decodeParts, List.flatten_cons, List.append_assoc, e1, e2, e3, if_true, List.map_cons]
      rw [ih bs h3 szs.tail hs']

theorem fits_slices (sep : Option Char) (ds : List Desc) (fs : List (Option (List UInt8)))
    (h : PartsOk ds fs) : Fits (ds.map (Desc.conv sep)) (slices ds fs) := by
  induction ds generalizing fs with
  | nil => simp [slices, Fits]
  | cons d ds ih =>
    obtain ⟨⟨f, hf, h0, h1, h2⟩, hrest⟩ := h
    simp only [List.map_cons, slices, Fits, hf, Option.getD_some]
    refine ⟨⟨?_, ?_⟩, ih fs.tail hrest⟩
    · have : (Desc.conv sep d).len = d.len := by cases sep <;> simp [Desc.conv, Desc.len]
      rw [this]
      simp only [slice, Desc.len, List.length_take, List.length_drop]; omega
    · have : (Desc.conv sep d).beg = d.beg := by cases sep <;> simp [Desc.conv]
      omega

/-- `strconv.Atoi(strconv.Itoa(n)) = n`. -/
theorem atoi_itoa (n : Nat) (h : n < 9223372036854775808) : parseInt64? (natDigits n) = some (n : Int) := by
  have hnn : ¬ ((n : Int) < 0) := by omega
  have h' : intDigits (n : Int) = natDigits n := by simp [intDigits, hnn]
  rw [← h']
  exact parseInt64_intDigits (n : Int) (by omega) (by omega)

theorem headerWindow_exact (hdr rest : List UInt8) (br : Bool) (h : 0 < hdr.length) :
    headerWindow (hdr.length : Int) ⟨hdr ++ rest, br⟩ = (hdr, ⟨rest, br⟩) := by
  have : ((hdr.length : Int) > 0) := by omega
  simp only [headerWindow, this, if_true, Int.toNat_natCast, List.take_left', List.drop_left']

/-- hypothesis on the names of a payload (http/server.go findUnsafePartName, checked by the
    data route before `Prepare`): every part's separator-converted name, its raw rename
    target (if any) and its converted predecessor (if any) is a safe relative path. -/
def SafeNames (sep : Option Char) (ds : List Desc) : Prop :=
  (ds.map (Desc.conv sep)).all Desc.safe = true

/-- the round-trip hypothesis on the trusted header codec at one descriptor list: the stream
    decoder returns the encoded list, whatever follows it, and its input offset is then the end of the encoded
    list (`json.Decoder.InputOffset`: a JSON array ends at its closing bracket). -/
def Codec.RoundTripAt (c : Codec) (ds : List Desc) : Prop :=
  ∀ rest, c.dec (c.enc ds ++ rest) = some ds ∧ c.used (c.enc ds ++ rest) = (c.enc ds).length

/-- the same for every descriptor list (what `encoding/json` provides). The theorems below
    need it only at the payload they speak about. -/
def Codec.RoundTrip (c : Codec) : Prop := ∀ ds, c.RoundTripAt ds

/-- every strict prefix of the encoded header fails to decode (true of a JSON array, whose
    last byte is its closing bracket). -/
def Codec.PrefixFreeAt (c : Codec) (ds : List Desc) : Prop :=
  ∀ k, k < (c.enc ds).length → c.dec ((c.enc ds).take k) = none

def Codec.PrefixFree (c : Codec) : Prop := ∀ ds, c.PrefixFreeAt ds

/-- a header is never empty and its length fits an `int` (JSON: at least `[]`). -/
def Codec.HdrLenOk (c : Codec) (ds : List Desc) : Prop :=
  0 < (c.enc ds).length ∧ (c.enc ds).length < 9223372036854775808

/-- NewDecoder with the exact length: the descriptors, and the stream right after the header. -/
theorem newDecoder_exact (c : Codec) (ds : List Desc) (hrt : c.RoundTripAt ds) (sep : Option Char)
    (rest : List UInt8) (br : Bool) (h0 : 0 < (c.enc ds).length) :
    newDecoder c ((c.enc ds).length : Int) sep ⟨c.enc ds ++ rest, br⟩ =
      .ok (ds.map (Desc.conv sep)) ⟨rest, br⟩ := by
  have hdec : c.dec (c.enc ds) = some ds := by simpa using (hrt []).1
  have hused : c.used (c.enc ds) = (c.enc ds).length := by simpa using (hrt []).2
  simp [newDecoder, headerWindow_exact _ _ br h0, hdec, hused]

theorem routeData_cur (c : Codec) (rk : RecvKind) (hasBody : Bool) (ml : List Char)
    (sep : Option Char) (x : Nat) (s : Stream) :
    routeData c rk false hasBody ml sep x s = routeDataWith (newDecoder c) rk hasBody ml sep x s := by
  simp [routeData]

/-- `C13_roundtrip`: decode (encode p) = p over a request. For every payload whose parts are
    readable ranges, every sequence of positive read-buffer sizes on the sender (long
    enough to reach EOF), either separator header, any `Receive` implementation of the
    model and either way the stream ends after the last part: the server answers 200,
    `Prepare` sees the descriptors in order (name/prev separator-converted, everything else
    field by field as encoded), and `Receive` number i is handed descriptor i and exactly
    the bytes `file_i[beg_i, end_i)`. Hypothesis `SafeNames`: the names pass the data route's
    confinement check (otherwise the request is refused, `unsafe_name_refused`). -/
theorem C13_roundtrip (c : Codec) (ds : List Desc) (hrt : c.RoundTripAt ds) (rk : RecvKind) (fill : UInt8)
    (files : List (Option (List UInt8))) (sizes : List Nat) (sep : Option Char)
    (br : Bool) (hne : ds ≠ []) (hok : PartsOk ds files) (hk : ∀ k ∈ sizes, 0 < k)
    (hlen : (slices ds files).flatten.length ≤ sizes.length) (hh : c.HdrLenOk ds)
    (hs : SafeNames sep ds) :
    routeData c rk false true (metaLenHeader c ds) sep 0 ⟨transmitBody c fill ds files sizes, br⟩ =
      ⟨.ok200, some (ds.map (Desc.conv sep)), (ds.map (Desc.conv sep)).zip (slices ds files)⟩ := by
  obtain ⟨_, _, _, h4, h5⟩ := encoder_stream fill ds files sizes hne hok hk
  have hbody : transmitBody c fill ds files sizes = c.enc ds ++ (slices ds files).flatten := by
    simp only [transmitBody]; rw [h4 (h5 hlen)]
  unfold SafeNames at hs
  simp only [routeData_cur, routeDataWith, metaLenHeader, atoi_itoa _ hh.2, hbody, Bool.not_true,
    Bool.false_eq_true, if_false, newDecoder_exact c ds hrt sep _ br hh.1, hs]
  have := routeLoop_exact rk _ _ (fits_slices sep ds files hok) 0 [] br
  simp only [List.append_nil] at this
  rw [this]

/-- `C13_roundtrip` in memory (no HTTP, no `Receive`): NewDecoder on `meta ‖ encoder output`
    with `n = len(meta)` yields the descriptors in order, and for EVERY choice of positive
    read sizes per part the part readers return exactly the slices, each ending in EOF. -/
theorem C13_roundtrip_mem (c : Codec) (ds : List Desc) (hrt : c.RoundTripAt ds) (fill : UInt8)
    (files : List (Option (List UInt8))) (sizes : List Nat) (sep : Option Char)
    (br : Bool) (hne : ds ≠ []) (hok : PartsOk ds files) (hk : ∀ k ∈ sizes, 0 < k)
    (hlen : (slices ds files).flatten.length ≤ sizes.length) (hh : c.HdrLenOk ds) :
    newDecoder c (c.enc ds).length sep ⟨transmitBody c fill ds files sizes, br⟩ =
      .ok (ds.map (Desc.conv sep)) ⟨(slices ds files).flatten, br⟩ ∧
    ∀ szs, SizesOk (slices ds files) szs →
      decodeParts (ds.map (Desc.conv sep)) szs ⟨(slices ds files).flatten, br⟩ =
        (slices ds files).map (fun b => (b, RdRes.eof)) := by
  obtain ⟨_, _, _, h4, h5⟩ := encoder_stream fill ds files sizes hne hok hk
  have hbody : transmitBody c fill ds files sizes = c.enc ds ++ (slices ds files).flatten := by
    simp only [transmitBody]; rw [h4 (h5 hlen)]
  constructor
  · rw [hbody]; exact newDecoder_exact c ds hrt sep _ br hh.1
  · intro szs hs
    have := decoder_splits _ _ (fits_slices sep ds files hok) szs hs [] br
    simpa using this

/-- `extra_trailing_ignored` (reported, not a refusal): bytes after the last part are never
    read; the request is answered 200 with every part exact. -/
theorem extra_trailing_ignored (rk : RecvKind) (ds : List Desc) (bs : List (List UInt8))
    (hf : Fits ds bs) (extra : List UInt8) (br : Bool) :
    routeLoop rk ds 0 0 ⟨bs.flatten ++ extra, br⟩ = (ds.zip bs, .ok200) :=
  routeLoop_exact rk ds bs hf 0 extra br

/-! ## Refusal of malformed requests -/

theorem copyPart_length (n : Int) (s : Stream) : (copyPart n s).1.length ≤ n.toNat := by
  unfold copyPart
  split
  · simp
  · split
    · simp only [List.length_take]; omega
    · simp only; omega

theorem receive_length (rk : RecvKind) (d : Desc) (s : Stream) :
    (receive rk d s).1.length ≤ d.len.toNat := by
  unfold receive
  split
  · simp
  · have := copyPart_length d.len s
    split <;> simp_all
    split <;> simp_all

theorem routeLoop_no_part_beyond (rk : RecvKind) (ds : List Desc) (x i : Nat) (s : Stream) :
    ∀ p ∈ (routeLoop rk ds x i s).1, p.2.length ≤ p.1.len.toNat := by
  induction ds generalizing i s with
  | nil => cases x <;> simp [routeLoop]
  | cons d ds ih =>
    have hl := receive_length rk d s
    unfold routeLoop
    rcases hr : receive rk d s with ⟨bytes, res, s'⟩
    rw [hr] at hl
    cases res with
    | ok =>
      intro p hp
      simp only [List.mem_cons] at hp
      rcases hp with hp | hp
      · subst hp; exact hl
      · exact ih _ _ p hp
    | err => intro p hp; simp at hp; subst hp; exact hl
    | panic => intro p hp; simp at hp; subst hp; exact hl

theorem routeDataWith_no_part_beyond (nd : Int → Option Char → Stream → DecRes) (rk : RecvKind)
    (hasBody : Bool) (ml : List Char) (sep : Option Char) (x : Nat) (s : Stream) :
    ∀ p ∈ (routeDataWith nd rk hasBody ml sep x s).received, p.2.length ≤ p.1.len.toNat := by
  unfold routeDataWith
  split
  · simp
  · split
    · simp
    · split
      · simp
      · simp
      · split
        · simp
        · exact routeLoop_no_part_beyond rk _ x 0 _

/-- `no_part_beyond_length`: whatever the request (any meta-len header, any body, any way
    the stream ends, any codec, old, as-found or repaired decoder, any `Receive`): no
    `Receive` call gets more bytes than its descriptor announces. -/
theorem no_part_beyond_length (c : Codec) (rk : RecvKind) (old hasBody : Bool) (ml : List Char)
    (sep : Option Char) (x : Nat) (s : Stream) :
    (∀ p ∈ (routeData c rk old hasBody ml sep x s).received, p.2.length ≤ p.1.len.toNat) ∧
    (∀ p ∈ (routeDataOrig c rk hasBody ml sep x s).received, p.2.length ≤ p.1.len.toNat) :=
  ⟨routeDataWith_no_part_beyond _ rk hasBody ml sep x s, routeDataWith_no_part_beyond _ rk hasBody ml sep x s⟩

/-- `index_overflow_refused`: a decoder that hands out more readers than the header has
    parts never gets a 200; when every announced part arrived complete the answer is 400
    (after the announced parts were received). -/
theorem index_overflow_refused (rk : RecvKind) (ds : List Desc) (x i : Nat) (s : Stream) :
    (routeLoop rk ds (x + 1) i s).2 ≠ .ok200 ∧
    ∀ bs extra br, Fits ds bs → s = ⟨bs.flatten ++ extra, br⟩ →
      routeLoop rk ds (x + 1) i s = (ds.zip bs, .bad400) := by
  constructor
  · induction ds generalizing i s with
    | nil => simp [routeLoop]
    | cons d ds ih =>
      unfold routeLoop
      rcases hr : receive rk d s with ⟨bytes, res, s'⟩
      cases res <;> simp
      exact ih _ _
  · intro bs extra br hf hs
    subst hs
    induction ds generalizing bs i with
    | nil => cases bs with
      | nil => simp [routeLoop]
      | cons => simp [Fits] at hf
    | cons d ds ih => cases bs with
      | nil => simp [Fits] at hf
      | cons b bs =>
        obtain ⟨⟨h1, h2⟩, h3⟩ := hf
        simp only [List.flatten_cons, List.append_assoc, routeLoop, receive_exact rk d b _ br h1 h2]
        rw [ih _ bs h3]
        simp

theorem truncSpec_full (ds : List Desc) (bs : List (List UInt8)) (hf : Fits ds bs) (m i : Nat)
    (hm : bs.flatten.length ≤ m) : truncSpec ds bs m i = (ds.zip bs, .ok200) := by
  induction ds generalizing bs m i with
  | nil => cases bs <;> simp [truncSpec]
  | cons d ds ih => cases bs with
    | nil => simp [Fits] at hf
    | cons b bs =>
      simp only [List.flatten_cons, List.length_append] at hm
      have : b.length ≤ m := by omega
      simp only [truncSpec, this, if_true]
      rw [ih bs hf.2 _ _ (by omega)]
      simp

theorem truncSpec_short (ds : List Desc) (bs : List (List UInt8)) (hf : Fits ds bs) (m i : Nat)
    (hm : m < bs.flatten.length) :
    ∃ k, k < ds.length ∧ (truncSpec ds bs m i).2 = .partial206 (i + k) ∧
      (truncSpec ds bs m i).1.take k = (ds.zip bs).take k ∧ (truncSpec ds bs m i).1.length = k + 1 ∧
      (bs.take k).flatten.length ≤ m ∧ m < (bs.take (k + 1)).flatten.length := by
  induction ds generalizing bs m i with
  | nil => cases bs with
    | nil => simp at hm
    | cons => simp [Fits] at hf
  | cons d ds ih => cases bs with
    | nil => simp [Fits] at hf
    | cons b bs =>
      simp only [List.flatten_cons, List.length_append] at hm
      by_cases hb : b.length ≤ m
      · obtain ⟨k, h1, h2, h3, h4, h5, h6⟩ := ih bs hf.2 (m - b.length) (i + 1) (by omega)
        refine ⟨k + 1, by simp; omega, ?_, ?_, ?_, ?_, ?_⟩
        · simp only [truncSpec, hb, if_true, h2]; congr 1; omega
        · simp only [truncSpec, hb, if_true, List.take_succ_cons, List.zip_cons_cons, h3]
        · simp only [truncSpec, hb, if_true, List.length_cons, h4]
        · simp only [List.take_succ_cons, List.flatten_cons, List.length_append]; omega
        · simp only [List.take_succ_cons, List.flatten_cons, List.length_append]; omega
      · refine ⟨0, by simp, ?_, ?_, ?_, ?_, ?_⟩ <;> simp [truncSpec, hb]
        omega

theorem truncSpec_prefix (ds : List Desc) (bs : List (List UInt8)) (m i : Nat) :
    ∀ x ∈ (truncSpec ds bs m i).1, ∃ b, (x.1, b) ∈ ds.zip bs ∧ x.2 <+: b := by
  induction ds generalizing bs m i with
  | nil => simp [truncSpec]
  | cons d ds ih => cases bs with
    | nil => simp [truncSpec]
    | cons b bs =>
      intro x hx
      simp only [truncSpec] at hx
      split at hx
      · simp only [List.mem_cons] at hx
        rcases hx with hx | hx
        · subst hx; exact ⟨b, by simp, List.prefix_refl b⟩
        · obtain ⟨b', h1, h2⟩ := ih bs _ _ x hx
          exact ⟨b', by simp [h1], h2⟩
      · simp only [List.mem_singleton] at hx
        subst hx
        exact ⟨b, by simp, List.take_prefix m b⟩

/-- `truncated_request` (after `fix: Receive checks the number of bytes copied`): a
    conforming request whose body ends after only `m` of the parts' bytes — cleanly or with
    a transport error — is answered 206 with the count `k` of complete leading parts:
    `k` is exactly the number of parts that fit into `m` bytes, `Receive` calls 0…k-1 got
    exactly their slices, call `k` got a proper prefix of its slice and failed, no later
    part was touched, and no call ever got a byte of another part. -/
theorem truncated_request (c : Codec) (ds : List Desc) (hrt : c.RoundTripAt ds)
    (files : List (Option (List UInt8))) (sep : Option Char) (br : Bool) (m : Nat)
    (hok : PartsOk ds files) (hh : c.HdrLenOk ds) (hm : m < (slices ds files).flatten.length)
    (hs : SafeNames sep ds) :
    let r := routeData c .stage false true (metaLenHeader c ds) sep 0
      ⟨c.enc ds ++ (slices ds files).flatten.take m, br⟩
    ∃ k, k < ds.length ∧ r.status = .partial206 k ∧ r.prepared = some (ds.map (Desc.conv sep)) ∧
      r.received.take k = ((ds.map (Desc.conv sep)).zip (slices ds files)).take k ∧
      r.received.length = k + 1 ∧
      ((slices ds files).take k).flatten.length ≤ m ∧ m < ((slices ds files).take (k + 1)).flatten.length ∧
      ∀ x ∈ r.received, ∃ b, (x.1, b) ∈ (ds.map (Desc.conv sep)).zip (slices ds files) ∧ x.2 <+: b := by
  have hfit := fits_slices sep ds files hok
  unfold SafeNames at hs
  simp only [routeData_cur, routeDataWith, metaLenHeader, atoi_itoa _ hh.2, Bool.not_true,
    Bool.false_eq_true, if_false, newDecoder_exact c ds hrt sep _ br hh.1, routeLoop_trunc _ _ hfit, hs]
  obtain ⟨k, h1, h2, h3, h4, h5, h6⟩ := truncSpec_short _ _ hfit m 0 hm
  refine ⟨k, by simpa using h1, by simpa using h2, trivial, h3, h4, h5, h6, truncSpec_prefix _ _ m 0⟩

/-- the header window of a stream that ends inside the header is a strict prefix of the
    header, whatever length was announced. -/
theorem headerWindow_cut (hdr : List UInt8) (j : Nat) (hj : j < hdr.length) (n : Int) (br : Bool) :
    ∃ k, k < hdr.length ∧ (headerWindow n ⟨hdr.take j, br⟩).1 = hdr.take k := by
  unfold headerWindow
  split
  · exact ⟨min n.toNat j, by omega, by simp [List.take_take]⟩
  · exact ⟨j, hj, rfl⟩

/-- `header_cut_refused`: a request that ends inside the header is answered 500 whatever
    X-STS-MetaLen announces (any integer); nothing is prepared or received. -/
theorem header_cut_refused (c : Codec) (ds : List Desc) (hpf : c.PrefixFreeAt ds) (rk : RecvKind)
    (sep : Option Char) (br : Bool) (ml : List Char) (n : Int) (x j : Nat)
    (hml : parseInt64? ml = some n) (hj : j < (c.enc ds).length) :
    routeData c rk false true ml sep x ⟨(c.enc ds).take j, br⟩ = ⟨.err500, none, []⟩ := by
  obtain ⟨k, hk, hw⟩ := headerWindow_cut (c.enc ds) j hj n br
  have hd : c.dec (headerWindow n ⟨(c.enc ds).take j, br⟩).1 = none := by rw [hw]; exact hpf k hk
  simp only [routeData_cur, routeDataWith, hml, Bool.not_true, Bool.false_eq_true, if_false, newDecoder]
  rw [show headerWindow n ⟨(c.enc ds).take j, br⟩ =
    ((headerWindow n ⟨(c.enc ds).take j, br⟩).1, (headerWindow n ⟨(c.enc ds).take j, br⟩).2) from rfl]
  simp only [hd]

/-- `truncated_header_refused` (after `fix: NewDecoder closes the header pipe`): a request
    that ends inside the header is answered 500; nothing is prepared or received. -/
theorem truncated_header_refused (c : Codec) (ds : List Desc) (hpf : c.PrefixFreeAt ds) (rk : RecvKind)
    (sep : Option Char) (br : Bool) (k : Nat) (hk : k < (c.enc ds).length) (hh : c.HdrLenOk ds) :
    routeData c rk false true (metaLenHeader c ds) sep 0 ⟨(c.enc ds).take k, br⟩ = ⟨.err500, none, []⟩ :=
  header_cut_refused c ds hpf rk sep br _ _ 0 k (atoi_itoa _ hh.2) hk

/-- `metalen_short_refused`: a positive X-STS-MetaLen smaller than the header is refused
    with 500 (after the pipe repair; before it the request hung). -/
theorem metalen_short_refused (c : Codec) (ds : List Desc) (hpf : c.PrefixFreeAt ds) (rk : RecvKind)
    (sep : Option Char) (rest : List UInt8) (br : Bool) (ml : List Char) (n : Int) (x : Nat)
    (hml : parseInt64? ml = some n) (h0 : 0 < n) (h1 : n.toNat < (c.enc ds).length) :
    routeData c rk false true ml sep x ⟨c.enc ds ++ rest, br⟩ = ⟨.err500, none, []⟩ := by
  have hw : List.take n.toNat (c.enc ds ++ rest) = (c.enc ds).take n.toNat := by
    rw [List.take_append_of_le_length (by omega)]
  simp only [routeData_cur, routeDataWith, hml, Bool.not_true, Bool.false_eq_true, if_false, newDecoder,
    headerWindow, gt_iff_lt, h0, if_true, hw, hpf n.toNat h1]

/-- NewDecoder refuses an announced length beyond the end of the header, whatever follows
    the header on the stream (more bytes than announced, fewer, none). -/
theorem newDecoder_oversized (c : Codec) (ds : List Desc) (hrt : c.RoundTripAt ds) (sep : Option Char)
    (rest : List UInt8) (br : Bool) (n : Int) (h : ((c.enc ds).length : Int) < n) :
    newDecoder c n sep ⟨c.enc ds ++ rest, br⟩ = .fail := by
  have h0 : n > 0 := by omega
  have hw : List.take n.toNat (c.enc ds ++ rest) = c.enc ds ++ rest.take (n.toNat - (c.enc ds).length) := by
    rw [List.take_append, List.take_of_length_le (by omega)]
  have hne : ((c.enc ds).length : Int) ≠ n := by omega
  simp only [newDecoder, headerWindow, h0, if_true, hw, (hrt _).1, (hrt _).2]
  simp [hne]

/-- `metalen_oversized_refused` (after `fix: NewDecoder accepted a metadata length larger than
    the metadata`, S11): ANY X-STS-MetaLen larger than the header — by one byte or by 2^62,
    with any bytes after the header, a stream longer or shorter than announced, ending
    cleanly or not, any `Receive`, any number of extra readers — is answered 500: `Prepare`
    is not called and no `Receive` gets a byte. -/
theorem metalen_oversized_refused (c : Codec) (ds : List Desc) (hrt : c.RoundTripAt ds) (rk : RecvKind)
    (sep : Option Char) (rest : List UInt8) (br : Bool) (ml : List Char) (n : Int) (x : Nat)
    (hml : parseInt64? ml = some n) (h : ((c.enc ds).length : Int) < n) :
    routeData c rk false true ml sep x ⟨c.enc ds ++ rest, br⟩ = ⟨.err500, none, []⟩ := by
  simp only [routeData_cur, routeDataWith, hml, Bool.not_true, Bool.false_eq_true, if_false,
    newDecoder_oversized c ds hrt sep rest br n h]

/-- `metalen_mismatch_refused`: every positive X-STS-MetaLen other than the length of the
    header is refused with 500 and without effect. -/
theorem metalen_mismatch_refused (c : Codec) (ds : List Desc) (hrt : c.RoundTripAt ds)
    (hpf : c.PrefixFreeAt ds) (rk : RecvKind) (sep : Option Char) (rest : List UInt8) (br : Bool) (ml : List Char) (n : Int)
    (x : Nat) (hml : parseInt64? ml = some n) (h0 : 0 < n) (hne : n ≠ ((c.enc ds).length : Int)) :
    routeData c rk false true ml sep x ⟨c.enc ds ++ rest, br⟩ = ⟨.err500, none, []⟩ := by
  by_cases h : ((c.enc ds).length : Int) < n
  · exact metalen_oversized_refused c ds hrt rk sep rest br ml n x hml h
  · exact metalen_short_refused c ds hpf rk sep rest br ml n x hml h0 (by omega)

/-- `metalen_nonpositive_refused`: X-STS-MetaLen ≤ 0 makes the decoder take the whole body
    as header; every part reader then meets an exhausted stream. With the repaired `Receive`
    the first non-empty part fails: 206 with count 0, no byte written. -/
theorem metalen_nonpositive_refused (c : Codec) (sep : Option Char) (s : Stream) (ml : List Char)
    (n : Int) (d : Desc) (ds : List Desc) (hml : parseInt64? ml = some n) (h0 : n ≤ 0)
    (hdec : c.dec s.data = some (d :: ds)) (hlen : 0 < d.len) (hbeg : 0 ≤ d.beg)
    (hs : SafeNames sep (d :: ds)) :
    routeData c .stage false true ml sep 0 s =
      ⟨.partial206 0, some ((d :: ds).map (Desc.conv sep)), [(Desc.conv sep d, [])]⟩ := by
  have hn : ¬ (n > 0) := by omega
  have hl : (Desc.conv sep d).len = d.len := by cases sep <;> simp [Desc.conv, Desc.len]
  have hb : (Desc.conv sep d).beg = d.beg := by cases sep <;> simp [Desc.conv]
  have h1 : ¬ (RecvKind.stage ≠ .stub ∧ (Desc.conv sep d).beg < 0) := by rw [hb]; omega
  have h2 : ¬ ((Desc.conv sep d).len < 0) := by rw [hl]; omega
  have h3 : ¬ ((Desc.conv sep d).len.toNat ≤ 0) := by rw [hl]; omega
  unfold SafeNames at hs
  simp only [routeData_cur, routeDataWith, hml, Bool.not_true, Bool.false_eq_true, if_false, newDecoder,
    headerWindow, hn, hdec, hs, false_and]
  simp only [List.map_cons, routeLoop, receive, h1, copyPart, h2, List.length_nil, h3, if_false]
  have h4 : ¬ ((0 : Int) = (Desc.conv sep d).len) := by rw [hl]; omega
  cases s.broken <;> simp [h4]

theorem copyPart_empty (n : Int) (br : Bool) :
    (copyPart n ⟨[], br⟩).1 = [] ∧ (copyPart n ⟨[], br⟩).2.2 = ⟨[], br⟩ := by
  unfold copyPart
  split
  · simp
  · split <;> simp

theorem receive_empty (rk : RecvKind) (d : Desc) (br : Bool) :
    (receive rk d ⟨[], br⟩).1 = [] ∧ (receive rk d ⟨[], br⟩).2.2 = ⟨[], br⟩ := by
  obtain ⟨h1, h2⟩ := copyPart_empty d.len br
  unfold receive
  split
  · simp
  · rcases hc : copyPart d.len ⟨[], br⟩ with ⟨bytes, res, s'⟩
    rw [hc] at h1 h2
    simp only at h1 h2
    subst h1 h2
    cases res
    all_goals simp only
    all_goals (try split)
    all_goals simp

theorem routeLoop_empty (rk : RecvKind) (ds : List Desc) (x i : Nat) (br : Bool) :
    ∀ p ∈ (routeLoop rk ds x i ⟨[], br⟩).1, p.2 = [] := by
  induction ds generalizing i with
  | nil => cases x <;> simp [routeLoop]
  | cons d ds ih =>
    obtain ⟨h1, h2⟩ := receive_empty rk d br
    unfold routeLoop
    rcases hr : receive rk d ⟨[], br⟩ with ⟨bytes, res, s'⟩
    rw [hr] at h1 h2
    simp only at h1 h2
    subst h1 h2
    cases res with
    | ok =>
      intro p hp
      simp only [List.mem_cons] at hp
      rcases hp with hp | hp
      · subst hp; rfl
      · exact ih _ p hp
    | err => intro p hp; simp at hp; subst hp; rfl
    | panic => intro p hp; simp at hp; subst hp; rfl

/-- `metalen_nonpositive_no_bytes`: with X-STS-MetaLen ≤ 0 ("the meta is the entire payload")
    no `Receive` call of the request ever gets a byte — whatever the body, the codec, the
    `Receive` — so no part can get bytes of another part. -/
theorem metalen_nonpositive_no_bytes (c : Codec) (rk : RecvKind) (sep : Option Char) (s : Stream)
    (ml : List Char) (n : Int) (x : Nat) (hml : parseInt64? ml = some n) (h0 : n ≤ 0) :
    ∀ p ∈ (routeData c rk false true ml sep x s).received, p.2 = [] := by
  have hn : ¬ (n > 0) := by omega
  simp only [routeData_cur, routeDataWith, hml, Bool.not_true, Bool.false_eq_true, if_false, newDecoder,
    headerWindow, hn, false_and]
  cases hd : c.dec s.data with
  | none => simp
  | some ds =>
    simp only
    split
    · simp
    · exact routeLoop_empty rk _ x 0 s.broken

/-- the same request before the `Receive` repair (S11 as first suspected): every part is
    "received" with no bytes at all and the answer is 200. -/
theorem metalen_nonpositive_accepted_old :
    let d : Desc := ⟨"a", "", "", "h", 0, 0, 4, 0, 4⟩
    let c : Codec := ⟨fun _ => [91, 93], fun _ => some [d], fun _ => false, fun _ => 2⟩
    let r := routeData c .stageOld false true ['0'] none 0 ⟨[91, 93, 1, 2, 3, 4], false⟩
    r.status = .ok200 ∧ r.received.map (·.2) = [[]] := by decide

/-- the defect repaired by `fix: NewDecoder closes the header pipe`: a header window that
    ends before the JSON value is complete blocked the request for ever; now it is an error. -/
theorem decoder_old_hangs (c : Codec) (n : Int) (sep : Option Char) (s : Stream)
    (h1 : c.dec (headerWindow n s).1 = none) (h2 : c.incomplete (headerWindow n s).1 = true) :
    newDecoderOld c n sep s = .hang ∧ newDecoder c n sep s = .fail := by
  simp [newDecoderOld, newDecoder, h1, h2]

/-- the defect repaired by `fix: Receive checks the number of bytes copied` (F5): a part
    reader that ends early with a clean EOF was accepted — 2 of 4 announced bytes, result
    ok (the caller then records the full range) — and the request was answered 200. -/
theorem receive_old_records_short :
    let d : Desc := ⟨"a", "", "", "h", 0, 0, 4, 0, 4⟩
    (receive .stageOld d ⟨[1, 2], false⟩).1 = [1, 2] ∧ (receive .stageOld d ⟨[1, 2], false⟩).2.1 = .ok ∧
    (receive .stage d ⟨[1, 2], false⟩).2.1 = .err ∧
    (routeLoop .stageOld [d] 0 0 ⟨[1, 2], false⟩).2 = .ok200 ∧
    (routeLoop .stage [d] 0 0 ⟨[1, 2], false⟩).2 = .partial206 0 := by decide

/-- F5 repaired, for all inputs: when the repaired `Receive` succeeds, the bytes it wrote
    are exactly as many as the range announces — for a part reader and for any other reader. -/
theorem receive_ok_complete (d : Desc) (s : Stream) :
    ((receive .stage d s).2.1 = .ok → ((receive .stage d s).1.length : Int) = d.len) ∧
    ((receiveRaw .stage d s).2 = .ok → ((receiveRaw .stage d s).1.length : Int) = d.len) := by
  constructor
  · unfold receive
    split
    · simp
    · split
      · simp
      · simp
      · split
        · simp
        · rename_i h; intro _; simp only [true_and, ne_eq, Decidable.not_not] at h; simpa using h
  · unfold receiveRaw
    split
    · simp
    · split
      · simp
      · split
        · simp
        · rename_i h; intro _; simp only [true_and, ne_eq, Decidable.not_not] at h; simpa using h

/-- S11, the code as found (`newDecoderOrig` / `routeDataOrig`; repaired by `fix: NewDecoder
    accepted a metadata length larger than the metadata`): X-STS-MetaLen larger than the header
    was accepted — the JSON stream decoder ignores the bytes after the value — and every part
    was shifted. Header `[0xAA,0xBB]`, parts a = [1,2], b = [3,4], meta-len 3: `Receive` for a
    was handed [2,3] (a byte of its neighbour) and succeeded; the request was answered 206
    with count 1, i.e. part a was reported as received. With enough trailing bytes the answer
    was 200. The repaired code answers both requests 500 without calling `Prepare`. -/
theorem metalen_oversized_shifts :
    let a : Desc := ⟨"a", "", "", "h", 0, 0, 2, 0, 2⟩
    let b : Desc := ⟨"b", "", "", "h", 0, 0, 2, 0, 2⟩
    let c : Codec := ⟨fun _ => [0xAA, 0xBB],
      fun bs => match bs with | 0xAA :: 0xBB :: _ => some [a, b] | _ => none, fun _ => false, fun _ => 2⟩
    let r := routeDataOrig c .stage true ['3'] none 0 ⟨[0xAA, 0xBB, 1, 2, 3, 4], false⟩
    let r' := routeDataOrig c .stage true ['3'] none 0 ⟨[0xAA, 0xBB, 1, 2, 3, 4, 9], false⟩
    r.status = .partial206 1 ∧ r.received.map (·.2) = [[2, 3], [4]] ∧
    r'.status = .ok200 ∧ r'.received.map (·.2) = [[2, 3], [4, 9]] ∧
    routeData c .stage false true ['3'] none 0 ⟨[0xAA, 0xBB, 1, 2, 3, 4], false⟩ = ⟨.err500, none, []⟩ ∧
    routeData c .stage false true ['3'] none 0 ⟨[0xAA, 0xBB, 1, 2, 3, 4, 9], false⟩ = ⟨.err500, none, []⟩ ∧
    (routeData c .stage false true ['2'] none 0 ⟨[0xAA, 0xBB, 1, 2, 3, 4], false⟩).status = .ok200 := by
  decide

/-- the repaired and the as-found decoder differ in nothing but the refusal: when the repaired
    NewDecoder succeeds, the code as found gave the same descriptors and the same stream. -/
theorem newDecoder_ok_same (c : Codec) (n : Int) (sep : Option Char) (s : Stream) (ds : List Desc)
    (rest : Stream) (h : newDecoder c n sep s = .ok ds rest) : newDecoderOrig c n sep s = .ok ds rest := by
  unfold newDecoder at h
  unfold newDecoderOrig
  generalize headerWindow n s = w at h ⊢
  obtain ⟨hdr, rst⟩ := w
  simp only at h ⊢
  cases hd : c.dec hdr with
  | none => rw [hd] at h; cases h
  | some l =>
    rw [hd] at h
    simp only at h ⊢
    split at h
    · cases h
    · exact h

/-- `unsafe_name_refused` (after `fix: refuse file names … that leave the receiver's
    directories`): when the decoded header contains a part whose converted name, raw rename
    target or converted predecessor is not a safe relative path (empty name, absolute, a
    `..` segment, nothing but `.`), the request is answered 400 — whatever the body, the
    meta-len being one NewDecoder accepts (`hoff`: not positive, or the end of the JSON value) —
    and neither `Prepare` nor `Receive` is called. -/
theorem unsafe_name_refused (c : Codec) (rk : RecvKind) (ml : List Char) (n : Int) (sep : Option Char)
    (x : Nat) (s : Stream) (ds : List Desc) (hml : parseInt64? ml = some n)
    (hdec : c.dec (headerWindow n s).1 = some ds)
    (hoff : 0 < n → (c.used (headerWindow n s).1 : Int) = n) (hu : ¬ SafeNames sep ds) :
    routeData c rk false true ml sep x s = ⟨.bad400, none, []⟩ := by
  unfold SafeNames at hu
  have hu' : (ds.map (Desc.conv sep)).all Desc.safe = false := by
    cases h : (ds.map (Desc.conv sep)).all Desc.safe
    · rfl
    · exact absurd h hu
  have hc : ¬ (n > 0 ∧ (c.used (headerWindow n s).1 : Int) ≠ n) := fun h => h.2 (hoff h.1)
  simp only [routeData_cur, routeDataWith, hml, Bool.not_true, Bool.false_eq_true, if_false, newDecoder]
  rw [show headerWindow n s = ((headerWindow n s).1, (headerWindow n s).2) from rfl]
  simp only [hdec, hc, if_false, hu', Bool.not_false, if_true]

/-- `unsafe_name_no_effect`: with ANY meta-len header (numeric or not, exact or not) a request
    whose decoded header contains an unsafe name never reaches `Prepare` or `Receive`. -/
theorem unsafe_name_no_effect (c : Codec) (rk : RecvKind) (hasBody : Bool) (ml : List Char)
    (sep : Option Char) (x : Nat) (s : Stream)
    (hu : ∀ n ds, parseInt64? ml = some n → c.dec (headerWindow n s).1 = some ds → ¬ SafeNames sep ds) :
    (routeData c rk false hasBody ml sep x s).prepared = none ∧
    (routeData c rk false hasBody ml sep x s).received = [] := by
  simp only [routeData_cur, routeDataWith, newDecoder]
  split
  · simp
  · split
    · simp
    · rename_i n hml
      rw [show headerWindow n s = ((headerWindow n s).1, (headerWindow n s).2) from rfl]
      simp only
      cases hd : c.dec (headerWindow n s).1 with
      | none => simp
      | some ds =>
        have hu' : (ds.map (Desc.conv sep)).all Desc.safe = false := by
          have := hu n ds hml hd
          unfold SafeNames at this
          cases h : (ds.map (Desc.conv sep)).all Desc.safe
          · rfl
          · exact absurd h this
        by_cases hc : (n > 0 ∧ (c.used (headerWindow n s).1 : Int) ≠ n)
        · simp [hc]
        · simp [hc, hu']

/-- `refuse_malformed`, the part that holds without hypothesis on the sender: no body, a
    meta-len header that is not a decimal `int`, a header window that does not decode, or
    a positive meta-len that is not the offset at which the decoded JSON value ends
    ⇒ 400 / 400 / 500 / 500, and nothing is prepared or received. -/
theorem refuse_malformed (c : Codec) (rk : RecvKind) (hasBody : Bool) (ml : List Char)
    (sep : Option Char) (x : Nat) (s : Stream) :
    (hasBody = false → routeData c rk false hasBody ml sep x s = ⟨.bad400, none, []⟩) ∧
    (hasBody = true → parseInt64? ml = none → routeData c rk false hasBody ml sep x s = ⟨.bad400, none, []⟩) ∧
    (∀ n, hasBody = true → parseInt64? ml = some n → c.dec (headerWindow n s).1 = none →
      routeData c rk false hasBody ml sep x s = ⟨.err500, none, []⟩) ∧
    (∀ n, hasBody = true → parseInt64? ml = some n → 0 < n → (c.used (headerWindow n s).1 : Int) ≠ n →
      routeData c rk false hasBody ml sep x s = ⟨.err500, none, []⟩) := by
  refine ⟨fun h => by simp [routeData_cur, routeDataWith, h],
    fun h1 h2 => by simp [routeData_cur, routeDataWith, h1, h2], fun n h1 h2 h3 => ?_, fun n h1 h2 h3 h4 => ?_⟩
  · simp only [routeData_cur, routeDataWith, h1, h2, Bool.not_true, Bool.false_eq_true, if_false, newDecoder]
    rw [show headerWindow n s = ((headerWindow n s).1, (headerWindow n s).2) from rfl]
    simp only [h3]
  · simp only [routeData_cur, routeDataWith, h1, h2, Bool.not_true, Bool.false_eq_true, if_false, newDecoder]
    rw [show headerWindow n s = ((headerWindow n s).1, (headerWindow n s).2) from rfl]
    have hc : (n > 0 ∧ (c.used (headerWindow n s).1 : Int) ≠ n) := ⟨h3, h4⟩
    cases hd : c.dec (headerWindow n s).1 <;> simp [hc]

theorem take_header_body (hdr flat : List UInt8) (j : Nat) (h : hdr.length ≤ j) :
    (hdr ++ flat).take j = hdr ++ flat.take (j - hdr.length) := by
  rw [List.take_append, List.take_of_length_le h]

/-- `refuse_malformed_wire` (full; the former `refuse_malformed_partial` needed the hypothesis
    MetaLenExact, which `fix: NewDecoder accepted a metadata length larger than the metadata`
    made unnecessary). What a sender puts on the wire is `header ‖ slices`; let the request
    carry ANY integer X-STS-MetaLen `n` and let only the first `j` bytes arrive (any `j`; the
    stream then ends cleanly or not). Unless the request is the conforming one (`n` = header
    length and nothing missing):
    * it is never answered 200;
    * if `n` is positive and wrong, or the stream ends inside the header, it is answered 500
      and neither `Prepare` nor `Receive` is called;
    * otherwise (cut inside the parts, or `n ≤ 0`) it is answered 206 with fewer parts than
      announced;
    * in every case each `Receive` call got a prefix of its OWN slice: never a byte of
      another part. -/
theorem refuse_malformed_wire (c : Codec) (ds : List Desc) (hrt : c.RoundTripAt ds) (hpf : c.PrefixFreeAt ds)
    (files : List (Option (List UInt8))) (sep : Option Char) (br : Bool) (ml : List Char) (n : Int)
    (j : Nat) (hml : parseInt64? ml = some n) (hne : ds ≠ []) (hok : PartsOk ds files)
    (hh : c.HdrLenOk ds) (hs : SafeNames sep ds)
    (hbad : n ≠ ((c.enc ds).length : Int) ∨ j < (c.enc ds).length + (slices ds files).flatten.length) :
    let r := routeData c .stage false true ml sep 0 ⟨(c.enc ds ++ (slices ds files).flatten).take j, br⟩
    r.status ≠ .ok200 ∧
    (((0 < n ∧ n ≠ ((c.enc ds).length : Int)) ∨ j < (c.enc ds).length) → r = ⟨.err500, none, []⟩) ∧
    (¬ ((0 < n ∧ n ≠ ((c.enc ds).length : Int)) ∨ j < (c.enc ds).length) →
      ∃ k, k < ds.length ∧ r.status = .partial206 k) ∧
    ∀ x ∈ r.received, ∃ b, (x.1, b) ∈ (ds.map (Desc.conv sep)).zip (slices ds files) ∧ x.2 <+: b := by
  intro r
  by_cases hj : j < (c.enc ds).length
  · -- the stream ends inside the header
    have hr : r = ⟨.err500, none, []⟩ := by
      have ht : (c.enc ds ++ (slices ds files).flatten).take j = (c.enc ds).take j := by
        rw [List.take_append_of_le_length (by omega)]
      show routeData c .stage false true ml sep 0 ⟨(c.enc ds ++ (slices ds files).flatten).take j, br⟩ = _
      rw [ht]
      exact header_cut_refused c ds hpf .stage sep br ml n 0 j hml hj
    refine ⟨by rw [hr]; simp, fun _ => hr, fun h => absurd (Or.inr hj) h, by rw [hr]; simp⟩
  · have ht : (c.enc ds ++ (slices ds files).flatten).take j =
        c.enc ds ++ (slices ds files).flatten.take (j - (c.enc ds).length) :=
      take_header_body _ _ j (by omega)
    have hrdef : r = routeData c .stage false true ml sep 0
        ⟨c.enc ds ++ (slices ds files).flatten.take (j - (c.enc ds).length), br⟩ := by
      show routeData c .stage false true ml sep 0 ⟨(c.enc ds ++ (slices ds files).flatten).take j, br⟩ = _
      rw [ht]
    by_cases hpos : 0 < n
    · by_cases hn : n = ((c.enc ds).length : Int)
      · -- exact length, cut inside the parts
        have hm : j - (c.enc ds).length < (slices ds files).flatten.length := by
          rcases hbad with hbad | hbad
          · exact absurd hn hbad
          · omega
        obtain ⟨k, h1, h2, _, _, _, _, _, h8⟩ :=
          truncated_request c ds hrt files sep br (j - (c.enc ds).length) hok hh hm hs
        -- the same request, whatever spelling of the number the header uses
        have hsame : r = routeData c .stage false true (metaLenHeader c ds) sep 0
            ⟨c.enc ds ++ (slices ds files).flatten.take (j - (c.enc ds).length), br⟩ := by
          rw [hrdef]
          simp only [routeData_cur, routeDataWith, hml, metaLenHeader, atoi_itoa _ hh.2, hn]
        rw [← hsame] at h2 h8
        refine ⟨by rw [h2]; simp, fun h => ?_, fun _ => ⟨k, h1, h2⟩, h8⟩
        rcases h with h | h
        · exact absurd hn h.2
        · exact absurd h hj
      · -- positive and wrong
        have hr : r = ⟨.err500, none, []⟩ := by
          rw [hrdef]; exact metalen_mismatch_refused c ds hrt hpf .stage sep _ br ml n 0 hml hpos hn
        refine ⟨by rw [hr]; simp, fun _ => hr, fun h => absurd (Or.inl ⟨hpos, hn⟩) h, by rw [hr]; simp⟩
    · -- n ≤ 0: the whole body is taken as header, the first part fails with nothing written
      cases ds with
      | nil => exact absurd rfl hne
      | cons d ds' =>
        obtain ⟨⟨f, hf, hb0, hb1, hb2⟩, _⟩ := hok
        have hr := metalen_nonpositive_refused c sep
          ⟨c.enc (d :: ds') ++ (slices (d :: ds') files).flatten.take (j - (c.enc (d :: ds')).length), br⟩
          ml n d ds' hml (by omega) (hrt _).1 (by simp only [Desc.len]; omega) hb0 hs
        rw [← hrdef] at hr
        refine ⟨by rw [hr]; simp, fun h => ?_, fun _ => ⟨0, by simp, by rw [hr]⟩, ?_⟩
        · rcases h with h | h
          · exact absurd h.1 hpos
          · exact absurd h hj
        · rw [hr]
          intro x hx
          simp only [List.mem_singleton] at hx
          subst hx
          exact ⟨slice ((files.headD none).getD []) d.beg d.fin, by simp [slices], List.nil_prefix⟩


/-! ## Non-vacuity: the hypotheses above are satisfiable by non-trivial values -/

example : nanoDec (nanoEnc (-1700000000) 999999999) = some (-1700000000, 999999999) :=
  nano_roundtrip _ _ (by omega) (by omega) (by omega) (by omega)

/-- leading zeros and an explicit sign are accepted by the decoder, nanoseconds beyond one
    second are carried into the seconds (`time.Unix`). -/
example : nanoDec ['0', '7', '+', '1', '5', '0', '0', '0', '0', '0', '0', '0', '0'] = some (8, 500000000) := by
  decide

/-- malformed NanoTime strings are refused: three fields, a decimal point, nothing. -/
example : nanoDec ['1', '+', '2', '+', '3'] = none ∧ nanoDec ['1', '.', '5'] = none ∧ nanoDec [] = none := by
  decide

/-- `a\b c\d` sent with separator `\`: segments `a`, `b c`, `d`. -/
example : sepConvert '\\' ['a', '\\', 'b', ' ', 'c', '\\', 'd'] = ['a', '/', 'b', ' ', 'c', '/', 'd'] :=
  (sep_convert '\\' _ (by decide) (by decide)).1

/-- outside the hypotheses of `sep_convert` the name changes: `a//b/./c/../d/` becomes
    `a/b/d`, and with separator `\` a name that contains `/` gains segments. -/
example : sepConvert '/' ['a', '/', '/', 'b', '/', '.', '/', 'c', '/', '.', '.', '/', 'd', '/'] = ['a', '/', 'b', '/', 'd'] ∧
    splitOnC '/' (sepConvert '\\' ['x', '/', 'y', '\\', 'z']) = [['x'], ['y'], ['z']] := by decide

def exA : Desc := ⟨"a", "", "", "h", 1, 2, 5, 1, 4⟩
def exB : Desc := ⟨"b", "", "a", "g", 3, 4, 2, 0, 2⟩
def exFiles : List (Option (List UInt8)) := [some [10, 11, 12, 13, 14], some [20, 21]]

theorem exOk : PartsOk [exA, exB] exFiles :=
  ⟨⟨[10, 11, 12, 13, 14], rfl, by decide, by decide, by decide⟩, ⟨[20, 21], rfl, by decide, by decide, by decide⟩, trivial⟩

/-- a two-part payload (middle slice of a, whole b) read through buffers of 2, 1, 5, 7, 1
    bytes: the reads are [11,12] [13] [20,21] — none spans the part boundary. -/
example : ((Enc.init (eparts [exA, exB] exFiles)).run 0 [2, 1, 5, 7, 1]).1 = [[11, 12], [13], [20, 21]] ∧
    slices [exA, exB] exFiles = [[11, 12, 13], [20, 21]] := by decide

example : let r := (Enc.init (eparts [exA, exB] exFiles)).run 0 [2, 1, 5, 7, 1]
    Tiles r.1 (slices [exA, exB] exFiles) ∧ r.2.1 = .eof :=
  have h := encoder_stream 0 [exA, exB] exFiles [2, 1, 5, 7, 1] (by simp) exOk (by decide)
  ⟨h.1, h.2.2.2.2 (by decide)⟩

/-- part readers read with sizes 1,1,1,1 and 5,5,5 over the concatenated slices. -/
example : decodeParts [exA, exB] [[1, 1, 1, 1], [5, 5, 5]] ⟨[11, 12, 13, 20, 21], false⟩ =
    [([11, 12, 13], .eof), ([20, 21], .eof)] :=
  decoder_splits [exA, exB] [[11, 12, 13], [20, 21]] ⟨⟨by decide, by decide⟩, ⟨by decide, by decide⟩, trivial⟩
    _ ⟨⟨by decide, by decide⟩, ⟨by decide, by decide⟩, trivial⟩ [] false

/-- the example payload passes the confinement check with either separator header. -/
example : SafeNames (some '/') [exA, exB] ∧ SafeNames (some '\\') [exA, exB] ∧ SafeNames none [exA, exB] := by
  unfold SafeNames; decide

/-- names the data route refuses: a predecessor `..`, a name that climbs out, an absolute
    rename target, an empty name, a name that is only `.`; and `a/../b` is accepted because
    the separator conversion cleans it to `b` first (without a separator header it is not). -/
example : safeRel ['.', '.'] = false ∧ safeRel ['.', '.', '/', 'x'] = false ∧ safeRel ['/', 'a'] = false ∧
    safeRel [] = false ∧ safeRel ['.', '/', '.'] = false ∧ safeRel ['a', '/', '.', '/', 'b'] = true ∧
    safeRel (sepConvert '/' ['a', '/', '.', '.', '/', 'b']) = true ∧ safeRel ['a', '/', '.', '.', '/', 'b'] = false := by
  decide

/-- a conforming body whose second part names `..` as predecessor: 400, no Prepare, no Receive. -/
example :
    let a : Desc := ⟨"a", "", "", "h", 0, 0, 2, 0, 2⟩
    let b : Desc := ⟨"b", "", "..", "h", 0, 0, 2, 0, 2⟩
    let c : Codec := ⟨fun _ => [0xAA, 0xBB],
      fun bs => match bs with | 0xAA :: 0xBB :: _ => some [a, b] | _ => none, fun _ => false, fun _ => 2⟩
    routeData c .stage false true ['2'] (some '/') 0 ⟨[0xAA, 0xBB, 1, 2, 3, 4], false⟩ = ⟨.bad400, none, []⟩ := by
  decide

/-- body cut after 4 of 5 part bytes: 206, count 1, part b got a prefix of its own slice. -/
example : (routeLoop .stage [exA, exB] 0 0 ⟨[11, 12, 13, 20], false⟩) =
    ([(exA, [11, 12, 13]), (exB, [20])], .partial206 1) := by decide

/-- the toy codec of the witnesses: header `[0xAA, 0xBB]`, two parts of three and two bytes. -/
def exCodec : Codec := ⟨fun _ => [0xAA, 0xBB],
  fun bs => match bs with | 0xAA :: 0xBB :: _ => some [exA, exB] | _ => none, fun _ => false, fun _ => 2⟩

theorem exCodec_rt : exCodec.RoundTripAt [exA, exB] := fun _ => ⟨rfl, rfl⟩

theorem exCodec_pf : exCodec.PrefixFreeAt [exA, exB] := by
  intro k hk
  have : k = 0 ∨ k = 1 := by simp [exCodec] at hk; omega
  rcases this with h | h <;> subst h <;> rfl

theorem exSafe : SafeNames none [exA, exB] := by unfold SafeNames; decide

/-- the codec the driver uses for a case (`caseCodec ds`) meets the round-trip hypothesis at
    its own descriptor list. -/
theorem isPrefixB_append (a b : List UInt8) : isPrefixB a (a ++ b) = true := by
  induction a with
  | nil => simp [isPrefixB]
  | cons x xs ih => simp [isPrefixB, ih]

theorem caseCodec_roundTripAt (ds : List Desc) : (caseCodec ds).RoundTripAt ds :=
  fun rest => ⟨by simp [caseCodec, isPrefixB_append], rfl⟩

/-- `metalen_oversized_refused` is not vacuous: meta-len 5 for the 2-byte header, any bytes
    after the header (none, the parts, more), any `Receive`, any extra readers: 500. -/
example (rest : List UInt8) (br : Bool) (rk : RecvKind) (x : Nat) :
    routeData exCodec rk false true ['5'] none x ⟨[0xAA, 0xBB] ++ rest, br⟩ = ⟨.err500, none, []⟩ :=
  metalen_oversized_refused exCodec [exA, exB] exCodec_rt rk none rest br ['5'] 5 x (by decide) (by decide)

/-- and the same request with the exact meta-len is accepted: 200, both parts exact. -/
example : routeData exCodec .stage false true ['2'] none 0 ⟨[0xAA, 0xBB, 11, 12, 13, 20, 21], false⟩ =
    ⟨.ok200, some [exA, exB], [(exA, [11, 12, 13]), (exB, [20, 21])]⟩ := by decide

/-- `refuse_malformed_wire` is not vacuous: the example payload with meta-len 3 (one too many)
    and with the exact meta-len but the last byte missing. -/
example : routeData exCodec .stage false true ['3'] none 0 ⟨[0xAA, 0xBB, 11, 12, 13, 20, 21], false⟩ =
      ⟨.err500, none, []⟩ ∧
    (routeData exCodec .stage false true ['2'] none 0 ⟨[0xAA, 0xBB, 11, 12, 13, 20], true⟩).status = .partial206 1 := by
  have h1 := refuse_malformed_wire exCodec [exA, exB] exCodec_rt exCodec_pf exFiles none false ['3'] 3 7
    (by decide) (by simp) exOk ⟨by decide, by decide⟩ exSafe (Or.inl (by decide))
  exact ⟨h1.2.1 (Or.inl (by decide)), by decide⟩

/-- `metalen_mismatch_refused` / `metalen_nonpositive_no_bytes`: meta-len 1 (too small) is
    refused with 500; meta-len 0 and -7 hand no byte to any `Receive`. -/
example (rest : List UInt8) :
    routeData exCodec .stub false true ['1'] none 0 ⟨[0xAA, 0xBB] ++ rest, false⟩ = ⟨.err500, none, []⟩ :=
  metalen_mismatch_refused exCodec [exA, exB] exCodec_rt exCodec_pf .stub none rest false ['1'] 1 0
    (by decide) (by decide) (by decide)

example (s : Stream) : ∀ p ∈ (routeData exCodec .stage false true ['-', '7'] none 0 s).received, p.2 = [] :=
  metalen_nonpositive_no_bytes exCodec .stage none s ['-', '7'] (-7) 0 (by decide) (by decide)


end Sts.Wire
