/-
  C05 (crash-free part) in the split semantics of the finalize handler: at most one receive-log
  record per name also when arbitrary operations run between the handler's decision and
  `finalize`. The decision is taken on an earlier state, but `finalize` re-checks under the lock
  that the cache entry is validated with the item's hash; a name that already has a record is
  finalized / logged in the cache, so a held item for it is ignored.

  (The crash accounting of Props/C05Crash.lean, ghost counters over `Ev` lists, is NOT redone
  for the split events here.)
-/
import StsModel.Props.C05
import StsModel.Props.C01Window

namespace Sts.Stage

/-- `finalize` for ANY item, on any state satisfying the once-invariant -/
theorem finalize_once {hashOf : Name → String} {s : State} (hi : OnceInv hashOf s)
    (n : Name) (e : Entry) (now : Int) : OnceInv hashOf (run s (finalizeEffects s n e now)) := by
  by_cases hc : stateOf s.mem n = some .validated ∧ (s.mem.cache n).map (·.hash) = some e.hash
  · obtain ⟨hv, hh⟩ := hc
    obtain ⟨hs, hsig⟩ := sig_of_stateOf hv
    have hw := hi.waitf n hs hsig
    cases hwn : s.disk.wait n with
    | none => exact absurd hwn hw
    | some i =>
      have he : e.hash = hashOf n := by
        obtain ⟨ex, hex, _, h2⟩ := cache_of_sig hsig
        have : ex.hash = e.hash := by simpa [hex] using hh
        rw [← this, h2]
        exact hi.chash n _ hs hsig
      have hno : ∀ r ∈ s.disk.log, r.name ≠ n := by
        apply hi.no_record
        intro st hs' hsig'
        rw [hsig] at hsig'
        cases hsig'
        exact ⟨by decide, by decide⟩
      have hrel := finalize_rel hashOf s s n e now i hv hh hwn
      exact hi.rel hrel he hno (by simp [finRec]) (by simp) (Or.inl rfl) (by intro h; cases h)
  · have hc' : stateOf s.mem n ≠ some .validated ∨ (s.mem.cache n).map (·.hash) ≠ some e.hash := by
      by_cases hv : stateOf s.mem n = some .validated
      · exact Or.inr (fun hh => hc ⟨hv, hh⟩)
      · exact Or.inl hv
    have heq : finalizeEffects s n e now = [Prim.lockAdd n] ++ [] ++ [Prim.lockDel n] := by
      unfold finalizeEffects
      rw [if_pos hc']
    rw [heq]
    exact hi.quiet (quiet_run_of_all hashOf s _ (by simp [quietB]))

theorem finhDecide_quietB (s : State) (n : Name) (now : Int) :
    (finhDecideEffects s n now).all quietB = true := by
  unfold finhDecideEffects
  split
  · rfl
  · simp only [List.all_append, Bool.and_eq_true]
    refine ⟨by simp [quietB], ?_⟩
    split
    · rfl
    · split
      · rfl
      · simp only [List.all_append, Bool.and_eq_true]
        refine ⟨⟨by simp [quietB], ?_⟩, by simp [quietB]⟩
        split <;> simp [quietB]

/-- the runs of the split semantics `log_once_partial_W` speaks about: the atomic events are
    those of `OnceRun` (completed operations, no mid-run `Recover()`, one hash per name), the
    handler's two phases may be placed anywhere, with anything in between; no crash inside
    `finalize`. -/
def OnceRunW (hashOf : Name → String) (evs : List WEv) : Prop :=
  ∀ ev ∈ evs, match ev with
    | .ev e => OnceRun hashOf [e]
    | .finhDecide _ _ => True
    | .finhDo _ => True
    | .cutFinhDo _ _ => False

theorem onceInv_runW (hashOf : Name → String) (H : Body → String) :
    ∀ (evs : List WEv) (w : WState), OnceInv hashOf w.st → OnceRunW hashOf evs →
      OnceInv hashOf (runW H w evs).st := by
  intro evs
  induction evs with
  | nil => intro w hi _; exact hi
  | cons ev evs ih =>
    intro w hi hrun
    simp only [runW, List.foldl_cons]
    refine ih _ ?_ (fun e he => hrun e (by simp [he]))
    have hev := hrun ev (by simp)
    cases ev with
    | ev e =>
      have h1 := onceInv_run hashOf H [e] w.st hi hev
      cases e <;> exact h1
    | finhDecide n now =>
      simp only [wstep]
      cases w.held with
      | some _ => exact hi
      | none => exact hi.quiet (quiet_run_of_all hashOf _ _ (finhDecide_quietB w.st n now))
    | finhDo now =>
      simp only [wstep]
      cases w.held with
      | none => exact hi
      | some x => exact finalize_once hi x.1 x.2 now
    | cutFinhDo k now => exact absurd hev (by simp)

/-- **log_once_partial in the split semantics**: in every crash-free run without a mid-run
    `Recover()` in which all completions of a name carry one hash, with the finalize handler's
    decision and locked phase placed anywhere and anything in between, the receive log holds at
    most one record per name. -/
theorem log_once_partial_W (H : Body → String) (hashOf : Name → String) (evs : List WEv)
    (hrun : OnceRunW hashOf evs) :
    ∀ n, ((runW H {} evs).st.disk.log.filter (·.name = n)).length ≤ 1 :=
  (onceInv_runW hashOf H evs {} (OnceInv_init hashOf) hrun).once

/-- non-vacuity: a duplicate of the held version is received completely inside the window (it
    is discarded: same hash, state validated); one record. -/
def exWindowDup : List WEv :=
  (goodRun.take 6).map .ev ++ [.finhDecide "a" 0] ++
  [.ev (.op (.prepare "a" 2 1)), .ev (.op (.recvOpen 2 "a")), .ev (.op (.recvWrite 2 0 [1, 2] 1)),
   .ev (.op (.record "a" metaA 0 2 1))] ++ [.finhDo 2]

theorem exWindowDup_once : OnceRunW (fun _ => "[1, 2]") exWindowDup := by
  intro ev hev
  simp only [exWindowDup, goodRun, List.take, List.map, List.cons_append, List.nil_append,
    List.mem_cons, List.not_mem_nil, or_false] at hev
  rcases hev with h | h | h | h | h | h | h | h | h | h | h | h <;> subst h <;>
    first
    | trivial
    | (intro e he; simp only [List.mem_singleton] at he; subst he; first | trivial | rfl)

example : (runW Hs {} exWindowDup).st.disk.log = [⟨"a", "", "[1, 2]", 2, 2, ""⟩] ∧
    (runW Hs {} (exWindowDup.take 7)).held.map (·.1) = some "a" ∧
    (runW Hs {} exWindowDup).st.disk.part "a" = none := ⟨by decide, by decide, by decide⟩

end Sts.Stage
