/-
  C07 — a sender crash at any point loses nothing and re-sends only what is missing
  (the sender's recovery logic: client/client.go recover(), with cache/local.go and the
  restart step of Model/Release.lean).

  Theorems are about the code with the proposed repairs (`Fixes.repaired`) unless stated for
  every `fx`. Witnesses of the defects of the code as found at the end: S5 (negative range
  from an overlapping receiver record), S19 (a failed recovery poll strands the files).
-/
import StsModel.Props.C02
import StsModel.Props.C07Missing

namespace Sts.Release


/-! ## the repaired gap computation is the exact complement -/

def inRngs (rs : List Rng) (x : Int) : Prop := ∃ r ∈ rs, r.beg ≤ x ∧ x < r.fin

def SortedBeg (ps : List Rng) : Prop := ps.Pairwise (fun a b => a.beg ≤ b.beg)

def WellFormed (ps : List Rng) : Prop := ∀ p ∈ ps, p.beg ≤ p.fin

theorem mem_insertByBeg (r : Rng) (l : List Rng) (x : Rng) : x ∈ insertByBeg r l ↔ x = r ∨ x ∈ l := by
  induction l with
  | nil => simp [insertByBeg]
  | cons p ps ih =>
    unfold insertByBeg
    split
    · simp
    · simp only [List.mem_cons, ih]
      constructor
      · rintro (h | h | h)
        · exact Or.inr (Or.inl h)
        · exact Or.inl h
        · exact Or.inr (Or.inr h)
      · rintro (h | h | h)
        · exact Or.inr (Or.inl h)
        · exact Or.inl h
        · exact Or.inr (Or.inr h)

theorem sorted_insertByBeg (r : Rng) (l : List Rng) (h : SortedBeg l) : SortedBeg (insertByBeg r l) := by
  induction l with
  | nil => simp [insertByBeg, SortedBeg]
  | cons p ps ih =>
    unfold insertByBeg
    unfold SortedBeg at h ⊢
    rw [List.pairwise_cons] at h
    split
    · rename_i hlt
      rw [List.pairwise_cons]
      refine ⟨?_, List.pairwise_cons.mpr h⟩
      intro a ha
      simp only [List.mem_cons] at ha
      rcases ha with rfl | ha
      · omega
      · have := h.1 a ha; omega
    · rename_i hge
      rw [List.pairwise_cons]
      refine ⟨?_, ih h.2⟩
      intro a ha
      rcases (mem_insertByBeg r ps a).mp ha with rfl | ha
      · omega
      · exact h.1 a ha

theorem mem_sortStable (ps : List Rng) (x : Rng) : x ∈ sortStable ps ↔ x ∈ ps := by
  unfold sortStable
  have : ∀ (l acc : List Rng), x ∈ l.foldl (fun acc r => insertByBeg r acc) acc ↔ x ∈ acc ∨ x ∈ l := by
    intro l
    induction l with
    | nil => intro acc; simp
    | cons p ps ih =>
      intro acc
      simp only [List.foldl_cons, ih, mem_insertByBeg, List.mem_cons]
      constructor
      · rintro ((h | h) | h)
        · exact Or.inr (Or.inl h)
        · exact Or.inl h
        · exact Or.inr (Or.inr h)
      · rintro (h | h | h)
        · exact Or.inl (Or.inr h)
        · exact Or.inl (Or.inl h)
        · exact Or.inr h
  simpa using this ps []

theorem sorted_sortStable (ps : List Rng) : SortedBeg (sortStable ps) := by
  unfold sortStable
  have : ∀ (l acc : List Rng), SortedBeg acc → SortedBeg (l.foldl (fun acc r => insertByBeg r acc) acc) := by
    intro l
    induction l with
    | nil => intro acc h; exact h
    | cons p ps ih => intro acc h; exact ih _ (sorted_insertByBeg p acc h)
  exact this ps [] (by simp [SortedBeg])

/-- the loop invariant of the repaired gap loop, for parts sorted by `beg` and well-formed. -/
theorem gapsFixedAux_spec (ps : List Rng) (hs : SortedBeg ps) (hw : WellFormed ps) :
    ∀ b : Int,
      b ≤ lastEndFixed ps b ∧
      (∀ p ∈ ps, p.fin ≤ lastEndFixed ps b) ∧
      (∀ r ∈ gapsFixedAux ps b, b ≤ r.beg ∧ r.beg < r.fin ∧ r.fin ≤ lastEndFixed ps b) ∧
      (gapsFixedAux ps b).Pairwise (fun r1 r2 => r1.fin ≤ r2.beg) ∧
      (∀ x, b ≤ x → x < lastEndFixed ps b → (inRngs (gapsFixedAux ps b) x ↔ ¬ covered ps x)) := by
  induction ps with
  | nil =>
    intro b
    simp [lastEndFixed, gapsFixedAux]
    intro x h1 h2; omega
  | cons p ps ih =>
    intro b
    unfold SortedBeg at hs
    rw [List.pairwise_cons] at hs
    have hwp : p.beg ≤ p.fin := hw p (by simp)
    have hw' : WellFormed ps := fun q hq => hw q (by simp [hq])
    have ih := ih hs.2 hw'
    unfold lastEndFixed gapsFixedAux
    by_cases hle : p.beg ≤ b
    · simp only [hle, if_true]
      obtain ⟨i1, i2, i3, i4, i5⟩ := ih (if p.fin > b then p.fin else b)
      have hb' : b ≤ (if p.fin > b then p.fin else b) := by split <;> omega
      have hpf : p.fin ≤ (if p.fin > b then p.fin else b) := by split <;> omega
      refine ⟨by omega, ?_, ?_, i4, ?_⟩
      · intro q hq
        simp only [List.mem_cons] at hq
        rcases hq with rfl | hq
        · omega
        · exact i2 q hq
      · intro r hr
        have := i3 r hr
        exact ⟨by omega, this.2.1, this.2.2⟩
      · intro x hx1 hx2
        by_cases hx : x < (if p.fin > b then p.fin else b)
        · -- x is covered by p and lies before every remaining gap
          have hxp : x < p.fin := by split at hx <;> omega
          constructor
          · rintro ⟨r, hr, h1, h2⟩
            have := i3 r hr; omega
          · intro hnc
            exact absurd ⟨p, by simp, by omega, hxp⟩ hnc
        · have hx' : (if p.fin > b then p.fin else b) ≤ x := by omega
          rw [i5 x hx' hx2]
          constructor
          · rintro hnc ⟨q, hq, h1, h2⟩
            simp only [List.mem_cons] at hq
            rcases hq with rfl | hq
            · omega
            · exact hnc ⟨q, hq, h1, h2⟩
          · rintro hnc ⟨q, hq, h1, h2⟩
            exact hnc ⟨q, by simp [hq], h1, h2⟩
    · simp only [hle, if_false]
      obtain ⟨i1, i2, i3, i4, i5⟩ := ih p.fin
      have hlt : b < p.beg := by omega
      refine ⟨by omega, ?_, ?_, ?_, ?_⟩
      · intro q hq
        simp only [List.mem_cons] at hq
        rcases hq with rfl | hq
        · omega
        · exact i2 q hq
      · intro r hr
        simp only [List.mem_cons] at hr
        rcases hr with rfl | hr
        · exact ⟨by simp, by simpa using hlt, by simp; omega⟩
        · have := i3 r hr
          exact ⟨by omega, this.2.1, this.2.2⟩
      · rw [List.pairwise_cons]
        refine ⟨?_, i4⟩
        intro r hr
        have := i3 r hr
        simp; omega
      · intro x hx1 hx2
        by_cases hxa : x < p.beg
        · -- in the first gap; nothing covers x (sorted: every later part begins at or after p.beg)
          constructor
          · rintro _ ⟨q, hq, h1, h2⟩
            simp only [List.mem_cons] at hq
            rcases hq with rfl | hq
            · omega
            · have := hs.1 q hq; omega
          · intro _
            exact ⟨⟨b, p.beg⟩, by simp, hx1, hxa⟩
        · by_cases hxb : x < p.fin
          · constructor
            · rintro ⟨r, hr, h1, h2⟩
              simp only [List.mem_cons] at hr
              rcases hr with rfl | hr
              · simp at h2; omega
              · have := i3 r hr; omega
            · intro hnc
              exact absurd ⟨p, by simp, by omega, hxb⟩ hnc
          · have hx' : p.fin ≤ x := by omega
            constructor
            · rintro ⟨r, hr, h1, h2⟩ ⟨q, hq, h3, h4⟩
              simp only [List.mem_cons] at hr hq
              rcases hr with rfl | hr
              · simp at h2; omega
              · rcases hq with rfl | hq
                · omega
                · exact (i5 x hx' hx2).mp ⟨r, hr, h1, h2⟩ ⟨q, hq, h3, h4⟩
            · intro hnc
              have : ¬ covered ps x := fun ⟨q, hq, h3, h4⟩ => hnc ⟨q, by simp [hq], h3, h4⟩
              obtain ⟨r, hr, h1, h2⟩ := (i5 x hx' hx2).mpr this
              exact ⟨r, by simp [hr], h1, h2⟩




theorem covered_sortStable (ps : List Rng) (x : Int) : covered (sortStable ps) x ↔ covered ps x := by
  unfold covered
  constructor
  · rintro ⟨p, hp, h⟩; exact ⟨p, (mem_sortStable ps p).mp hp, h⟩
  · rintro ⟨p, hp, h⟩; exact ⟨p, (mem_sortStable ps p).mpr hp, h⟩

/-- C07 `missing_is_complement` for the repaired gap loop: for ANY receiver record — unsorted,
    overlapping, nested, with duplicates — whose ranges are well-formed and lie within the
    file, the ranges recover() decides to send are exactly the bytes of `[0, size)` the record
    does not cover. -/
theorem missingFixed_complement (ps : List Rng) (size : Int) (h0 : 0 ≤ size)
    (hw : WellFormed ps) (hin : ∀ p ∈ ps, p.fin ≤ size) (x : Int) :
    inRngs (missingFixed ps size) x ↔ (0 ≤ x ∧ x < size ∧ ¬ covered ps x) := by
  have hw' : WellFormed (sortStable ps) := fun p hp => hw p ((mem_sortStable ps p).mp hp)
  obtain ⟨s1, s2, s3, _, s5⟩ := gapsFixedAux_spec (sortStable ps) (sorted_sortStable ps) hw' 0
  have hE : lastEndFixed (sortStable ps) 0 ≤ size := by
    -- the running end is 0 or the end of a listed part
    have : ∀ (l : List Rng) (b : Int), b ≤ size → (∀ p ∈ l, p.fin ≤ size) → lastEndFixed l b ≤ size := by
      intro l
      induction l with
      | nil => intro b hb _; simpa [lastEndFixed] using hb
      | cons p ps ih =>
        intro b hb hp
        unfold lastEndFixed
        have hpf := hp p (by simp)
        have hps : ∀ q ∈ ps, q.fin ≤ size := fun q hq => hp q (by simp [hq])
        split
        · split
          · exact ih _ hpf hps
          · exact ih _ hb hps
        · exact ih _ hpf hps
    exact this _ 0 h0 (fun p hp => hin p ((mem_sortStable ps p).mp hp))
  rw [← covered_sortStable ps x]
  unfold missingFixed missingFixedSorted
  dsimp only
  by_cases hx0 : 0 ≤ x
  · by_cases hxE : x < lastEndFixed (sortStable ps) 0
    · have := s5 x hx0 hxE
      split
      · constructor
        · rintro ⟨r, hr, h1, h2⟩
          simp only [List.mem_append, List.mem_singleton] at hr
          rcases hr with hr | rfl
          · exact ⟨hx0, by omega, this.mp ⟨r, hr, h1, h2⟩⟩
          · simp at h1; omega
        · rintro ⟨_, _, hnc⟩
          obtain ⟨r, hr, h1, h2⟩ := this.mpr hnc
          exact ⟨r, by simp [hr], h1, h2⟩
      · constructor
        · rintro ⟨r, hr, h1, h2⟩
          exact ⟨hx0, by omega, this.mp ⟨r, hr, h1, h2⟩⟩
        · rintro ⟨_, _, hnc⟩
          exact this.mpr hnc
    · -- beyond the running end: only the tail range, and nothing covers x
      have hnc : ¬ covered (sortStable ps) x := by
        rintro ⟨p, hp, h1, h2⟩
        have := s2 p hp; omega
      split
      · constructor
        · rintro ⟨r, hr, h1, h2⟩
          simp only [List.mem_append, List.mem_singleton] at hr
          rcases hr with hr | rfl
          · have := s3 r hr; omega
          · simp at h2; exact ⟨hx0, h2, hnc⟩
        · rintro ⟨_, h2, _⟩
          exact ⟨⟨lastEndFixed (sortStable ps) 0, size⟩, by simp, by simp; omega, by simpa using h2⟩
      · constructor
        · rintro ⟨r, hr, h1, h2⟩
          have := s3 r hr; omega
        · rintro ⟨_, h2, _⟩; omega
  · constructor
    · rintro ⟨r, hr, h1, h2⟩
      split at hr
      · simp only [List.mem_append, List.mem_singleton] at hr
        rcases hr with hr | rfl
        · have := s3 r hr; omega
        · simp at h1; omega
      · have := s3 r hr; omega
    · rintro ⟨h, _⟩; omega

/-- … and they are non-empty, ascending and pairwise disjoint, so the resumed file allocates
    every missing byte once. -/
theorem missingFixed_ranges (ps : List Rng) (size : Int) (hw : WellFormed ps) :
    (∀ r ∈ missingFixed ps size, r.beg < r.fin) ∧
    (missingFixed ps size).Pairwise (fun r1 r2 => r1.fin ≤ r2.beg) := by
  have hw' : WellFormed (sortStable ps) := fun p hp => hw p ((mem_sortStable ps p).mp hp)
  obtain ⟨_, _, s3, s4, _⟩ := gapsFixedAux_spec (sortStable ps) (sorted_sortStable ps) hw' 0
  unfold missingFixed missingFixedSorted
  dsimp only
  split
  · rename_i hlt
    constructor
    · intro r hr
      simp only [List.mem_append, List.mem_singleton] at hr
      rcases hr with hr | rfl
      · exact (s3 r hr).2.1
      · simpa using hlt
    · rw [List.pairwise_append]
      refine ⟨s4, by simp, ?_⟩
      intro a ha b hb
      simp only [List.mem_singleton] at hb
      subst hb
      simpa using (s3 a ha).2.2
  · exact ⟨fun r hr => (s3 r hr).2.1, s4⟩

example : missingFixed [⟨6, 8⟩, ⟨0, 3⟩] 10 = [⟨3, 6⟩, ⟨8, 10⟩] := by decide
example : missingFixed [⟨2, 8⟩, ⟨6, 10⟩] 10 = [⟨0, 2⟩] := by decide
example : missingFixed [⟨0, 6⟩, ⟨2, 4⟩, ⟨5, 9⟩] 12 = [⟨9, 12⟩] := by decide
example : missingFixed [⟨0, 10⟩] 10 = [] := by decide
example : missingFixed [] 10 = [⟨0, 10⟩] := by decide

/-- S5 (code as found): for the overlapping record `[2,8) [6,10)` — which the receiver's own
    bookkeeping produces from parts `[0,4) [6,10) [2,8)`, see Props/C09 — the gap loop emits the
    negative range `[8,6)`; the repaired loop sends `[0,2)` only. -/
theorem S5_negative_range_from_overlap :
    missingOrig [⟨2, 8⟩, ⟨6, 10⟩] 10 = [⟨0, 2⟩, ⟨8, 6⟩] ∧
    missingFixed [⟨2, 8⟩, ⟨6, 10⟩] 10 = [⟨0, 2⟩] ∧
    (addPart (addPart (addPart [] 0 4).1 6 10).1 2 8).1 = [⟨2, 8⟩, ⟨6, 10⟩] := by decide




/-- for a record without overlaps the repair changes nothing: the gap loop as found and the
    repaired one compute the same ranges. -/
theorem missingOrig_eq_fixed (ps : List Rng) (size : Int) (hw : WellFormed ps)
    (hd : (sortStable ps).Pairwise (fun a b => a.fin ≤ b.beg)) (h0 : ∀ p ∈ ps, 0 ≤ p.beg) :
    missingOrig ps size = missingFixed ps size := by
  have aux : ∀ (l : List Rng) (b : Int), l.Pairwise (fun a b => a.fin ≤ b.beg) → WellFormed l →
      (∀ p ∈ l, b ≤ p.beg) → gapsAux l b = gapsFixedAux l b ∧ lastEnd l b = lastEndFixed l b := by
    intro l
    induction l with
    | nil => intro b _ _ _; simp [gapsAux, gapsFixedAux, lastEnd, lastEndFixed]
    | cons p ps ih =>
      intro b hp hwf hb
      rw [List.pairwise_cons] at hp
      have hpw : p.beg ≤ p.fin := hwf p (by simp)
      have hbp : b ≤ p.beg := hb p (by simp)
      have ih' := ih p.fin hp.2 (fun q hq => hwf q (by simp [hq])) (fun q hq => hp.1 q hq)
      unfold gapsAux gapsFixedAux lastEnd lastEndFixed
      by_cases heq : b = p.beg
      · have h1 : (b == p.beg) = true := by simp [heq]
        have h2 : p.beg ≤ b := by omega
        simp only [h1, h2, if_true]
        by_cases hgt : p.fin > b
        · simp only [hgt, if_true]; exact ih'
        · have : p.fin = b := by omega
          simp only [hgt, if_false]
          rw [← this]; exact ih'
      · have h1 : (b == p.beg) = false := by simp [heq]
        have h2 : ¬ p.beg ≤ b := by omega
        simp only [h1, h2, if_false]
        exact ⟨by rw [ih'.1]; simp, ih'.2⟩
  have hw' : WellFormed (sortStable ps) := fun p hp => hw p ((mem_sortStable ps p).mp hp)
  have := aux (sortStable ps) 0 hd hw' (fun p hp => h0 p ((mem_sortStable ps p).mp hp))
  unfold missingOrig missingFixed missingSorted missingFixedSorted
  dsimp only
  rw [this.1, this.2]




/-! ## what recover() does with every cached file -/

theorem runLoop_effs_at {σ α : Type} (body : σ → α → σ × List Eff) (s : σ) (pre post : List α) (x : α) :
    ∀ e ∈ (body (runLoop body s pre).1 x).2, e ∈ (runLoop body s (pre ++ x :: post)).2 := by
  intro e he
  rw [runLoop_append, runLoop_cons]
  simp only [List.mem_append]
  exact Or.inr (Or.inl he)

theorem runLoop_state_at {σ α : Type} (body : σ → α → σ × List Eff) (s : σ) (pre post : List α) (x : α) :
    (runLoop body s (pre ++ x :: post)).1 = (runLoop body (body (runLoop body s pre).1 x).1 post).1 := by
  rw [runLoop_append, runLoop_cons]

theorem recEntry_poll_mono (fx : Fixes) (env : Env) (lk : List Partial) (s : St × List CEntry) (f : CEntry) :
    ∀ c ∈ s.2, c ∈ (recEntry fx env lk s f).1.2 := by
  intro c hc
  unfold recEntry
  split
  · exact hc
  · split
    · exact hc
    · split
      · exact hc
      · exact hc
      · split
        · exact hc
        · split
          · split
            · simp [hc]
            · exact hc
          · simp [hc]

/-- the decision of the cache iteration for a file that is not done, not ignored, unchanged
    and hashed: resume with the gaps when the receiver listed a partial with gaps, else poll. -/
theorem recEntry_live (fx : Fixes) (env : Env) (lk : List Partial) (s : St × List CEntry) (f : CEntry)
    (hd : f.done = false) (hi : env.ign f.name = false) (hs : sync s.1.store f = .same) (hh : f.hash ≠ "") :
    (∃ p, lkget lk f.name = some p ∧ gaps fx p.parts f.size ≠ [] ∧
      (recEntry fx env lk s f).2 = [.push (.resume f.name p.prev (gaps fx p.parts f.size))]) ∨
    f ∈ (recEntry fx env lk s f).1.2 := by
  unfold recEntry
  simp only [hd, hi, hs, hh, Bool.false_eq_true, if_false]
  split
  · rename_i p hp
    split
    · exact Or.inr (by simp)
    · rename_i hg
      exact Or.inl ⟨p, hp, hg, rfl⟩
  · exact Or.inr (by simp)

theorem recEntry_loop_store (fx : Fixes) (env : Env) (lk : List Partial) (s0 : St × List CEntry) (l : List CEntry) :
    (runLoop (recEntry fx env lk) s0 l).1.1.store = s0.1.store :=
  runLoop_inv (recEntry fx env lk) (fun t => t.1.store = s0.1.store) l
    (fun t f _ ht => (recEntry_inv fx env lk t f).1.trans ht) _ rfl

theorem phase2_covers (fx : Fixes) (env : Env) (lk : List Partial) (s0 : St × List CEntry)
    (pre post : List CEntry) (f : CEntry)
    (hd : f.done = false) (hi : env.ign f.name = false) (hs : sync s0.1.store f = .same) (hh : f.hash ≠ "") :
    (∃ p, lkget lk f.name = some p ∧ gaps fx p.parts f.size ≠ [] ∧
      Eff.push (.resume f.name p.prev (gaps fx p.parts f.size)) ∈
        (runLoop (recEntry fx env lk) s0 (pre ++ f :: post)).2) ∨
    f ∈ (runLoop (recEntry fx env lk) s0 (pre ++ f :: post)).1.2 := by
  have hs' : sync (runLoop (recEntry fx env lk) s0 pre).1.1.store f = .same := by
    rw [recEntry_loop_store]; exact hs
  rcases recEntry_live fx env lk _ f hd hi hs' hh with ⟨p, hp, hg, heff⟩ | hpoll
  · refine Or.inl ⟨p, hp, hg, ?_⟩
    apply runLoop_effs_at
    rw [heff]; simp
  · refine Or.inr ?_
    rw [runLoop_state_at]
    exact runLoop_inv (recEntry fx env lk) (fun t => f ∈ t.2) post
      (fun t g _ ht => recEntry_poll_mono fx env lk t g f ht) _ hpoll

theorem phase2_ignored_vanished (fx : Fixes) (env : Env) (lk : List Partial) (s0 : St × List CEntry)
    (pre post : List CEntry) (f : CEntry) (hd : f.done = false) :
    (env.ign f.name = true →
      Eff.cacheRemove f.name ∈ (runLoop (recEntry fx env lk) s0 (pre ++ f :: post)).2) ∧
    (env.ign f.name = false → sync s0.1.store f = .absent →
      Eff.cacheDone f.name false ∈ (runLoop (recEntry fx env lk) s0 (pre ++ f :: post)).2) := by
  constructor
  · intro hi
    apply runLoop_effs_at
    simp [recEntry, hd, hi]
  · intro hi hs
    apply runLoop_effs_at
    have hs' : sync (runLoop (recEntry fx env lk) s0 pre).1.1.store f = .absent := by
      rw [recEntry_loop_store]; exact hs
    simp [recEntry, hd, hi, hs']

/-- C07 `recover_plan_cases` (1): a cached file that is not done, not ignored, unchanged on
    disk and hashed is either resumed — with exactly the gaps of the receiver's listing and
    the predecessor the listing names — or polled. Nothing else happens to it; in particular
    it is never dropped. -/
theorem recover_covers (fx : Fixes) (env : Env) (st : St) (f : CEntry) (hf : f ∈ st.cache)
    (hd : f.done = false) (hi : env.ign f.name = false) (hs : sync st.store f = .same) (hh : f.hash ≠ "") :
    (∃ p, lkget (recover fx env st).lookup f.name = some p ∧ gaps fx p.parts f.size ≠ [] ∧
      Eff.push (.resume f.name p.prev (gaps fx p.parts f.size)) ∈ (recover fx env st).effs) ∨
    f ∈ (recover fx env st).polled := by
  obtain ⟨pre, post, hsplit⟩ := List.append_of_mem hf
  have := phase2_covers fx env (runLoop (recPartial st.cache) [] st.partials).1
    ({ st with recErrs := 0 }, []) pre post f hd hi hs hh
  rw [← hsplit] at this
  unfold recover
  dsimp only
  rcases this with ⟨p, hp, hg, heff⟩ | hpoll
  · refine Or.inl ⟨p, hp, hg, ?_⟩
    simp only [List.mem_append]
    exact Or.inl (Or.inr heff)
  · exact Or.inr hpoll

/-- C07 `recover_plan_cases` (2): a cached file the store ignores now is removed from the
    cache; one that is gone is marked done (nothing to send); both without any request. -/
theorem recover_ignored_vanished (fx : Fixes) (env : Env) (st : St) (f : CEntry) (hf : f ∈ st.cache)
    (hd : f.done = false) :
    (env.ign f.name = true → Eff.cacheRemove f.name ∈ (recover fx env st).effs) ∧
    (env.ign f.name = false → sync st.store f = .absent →
      Eff.cacheDone f.name false ∈ (recover fx env st).effs) := by
  obtain ⟨pre, post, hsplit⟩ := List.append_of_mem hf
  have := phase2_ignored_vanished fx env (runLoop (recPartial st.cache) [] st.partials).1
    ({ st with recErrs := 0 }, []) pre post f hd
  rw [← hsplit] at this
  unfold recover
  dsimp only
  constructor
  · intro hi
    simp only [List.mem_append]
    exact Or.inl (Or.inr (this.1 hi))
  · intro hi hs
    simp only [List.mem_append]
    exact Or.inl (Or.inr (this.2 hi hs))




theorem chunk_covers {α : Type} (k : Nat) (hk : 0 < k) :
    ∀ (fuel : Nat) (l : List α), l.length ≤ fuel → ∀ x ∈ l, ∃ b ∈ chunk k fuel l, x ∈ b := by
  intro fuel
  induction fuel with
  | zero =>
    intro l hl x hx
    have : l = [] := List.eq_nil_of_length_eq_zero (by omega)
    subst this; simp at hx
  | succ n ih =>
    intro l hl x hx
    unfold chunk
    split
    · rename_i he
      have : l = [] := by simpa using he
      subst this; simp at hx
    · rename_i hne
      have hx' : x ∈ l.take k ++ l.drop k := by rw [List.take_append_drop]; exact hx
      simp only [List.mem_append] at hx'
      rcases hx' with h | h
      · exact ⟨l.take k, by simp, h⟩
      · have hlen : (l.drop k).length ≤ n := by
          have : l.length ≠ 0 := by
            intro h0; exact hne (by simp [List.eq_nil_of_length_eq_zero h0])
          simp only [List.length_drop]; omega
        obtain ⟨b, hb, hxb⟩ := ih (l.drop k) hlen x h
        exact ⟨b, by simp [hb], hxb⟩

/-- the receiver's answers mention every file they are asked about. -/
def NoOmit (as : List (Name × List Verdict)) : Prop := ∀ a ∈ as, Verdict.omit ∉ a.2

theorem nextAnswer_noOmit (as : List (Name × List Verdict)) (n : Name) (h : NoOmit as) :
    (nextAnswer as n).1 ≠ .omit ∧ NoOmit (nextAnswer as n).2 := by
  induction as with
  | nil => simp [nextAnswer, NoOmit]
  | cons a rest ih =>
    obtain ⟨m, vs⟩ := a
    have hrest : NoOmit rest := fun x hx => h x (by simp [hx])
    have hvs : Verdict.omit ∉ vs := h (m, vs) (by simp)
    unfold nextAnswer
    split
    · split
      · exact ⟨by simp, h⟩
      · rename_i v
        refine ⟨?_, h⟩
        intro hv; subst hv; simp at hvs
      · rename_i v vs' _
        refine ⟨?_, ?_⟩
        · intro hv; subst hv; simp at hvs
        · intro x hx
          simp only [List.mem_cons] at hx
          rcases hx with rfl | hx
          · intro ho; exact hvs (by simp [ho])
          · exact hrest x hx
    · have := ih hrest
      refine ⟨this.1, ?_⟩
      intro x hx
      simp only [List.mem_cons] at hx
      rcases hx with rfl | hx
      · exact hvs
      · exact this.2 x hx

theorem takeAnswers_total {α : Type} (nameOf : α → Name) (l : List α) :
    ∀ (as : List (Name × List Verdict)), NoOmit as →
      (∀ x ∈ l, ∃ v, (x, v) ∈ (takeAnswers nameOf as l).1) ∧ NoOmit (takeAnswers nameOf as l).2 := by
  induction l with
  | nil => intro as h; simp [takeAnswers, h]
  | cons y ys ih =>
    intro as h
    have hn := nextAnswer_noOmit as (nameOf y) h
    have ih' := ih _ hn.2
    simp only [takeAnswers]
    simp only [hn.1, if_false]
    refine ⟨?_, ih'.2⟩
    intro x hx
    simp only [List.mem_cons] at hx
    rcases hx with rfl | hx
    · exact ⟨(nextAnswer as (nameOf x)).1, by simp⟩
    · obtain ⟨v, hv⟩ := ih'.1 x hx
      exact ⟨v, by simp [hv]⟩

theorem cget_cmark (c : Cache) (n m : Name) :
    cget (cmark c n) m = (cget c m).map (fun e => if e.name = n then { e with done := true } else e) := by
  unfold cget cmark
  rw [List.find?_map]
  congr 2
  funext e
  simp only [Function.comp]
  split <;> rfl




/-- the cache has an entry under that name. -/
def Has (c : Cache) (n : Name) : Prop := (cget c n).isSome = true

theorem has_cmark (c : Cache) (k n : Name) (h : Has c n) : Has (cmark c k) n := by
  unfold Has at h ⊢
  rw [cget_cmark]
  simpa using h

theorem has_cremove_ne (c : Cache) (k n : Name) (hne : n ≠ k) (h : Has c n) : Has (cremove c k) n := by
  unfold Has at h ⊢
  rw [cget_cremove_ne _ _ _ hne]; exact h

theorem doneAndDelete_has (fx : Fixes) (env : Env) (st : St) (k n : Name) (h : Has st.cache n) :
    Has (doneAndDelete fx env st k).1.cache n := by
  unfold doneAndDelete
  split
  · exact h
  · split
    · exact h
    · split
      · split <;> exact has_cmark _ _ _ h
      · exact has_cmark _ _ _ h

theorem finish_has (fx : Fixes) (env : Env) (st : St) (k n : Name) (v : Verdict) (h : Has st.cache n) :
    Has (finish fx env st k v).1.cache n := by
  unfold finish
  split
  · exact doneAndDelete_has _ _ _ _ _ h
  · exact h

theorem recPolled_has (fx : Fixes) (env : Env) (lk : List Partial) (st : St) (x : CEntry × Verdict) (n : Name)
    (h : Has st.cache n) : Has (recPolled fx env lk st x).1.cache n := by
  unfold recPolled
  split
  · exact h
  · split
    · exact h
    · split <;> exact h
    · unfold recConfirm; split
      · exact finish_has _ _ _ _ _ _ h
      · exact finish_has fx env { st with logged := _ } _ _ _ h
    · unfold recConfirm; split
      · exact finish_has _ _ _ _ _ _ h
      · exact finish_has fx env { st with logged := _ } _ _ _ h
    · exact h
    · exact h

theorem recEntry_has (fx : Fixes) (env : Env) (lk : List Partial) (s : St × List CEntry) (g : CEntry) (n : Name)
    (hi : env.ign n = false) (h : Has s.1.cache n) : Has (recEntry fx env lk s g).1.1.cache n := by
  unfold recEntry
  split
  · exact h
  · split
    · rename_i hg
      unfold St.cacheRemove
      split
      · exact h
      · apply has_cremove_ne _ _ _ _ h
        intro hne; rw [hne] at hi; rw [hi] at hg; cases hg
    · split
      · unfold St.cacheDone
        split
        · exact h
        · split
          · exact h
          · exact has_cmark _ _ _ h
      · exact h
      · split
        · exact h
        · split
          · split <;> exact h
          · exact h

theorem doneAndDelete_emits_done (fx : Fixes) (env : Env) (st : St) (n : Name) :
    Eff.cacheDone n true ∈ (doneAndDelete fx env st n).2 := by
  unfold doneAndDelete
  split
  · simp
  · split
    · simp
    · split
      · split <;> simp
      · simp

/-- the verdict switch of recover() for a polled file whose cache entry exists. -/
theorem recPolled_outcome (fx : Fixes) (env : Env) (lk : List Partial) (t : St) (f c : CEntry) (v : Verdict)
    (hc : cget t.cache f.name = some c) :
    (v = .none → Eff.push (.plain f.name) ∈ (recPolled fx env lk t (f, v)).2) ∧
    (v = .failed →
      (∀ p, lkget lk f.name = some p →
        Eff.push (.resume f.name p.prev [⟨0, c.size⟩]) ∈ (recPolled fx env lk t (f, v)).2) ∧
      (lkget lk f.name = none → Eff.push (.plain f.name) ∈ (recPolled fx env lk t (f, v)).2)) ∧
    (v.positive = true →
      Eff.wasSent f.name ∈ (recPolled fx env lk t (f, v)).2 ∧
      Eff.push (.allocated f.name) ∈ (recPolled fx env lk t (f, v)).2 ∧
      Eff.cacheDone f.name true ∈ (recPolled fx env lk t (f, v)).2) := by
  have hcn : c.name = f.name := (cget_some hc).2
  refine ⟨?_, ?_, ?_⟩
  · rintro rfl
    simp [recPolled, hc, hcn]
  · rintro rfl
    constructor
    · intro p hp
      simp [recPolled, hc, hcn, hp]
    · intro hp
      simp [recPolled, hc, hcn, hp]
  · intro hp
    have hfin : Eff.cacheDone f.name true ∈ (finish fx env t f.name v).2 ∧
        ∀ t', Eff.cacheDone f.name true ∈ (finish fx env t' f.name v).2 := by
      constructor <;> (try intro t') <;> (unfold finish; simp only [hp, if_true]; exact doneAndDelete_emits_done _ _ _ _)
    have hv : v = .passed ∨ v = .waiting := by
      cases v <;> simp [Verdict.positive] at hp ⊢
    rcases hv with rfl | rfl
    · simp only [recPolled, hc, recConfirm, hcn]
      split
      · simp only [List.mem_append, List.mem_cons]
        exact ⟨by simp, by simp, Or.inr (hfin.2 _)⟩
      · simp only [List.mem_append, List.mem_cons]
        exact ⟨by simp, by simp, Or.inr (hfin.2 _)⟩
    · simp only [recPolled, hc, recConfirm, hcn]
      split
      · simp only [List.mem_append, List.mem_cons]
        exact ⟨by simp, by simp, Or.inr (hfin.2 _)⟩
      · simp only [List.mem_append, List.mem_cons]
        exact ⟨by simp, by simp, Or.inr (hfin.2 _)⟩




theorem finish_answers (fx : Fixes) (env : Env) (st : St) (n : Name) (v : Verdict) :
    (finish fx env st n v).1.answers = st.answers := by
  unfold finish
  split
  · unfold doneAndDelete
    split
    · rfl
    · split
      · rfl
      · split
        · split <;> rfl
        · rfl
  · rfl

theorem recPolled_answers (fx : Fixes) (env : Env) (lk : List Partial) (st : St) (x : CEntry × Verdict) :
    (recPolled fx env lk st x).1.answers = st.answers := by
  unfold recPolled
  split
  · rfl
  · split
    · rfl
    · split <;> rfl
    · unfold recConfirm; split <;> exact finish_answers _ _ _ _ _
    · unfold recConfirm; split <;> exact finish_answers _ _ _ _ _
    · rfl
    · rfl

theorem persist_answers (st : St) : st.persist.answers = st.answers := by
  unfold St.persist; split <;> rfl

theorem recBatch_no_err (fx : Fixes) (hfx : fx.pollRetry = true) (env : Env) (lk : List Partial) (st : St)
    (b : List CEntry) : (recBatch fx env lk st b).2.2 = false := by
  unfold recBatch
  simp [hfx]

/-- repaired: every batch of the poll list is processed. -/
theorem recBatches_covers (fx : Fixes) (hfx : fx.pollRetry = true) (env : Env) (lk : List Partial)
    (I : St → Prop) (hI : ∀ st b, I st → I (recBatch fx env lk st b).1) :
    ∀ (bs : List (List CEntry)) (st : St), I st → ∀ b ∈ bs,
      ∃ st', I st' ∧ ∀ z ∈ (recBatch fx env lk st' b).2.1, z ∈ (recBatches fx env lk st bs).2.1 := by
  intro bs
  induction bs with
  | nil => intro st _ b hb; simp at hb
  | cons a rest ih =>
    intro st hst b hb
    unfold recBatches
    dsimp only
    simp only [recBatch_no_err fx hfx env lk st a]
    simp only [List.mem_cons] at hb
    rcases hb with rfl | hb
    · exact ⟨st, hst, fun z hz => by simp [hz]⟩
    · obtain ⟨st', h1, h2⟩ := ih _ (hI st a hst) b hb
      exact ⟨st', h1, fun z hz => by simp [h2 z hz]⟩

/-- what one processed batch keeps: the entry of `n`, complete answers, versions. -/
theorem recBatch_keeps (fx : Fixes) (hfx : fx.pollRetry = true) (env : Env) (lk : List Partial) (c0 : Cache)
    (n : Name) (st : St) (b : List CEntry)
    (h : Has st.cache n ∧ NoOmit st.answers ∧ VerSub c0 st.cache) :
    Has (recBatch fx env lk st b).1.cache n ∧ NoOmit (recBatch fx env lk st b).1.answers ∧
    VerSub c0 (recBatch fx env lk st b).1.cache := by
  refine ⟨?_, ?_, VerSub.trans h.2.2 (recBatch_verSub fx env lk st b)⟩
  · unfold recBatch
    simp only [hfx, not_true_eq_false, and_false, if_false]
    rw [persist_cache]
    exact runLoop_inv (recPolled fx env lk) (fun t => Has t.cache n) _
      (fun t y _ ht => recPolled_has fx env lk t y n ht) _ h.1
  · unfold recBatch
    simp only [hfx, not_true_eq_false, and_false, if_false]
    rw [persist_answers]
    have := runLoop_inv (recPolled fx env lk)
      (fun t => t.answers = (takeAnswers (fun p : CEntry => p.name) st.answers b).2)
      (takeAnswers (fun p : CEntry => p.name) st.answers b).1
      (fun t y _ ht => (recPolled_answers fx env lk t y).trans ht)
      { st with answers := (takeAnswers (fun p : CEntry => p.name) st.answers b).2, pollErrs := 0 } rfl
    rw [this]
    exact (takeAnswers_total _ b st.answers h.2.1).2




/-- one batch: a polled file that is answered gets the outcome its verdict prescribes. -/
theorem recBatch_outcome (fx : Fixes) (hfx : fx.pollRetry = true) (env : Env) (lk : List Partial) (c0 : Cache)
    (st : St) (b : List CEntry) (f : CEntry) (hfb : f ∈ b)
    (h : Has st.cache f.name ∧ NoOmit st.answers ∧ VerSub c0 st.cache) :
    ∃ v sz, v ≠ .omit ∧ (∃ e0 ∈ c0, e0.name = f.name ∧ e0.size = sz) ∧
      Eff.answer f.name v ∈ (recBatch fx env lk st b).2.1 ∧
      (v = .none → Eff.push (.plain f.name) ∈ (recBatch fx env lk st b).2.1) ∧
      (v = .failed →
        (∀ p, lkget lk f.name = some p →
          Eff.push (.resume f.name p.prev [⟨0, sz⟩]) ∈ (recBatch fx env lk st b).2.1) ∧
        (lkget lk f.name = none → Eff.push (.plain f.name) ∈ (recBatch fx env lk st b).2.1)) ∧
      (v.positive = true →
        Eff.wasSent f.name ∈ (recBatch fx env lk st b).2.1 ∧
        Eff.push (.allocated f.name) ∈ (recBatch fx env lk st b).2.1 ∧
        Eff.cacheDone f.name true ∈ (recBatch fx env lk st b).2.1) := by
  obtain ⟨v, hv⟩ := (takeAnswers_total (fun p : CEntry => p.name) b st.answers h.2.1).1 f hfb
  obtain ⟨pre, post, hsplit⟩ := List.append_of_mem hv
  -- the state when it is f's turn
  have hinv := runLoop_inv (recPolled fx env lk) (fun t => Has t.cache f.name ∧ VerSub c0 t.cache) pre
    (fun t y _ ht => ⟨recPolled_has fx env lk t y _ ht.1, VerSub.trans ht.2 (recPolled_verSub fx env lk t y)⟩)
    { st with answers := (takeAnswers (fun p : CEntry => p.name) st.answers b).2, pollErrs := 0 }
    ⟨h.1, h.2.2⟩
  generalize ht : (runLoop (recPolled fx env lk)
    { st with answers := (takeAnswers (fun p : CEntry => p.name) st.answers b).2, pollErrs := 0 } pre).1 = t at hinv
  have hhas := hinv.1
  unfold Has at hhas
  obtain ⟨c, hc⟩ := Option.isSome_iff_exists.mp hhas
  obtain ⟨e0, he0, hsv, _⟩ := hinv.2 c (cget_some hc).1
  have hout := recPolled_outcome fx env lk t f c v hc
  have hloop : ∀ z ∈ (recPolled fx env lk t (f, v)).2, z ∈ (recBatch fx env lk st b).2.1 := by
    intro z hz
    unfold recBatch
    simp only [hfx, not_true_eq_false, and_false, if_false]
    simp only [List.mem_append]
    refine Or.inl (Or.inr ?_)
    rw [hsplit]
    apply runLoop_effs_at
    rw [ht]; exact hz
  refine ⟨v, c.size, (takeAnswers_mem _ _ _ _ _ hv).2, ⟨e0, he0, hsv.1.trans (cget_some hc).2, hsv.2.1⟩, ?_, ?_, ?_, ?_⟩
  · unfold recBatch
    simp only [hfx, not_true_eq_false, and_false, if_false]
    simp only [List.mem_append]
    exact Or.inl (Or.inl (Or.inr (answerEffs_mem (fun p : CEntry => p.name) _ f v hv)))
  · intro h1; exact hloop _ (hout.1 h1)
  · intro h1
    exact ⟨fun p hp => hloop _ ((hout.2.1 h1).1 p hp), fun hp => hloop _ ((hout.2.1 h1).2 hp)⟩
  · intro h1
    obtain ⟨a1, a2, a3⟩ := hout.2.2 h1
    exact ⟨hloop _ a1, hloop _ a2, hloop _ a3⟩

/-- C07 `recover_plan_cases` (3), repaired code: every polled file whose answer arrives gets
    the outcome the verdict prescribes — `none`: sent again whole; `failed`: sent again whole,
    as a resumed file with the listed predecessor when the receiver listed a partial;
    `waiting`/`passed`: sent log consulted, pushed as a fully allocated placeholder (the
    ordering chain continues from it) and finished (done + deletion by finish()). The poll
    itself cannot be abandoned (S19 repaired). -/
theorem recover_polled_outcome (env : Env) (st : St) (hk : 0 < env.pollMax) (hno : NoOmit st.answers)
    (f : CEntry) (hf : f ∈ (recover Fixes.repaired env st).polled) :
    (recover Fixes.repaired env st).err = false ∧
    ∃ v sz, v ≠ .omit ∧ (∃ e0 ∈ st.cache, e0.name = f.name ∧ e0.size = sz) ∧
      Eff.answer f.name v ∈ (recover Fixes.repaired env st).effs ∧
      (v = .none → Eff.push (.plain f.name) ∈ (recover Fixes.repaired env st).effs) ∧
      (v = .failed →
        (∀ p, lkget (recover Fixes.repaired env st).lookup f.name = some p →
          Eff.push (.resume f.name p.prev [⟨0, sz⟩]) ∈ (recover Fixes.repaired env st).effs) ∧
        (lkget (recover Fixes.repaired env st).lookup f.name = none →
          Eff.push (.plain f.name) ∈ (recover Fixes.repaired env st).effs)) ∧
      (v.positive = true →
        Eff.wasSent f.name ∈ (recover Fixes.repaired env st).effs ∧
        Eff.push (.allocated f.name) ∈ (recover Fixes.repaired env st).effs ∧
        Eff.cacheDone f.name true ∈ (recover Fixes.repaired env st).effs) := by
  have hprops := poll_only_after_all_bytes_recover Fixes.repaired env st f hf
  unfold recover at hf ⊢
  dsimp only at hf ⊢
  generalize hlk : (runLoop (recPartial st.cache) [] st.partials).1 = lk at hf ⊢
  -- after the cache iteration the entry of f is still there
  have hp2 := runLoop_inv (recEntry Fixes.repaired env lk)
    (fun t => Has t.1.cache f.name ∧ NoOmit t.1.answers ∧ VerSub st.cache t.1.cache) st.cache
    (fun t g _ ht => ⟨recEntry_has _ env lk t g _ hprops.2.2.1 ht.1,
      by
        have : (recEntry Fixes.repaired env lk t g).1.1.answers = t.1.answers := by
          unfold recEntry
          split
          · rfl
          · split
            · unfold St.cacheRemove; split <;> rfl
            · split
              · unfold St.cacheDone
                split
                · rfl
                · split <;> rfl
              · rfl
              · split
                · rfl
                · split
                  · split <;> rfl
                  · rfl
        rw [this]; exact ht.2.1,
      VerSub.trans ht.2.2 (recEntry_inv _ env lk t g).2⟩)
    ({ st with recErrs := 0 }, [])
    ⟨by
      unfold Has
      have : ∃ e, cget st.cache f.name = some e := by
        cases hc : cget st.cache f.name with
        | none => exact absurd rfl (cget_none hc f hprops.1)
        | some e => exact ⟨e, rfl⟩
      obtain ⟨e, he⟩ := this
      show (cget st.cache f.name).isSome = true
      rw [he]; rfl, hno, VerSub.refl _⟩
  obtain ⟨b, hb, hfb⟩ := chunk_covers env.pollMax hk _ _ (Nat.le_refl _) f hf
  obtain ⟨st', hI, hsub⟩ := recBatches_covers Fixes.repaired rfl env lk
    (fun t => Has t.cache f.name ∧ NoOmit t.answers ∧ VerSub st.cache t.cache)
    (fun t a ht => recBatch_keeps _ rfl env lk st.cache f.name t a ht) _ _ hp2 b hb
  obtain ⟨v, sz, hvo, h0, h1, h2, h3, h4⟩ := recBatch_outcome Fixes.repaired rfl env lk st.cache st' b f hfb hI
  have hin : ∀ z ∈ (recBatch Fixes.repaired env lk st' b).2.1, z ∈
      List.replicate st.recErrs Eff.recErr ++ (runLoop (recPartial st.cache) [] st.partials).2 ++
      (runLoop (recEntry Fixes.repaired env lk) ({ st with recErrs := 0 }, []) st.cache).2 ++
      (recBatches Fixes.repaired env lk
        (runLoop (recEntry Fixes.repaired env lk) ({ st with recErrs := 0 }, []) st.cache).1.1
        (chunk env.pollMax
          (runLoop (recEntry Fixes.repaired env lk) ({ st with recErrs := 0 }, []) st.cache).1.2.length
          (runLoop (recEntry Fixes.repaired env lk) ({ st with recErrs := 0 }, []) st.cache).1.2)).2.1 := by
    intro z hz
    simp only [List.mem_append]
    exact Or.inr (hsub z hz)
  refine ⟨?_, v, sz, hvo, h0, hin _ h1, fun hv => hin _ (h2 hv), ?_, ?_⟩
  · -- no error: every batch returns without one
    have : ∀ (bs : List (List CEntry)) (t : St), (recBatches Fixes.repaired env lk t bs).2.2 = false := by
      intro bs
      induction bs with
      | nil => intro t; rfl
      | cons a rest ih =>
        intro t
        unfold recBatches
        dsimp only
        simp only [recBatch_no_err Fixes.repaired rfl env lk t a]
        exact ih _
    exact this _ _
  · intro hv
    exact ⟨fun p hp => hin _ ((h3 hv).1 p hp), fun hp => hin _ ((h3 hv).2 hp)⟩
  · intro hv
    obtain ⟨a1, a2, a3⟩ := h4 hv
    exact ⟨hin _ a1, hin _ a2, hin _ a3⟩




/-- C07 `chain_continues`: a file the receiver lists that the sender does not know (any more),
    or knows as done, is pushed as a placeholder without ranges — fully allocated from the
    start, so the queue only uses it as the predecessor of what follows. (That a file
    confirmed by the recovery poll is pushed the same way is part of
    `recover_polled_outcome`.) -/
theorem chain_continues (fx : Fixes) (env : Env) (st : St) (p : Partial) (hp : p ∈ st.partials) :
    (cget st.cache p.name = none →
      Eff.push (.placeholder p.name p.size p.hash) ∈ (recover fx env st).effs) ∧
    (∀ c, cget st.cache p.name = some c → c.done = true →
      Eff.push (.allocated p.name) ∈ (recover fx env st).effs) := by
  obtain ⟨pre, post, hsplit⟩ := List.append_of_mem hp
  have hin : ∀ z ∈ (recPartial st.cache (runLoop (recPartial st.cache) [] pre).1 p).2,
      z ∈ (recover fx env st).effs := by
    intro z hz
    unfold recover
    dsimp only
    simp only [List.mem_append]
    refine Or.inl (Or.inl (Or.inr ?_))
    have := runLoop_effs_at (recPartial st.cache) [] pre post p z hz
    rw [← hsplit] at this
    exact this
  constructor
  · intro hc
    apply hin
    simp [recPartial, hc]
  · intro c hc hd
    apply hin
    simp [recPartial, hc, hd]

/-- pushes made for listed files never carry ranges unless the file is cached and not done:
    a placeholder cannot cause a transmission. -/
theorem recPartial_pushes (c : Cache) (lk : List Partial) (p : Partial) (q : Push)
    (h : Eff.push q ∈ (recPartial c lk p).2) :
    q = .placeholder p.name p.size p.hash ∨ q = .allocated p.name := by
  unfold recPartial at h
  split at h
  · simp at h; exact Or.inl h
  · split at h
    · simp at h; exact Or.inr h
    · simp at h

/-- C07 `sent_logged_once`: recover() writes a sent-log record only right after `WasSent` found
    none for that file — and having written it, a second confirmation of the same file in
    the same state finds it. (The lookup itself has the substring semantics of log/local.go,
    property C18.) -/
theorem sent_logged_once (fx : Fixes) (env : Env) (st : St) (c : CEntry) (hsh : String) (v : Verdict) :
    (Eff.logSent c.name c.hash ∈ (recConfirm fx env st c hsh v).2 ↔ st.logged.contains (c.name, hsh) = false) ∧
    Eff.wasSent c.name ∈ (recConfirm fx env st c hsh v).2 ∧
    (st.logged.contains (c.name, hsh) = false →
      (recConfirm fx env st c hsh v).1.logged = st.logged ++ [(c.name, c.hash)]) ∧
    (st.logged.contains (c.name, hsh) = true → (recConfirm fx env st c hsh v).1.logged = st.logged) := by
  have hlog : ∀ (t : St), (finish fx env t c.name v).1.logged = t.logged := by
    intro t
    unfold finish
    split
    · unfold doneAndDelete
      split
      · rfl
      · split
        · rfl
        · split
          · split <;> rfl
          · rfl
    · rfl
  have hnolog : ∀ (t : St), Eff.logSent c.name c.hash ∉ (finish fx env t c.name v).2 := by
    intro t hmem
    rcases finish_effs fx env t c.name v _ hmem with ⟨_, h | ⟨e, f, h⟩⟩ | ⟨_, h⟩ <;> simp at h
  unfold recConfirm
  split
  · rename_i hc
    refine ⟨?_, by simp, ?_, ?_⟩
    · simp only [hc, Bool.true_eq_false, iff_false]
      intro hmem
      simp only [List.mem_append, List.mem_cons, List.not_mem_nil, or_false] at hmem
      rcases hmem with (h | h) | h
      · simp at h
      · simp at h
      · exact hnolog _ h
    · intro h; rw [hc] at h; cases h
    · intro _; exact hlog st
  · rename_i hc
    refine ⟨?_, by simp, ?_, ?_⟩
    · simp only [hc, iff_true]
      simp
    · intro _; exact hlog _
    · intro h; exact absurd h hc




/-! ## the cache never forgets; Persist follows every scan and every processed poll batch -/

/-- the persisted cache is the in-memory cache unless something changed since (dirty). -/
def Synced (st : St) : Prop := st.dirty = false → st.disk = st.cache

/-- how a loop body may change (cache, disk, dirty): not at all, or cache changed and dirty. -/
def Step3 (t t' : St) : Prop :=
  t'.disk = t.disk ∧ (t'.dirty = true ∨ (t'.cache = t.cache ∧ t'.dirty = t.dirty))

theorem Step3.refl (t : St) : Step3 t t := ⟨rfl, Or.inr ⟨rfl, rfl⟩⟩

theorem synced_of_step3 {t t' : St} (h : Step3 t t') (hs : Synced t) : Synced t' := by
  intro hd
  rcases h.2 with h' | ⟨h1, h2⟩
  · rw [h'] at hd; cases hd
  · rw [h.1, h1]; exact hs (by rw [← h2]; exact hd)

theorem step3_finish (fx : Fixes) (env : Env) (st : St) (n : Name) (v : Verdict) :
    Step3 st (finish fx env st n v).1 := by
  unfold finish
  split
  · unfold doneAndDelete
    split
    · exact Step3.refl _
    · split
      · exact Step3.refl _
      · split
        · split <;> exact ⟨rfl, Or.inl rfl⟩
        · exact ⟨rfl, Or.inl rfl⟩
  · exact Step3.refl _

theorem step3_cacheRemove (st : St) (n : Name) : Step3 st (st.cacheRemove n) := by
  unfold St.cacheRemove
  split
  · exact Step3.refl _
  · exact ⟨rfl, Or.inl rfl⟩

theorem step3_cacheDone (st : St) (n : Name) : Step3 st (st.cacheDone n) := by
  unfold St.cacheDone
  split
  · exact Step3.refl _
  · split
    · exact Step3.refl _
    · exact ⟨rfl, Or.inl rfl⟩

theorem step3_recEntry (fx : Fixes) (env : Env) (lk : List Partial) (s : St × List CEntry) (f : CEntry) :
    Step3 s.1 (recEntry fx env lk s f).1.1 := by
  unfold recEntry
  split
  · exact Step3.refl _
  · split
    · exact step3_cacheRemove _ _
    · split
      · exact step3_cacheDone _ _
      · exact Step3.refl _
      · split
        · exact Step3.refl _
        · split
          · split <;> exact Step3.refl _
          · exact Step3.refl _

theorem step3_recPolled (fx : Fixes) (env : Env) (lk : List Partial) (st : St) (x : CEntry × Verdict) :
    Step3 st (recPolled fx env lk st x).1 := by
  unfold recPolled
  split
  · exact Step3.refl _
  · split
    · exact Step3.refl _
    · split <;> exact Step3.refl _
    · unfold recConfirm; split
      · exact step3_finish _ _ _ _ _
      · exact step3_finish fx env { st with logged := _ } _ _
    · unfold recConfirm; split
      · exact step3_finish _ _ _ _ _
      · exact step3_finish fx env { st with logged := _ } _ _
    · exact Step3.refl _
    · exact Step3.refl _

theorem step3_valPolled (fx : Fixes) (env : Env) (s : St × List PFile) (x : PFile × Verdict) :
    Step3 s.1 (valPolled fx env s x).1.1 := by
  unfold valPolled
  split
  · split
    · exact Step3.refl _
    · split
      · exact step3_finish _ _ _ _ _
      · exact Step3.refl _
  · exact step3_finish _ _ _ _ _
  · exact step3_finish _ _ _ _ _
  · exact step3_finish _ _ _ _ _
  · exact Step3.refl _
  · exact Step3.refl _

theorem synced_persist (st : St) (h : Synced st) :
    st.persist.dirty = false ∧ st.persist.disk = st.persist.cache := by
  unfold St.persist
  split
  · exact ⟨rfl, rfl⟩
  · rename_i hd
    have : st.dirty = false := by simpa using hd
    exact ⟨this, h this⟩

/-- after every processed poll batch of the validator loop the persisted cache is the cache. -/
theorem validateStep_persisted (fx : Fixes) (env : Env) (s : St × List PFile) (ready : List PFile)
    (h : Synced s.1) :
    (validateStep fx env s ready).1.1.dirty = false ∧
    (validateStep fx env s ready).1.1.disk = (validateStep fx env s ready).1.1.cache := by
  unfold validateStep
  dsimp only
  apply synced_persist
  exact runLoop_inv (valPolled fx env) (fun t => Synced t.1) _
    (fun t y _ ht => synced_of_step3 (step3_valPolled fx env t y) ht) _ h

/-- after every processed poll batch of recover() the persisted cache is the cache. -/
theorem recBatch_persisted (fx : Fixes) (env : Env) (lk : List Partial) (st : St) (b : List CEntry)
    (h : Synced st) (herr : (recBatch fx env lk st b).2.2 = false) :
    (recBatch fx env lk st b).1.dirty = false ∧
    (recBatch fx env lk st b).1.disk = (recBatch fx env lk st b).1.cache := by
  unfold recBatch at herr ⊢
  dsimp only at herr ⊢
  split
  · rename_i hc; simp [hc] at herr
  · apply synced_persist
    exact runLoop_inv (recPolled fx env lk) (fun t => Synced t) _
      (fun t y _ ht => synced_of_step3 (step3_recPolled fx env lk t y) ht) _ h




theorem step3_trans {a b c : St} (h1 : Step3 a b) (h2 : Step3 b c) : Step3 a c := by
  refine ⟨h2.1.trans h1.1, ?_⟩
  rcases h2.2 with h | ⟨h3, h4⟩
  · exact Or.inl h
  · rcases h1.2 with h | ⟨h5, h6⟩
    · exact Or.inl (by rw [h4]; exact h)
    · exact Or.inr ⟨h3.trans h5, h4.trans h6⟩

theorem step3_scanClean (fx : Fixes) (env : Env) (s : St × List Wrapped) (e : CEntry) :
    Step3 s.1 (scanClean fx env s e).1.1 := by
  unfold scanClean
  split
  · exact Step3.refl _
  · split
    · split
      · exact Step3.refl _
      · exact step3_trans (b := { s.1 with store := sremove s.1.store e.name })
          ⟨rfl, Or.inr ⟨rfl, rfl⟩⟩ (step3_cacheRemove _ _)
    · exact Step3.refl _

theorem step3_scanUpdate (fx : Fixes) (s : St) (w : Wrapped) : Step3 s (scanUpdate fx s w).1 := by
  unfold scanUpdate
  dsimp only
  split
  · exact step3_cacheRemove _ _
  · split
    · exact ⟨rfl, Or.inl rfl⟩
    · split
      · exact ⟨rfl, Or.inl rfl⟩
      · exact Step3.refl _

/-- after every scan the persisted cache is the cache. -/
theorem scan_persisted (fx : Fixes) (env : Env) (st : St) (h : Synced st) :
    (scan fx env st).st.dirty = false ∧ (scan fx env st).st.disk = (scan fx env st).st.cache := by
  unfold scan
  dsimp only
  apply synced_persist
  apply runLoop_inv (scanUpdate fx) (fun t => Synced t) _
    (fun t w _ ht => synced_of_step3 (step3_scanUpdate fx t w) ht)
  exact runLoop_inv (scanClean fx env) (fun t => Synced t.1) _
    (fun t e _ ht => synced_of_step3 (step3_scanClean fx env t e) ht) _ h

theorem recBatches_synced (fx : Fixes) (env : Env) (lk : List Partial) :
    ∀ (bs : List (List CEntry)) (st : St), Synced st → Synced (recBatches fx env lk st bs).1 := by
  intro bs
  induction bs with
  | nil => intro st h; exact h
  | cons b rest ih =>
    intro st h
    have hb : Synced (recBatch fx env lk st b).1 := by
      unfold recBatch
      dsimp only
      split
      · intro hd; exact h hd
      · have hl := runLoop_inv (recPolled fx env lk) (fun t => Synced t)
          (takeAnswers (fun p : CEntry => p.name) st.answers b).1
          (fun t y _ ht => synced_of_step3 (step3_recPolled fx env lk t y) ht)
          { st with answers := (takeAnswers (fun p : CEntry => p.name) st.answers b).2, pollErrs := 0 } h
        have := synced_persist _ hl
        intro _; exact this.2
    unfold recBatches
    dsimp only
    split
    · exact hb
    · exact ih _ hb

theorem recover_synced (fx : Fixes) (env : Env) (st : St) (h : Synced st) : Synced (recover fx env st).st := by
  unfold recover
  dsimp only
  apply recBatches_synced
  exact runLoop_inv (recEntry fx env _) (fun t => Synced t.1) _
    (fun t f _ ht => synced_of_step3 (step3_recEntry fx env _ t f) ht) _ h

theorem validateRun_synced (fx : Fixes) (env : Env) (fuel : Nat) :
    ∀ (s : St × List PFile), Synced s.1 → Synced (validateRun fx env fuel s).1.1 := by
  induction fuel with
  | zero => intro s h; exact h
  | succ k ih =>
    intro s h
    unfold validateRun
    split
    · exact h
    · dsimp only
      apply ih
      have := validateStep_persisted fx env s (s.2.take env.pollMax) h
      intro _; exact this.2

/-- the retry worker never persists; whatever it changes in the cache it marks dirty. -/
theorem retryRun_synced (fx : Fixes) (st : St) (fs : List RFile) (fl : List (Name × Fault)) (h : Synced st) :
    Synced (retryRun fx st fs fl).1 := by
  unfold retryRun
  simp only
  apply runLoop_inv (retryOne fx) (fun t => Synced t.1) fs _ (st, fl) h
  intro t f _ ht
  rcases retryOne_cases fx t f with ⟨h', _⟩ | ⟨c, hc, _, _, h'⟩ | ⟨c, _, _, _, h'⟩ | ⟨c, hh, hc, _, _, h'⟩
  · rw [h']; exact ht
  · rw [h']
    simp only
    unfold St.cacheDone
    split
    · exact ht
    · split
      · exact ht
      · intro hd; simp at hd
  · rw [h']; exact ht
  · rw [h', (retryRequeue_eq fx t.1 f c hh hc).1]
    intro hd; simp at hd

/-- along every run the persisted cache is the in-memory cache whenever nothing is pending. -/
theorem synced_reach (fx : Fixes) (env : Env) (st0 : St) (h0 : Synced st0) :
    ∀ st, Reach fx env st0 st → Synced st := by
  intro st hr
  induction hr with
  | init => exact h0
  | @next st op _ ih =>
    cases op with
    | recover => exact recover_synced fx env st ih
    | scan => have := scan_persisted fx env st ih; intro _; exact this.2
    | validate fs fuel => exact validateRun_synced fx env fuel (st, fs) ih
    | restart k => intro _; rfl
    | world => exact ih
    | retry fs fl => exact retryRun_synced fx st fs fl ih

/-- a crash right after a scan or after a processed poll batch loses nothing the step decided:
    the restarted process loads exactly the cache the step left. -/
theorem restart_after_persist (st : St) (hs : st.disk = st.cache) :
    (restart 0 st).cache = st.cache := by
  unfold restart shiftC
  simp only [hs]
  have : ∀ (c : Cache), c.map (fun e => { e with time := e.time - 0 }) = c := by
    intro c
    induction c with
    | nil => rfl
    | cons x xs ih => simp
  exact this _




/-- the entry survives with its version; a done mark is never taken away. -/
def Kept (e : CEntry) (c' : Cache) : Prop := ∃ e' ∈ c', SameVer e e' ∧ (e.done = true → e'.done = true)

theorem kept_cmark (e : CEntry) (c : Cache) (n : Name) (h : Kept e c) : Kept e (cmark c n) := by
  obtain ⟨e', he', hsv, hd⟩ := h
  refine ⟨if e'.name = n then { e' with done := true } else e', ?_, ?_, ?_⟩
  · unfold cmark; exact List.mem_map.mpr ⟨e', he', rfl⟩
  · split <;> exact hsv
  · intro h; split
    · rfl
    · exact hd h

theorem kept_cremove (e : CEntry) (c : Cache) (n : Name) (hne : e.name ≠ n) (h : Kept e c) :
    Kept e (cremove c n) := by
  obtain ⟨e', he', hsv, hd⟩ := h
  refine ⟨e', ?_, hsv, hd⟩
  unfold cremove
  exact List.mem_filter.mpr ⟨he', by simpa [← hsv.1] using hne⟩

theorem finish_kept (fx : Fixes) (env : Env) (st : St) (n : Name) (v : Verdict) (e : CEntry)
    (h : Kept e st.cache) : Kept e (finish fx env st n v).1.cache := by
  unfold finish
  split
  · unfold doneAndDelete
    split
    · exact h
    · split
      · exact h
      · split
        · split <;> exact kept_cmark _ _ _ h
        · exact kept_cmark _ _ _ h
  · exact h

theorem recPolled_kept (fx : Fixes) (env : Env) (lk : List Partial) (st : St) (x : CEntry × Verdict) (e : CEntry)
    (h : Kept e st.cache) : Kept e (recPolled fx env lk st x).1.cache := by
  unfold recPolled
  split
  · exact h
  · split
    · exact h
    · split <;> exact h
    · unfold recConfirm; split
      · exact finish_kept _ _ _ _ _ _ h
      · exact finish_kept fx env { st with logged := _ } _ _ _ h
    · unfold recConfirm; split
      · exact finish_kept _ _ _ _ _ _ h
      · exact finish_kept fx env { st with logged := _ } _ _ _ h
    · exact h
    · exact h

theorem recEntry_kept (fx : Fixes) (env : Env) (lk : List Partial) (s : St × List CEntry) (g : CEntry) (e : CEntry)
    (hi : env.ign e.name = false) (h : Kept e s.1.cache) : Kept e (recEntry fx env lk s g).1.1.cache := by
  unfold recEntry
  split
  · exact h
  · split
    · rename_i hg
      unfold St.cacheRemove
      split
      · exact h
      · apply kept_cremove _ _ _ _ h
        intro hne; rw [hne] at hi; rw [hi] at hg; cases hg
    · split
      · unfold St.cacheDone
        split
        · exact h
        · split
          · exact h
          · exact kept_cmark _ _ _ h
      · exact h
      · split
        · exact h
        · split
          · split <;> exact h
          · exact h

theorem valPolled_kept (fx : Fixes) (env : Env) (s : St × List PFile) (x : PFile × Verdict) (e : CEntry)
    (h : Kept e s.1.cache) : Kept e (valPolled fx env s x).1.1.cache := by
  unfold valPolled
  split
  · split
    · exact h
    · split
      · exact finish_kept _ _ _ _ _ _ h
      · exact h
  · exact finish_kept _ _ _ _ _ _ h
  · exact finish_kept _ _ _ _ _ _ h
  · exact finish_kept _ _ _ _ _ _ h
  · exact h
  · exact h

/-- C07 `cache_never_forgets`, recover(): every cache entry whose name the store does not
    ignore now is still in the cache afterwards, with the same version; a done mark is never
    removed. (New done marks are justified by `recover_cacheDone`.) -/
theorem cache_never_forgets_recover (fx : Fixes) (env : Env) (st : St) (e : CEntry) (he : e ∈ st.cache)
    (hi : env.ign e.name = false) : Kept e (recover fx env st).st.cache := by
  have h0 : Kept e st.cache := ⟨e, he, ⟨rfl, rfl, rfl, rfl⟩, id⟩
  unfold recover
  dsimp only
  have hp2 := runLoop_inv (recEntry fx env (runLoop (recPartial st.cache) [] st.partials).1)
    (fun t => Kept e t.1.cache) st.cache
    (fun t g _ ht => recEntry_kept fx env _ t g e hi ht) ({ st with recErrs := 0 }, []) h0
  have hb : ∀ (t : St) (b : List CEntry), Kept e t.cache →
      Kept e (recBatch fx env (runLoop (recPartial st.cache) [] st.partials).1 t b).1.cache := by
    intro t b ht
    unfold recBatch
    dsimp only
    split
    · exact ht
    · rw [persist_cache]
      exact runLoop_inv (recPolled fx env _) (fun u => Kept e u.cache) _
        (fun u y _ hu => recPolled_kept fx env _ u y e hu) _ ht
  have : ∀ (bs : List (List CEntry)) (t : St), Kept e t.cache →
      Kept e (recBatches fx env (runLoop (recPartial st.cache) [] st.partials).1 t bs).1.cache := by
    intro bs
    induction bs with
    | nil => intro t ht; exact ht
    | cons b rest ih =>
      intro t ht
      unfold recBatches
      dsimp only
      split
      · exact hb t b ht
      · exact ih _ (hb t b ht)
  exact this _ _ hp2

/-- C07 `cache_never_forgets`, validator loop: no entry ever leaves the cache. -/
theorem cache_never_forgets_validate (fx : Fixes) (env : Env) (fuel : Nat) :
    ∀ (s : St × List PFile) (e : CEntry), Kept e s.1.cache → Kept e (validateRun fx env fuel s).1.1.cache := by
  induction fuel with
  | zero => intro s e h; exact h
  | succ k ih =>
    intro s e h
    unfold validateRun
    split
    · exact h
    · dsimp only
      apply ih
      unfold validateStep
      dsimp only
      rw [persist_cache]
      exact runLoop_inv (valPolled fx env) (fun t => Kept e t.1.cache) _
        (fun t y _ ht => valPolled_kept fx env t y e ht) _ h




theorem runLoop_keeps {σ α : Type} (body : σ → α → σ × List Eff) (P : σ → Prop) (R : σ → α → Prop)
    (h : ∀ t x, P t → P (body t x).1 ∨ R t x) :
    ∀ (xs : List α) (s : σ), P s → P (runLoop body s xs).1 ∨ ∃ x ∈ xs, ∃ t, R t x := by
  intro xs
  induction xs with
  | nil => intro s hs; exact Or.inl hs
  | cons x xs ih =>
    intro s hs
    rw [runLoop_cons]
    rcases h s x hs with h1 | h1
    · rcases ih _ h1 with h2 | ⟨y, hy, t, ht⟩
      · exact Or.inl h2
      · exact Or.inr ⟨y, by simp [hy], t, ht⟩
    · exact Or.inr ⟨x, by simp, s, h1⟩

theorem has_cinsert (e : CEntry) (c : Cache) (n : Name) (h : Has c n) : Has (cinsert e c) n := by
  unfold Has cget at h ⊢
  induction c with
  | nil => simp at h
  | cons x xs ih =>
    unfold cinsert
    split
    · simp only [List.find?_cons]
      split
      · rfl
      · exact h
    · simp only [List.find?_cons] at h ⊢
      split
      · rfl
      · rename_i hx
        simp only [hx] at h
        exact ih h

theorem isSome_find_map_name (g : CEntry → CEntry) (hg : ∀ e, (g e).name = e.name) (c : Cache) (n : Name) :
    (List.find? (fun e => decide (e.name = n)) (c.map g)).isSome =
    (List.find? (fun e => decide (e.name = n)) c).isSome := by
  rw [List.find?_map]
  have : ((fun e : CEntry => decide (e.name = n)) ∘ g) = fun e => decide (e.name = n) := by
    funext e
    simp only [Function.comp, hg]
  rw [this]
  simp

theorem has_cadd (fx : Fixes) (c : Cache) (k n : Name) (size time : Int) (hash : String) (h : Has c n) :
    Has (cadd fx c k size time hash) n := by
  unfold cadd
  split
  · unfold Has cget at h ⊢
    rw [isSome_find_map_name]
    · exact h
    · intro e; split <;> rfl
  · exact has_cinsert _ _ _ h

theorem scanClean_keeps (fx : Fixes) (env : Env) (s : St × List Wrapped) (x : CEntry) (n : Name)
    (S : Option SFile) (h : Has s.1.cache n ∧ sfind s.1.store n = S) :
    (Has (scanClean fx env s x).1.1.cache n ∧ sfind (scanClean fx env s x).1.1.store n = S) ∨
    (x.name = n ∧ x.done = true ∧ x.hash ≠ "" ∧ canDelete env x = true) := by
  unfold scanClean
  split
  · exact Or.inl h
  · rename_i hh
    split
    · rename_i hc
      split
      · exact Or.inl h
      · by_cases hn : x.name = n
        · exact Or.inr ⟨hn, hc.1, hh, hc.2⟩
        · refine Or.inl ⟨?_, ?_⟩
          · unfold St.cacheRemove
            split
            · exact h.1
            · exact has_cremove_ne _ _ _ (fun h' => hn h'.symm) h.1
          · rw [cacheRemove_store]
            exact (sfind_sremove_ne _ _ _ (fun h' => hn h'.symm)).trans h.2
    · exact Or.inl h

theorem scanUpdate_keeps (fx : Fixes) (s : St) (w : Wrapped) (n : Name) (h : Has s.cache n)
    (hH : ∀ f ∈ s.store, f.hash ≠ "") :
    (Has (scanUpdate fx s w).1.cache n ∧ (scanUpdate fx s w).1.store = s.store) ∨
    sfind s.store n = none := by
  unfold scanUpdate
  dsimp only
  split
  · rename_i hh
    by_cases hn : w.name = n
    · refine Or.inr ?_
      unfold hashNow at hh
      rw [hn] at hh
      split at hh
      · rename_i f hf; exact absurd hh (hH f (sfind_some hf).1)
      · rename_i hnone; exact hnone
    · refine Or.inl ⟨?_, cacheRemove_store _ _⟩
      unfold St.cacheRemove
      split
      · exact h
      · exact has_cremove_ne _ _ _ (fun h' => hn h'.symm) h
  · split
    · exact Or.inl ⟨has_cadd _ _ _ _ _ _ _ h, rfl⟩
    · split
      · exact Or.inl ⟨has_cadd _ _ _ _ _ _ _ h, rfl⟩
      · exact Or.inl ⟨h, rfl⟩



/-- C07 `cache_never_forgets`, scan(): a cached name leaves the cache during a scan only if
    its entry was done, hashed and deletable now (the clean-up removed file and entry), or if
    no file of that name exists (vanished: nothing to send). A name whose file exists and
    whose entry is not done is never forgotten. (`hH`: the MD5 of a file is never the empty
    string.) -/
theorem cache_never_forgets_scan (fx : Fixes) (env : Env) (st : St) (n : Name) (h : Has st.cache n)
    (hH : ∀ f ∈ st.store, f.hash ≠ "") :
    Has (scan fx env st).st.cache n ∨
    (∃ x ∈ st.cache, x.name = n ∧ x.done = true ∧ x.hash ≠ "" ∧ canDelete env x = true) ∨
    sfind st.store n = none := by
  unfold scan
  dsimp only
  rw [persist_cache]
  generalize hfound : (st.store.filter (includeFile env st.cache)).map Wrapped.found = found
  -- clean-up: the store shrinks only by whole names
  have hsub := runLoop_inv (scanClean fx env) (fun t => ∀ f ∈ t.1.store, f ∈ st.store) st.cache
    (fun t x _ ht => by
      unfold scanClean
      split
      · exact ht
      · split
        · split
          · exact ht
          · intro f hf
            rw [cacheRemove_store] at hf
            exact ht f (List.mem_filter.mp hf).1
        · exact ht) (st, found) (fun f hf => hf)
  rcases runLoop_keeps (scanClean fx env)
    (fun t => Has t.1.cache n ∧ sfind t.1.store n = sfind st.store n)
    (fun _ x => x.name = n ∧ x.done = true ∧ x.hash ≠ "" ∧ canDelete env x = true)
    (fun t x ht => scanClean_keeps fx env t x n _ ht) st.cache (st, found) ⟨h, rfl⟩ with h1 | ⟨x, hx, _, hr⟩
  · generalize hs1 : (runLoop (scanClean fx env) (st, found) st.cache).1 = s1 at h1 hsub
    rcases runLoop_keeps (scanUpdate fx)
      (fun t => Has t.cache n ∧ t.store = s1.1.store) (fun _ _ => sfind s1.1.store n = none)
      (fun t w ht => by
        rcases scanUpdate_keeps fx t w n ht.1 (by rw [ht.2]; exact fun f hf => hH f (hsub f hf)) with h2 | h2
        · exact Or.inl ⟨h2.1, h2.2.trans ht.2⟩
        · exact Or.inr (by rw [← ht.2]; exact h2)) s1.2 s1.1 ⟨h1.1, rfl⟩ with h3 | ⟨_, _, _, h3⟩
    · exact Or.inl h3.1
    · exact Or.inr (Or.inr (by rw [← h1.2]; exact h3))
  · exact Or.inr (Or.inl ⟨x, hx, hr⟩)




/-! ## crash-closed statements and witnesses -/

/-- C07 `no_unconfirmed_delete_across_crash`: C02's guarantee holds along every run that
    contains restarts at arbitrary step boundaries (a crash inside a step leaves the cache
    file of the last Persist — `restart` loads exactly that). -/
theorem no_unconfirmed_delete_across_crash (env : Env) (st0 : St) (Conf : CEntry → Prop)
    (hc : ConfSound env st0 Conf) (h0 : DoneOK Conf st0.cache) (h0d : DoneOK Conf st0.disk)
    (ops : List Op) :
    ∀ st, Reach Fixes.repaired env st0 st →
      let final := ops.foldl (fun s op => (step Fixes.repaired env s op).1) st
      Reach Fixes.repaired env st0 final ∧
      ∀ op m e f, Eff.storeRemove m e f ∈ (step Fixes.repaired env final op).2 → Conf e ∧ OnDiskIs e f := by
  induction ops with
  | nil =>
    intro st hr
    exact ⟨hr, fun op m e f h => never_delete_unconfirmed_sender env st0 Conf hc h0 h0d st hr op m e f h⟩
  | cons o rest ih =>
    intro st hr
    exact ih _ (Reach.next o hr)

/-- C07 "loses nothing", repaired code: after recover() every cached file that is not done,
    not ignored, unchanged on disk and hashed is accounted for — resumed with exactly the
    missing ranges, or polled; and a polled file whose answer arrives is sent again (`none`,
    `failed`), or confirmed and chained (`waiting`, `passed`). Only an answer with an unknown
    code leaves it for the next restart. -/
theorem recover_loses_nothing (env : Env) (st : St) (hk : 0 < env.pollMax) (hno : NoOmit st.answers)
    (f : CEntry) (hf : f ∈ st.cache)
    (hd : f.done = false) (hi : env.ign f.name = false) (hs : sync st.store f = .same) (hh : f.hash ≠ "") :
    (recover Fixes.repaired env st).err = false ∧
    ((∃ p : Partial, Eff.push (.resume f.name p.prev (missingFixed p.parts f.size)) ∈ (recover Fixes.repaired env st).effs ∧
        missingFixed p.parts f.size ≠ []) ∨
     (∃ v, Eff.answer f.name v ∈ (recover Fixes.repaired env st).effs ∧
        (v = .other ∨
         (∃ q, Eff.push q ∈ (recover Fixes.repaired env st).effs ∧
           (q = .plain f.name ∨ q = .allocated f.name ∨ ∃ prev left, q = .resume f.name prev left))))) := by
  have herr : (recover Fixes.repaired env st).err = false := by
    have : ∀ (lk : List Partial) (bs : List (List CEntry)) (t : St),
        (recBatches Fixes.repaired env lk t bs).2.2 = false := by
      intro lk bs
      induction bs with
      | nil => intro t; rfl
      | cons a rest ih =>
        intro t
        unfold recBatches
        dsimp only
        simp only [recBatch_no_err Fixes.repaired rfl env lk t a]
        exact ih _
    unfold recover
    dsimp only
    exact this _ _ _
  refine ⟨herr, ?_⟩
  rcases recover_covers Fixes.repaired env st f hf hd hi hs hh with ⟨p, _, hg, hpush⟩ | hpoll
  · exact Or.inl ⟨p, hpush, hg⟩
  · obtain ⟨_, v, sz, hvo, _, hans, h1, h2, h3⟩ := recover_polled_outcome env st hk hno f hpoll
    refine Or.inr ⟨v, hans, ?_⟩
    cases hv : v with
    | none => exact Or.inr ⟨_, h1 hv, Or.inl rfl⟩
    | failed =>
      cases hl : lkget (recover Fixes.repaired env st).lookup f.name with
      | none => exact Or.inr ⟨_, (h2 hv).2 hl, Or.inl rfl⟩
      | some p => exact Or.inr ⟨_, (h2 hv).1 p hl, Or.inr (Or.inr ⟨_, _, rfl⟩)⟩
    | passed => exact Or.inr ⟨_, (h3 (by rw [hv]; rfl)).2.1, Or.inr (Or.inl rfl)⟩
    | waiting => exact Or.inr ⟨_, (h3 (by rw [hv]; rfl)).2.1, Or.inr (Or.inl rfl)⟩
    | other => exact Or.inl rfl
    | «omit» =>
      exact absurd hv hvo




/-- no tags: nothing is ever deleted. -/
def envPlain : Env := ⟨[], fun _ => "a", fun _ => false, 1, 2, 2⟩

/-- S19 (code as found): one failed poll request during recovery makes recover() return an
    error; Start() then drops the whole list (the resume of `a.f1`, too), and no later scan
    queues the files again — their cache entries are unchanged and not done. Repaired: the
    request is repeated and both files are queued. -/
theorem S19_failed_recovery_poll_strands_files :
    let st : St := {
      cache := [⟨"a.f1", 10, -2, "h1", false⟩, ⟨"a.f2", 10, -2, "h2", false⟩],
      disk := [⟨"a.f1", 10, -2, "h1", false⟩, ⟨"a.f2", 10, -2, "h2", false⟩],
      store := [⟨"a.f1", 10, -2, "h1"⟩, ⟨"a.f2", 10, -2, "h2"⟩],
      partials := [⟨"a.f1", 10, "h1", "a.f0", [⟨0, 4⟩]⟩], pollErrs := 1 }
    (recover Fixes.original envPlain st).err = true ∧
    (recover Fixes.original envPlain st).queued = [] ∧
    (scan Fixes.original envPlain (recover Fixes.original envPlain st).st).ready = [] ∧
    (recover Fixes.original envPlain st).st.cache = st.cache ∧
    (recover Fixes.repaired envPlain st).err = false ∧
    (recover Fixes.repaired envPlain st).queued =
      [.resume "a.f1" "a.f0" [⟨4, 10⟩], .plain "a.f2"] := by decide

/-- non-vacuity of `recover_covers` / `recover_polled_outcome` / `chain_continues`: the
    documented recovery in one run. -/
example :
    let st : St := {
      cache := [⟨"f1", 10, -2, "h1", false⟩, ⟨"f2", 8, -2, "h2", false⟩, ⟨"f3", 4, -2, "h3", true⟩,
                ⟨"f4", 6, -2, "h4", false⟩],
      store := [⟨"f1", 10, -2, "h1"⟩, ⟨"f2", 8, -2, "h2"⟩, ⟨"f3", 4, -2, "h3"⟩, ⟨"f4", 6, -2, "h4"⟩],
      partials := [⟨"f1", 10, "h1", "f0", [⟨6, 8⟩, ⟨0, 3⟩]⟩, ⟨"f2", 8, "h2", "f1", [⟨0, 8⟩]⟩,
                   ⟨"f3", 4, "h3", "f2", [⟨0, 1⟩]⟩, ⟨"f9", 3, "hz", "f8", [⟨0, 1⟩]⟩],
      answers := [("f2", [.waiting]), ("f4", [.none])] }
    (recover Fixes.repaired envDel st).queued =
      [.allocated "f3", .placeholder "f9" 3 "hz", .resume "f1" "f0" [⟨3, 6⟩, ⟨8, 10⟩],
       .allocated "f2", .plain "f4"] ∧
    (recover Fixes.repaired envDel st).polled.map (·.name) = ["f2", "f4"] ∧
    (recover Fixes.repaired envDel st).st.store.map (·.name) = ["f1", "f3", "f4"] := by decide



/-! ## bridge to the L0 theorems about the gap loop as found (Props/C07Missing) -/


theorem sortStable_of_sorted (ps : List Rng) (h : ps.Pairwise (fun p q => p.beg < q.beg)) :
    sortStable ps = ps := by
  unfold sortStable
  have : ∀ (l acc : List Rng), (acc ++ l).Pairwise (fun p q => p.beg < q.beg) →
      l.foldl (fun acc r => insertByBeg r acc) acc = acc ++ l := by
    intro l
    induction l with
    | nil => intro acc _; simp
    | cons r rs ih =>
      intro acc hp
      simp only [List.foldl_cons]
      have hins : insertByBeg r acc = acc ++ [r] := by
        have hacc : ∀ a ∈ acc, a.beg < r.beg := by
          intro a ha
          exact (List.pairwise_append.mp hp).2.2 a ha r (by simp)
        clear hp ih
        induction acc with
        | nil => rfl
        | cons a as iha =>
          have : ¬ r.beg < a.beg := by have := hacc a (by simp); omega
          simp only [insertByBeg, this, if_false, List.cons_append]
          rw [iha (fun b hb => hacc b (by simp [hb]))]
      rw [hins, ih (acc ++ [r]) (by simpa using hp)]
      simp
  simpa using this ps [] (by simpa using h)

/-- bridge to `Sts.missing_is_complement` (Props/C07Missing, the gap loop as found, for
    records without overlap): on such a record the repaired loop computes the very same
    ranges as recover() did before the repair — `missing` of Model/Ranges. -/
theorem missingFixed_eq_missing_of_recordOK (ps : List Rng) (size : Int) (h : RecordOK 0 ps size) :
    missingFixed ps size = missing ps size := by
  have hstrict := h.strict
  have hsort := sortStable_of_sorted ps hstrict.1
  have hwf : WellFormed ps ∧ ps.Pairwise (fun a b => a.fin ≤ b.beg) := by
    have : ∀ (lo : Int) (l : List Rng), RecordOK lo l size →
        WellFormed l ∧ l.Pairwise (fun a b => a.fin ≤ b.beg) := by
      intro lo l
      induction l generalizing lo with
      | nil => intro _; exact ⟨fun p hp => by simp at hp, List.Pairwise.nil⟩
      | cons p ps ih =>
        intro hr
        obtain ⟨h1, h2, h3⟩ := hr
        obtain ⟨i1, i2⟩ := ih p.fin h3
        refine ⟨?_, List.Pairwise.cons (fun q hq => (h3.strict.2 q hq)) i2⟩
        intro q hq
        rcases List.mem_cons.mp hq with rfl | hq
        · omega
        · exact i1 q hq
    exact this 0 ps h
  rw [← missingOrig_eq_fixed ps size hwf.1 (by rw [hsort]; exact hwf.2) hstrict.2]
  unfold missingOrig
  rw [hsort, missing_is_complement' ps size h]


end Sts.Release
