/-
  C20 — staging clean-up removes only what is already delivered (receiver part:
  stage/local.go cleanStrays, after `fix:` the companion is read through its own path, after
  `fix: cleanStrays removed the companion of a newer version in progress` and after `fix: the
  stray cleaner removed the partial of a retransmission of a file that failed validation`).
-/
import StsModel.Lemmas.StageLoggedHash
import StsModel.Lemmas.StageDurable
import StsModel.Props.C01

namespace Sts.Stage

/-! ## what the cleaner can touch -/

/-- `clean_touches_only_part_cmp`: every primitive of cleanStrays is the removal of the
    `.part` or of the `.cmp` of one of the walked names — never `.full`, `.wait`, a final
    file, the log, or memory. -/
theorem clean_touches_only_part_cmp (s : State) (now : Int) (names : List Name) :
    ∀ p ∈ cleanStraysEffects s now names, ∃ n ∈ names, p = Prim.rmPart n ∨ p = Prim.rmCmp n := by
  intro p hp
  simp only [cleanStraysEffects, List.mem_flatMap] at hp
  obtain ⟨n, hn, hp⟩ := hp
  refine ⟨n, hn, ?_⟩
  simp only [cleanStrayOne, List.mem_append] at hp
  rcases hp with hp | hp
  · split at hp <;> simp at hp
    exact Or.inl hp
  · split at hp <;> simp at hp
    exact Or.inr hp

/-- the hash the cache holds for a name ("" when unknown) — getFileHash -/
def cachedHash (s : State) (n : Name) : String :=
  match s.mem.cache n with | some e => e.hash | none => ""

/-- the hash given to WasReceived: the companion's, "" when there is none -/
def cmpHashOr (s : State) (n : Name) : String :=
  match s.disk.cmp n with | some c => c.hash | none => ""

/-- `strays_decision` (partial file): the exact condition under which cleanStrays removes
    `<n>.part` (after `fix:` "the stray cleaner removed the partial of a retransmission of a
    file that failed validation": state failed = 2 is on the log side). -/
theorem strays_decision_part (s : State) (now : Int) (n : Name) :
    (cleanDecision s now n).1 = true ↔
      ∃ i, s.disk.part n = some i ∧ now - s.disk.mtime i ≥ 86400 ∧
        (((stateNum s.mem n > 0 ∧ stateNum s.mem n ≠ 2) ∧
            (s.disk.cmp n = none ∨ ∃ c, s.disk.cmp n = some c ∧ c.hash = cachedHash s n)) ∨
         (¬ (stateNum s.mem n > 0 ∧ stateNum s.mem n ≠ 2) ∧
            wasReceived s.disk.log n (cmpHashOr s n)
              (s.disk.mtime i - ((now - s.disk.mtime i) / 60) * 3600) now = true)) := by
  simp only [cleanDecision, cachedHash, cmpHashOr]
  cases hp : s.disk.part n with
  | none => simp
  | some i =>
    simp only [Option.some.injEq, exists_eq_left']
    by_cases hage : now - s.disk.mtime i < 86400
    · simp only [hage, if_true]
      constructor
      · intro h; simp at h
      · intro h; omega
    · simp only [hage, if_false]
      have hage' : now - s.disk.mtime i ≥ 86400 := by omega
      by_cases hst : stateNum s.mem n > 0 ∧ stateNum s.mem n ≠ 2
      · rw [if_pos hst]
        cases hc : s.disk.cmp n with
        | none => simp [hage', hst]
        | some c =>
          simp only [decide_eq_true_eq, Option.some.injEq, exists_eq_left', reduceCtorEq, false_or]
          constructor
          · intro h; exact ⟨hage', Or.inl ⟨hst, h⟩⟩
          · intro h
            rcases h.2 with h' | h'
            · exact h'.2
            · exact absurd hst h'.1
      · rw [if_neg hst]
        generalize wasReceived _ _ _ _ _ = w
        cases w
        · constructor
          · intro h; simp at h
          · rintro ⟨_, ⟨h1, _⟩ | ⟨_, h2⟩⟩
            · exact absurd h1 hst
            · cases h2
        · simp [hage', hst]

/-- `strays_decision` (companion), after `fix: cleanStrays removed the companion of a newer
    version in progress`: the exact condition under which cleanStrays removes `<n>.cmp`: a
    companion exists beside an old partial and either the cache state is `logged` WITH THE
    COMPANION'S HASH, or the state is unknown / received / failed and the log has a record of
    the name with the companion's hash. -/
theorem strays_decision_cmp (s : State) (now : Int) (n : Name) :
    (cleanDecision s now n).2 = true ↔
      ∃ i, s.disk.part n = some i ∧ now - s.disk.mtime i ≥ 86400 ∧
        ((stateNum s.mem n = 4 ∧ ∃ c, s.disk.cmp n = some c ∧ c.hash = cachedHash s n) ∨
         (¬ (stateNum s.mem n > 0 ∧ stateNum s.mem n ≠ 2) ∧ s.disk.cmp n ≠ none ∧
            wasReceived s.disk.log n (cmpHashOr s n)
              (s.disk.mtime i - ((now - s.disk.mtime i) / 60) * 3600) now = true)) := by
  simp only [cleanDecision, cmpHashOr, cachedHash]
  cases hp : s.disk.part n with
  | none => simp
  | some i =>
    simp only [Option.some.injEq, exists_eq_left']
    by_cases hage : now - s.disk.mtime i < 86400
    · simp only [hage, if_true]
      constructor
      · intro h; simp at h
      · intro h; omega
    · simp only [hage, if_false]
      have hage' : now - s.disk.mtime i ≥ 86400 := by omega
      by_cases hst : stateNum s.mem n > 0 ∧ stateNum s.mem n ≠ 2
      · rw [if_pos hst]
        cases hc : s.disk.cmp n with
        | none => simp [hst]
        | some c =>
          simp only [Option.isSome_some, Bool.and_true, Bool.and_eq_true, decide_eq_true_eq,
            Option.some.injEq, exists_eq_left', ne_eq, reduceCtorEq, not_false_eq_true, true_and]
          constructor
          · intro h; exact ⟨hage', Or.inl ⟨h.2, h.1⟩⟩
          · intro h
            rcases h.2 with h' | h'
            · exact ⟨h'.2, h'.1⟩
            · exact absurd hst h'.1
      · rw [if_neg hst]
        have h4 : stateNum s.mem n ≠ 4 := by intro h; apply hst; omega
        generalize wasReceived _ _ _ _ _ = w
        cases w
        · simp [h4]
        · simp [Option.isSome_iff_ne_none, hage', hst, h4]

/-- `strays_decision`: both halves of the decision -/
theorem strays_decision (s : State) (now : Int) (n : Name) :
    ((cleanDecision s now n).1 = true ↔
      ∃ i, s.disk.part n = some i ∧ now - s.disk.mtime i ≥ 86400 ∧
        (((stateNum s.mem n > 0 ∧ stateNum s.mem n ≠ 2) ∧
            (s.disk.cmp n = none ∨ ∃ c, s.disk.cmp n = some c ∧ c.hash = cachedHash s n)) ∨
         (¬ (stateNum s.mem n > 0 ∧ stateNum s.mem n ≠ 2) ∧
            wasReceived s.disk.log n (cmpHashOr s n)
              (s.disk.mtime i - ((now - s.disk.mtime i) / 60) * 3600) now = true))) ∧
    ((cleanDecision s now n).2 = true ↔
      ∃ i, s.disk.part n = some i ∧ now - s.disk.mtime i ≥ 86400 ∧
        ((stateNum s.mem n = 4 ∧ ∃ c, s.disk.cmp n = some c ∧ c.hash = cachedHash s n) ∨
         (¬ (stateNum s.mem n > 0 ∧ stateNum s.mem n ≠ 2) ∧ s.disk.cmp n ≠ none ∧
            wasReceived s.disk.log n (cmpHashOr s n)
              (s.disk.mtime i - ((now - s.disk.mtime i) / 60) * 3600) now = true))) :=
  ⟨strays_decision_part s now n, strays_decision_cmp s now n⟩

/-- `companion_only_with_partial`: the companion is never removed without its partial being
    removed in the same pass. -/
theorem companion_only_with_partial (s : State) (now : Int) (n : Name)
    (h : (cleanDecision s now n).2 = true) : (cleanDecision s now n).1 = true := by
  obtain ⟨i, hp, hage, hst⟩ := (strays_decision_cmp s now n).mp h
  rcases hst with ⟨hst, c, hc, hh⟩ | ⟨hst, _, hw⟩
  · exact (strays_decision_part s now n).mpr
      ⟨i, hp, hage, Or.inl ⟨⟨by omega, by omega⟩, Or.inr ⟨c, hc, hh⟩⟩⟩
  · exact (strays_decision_part s now n).mpr ⟨i, hp, hage, Or.inr ⟨hst, hw⟩⟩

/-! ## what a removal implies about delivery -/

theorem wasReceived_record (log : List LogRec) (name hash : String) (start stop : Int)
    (h : wasReceived log name hash start stop = true) :
    ∃ r ∈ log, r.name = name ∧ (hash = "" ∨ r.hash = hash) := by
  simp only [wasReceived, List.any_eq_true, Bool.and_eq_true, beq_iff_eq, Bool.or_eq_true] at h
  obtain ⟨r, hr, ⟨hn, hh⟩, _⟩ := h
  exact ⟨r, hr, hn, hh⟩

/-- the states of the cleaner's cache branch: a validated copy exists -/
theorem stateNum_held (m : Mem) (n : Name) (h : stateNum m n > 0 ∧ stateNum m n ≠ 2) :
    ∃ e, m.cache n = some e ∧
      (e.state = .validated ∨ e.state = .finalized ∨ e.state = .logged) := by
  unfold stateNum at h
  split at h
  · rename_i e he
    refine ⟨e, he, ?_⟩
    cases hs : e.state <;> simp [hs, FState.num] at h ⊢
  · omega

/-- the other side: unknown, received or failed -/
theorem stateNum_not_held (m : Mem) (n : Name) (h : ¬ (stateNum m n > 0 ∧ stateNum m n ≠ 2)) :
    m.cache n = none ∨ ∃ e, m.cache n = some e ∧ (e.state = .received ∨ e.state = .failed) := by
  unfold stateNum at h
  split at h
  · rename_i e he
    refine Or.inr ⟨e, he, ?_⟩
    cases hs : e.state <;> simp [hs, FState.num] at h ⊢
  · rename_i he; exact Or.inl he

/-- `C20_only_delivered` at decision level (any state, reachable or not): the partial of `n`
    (companion `c`) is removed only if the cache knows `n` with the companion's hash in a state
    in which a validated copy exists (validated, finalized, logged), or the cache state is
    unknown / received / failed and the receive log has a record of `n` with the companion's
    hash (any record of `n` when that hash is empty). -/
theorem C20_only_delivered_decision (s : State) (now : Int) (n : Name) (c : Cmp)
    (hc : s.disk.cmp n = some c) (h : (cleanDecision s now n).1 = true) :
    (∃ e, s.mem.cache n = some e ∧ e.hash = c.hash ∧
        (e.state = .validated ∨ e.state = .finalized ∨ e.state = .logged)) ∨
    (¬ (stateNum s.mem n > 0 ∧ stateNum s.mem n ≠ 2) ∧
      ∃ r ∈ s.disk.log, r.name = n ∧ (c.hash = "" ∨ r.hash = c.hash)) := by
  obtain ⟨i, _, _, h⟩ := (strays_decision_part s now n).mp h
  rcases h with ⟨hst, hcmp⟩ | ⟨hst, hw⟩
  · left
    obtain ⟨e, he, hstate⟩ := stateNum_held s.mem n hst
    refine ⟨e, he, ?_, hstate⟩
    rcases hcmp with hcmp | ⟨c', hc', hh⟩
    · rw [hc] at hcmp; cases hcmp
    · rw [hc] at hc'; cases hc'
      simp only [cachedHash, he] at hh
      exact hh.symm
  · right
    refine ⟨hst, ?_⟩
    have := wasReceived_record _ _ _ _ _ hw
    simpa [cmpHashOr, hc] using this

/-- the same for the companion: it is removed only in cache state `logged` with the
    companion's hash, or on a log record of the name with its hash. -/
theorem C20_companion_removed_decision (s : State) (now : Int) (n : Name) (c : Cmp)
    (hc : s.disk.cmp n = some c) (h : (cleanDecision s now n).2 = true) :
    (∃ e, s.mem.cache n = some e ∧ e.state = .logged ∧ e.hash = c.hash) ∨
    (¬ (stateNum s.mem n > 0 ∧ stateNum s.mem n ≠ 2) ∧
      ∃ r ∈ s.disk.log, r.name = n ∧ (c.hash = "" ∨ r.hash = c.hash)) := by
  obtain ⟨i, _, _, h⟩ := (strays_decision_cmp s now n).mp h
  rcases h with ⟨hst, c', hc', hh⟩ | ⟨hst, _, hw⟩
  · left
    rw [hc] at hc'; cases hc'
    unfold stateNum at hst
    split at hst
    · rename_i e he
      refine ⟨e, he, ?_, ?_⟩
      · cases hs : e.state <;> simp [hs, FState.num] at hst ⊢
      · simp only [cachedHash, he] at hh; exact hh.symm
    · omega
  · right
    refine ⟨hst, ?_⟩
    have := wasReceived_record _ _ _ _ _ hw
    simpa [cmpHashOr, hc] using this

/-- a complete copy of version (`n`, `h`) passed validation and is held in the staging area:
    the cache entry of `n` is `validated` with hash `h` and `<n>.wait` exists -/
def ValidatedHeld (s : State) (n : Name) (h : String) : Prop :=
  ∃ e i, s.mem.cache n = some e ∧ e.state = .validated ∧ e.hash = h ∧ s.disk.wait n = some i

/-- **`C20_only_delivered`** (every reachable state: any interleaving, crash point, restart;
    after the repair, no residue in the cache states): when cleanStrays removes the partial of
    `n` whose companion is `c`, then
    (a) the receive log has a record of `n` with hash `c.hash` (cache state finalized / logged
        with that hash — `finalized_implies_logged_hash` — or the log branch), or
    (b) the companion's hash is empty and the log has a record of the name, or
    (c) a complete copy of that very version passed validation and is held as `<n>.wait`
        (cache state `validated` with the companion's hash; `validated_has_wait`).
    The state `failed` is gone from the statement (it was the residue
    `clean_removes_retransmission`, now about `cleanDecisionOrig`). -/
theorem C20_only_delivered {H : Body → String} {s : State} (hr : Reachable H s)
    (now : Int) (n : Name) (c : Cmp)
    (hc : s.disk.cmp n = some c) (h : (cleanDecision s now n).1 = true) :
    LoggedV s.disk n c.hash ∨
    (c.hash = "" ∧ ∃ r ∈ s.disk.log, r.name = n) ∨
    ValidatedHeld s n c.hash := by
  rcases C20_only_delivered_decision s now n c hc h with ⟨e, he, hh, hst⟩ | ⟨_, r, hr', hn, hh⟩
  · rcases hst with hst | hst | hst
    · obtain ⟨i, hi⟩ := validated_has_wait hr n e he hst
      exact Or.inr (Or.inr ⟨e, i, he, hst, hh, hi⟩)
    · left; rw [← hh]; exact finalized_implies_logged_hash hr n e he (Or.inl hst)
    · left; rw [← hh]; exact finalized_implies_logged_hash hr n e he (Or.inr hst)
  · rcases hh with hh | hh
    · exact Or.inr (Or.inl ⟨hh, r, hr', hn⟩)
    · exact Or.inl ⟨r, hr', hn, hh⟩

/-- … and in runs without stale writers and without corruption of validated data
    (`ReachableOk` of Props/C01) the held copy of clause (c) has the bytes of that version:
    `H` of the body of `<n>.wait` is the companion's hash. -/
theorem C20_only_delivered_ok {H : Body → String} {s : State} (hr : ReachableOk H s)
    (now : Int) (n : Name) (c : Cmp)
    (hc : s.disk.cmp n = some c) (h : (cleanDecision s now n).1 = true) :
    LoggedV s.disk n c.hash ∨
    (c.hash = "" ∧ ∃ r ∈ s.disk.log, r.name = n) ∨
    (∃ e i, s.mem.cache n = some e ∧ e.state = .validated ∧ e.hash = c.hash ∧
      s.disk.wait n = some i ∧ H (s.disk.body i) = c.hash) := by
  rcases C20_only_delivered hr.reachable now n c hc h with h1 | h2 | ⟨e, i, he, hst, hh, hi⟩
  · exact Or.inl h1
  · exact Or.inr (Or.inl h2)
  · exact Or.inr (Or.inr ⟨e, i, he, hst, hh, hi, hh ▸ wait_inv hr n i e hi he hst⟩)

/-- name level, with or without companion (a partial WITHOUT companion has nothing on record:
    no hash, no acknowledged range — this is all that can be said about it): a partial is
    removed only if the receive log has a record of its name, or a validated copy of the name
    is held as `<n>.wait`. -/
theorem C20_partial_name_delivered {H : Body → String} {s : State} (hr : Reachable H s)
    (now : Int) (n : Name) (h : (cleanDecision s now n).1 = true) :
    (∃ r ∈ s.disk.log, r.name = n) ∨
    (∃ e i, s.mem.cache n = some e ∧ e.state = .validated ∧ s.disk.wait n = some i) := by
  obtain ⟨i, _, _, h⟩ := (strays_decision_part s now n).mp h
  rcases h with ⟨hst, _⟩ | ⟨_, hw⟩
  · obtain ⟨e, he, hstate⟩ := stateNum_held s.mem n hst
    rcases hstate with hst | hst | hst
    · obtain ⟨j, hj⟩ := validated_has_wait hr n e he hst
      exact Or.inr ⟨e, j, he, hst, hj⟩
    · obtain ⟨r, hr', hn, _⟩ := finalized_implies_logged_hash hr n e he (Or.inl hst)
      exact Or.inl ⟨r, hr', hn⟩
    · obtain ⟨r, hr', hn, _⟩ := finalized_implies_logged_hash hr n e he (Or.inr hst)
      exact Or.inl ⟨r, hr', hn⟩
  · obtain ⟨r, hr', hn, _⟩ := wasReceived_record _ _ _ _ _ hw
    exact Or.inl ⟨r, hr', hn⟩

/-- `C20_failed_needs_log`: in cache state `failed` nothing is removed unless the
    receive log has a record of the name with the companion's hash (the repaired corner). -/
theorem C20_failed_needs_log (s : State) (now : Int) (n : Name) (c : Cmp)
    (hst : stateOf s.mem n = some .failed)
    (hc : s.disk.cmp n = some c) (h : (cleanDecision s now n).1 = true) :
    ∃ r ∈ s.disk.log, r.name = n ∧ (c.hash = "" ∨ r.hash = c.hash) := by
  rcases C20_only_delivered_decision s now n c hc h with ⟨e, he, _, hs⟩ | ⟨_, h⟩
  · simp only [stateOf, he, Option.map_some, Option.some.injEq] at hst
    rw [hst] at hs
    simp at hs
  · exact h

/-- `C20_companion_only_delivered` (reachable states, after the repair): a companion is
    removed only if the receive log has a record of its version (name, hash) — or its hash is
    empty and the log has a record of the name. No residue in the cache states. -/
theorem C20_companion_only_delivered {H : Body → String} {s : State} (hr : Reachable H s)
    (now : Int) (n : Name) (c : Cmp)
    (hc : s.disk.cmp n = some c) (h : (cleanDecision s now n).2 = true) :
    LoggedV s.disk n c.hash ∨ (c.hash = "" ∧ ∃ r ∈ s.disk.log, r.name = n) := by
  rcases C20_companion_removed_decision s now n c hc h with ⟨e, he, hst, hh⟩ | ⟨_, r, hr', hn, hh⟩
  · left; rw [← hh]; exact finalized_implies_logged_hash hr n e he (Or.inr hst)
  · rcases hh with hh | hh
    · exact Or.inr ⟨hh, r, hr', hn⟩
    · exact Or.inl ⟨r, hr', hn, hh⟩

/-! ## the cleaner never touches complete, validated or delivered data -/

theorem run_rm_only (ps : List Prim)
    (h : ∀ p ∈ ps, ∃ n, p = Prim.rmPart n ∨ p = Prim.rmCmp n) (s : State) :
    (run s ps).disk.full = s.disk.full ∧ (run s ps).disk.wait = s.disk.wait ∧
    (run s ps).disk.final = s.disk.final ∧ (run s ps).disk.log = s.disk.log ∧
    (run s ps).disk.body = s.disk.body ∧ (run s ps).disk.written = s.disk.written ∧
    (run s ps).mem = s.mem := by
  induction ps generalizing s with
  | nil => simp
  | cons p ps ih =>
    have ih' := ih (fun q hq => h q (by simp [hq])) (applyPrim s p)
    obtain ⟨n, hp | hp⟩ := h p (by simp) <;> subst hp <;>
      simpa [applyPrim, applyDisk, applyMem] using ih'

/-- `clean_never_hurts_validated`: cleanStrays leaves every `.full`, `.wait`, delivered file,
    the log, all file bodies and the whole memory (cache, queues, parked files) unchanged. -/
theorem clean_never_hurts_validated (s : State) (now : Int) (names : List Name) :
    (run s (cleanStraysEffects s now names)).disk.full = s.disk.full ∧
    (run s (cleanStraysEffects s now names)).disk.wait = s.disk.wait ∧
    (run s (cleanStraysEffects s now names)).disk.final = s.disk.final ∧
    (run s (cleanStraysEffects s now names)).disk.log = s.disk.log ∧
    (run s (cleanStraysEffects s now names)).disk.body = s.disk.body ∧
    (run s (cleanStraysEffects s now names)).disk.written = s.disk.written ∧
    (run s (cleanStraysEffects s now names)).mem = s.mem := by
  apply run_rm_only
  intro p hp
  obtain ⟨n, _, h⟩ := clean_touches_only_part_cmp s now names p hp
  exact ⟨n, h⟩

/-- … and the same at every crash point inside the cleaning (memory aside, which a crash
    empties). -/
theorem clean_cut_never_hurts_validated (s : State) (now : Int) (names : List Name) (k : Nat) :
    (run s (cut k (cleanStraysEffects s now names))).disk.full = s.disk.full ∧
    (run s (cut k (cleanStraysEffects s now names))).disk.wait = s.disk.wait ∧
    (run s (cut k (cleanStraysEffects s now names))).disk.final = s.disk.final ∧
    (run s (cut k (cleanStraysEffects s now names))).disk.log = s.disk.log := by
  obtain ⟨qs, hq⟩ := cut_prefix k (cleanStraysEffects s now names)
  have := run_rm_only (cut k (cleanStraysEffects s now names)) (by
    intro p hp
    have : p ∈ cleanStraysEffects s now names := by rw [hq]; simp [hp]
    obtain ⟨n, _, h⟩ := clean_touches_only_part_cmp s now names p this
    exact ⟨n, h⟩) s
  exact ⟨this.1, this.2.1, this.2.2.1, this.2.2.2.1⟩

/-! ## witnesses: the defects the repairs remove were real -/

/-- hash function of the witnesses: every body hashes to "h" -/
def witH : Body → String := fun _ => "h"

/-- A file announced with hash "X" is received completely, fails validation (state
    `failed`), and its retransmission is in progress: `[0,2)` of 4 bytes written and
    acknowledged. -/
def witFailedEvs : List Ev :=
  [.op (.prepare "f" 4 0), .op (.recvOpen 1 "f"), .op (.recvWrite 1 0 [1, 2, 3, 4] 0),
   .op (.record "f" ⟨"", "", 4, "X"⟩ 0 4 0), .op (.process "f" 1),
   .op (.prepare "f" 4 10), .op (.recvOpen 2 "f"), .op (.recvWrite 2 0 [1, 2] 10),
   .op (.record "f" ⟨"", "", 4, "X"⟩ 0 2 10)]

/-- cleanStrays' decision BEFORE `fix: the stray cleaner removed the partial of a
    retransmission of a file that failed validation` (the code as found: `if fileState >
    stateReceived {`, an ordinal test that is also true for `stateFailed` = 2); kept to state
    the defect the commit repairs. -/
def cleanDecisionOrig (s : State) (now : Int) (n : Name) : Bool × Bool :=
  match s.disk.part n with
  | none => (false, false)
  | some i =>
    let age := now - s.disk.mtime i
    if age < 86400 then (false, false)
    else
      let comp := s.disk.cmp n
      let st := stateNum s.mem n
      let fileHash := match s.mem.cache n with | some e => e.hash | none => ""
      if st > 0 then
        let del := (match comp with | none => true | some c => decide (c.hash = fileHash))
        (del, del && comp.isSome && decide (st = 4))
      else
        let beg := s.disk.mtime i - (age / 60) * 3600
        let hash := match comp with | some c => c.hash | none => ""
        if wasReceived s.disk.log n hash beg now then (true, comp.isSome) else (false, false)

def cleanStrayOneOrig (s : State) (now : Int) (n : Name) : List Prim :=
  (if (cleanDecisionOrig s now n).1 then [Prim.rmPart n] else []) ++
  (if (cleanDecisionOrig s now n).2 then [Prim.rmCmp n] else [])

/-- cleanStrays as found (one pass over the walked names) -/
def cleanStraysEffectsOrig (s : State) (now : Int) (names : List Name) : List Prim :=
  names.flatMap (cleanStrayOneOrig s now)

/-- the repair changes the decision in cache state `failed` only -/
theorem cleanDecision_vs_orig (s : State) (now : Int) (n : Name)
    (h : stateOf s.mem n ≠ some .failed) : cleanDecision s now n = cleanDecisionOrig s now n := by
  have h2 : stateNum s.mem n ≠ 2 := by
    intro h2
    apply h
    unfold stateNum at h2
    unfold stateOf
    split at h2
    · rename_i e he
      rw [he]
      cases hs : e.state <;> simp [hs, FState.num] at h2 ⊢
    · omega
  simp only [cleanDecision, cleanDecisionOrig]
  cases s.disk.part n with
  | none => rfl
  | some i =>
    simp only
    split
    · rfl
    · by_cases hst : stateNum s.mem n > 0
      · rw [if_pos hst, if_pos ⟨hst, h2⟩]; rfl
      · rw [if_neg hst, if_neg (fun h => hst h.1)]; rfl

/-- … where the decision as found ignored the receive log and compared with the hash of the
    FAILED copy -/
theorem cleanDecisionOrig_failed (s : State) (now : Int) (n : Name) (i : Nat) (e : Entry)
    (hp : s.disk.part n = some i) (hage : now - s.disk.mtime i ≥ 86400)
    (he : s.mem.cache n = some e) (hst : e.state = .failed) :
    (cleanDecisionOrig s now n).1 =
      (match s.disk.cmp n with | none => true | some c => decide (c.hash = e.hash)) := by
  have h2 : stateNum s.mem n > 0 := by simp [stateNum, he, hst, FState.num]
  have hage' : ¬ now - s.disk.mtime i < 86400 := by omega
  simp only [cleanDecisionOrig, hp, hage', if_false, h2, if_true, he]

/-- `clean_removes_retransmission` (the defect, violates C20 "never deletes data of a file that
    is still being received"; F6 aftermath for C09): in a reachable state the cleaner AS FOUND
    removed the `.part` of a retransmission in progress — the version was never validated,
    delivered nor logged — and kept the companion, which went on claiming `[0,2)` although no
    staged partial held it. Confirmed on the real code by the differential harness (oracle
    `clean-removed-undelivered`); repaired in /repo. -/
theorem clean_removes_retransmission :
    let s := runEvs witH init witFailedEvs
    let s' := run s (cleanStraysEffectsOrig s 86410 ["f"])
    Reachable witH s ∧
    stateOf s.mem "f" = some .failed ∧ s.disk.log = [] ∧ s.disk.wait "f" = none ∧
    (s.disk.cmp "f").map (fun c => (c.hash, c.parts)) = some ("X", [⟨0, 2⟩]) ∧
    s.disk.part "f" ≠ none ∧
    cleanDecisionOrig s 86410 "f" = (true, false) ∧
    s'.disk.part "f" = none ∧ (s'.disk.cmp "f").map (·.parts) = some [⟨0, 2⟩] := by
  refine ⟨⟨witFailedEvs, rfl⟩, ?_⟩
  decide

/-- … and the repaired cleaner leaves the partial (and its companion) alone: the log has no
    record of version "X" -/
theorem clean_keeps_retransmission :
    let s := runEvs witH init witFailedEvs
    let s' := step witH s (.op (.cleanStrays 86410 ["f"]))
    cleanDecision s 86410 "f" = (false, false) ∧
    s'.disk.part "f" = s.disk.part "f" ∧ s.disk.part "f" ≠ none ∧
    (s'.disk.cmp "f").map (·.parts) = some [⟨0, 2⟩] := by
  decide

/-- version "h" of `g` is delivered; after a restart the cache learns it from the log
    (state `logged`); a NEW version "Y" is being received: `[0,2)` of 4 bytes acknowledged. -/
def witLoggedEvs : List Ev :=
  [.op (.prepare "g" 2 0), .op (.recvOpen 1 "g"), .op (.recvWrite 1 0 [7, 8] 0),
   .op (.record "g" ⟨"", "", 2, "h"⟩ 0 2 0), .op (.process "g" 1), .op (.finh "g" 5),
   .crash, .op (.buildCache 0 100),
   .op (.prepare "g" 4 200), .op (.recvOpen 2 "g"), .op (.recvWrite 2 0 [1, 2] 200),
   .op (.record "g" ⟨"", "", 4, "Y"⟩ 0 2 200)]

/-- cleanStrays' decision BEFORE `fix: cleanStrays removed the companion of a newer version
    in progress` as well (`deleteCmp = compExists && fileState == stateLogged`, no hash
    comparison); kept to state the defect that commit repaired. -/
def cleanDecisionOrigCmp (s : State) (now : Int) (n : Name) : Bool × Bool :=
  match s.disk.part n with
  | none => (false, false)
  | some i =>
    let age := now - s.disk.mtime i
    if age < 86400 then (false, false)
    else
      let comp := s.disk.cmp n
      let st := stateNum s.mem n
      let fileHash := match s.mem.cache n with | some e => e.hash | none => ""
      if st > 0 then
        ((match comp with | none => true | some c => decide (c.hash = fileHash)),
         comp.isSome && decide (st = 4))
      else
        let beg := s.disk.mtime i - (age / 60) * 3600
        let hash := match comp with | some c => c.hash | none => ""
        if wasReceived s.disk.log n hash beg now then (true, comp.isSome) else (false, false)

/-- that repair changed nothing but the companion flag in cache states beyond `received` -/
theorem cleanDecisionOrig_vs_origCmp (s : State) (now : Int) (n : Name) :
    (cleanDecisionOrig s now n).1 = (cleanDecisionOrigCmp s now n).1 ∧
    ((cleanDecisionOrig s now n).2 = true → (cleanDecisionOrigCmp s now n).2 = true) := by
  simp only [cleanDecisionOrig, cleanDecisionOrigCmp]
  cases s.disk.part n with
  | none => simp
  | some i =>
    simp only
    split
    · simp
    · split
      · simp only [Bool.and_eq_true, decide_eq_true_eq, true_and]
        exact fun h => ⟨h.1.2, h.2⟩
      · exact ⟨rfl, fun h => h⟩

/-- `clean_removes_live_companion_orig` (the defect, violates C20 "same name and hash"): in
    cache state `logged` the ORIGINAL decision removed the companion without comparing
    hashes, so the record of the parts of a NEW version in progress was deleted while its
    partial stayed: the acknowledged range `[0,2)` was forgotten and had to be sent again
    (loss of progress, no corruption). Confirmed on the real code by the differential
    harness; repaired in /repo. -/
theorem clean_removes_live_companion_orig :
    let s := runEvs witH init witLoggedEvs
    (s.mem.cache "g").map (fun e => (e.state, e.hash)) = some (.logged, "h") ∧
    (s.disk.cmp "g").map (fun c => (c.hash, c.parts)) = some ("Y", [⟨0, 2⟩]) ∧
    s.disk.part "g" ≠ none ∧
    cleanDecisionOrigCmp s 86600 "g" = (false, true) := by
  decide

/-- … and the repaired decision leaves both the partial and its companion alone -/
theorem clean_keeps_live_companion :
    let s := runEvs witH init witLoggedEvs
    let s' := step witH s (.op (.cleanStrays 86600 ["g"]))
    cleanDecision s 86600 "g" = (false, false) ∧
    s'.disk.part "g" ≠ none ∧
    (s'.disk.cmp "g").map (fun c => (c.hash, c.parts)) = some ("Y", [⟨0, 2⟩]) := by
  decide

/-! ## non-vacuity -/

/-- the log branch: a late duplicate of a delivered version is removed with its companion -/
example :
    let s := runEvs witH init
      [.op (.prepare "g" 2 0), .op (.recvOpen 1 "g"), .op (.recvWrite 1 0 [7, 8] 0),
       .op (.record "g" ⟨"", "", 2, "h"⟩ 0 2 0), .op (.process "g" 1), .op (.finh "g" 5), .crash,
       .op (.prepare "g" 2 200), .op (.recvOpen 2 "g"), .op (.recvWrite 2 0 [7] 200),
       .op (.record "g" ⟨"", "", 2, "h"⟩ 0 1 200)]
    cleanDecision s 86600 "g" = (true, true) ∧ LoggedV s.disk "g" "h" := by
  refine ⟨by decide, ⟨⟨"g", "", "h", 2, 5, ""⟩, by decide, rfl, rfl⟩⟩

/-- the failed-state look-up can succeed: version "h" of `g` was delivered in an earlier run
    (log record, cache empty after the restart); it is sent again, the staged bytes are
    corrupted so that validation fails (state `failed`, hash "h"), and a further
    retransmission stalls: its stale partial and companion are removed because version "h"
    IS in the receive log (clause (a) of `C20_only_delivered` through the log branch). -/
example :
    let s := runEvs (fun b => if b = [7, 8] then "h" else "bad") init
      [.op (.prepare "g" 2 0), .op (.recvOpen 1 "g"), .op (.recvWrite 1 0 [7, 8] 0),
       .op (.record "g" ⟨"", "", 2, "h"⟩ 0 2 0), .op (.process "g" 1), .op (.finh "g" 5), .crash,
       .op (.prepare "g" 2 200), .op (.recvOpen 2 "g"), .op (.recvWrite 2 0 [7, 9] 200),
       .op (.record "g" ⟨"", "", 2, "h"⟩ 0 2 200), .op (.process "g" 201),
       .op (.prepare "g" 2 300), .op (.recvOpen 3 "g"), .op (.recvWrite 3 0 [7] 300),
       .op (.record "g" ⟨"", "", 2, "h"⟩ 0 1 300)]
    stateOf s.mem "g" = some .failed ∧ cleanDecision s 86800 "g" = (true, true) ∧
    LoggedV s.disk "g" "h" := by
  refine ⟨by decide, by decide, ⟨⟨"g", "", "h", 2, 5, ""⟩, by decide, rfl, rfl⟩⟩

/-- clause (c): version "h" of `a` is validated and held (its predecessor "p" has not
    arrived); the file is announced again and nothing more arrives: the day-old partial is
    removed, the complete validated copy stays as `a.wait` -/
example :
    let s := runEvs witH init
      [.op (.prepare "a" 2 0), .op (.recvOpen 1 "a"), .op (.recvWrite 1 0 [7, 8] 0),
       .op (.record "a" ⟨"", "p", 2, "h"⟩ 0 2 0), .op (.process "a" 1), .op (.finh "a" 2),
       .op (.prepare "a" 2 10)]
    cleanDecision s 86500 "a" = (true, false) ∧ ValidatedHeld s "a" "h" ∧
    (s.disk.cmp "a").map (·.hash) = some "h" ∧ s.disk.log = [] := by
  refine ⟨by decide, ⟨_, 0, rfl, by decide, by decide, by decide⟩, by decide, by decide⟩

example : (cleanStraysEffectsOrig (runEvs witH init witFailedEvs) 86410 ["f"]) = [Prim.rmPart "f"] := by
  simp only [cleanStraysEffectsOrig, cleanStrayOneOrig, List.flatMap_cons, List.flatMap_nil]
  have : cleanDecisionOrig (runEvs witH init witFailedEvs) 86410 "f" = (true, false) := by decide
  simp [this]

example : (cleanStraysEffects (runEvs witH init witFailedEvs) 86410 ["f"]) = [] := by
  simp only [cleanStraysEffects, cleanStrayOne, List.flatMap_cons, List.flatMap_nil]
  have : cleanDecision (runEvs witH init witFailedEvs) 86410 "f" = (false, false) := by decide
  simp [this]

end Sts.Stage
