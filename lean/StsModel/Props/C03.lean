/-
  C03 — every eligible file is eventually delivered; nothing gets stuck.
  Theorems about the abstract protocol model `StsModel/Model/Protocol.lean`.
-/
import StsModel.Model.Protocol

namespace Sts.Protocol

/-! ## Invariant of reachable states -/

/-- What every file of a reachable state satisfies (`A` = PollAttempts, `i` = its index). -/
structure FInv (A i : Nat) (f : FileSt) : Prop where
  npos : 1 ≤ f.nparts
  predLt : ∀ j, f.pred = some j → j < i
  partLt : ∀ r, f.rp = .part r → r < f.nparts
  pollLt : ∀ p, f.sp = .polling p → p < A
  doneOk : f.sp = .done → f.rp = .held ∨ f.rp = .delivered
  notOrphan : f.sp ≠ .orphan

def Inv (s : State) : Prop :=
  1 ≤ s.attempts ∧ ∀ i f, s.files[i]? = some f → FInv s.attempts i f

theorem mkRecorded_cases (n r : Nat) :
    (n ≤ r ∧ mkRecorded n r = .complete) ∨ (r < n ∧ mkRecorded n r = .part r) := by
  unfold mkRecorded
  by_cases h : n ≤ r
  · left; simp [h]
  · right; simp [h]; omega

theorem fileStep_nparts {A pd f fa f'} (h : fileStep A pd f fa = some f') :
    f'.nparts = f.nparts ∧ f'.pred = f.pred := by
  cases fa <;> simp only [fileStep] at h <;> (repeat' split at h) <;>
    simp_all <;> (subst h; simp)

theorem fileStep_inv {A i pd f fa f'} (hA : 1 ≤ A) (hi : FInv A i f)
    (h : fileStep A pd f fa = some f') : FInv A i f' := by
  obtain ⟨hn, hp, hr, hq, hd, ho⟩ := hi
  obtain ⟨n, pred, sp, rp, c⟩ := f
  simp only at hn hp hr hq hd ho
  cases fa <;> simp only [fileStep] at h
  case sendPart =>
    cases sp <;> simp at h
    rename_i a
    obtain ⟨ha, rfl⟩ := h
    refine ⟨hn, hp, ?_, by simp, by simp, by simp⟩
    intro r
    cases rp <;> simp [recvPart]
    · rcases mkRecorded_cases n 1 with ⟨_, e⟩ | ⟨h1, e⟩ <;> rw [e] <;> simp <;> omega
    · rename_i r0
      have := hr r0 rfl
      by_cases hlt : a < r0 <;> simp [hlt]
      · omega
      · rcases mkRecorded_cases n (r0 + 1) with ⟨_, e⟩ | ⟨h1, e⟩ <;> rw [e] <;> simp <;> omega
    · rcases mkRecorded_cases n 1 with ⟨_, e⟩ | ⟨h1, e⟩ <;> rw [e] <;> simp <;> omega
  case allAcked =>
    cases sp <;> simp at h
    obtain ⟨_, rfl⟩ := h
    exact ⟨hn, hp, hr, by simp; omega, by simp, by simp⟩
  case validate =>
    cases rp <;> simp at h
    by_cases hc : c = true <;> simp [hc] at h <;> subst h
    · refine ⟨hn, hp, by simp, hq, ?_, ho⟩
      intro hs; have := hd hs; simp at this
    · refine ⟨hn, hp, by simp, hq, by simp, ho⟩
  case release =>
    cases rp <;> simp at h
    obtain ⟨_, rfl⟩ := h
    exact ⟨hn, hp, by simp, hq, by simp, ho⟩
  case poll =>
    cases hv : pollVerdict A sp rp <;> simp [hv] at h
    subst h
    refine ⟨hn, hp, hr, ?_, ?_, ?_⟩
    · intro p hp'
      simp at hp'
      subst hp'
      cases sp <;> simp [pollVerdict] at hv
      · rename_i p0
        have := hq p0 rfl
        cases rp <;> simp at hv <;> (try (by_cases e : p0 + 1 = A <;> simp [e] at hv)) <;> omega
      · cases rp <;> simp at hv
    · intro hs
      simp at hs
      subst hs
      cases sp <;> simp [pollVerdict] at hv
      · rename_i p0
        cases rp <;> simp at hv ⊢ <;> (by_cases e : p0 + 1 = A <;> simp [e] at hv)
      · cases rp <;> simp at hv ⊢
    · intro hs
      simp at hs
      subst hs
      cases sp <;> simp [pollVerdict] at hv
      · rename_i p0
        cases rp <;> simp at hv <;> (by_cases e : p0 + 1 = A <;> simp [e] at hv)
      · cases rp <;> simp at hv
  case loseAck =>
    cases sp <;> simp at h
    rename_i a
    obtain ⟨ha, rfl⟩ := h
    refine ⟨hn, hp, ?_, by simp, by simp, by simp⟩
    intro r
    cases rp <;> simp [recvPart]
    · rcases mkRecorded_cases n 1 with ⟨_, e⟩ | ⟨h1, e⟩ <;> rw [e] <;> simp <;> omega
    · rename_i r0
      have := hr r0 rfl
      by_cases hlt : a < r0 <;> simp [hlt]
      · omega
      · rcases mkRecorded_cases n (r0 + 1) with ⟨_, e⟩ | ⟨h1, e⟩ <;> rw [e] <;> simp <;> omega
    · rcases mkRecorded_cases n 1 with ⟨_, e⟩ | ⟨h1, e⟩ <;> rw [e] <;> simp <;> omega
  case dropPart =>
    cases sp <;> simp at h
    obtain ⟨_, rfl⟩ := h
    exact ⟨hn, hp, hr, hq, hd, ho⟩
  case corrupt =>
    cases rp <;> simp at h <;> subst h <;> exact ⟨hn, hp, hr, hq, hd, ho⟩
  case pollError =>
    cases sp <;> simp at h <;> subst h <;> exact ⟨hn, hp, hr, hq, hd, ho⟩
  case earlyAcked =>
    cases sp <;> simp at h
    obtain ⟨_, rfl⟩ := h
    refine ⟨hn, hp, hr, ?_, by simp, by simp⟩
    intro p hp'
    simp at hp'
    omega

theorem crashSenderFile_inv {A i f} (hi : FInv A i f) : FInv A i (crashSenderFile f) := by
  obtain ⟨hn, hp, hr, hq, hd, ho⟩ := hi
  obtain ⟨n, pred, sp, rp, c⟩ := f
  simp only at hn hp hr hq hd ho
  cases sp <;> cases rp <;> simp [crashSenderFile] <;>
    first
      | exact ⟨hn, hp, hr, hq, hd, ho⟩
      | exact ⟨hn, hp, hr, by simp, by simp, by simp⟩
      | exact absurd rfl ho

/-! ## Ranking function -/

theorem sw_bound {A i f} (hi : FInv A i f) : sw A f < A + f.nparts + 3 := by
  obtain ⟨hn, hp, hr, hq, hd, ho⟩ := hi
  clear ho
  obtain ⟨n, pred, sp, rp, c⟩ := f
  simp only at hn hp hr hq hd
  cases sp <;> cases rp <;> simp [sw] <;> (try split) <;> (try split) <;>
    (try (have := hr _ rfl)) <;> omega

theorem lex_lt {r r' k s s' : Nat} (hr : r' < r) (hs : s' < k) : r' * k + s' < r * k + s := by
  have h1 : (r' + 1) * k ≤ r * k := Nat.mul_le_mul_right k hr
  rw [Nat.succ_mul] at h1
  omega

/-- A sender step on a file whose receiver phase is `complete` (validation pending). -/
def senderOnCompleteF (f : FileSt) (fa : FAct) : Bool := !fa.isReceiver && f.rp == .complete

/-- Per file: a protocol step either reduces the receiver's work, or leaves it and reduces
the sender's steps, unless it is a sender step taken while the validation is pending. -/
theorem fileStep_lex {A i pd f fa f'} (hi : FInv A i f)
    (h : fileStep A pd f fa = some f') (hp : fa.isProtocol = true)
    (hq : senderOnCompleteF f fa = false) :
    rw f' < rw f ∨ (rw f' = rw f ∧ sw A f' < sw A f) := by
  obtain ⟨hn, hpl, hr, hpoll, hd, ho⟩ := hi
  clear ho
  obtain ⟨n, pred, sp, rp, c⟩ := f
  simp only at hn hpl hr hpoll hd
  cases fa <;> simp [FAct.isProtocol] at hp <;> simp only [fileStep] at h
  case sendPart =>
    cases sp <;> simp at h
    rename_i a
    obtain ⟨ha, rfl⟩ := h
    cases rp <;> simp [recvPart, senderOnCompleteF, FAct.isReceiver] at hq ⊢
    · left
      rcases mkRecorded_cases n 1 with ⟨_, e⟩ | ⟨h1, e⟩ <;> simp [e, rw] <;> omega
    · rename_i r0
      have := hr r0 rfl
      by_cases hlt : a < r0 <;> simp [hlt]
      · right
        simp [rw, sw, hlt]
        (repeat' split) <;> omega
      · left
        rcases mkRecorded_cases n (r0 + 1) with ⟨_, e⟩ | ⟨h1, e⟩ <;> simp [e, rw] <;> omega
    · left
      rcases mkRecorded_cases n 1 with ⟨_, e⟩ | ⟨h1, e⟩ <;> simp [e, rw] <;> omega
    · right; simp [rw, sw]; omega
    · right; simp [rw, sw]; omega
  case allAcked =>
    cases sp <;> simp at h
    rename_i a
    obtain ⟨ha, rfl⟩ := h
    right
    cases rp <;> simp [senderOnCompleteF, FAct.isReceiver] at hq ⊢ <;> simp [rw, sw] <;>
      (try (have := hr _ rfl)) <;> (repeat' split) <;> omega
  case validate =>
    cases rp <;> simp at h
    left
    by_cases hc : c = true <;> simp [hc] at h <;> subst h <;> simp [rw, hc] <;> omega
  case release =>
    cases rp <;> simp at h
    obtain ⟨_, rfl⟩ := h
    left; simp [rw]
  case poll =>
    cases hv : pollVerdict A sp rp <;> simp [hv] at h
    subst h
    right
    cases sp <;> simp [pollVerdict] at hv
    · rename_i p0
      have := hpoll p0 rfl
      cases rp <;> simp [senderOnCompleteF, FAct.isReceiver] at hv hq ⊢ <;>
        (try (by_cases e : p0 + 1 = A <;> simp [e] at hv)) <;> subst hv <;> simp [rw, sw] <;>
        (try (have := hr _ rfl)) <;> (repeat' split) <;> omega
    · cases rp <;> simp [senderOnCompleteF, FAct.isReceiver] at hv hq ⊢ <;> subst hv <;>
        simp [rw, sw] <;> (try (have := hr _ rfl)) <;> (repeat' split) <;> omega

theorem fileStep_decreases {A i pd f fa f'} (hA : 1 ≤ A) (hi : FInv A i f)
    (h : fileStep A pd f fa = some f') (hp : fa.isProtocol = true)
    (hq : senderOnCompleteF f fa = false) : weight A f' < weight A f := by
  have hn := (fileStep_nparts h).1
  have hb := sw_bound (fileStep_inv hA hi h)
  unfold weight
  rw [hn] at hb ⊢
  rcases fileStep_lex hi h hp hq with h1 | ⟨h1, h2⟩
  · exact lex_lt h1 hb
  · rw [h1]; omega

/-! ## From files to states -/

theorem sumW_set {A : Nat} {l : List FileSt} {i : Nat} {f f' : FileSt} (h : l[i]? = some f) :
    sumW A (l.set i f') + weight A f = sumW A l + weight A f' := by
  induction l generalizing i with
  | nil => simp at h
  | cons x t ih =>
    cases i with
    | zero => simp at h; subst h; simp [sumW]; omega
    | succ k =>
      simp at h
      have := ih h
      simp [sumW]; omega

/-- A sender step on a file whose validation is pending at the receiver. The receiver runs
its validation as soon as the last part is recorded (`go s.processQueue`), so a scheduler that
lets the receiver finish its own steps first never takes such a step. -/
def senderOnComplete (s : State) (a : Action) : Bool :=
  match a.target with
  | some (i, fa) =>
    match s.files[i]? with
    | some f => senderOnCompleteF f fa
    | none => false
  | none => false

theorem step_protocol {s a s'} (h : step s a = some s') (hp : a.isProtocol = true) :
    ∃ i fa f f', a.target = some (i, fa) ∧ fa.isProtocol = true ∧ s.files[i]? = some f ∧
      fileStep s.attempts (predDelivered s.files f) f fa = some f' ∧
      s' = { s with files := s.files.set i f' } := by
  unfold step at h
  unfold Action.isProtocol at hp
  cases ht : a.target with
  | none => simp [ht] at hp
  | some t =>
    obtain ⟨i, fa⟩ := t
    simp [ht] at hp h
    cases hf : s.files[i]? with
    | none => simp [hf] at h
    | some f =>
      simp [hf, hp] at h
      cases hs : fileStep s.attempts (predDelivered s.files f) f fa with
      | none => simp [hs] at h
      | some f' =>
        simp [hs] at h
        exact ⟨i, fa, f, f', rfl, hp, hf, hs, h.symm⟩

theorem step_attempts {s a s'} (h : step s a = some s') : s'.attempts = s.attempts := by
  unfold step at h
  repeat' split at h
  all_goals (first | (injection h with h; subst h; rfl) | cases h)

theorem inv_step {s a s'} (hi : Inv s) (h : step s a = some s') : Inv s' := by
  obtain ⟨hA, hf⟩ := hi
  have hatt := step_attempts h
  refine ⟨by omega, ?_⟩
  rw [hatt]
  unfold step at h
  cases ht : a.target with
  | some t =>
    obtain ⟨i, fa⟩ := t
    simp only [ht] at h
    cases hfi : s.files[i]? with
    | none => simp [hfi] at h
    | some f =>
      simp only [hfi] at h
      cases hs : fileStep s.attempts (predDelivered s.files f) f fa with
      | none => simp [hs] at h
      | some f' =>
        have hfiles : s'.files = s.files.set i f' := by
          simp only [hs] at h
          repeat' split at h
          all_goals (first | (injection h with h; subst h; rfl) | cases h)
        intro j g hg
        rw [hfiles, List.getElem?_set] at hg
        by_cases hij : i = j
        · subst hij
          simp at hg
          obtain ⟨_, rfl⟩ := hg
          exact fileStep_inv hA (hf i f hfi) hs
        · simp [hij] at hg
          exact hf j g hg
  | none =>
    simp only [ht] at h
    split at h
    · cases a <;> simp [Action.target] at ht
      · simp at h
        subst h
        intro j g hg
        simp [List.getElem?_map] at hg
        obtain ⟨g0, hg0, rfl⟩ := hg
        exact crashSenderFile_inv (hf j g0 hg0)
      · simp at h
        subst h
        exact hf
    · cases h

/-- Initial states: every file found and queued, nothing at the receiver, each predecessor an
earlier file of the list, at least one part per file, PollAttempts at least 1. -/
def InitOK (s : State) : Prop :=
  1 ≤ s.attempts ∧ ∀ (i : Nat) (f : FileSt), s.files[i]? = some f →
    f.sp = .pending 0 ∧ f.rp = .absent ∧ 1 ≤ f.nparts ∧ ∀ j, f.pred = some j → j < i

inductive Reachable : State → Prop
  | init {s} : InitOK s → Reachable s
  | step {s a s'} : Reachable s → step s a = some s' → Reachable s'

theorem initOK_inv {s} (h : InitOK s) : Inv s := by
  refine ⟨h.1, ?_⟩
  intro i f hf
  obtain ⟨h1, h2, h3, h4⟩ := h.2 i f hf
  exact ⟨h3, h4, by simp [h2], by simp [h1], by simp [h1], by simp [h1]⟩

theorem reachable_inv {s} (h : Reachable s) : Inv s := by
  induction h with
  | init h => exact initOK_inv h
  | step _ hs ih => exact inv_step ih hs

/-- `sender_never_gives_up`: in no reachable state is a file that is not done outside the
pipeline (the sender phase `orphan`, which only the start-up recovery before its repair
produced: `old_recover_unsound`): every file is pending, being polled, or done. -/
theorem sender_never_gives_up {s : State} (h : Reachable s) :
    ∀ (i : Nat) (f : FileSt), s.files[i]? = some f → f.sp ≠ .orphan :=
  fun i f hf => ((reachable_inv h).2 i f hf).notOrphan

/-- `measure_decreases_partial`: every protocol step other than a sender step on a file whose
validation is pending strictly decreases the ranking function. (Protocol steps do not touch
the budget; with budget 0 they are the only steps: `budget_zero_protocol`.)
Full statement (false): `step s a = some s' → a.isProtocol → measure s' < measure s`.
Missing hypothesis: `senderOnComplete s a = false` (receiver-first scheduling); without it the
measure can grow (`measure_can_increase_on_pending_validation`), and no ranking function can
exist, because the sender may poll, give up, re-send and poll again for ever while the enabled
validation is not run; `fair_run_finite` shows that this unfairness is the only obstacle. -/
theorem measure_decreases_partial {s a s'} (hi : Inv s) (h : step s a = some s')
    (hp : a.isProtocol = true) (hq : senderOnComplete s a = false) :
    measure s' < measure s := by
  obtain ⟨i, fa, f, f', ht, hfa, hf, hs, rfl⟩ := step_protocol h hp
  have hq' : senderOnCompleteF f fa = false := by
    simpa [senderOnComplete, ht, hf] using hq
  have := fileStep_decreases hi.1 (hi.2 i f hf) hs hfa hq'
  have hsum := sumW_set (A := s.attempts) (f' := f') hf
  simp only [measure]
  omega

/-! ## No deadlock -/

def mkAction (i : Nat) : FAct → Action
  | .sendPart => .sendPart i
  | .allAcked => .allAcked i
  | .validate => .validate i
  | .release => .release i
  | .poll => .poll i
  | .loseAck => .loseAck i
  | .earlyAcked => .earlyAcked i
  | .dropPart => .dropPart i
  | .corrupt => .corrupt i
  | .pollError => .pollError i

theorem mkAction_target (i : Nat) (fa : FAct) : (mkAction i fa).target = some (i, fa) := by
  cases fa <;> rfl

theorem target_eq_mkAction {a : Action} {i fa} (h : a.target = some (i, fa)) :
    a = mkAction i fa := by
  cases a <;> simp [Action.target] at h <;> (obtain ⟨rfl, rfl⟩ := h; rfl)

theorem enabled_of_fileStep {s : State} {i fa f} (hf : s.files[i]? = some f)
    (hp : fa.isProtocol = true)
    (h : (fileStep s.attempts (predDelivered s.files f) f fa).isSome = true) :
    enabled s (mkAction i fa) = true := by
  unfold enabled step
  rw [mkAction_target]
  simp only [hf, hp, if_true]
  cases hs : fileStep s.attempts (predDelivered s.files f) f fa with
  | none => simp [hs] at h
  | some f' => simp

theorem enabled_out_of_range {s : State} {a : Action} {i fa} (ht : a.target = some (i, fa))
    (h : s.files[i]? = none) : enabled s a = false := by
  unfold enabled step
  simp [ht, h]

theorem pollVerdict_polling (A p : Nat) (rp : RPhase) :
    ∃ sp', pollVerdict A (.polling p) rp = some sp' := by
  cases rp <;> simp [pollVerdict] <;> (by_cases e : p + 1 = A <;> simp [e])

/-- Per file: a file that is not finished has an enabled protocol step that is not a sender
step on a pending validation, provided a held file's predecessor is delivered. -/
theorem file_not_stuck {A i pd f} (hi : FInv A i f) (hc : f.complete = false)
    (hpd : f.rp = .held → pd = true) :
    ∃ fa, fa.isProtocol = true ∧ senderOnCompleteF f fa = false ∧
      (fileStep A pd f fa).isSome = true := by
  obtain ⟨hn, hpl, hr, hpoll, hd, ho⟩ := hi
  obtain ⟨n, pred, sp, rp, c⟩ := f
  simp only at hn hpl hr hpoll hd hpd ho
  simp [FileSt.complete] at hc
  by_cases hcomp : rp = .complete
  · subst hcomp
    refine ⟨.validate, rfl, by simp [senderOnCompleteF, FAct.isReceiver], ?_⟩
    simp [fileStep]; split <;> simp
  by_cases hheld : rp = .held
  · subst hheld
    refine ⟨.release, rfl, by simp [senderOnCompleteF, FAct.isReceiver], ?_⟩
    simp [fileStep, hpd rfl]
  · cases sp with
    | pending a =>
      by_cases ha : a < n
      · refine ⟨.sendPart, rfl, by simp [senderOnCompleteF, hcomp], ?_⟩
        simp [fileStep, ha]
      · refine ⟨.allAcked, rfl, by simp [senderOnCompleteF, hcomp], ?_⟩
        simp [fileStep]; omega
    | polling p =>
      refine ⟨.poll, rfl, by simp [senderOnCompleteF, hcomp], ?_⟩
      obtain ⟨sp', h⟩ := pollVerdict_polling A p rp
      simp [fileStep, h]
    | repoll =>
      refine ⟨.poll, rfl, by simp [senderOnCompleteF, hcomp], ?_⟩
      simp only [fileStep, pollVerdict]
      cases rp <;> simp
    | done =>
      rcases hd rfl with h | h
      · exact absurd h hheld
      · exact absurd h (hc rfl)
    | orphan => exact absurd rfl ho

theorem exists_least (P : Nat → Prop) {i : Nat} (h : P i) :
    ∃ m, P m ∧ ∀ j, j < m → ¬ P j := by
  induction i using Nat.strongRecOn with
  | _ i ih =>
    by_cases hex : ∃ j, j < i ∧ P j
    · obtain ⟨j, hj, hpj⟩ := hex
      exact ih j hj hpj
    · exact ⟨i, h, fun j hj hp => hex ⟨j, hj, hp⟩⟩

/-- `no_stuck`: in a state satisfying the invariant (every reachable state does), if some file
is not both done and delivered then a protocol action is enabled, and it can be chosen so that
it is not a sender step on a file whose validation is pending. No fault budget is needed. -/
theorem no_stuck {s : State} (hi : Inv s) (hn : Complete s = false) :
    ∃ a, a.isProtocol = true ∧ senderOnComplete s a = false ∧ enabled s a = true := by
  have hex : ∃ i : Nat, ∃ f : FileSt, s.files[i]? = some f ∧ f.complete = false := by
    simp only [Complete, List.all_eq_false] at hn
    obtain ⟨f, hf, hc⟩ := hn
    obtain ⟨i, hi'⟩ := List.mem_iff_getElem?.1 hf
    exact ⟨i, f, hi', by simpa using hc⟩
  obtain ⟨i0, h0⟩ := hex
  obtain ⟨i, ⟨f, hf, hc⟩, hmin⟩ := exists_least (fun i : Nat => ∃ f : FileSt, s.files[i]? = some f ∧ f.complete = false) h0
  have hfi := hi.2 i f hf
  have hpd : f.rp = .held → predDelivered s.files f = true := by
    intro _
    unfold predDelivered
    cases hp : f.pred with
    | none => rfl
    | some j =>
      have hj : j < i := hfi.predLt j hp
      have hil : i < s.files.length := by
        rcases List.getElem?_eq_some_iff.1 hf with ⟨h, _⟩; exact h
      have hjl : j < s.files.length := by omega
      have hg : s.files[j]? = some s.files[j] := List.getElem?_eq_getElem hjl
      simp only [hg]
      have : ¬ (s.files[j].complete = false) := fun hcj => hmin j hj ⟨_, hg, hcj⟩
      simp [FileSt.complete] at this
      simp [this.2]
  obtain ⟨fa, hp, hq, hen⟩ := file_not_stuck hfi hc hpd
  refine ⟨mkAction i fa, ?_, ?_, enabled_of_fileStep hf hp hen⟩
  · simp [Action.isProtocol, mkAction_target, hp]
  · simp [senderOnComplete, mkAction_target, hf, hq]

/-! ## Runs under the receiver-first scheduler -/

/-- Finite sequences of protocol steps in which the sender never acts on a file whose
validation is pending (the receiver finishes its own steps first). -/
inductive PRun : State → List Action → State → Prop
  | nil {s} : PRun s [] s
  | cons {s a s1 as s2} : step s a = some s1 → a.isProtocol = true →
      senderOnComplete s a = false → PRun s1 as s2 → PRun s (a :: as) s2

theorem prun_inv {s as s'} (hi : Inv s) (h : PRun s as s') : Inv s' := by
  induction h with
  | nil => exact hi
  | cons hs _ _ _ ih => exact ih (inv_step hi hs)

/-- Every such run is at most `measure s` steps long. -/
theorem run_bounded {s as s'} (hi : Inv s) (h : PRun s as s') :
    as.length + measure s' ≤ measure s := by
  induction h with
  | nil => simp
  | cons hs hp hq _ ih =>
    have := measure_decreases_partial hi hs hp hq
    have := ih (inv_step hi hs)
    simp only [List.length_cons]
    omega

/-- `eventually_complete_partial`: a run that cannot be extended ends with every file done and
delivered; together with `run_bounded` every maximal run is finite and ends complete. -/
theorem eventually_complete_partial {s as s'} (hi : Inv s) (h : PRun s as s')
    (hmax : ∀ a, a.isProtocol = true → senderOnComplete s' a = false → enabled s' a = false) :
    Complete s' = true := by
  cases hc : Complete s' with
  | true => rfl
  | false =>
    obtain ⟨a, hp, hq, he⟩ := no_stuck (prun_inv hi h) hc
    rw [hmax a hp hq] at he
    cases he

/-- `completion_reachable`: from every state satisfying the invariant a complete state is
reachable by protocol steps alone. -/
theorem completion_reachable {s : State} (hi : Inv s) :
    ∃ as s', PRun s as s' ∧ Complete s' = true := by
  generalize hm : measure s = m
  induction m using Nat.strongRecOn generalizing s with
  | _ m ih =>
    cases hc : Complete s with
    | true => exact ⟨[], s, .nil, hc⟩
    | false =>
      obtain ⟨a, hp, hq, he⟩ := no_stuck hi hc
      unfold enabled at he
      cases hs : step s a with
      | none => simp [hs] at he
      | some s1 =>
        have hlt := measure_decreases_partial hi hs hp hq
        obtain ⟨as, s2, hr, hc2⟩ := ih (measure s1) (by omega) (inv_step hi hs) rfl
        exact ⟨a :: as, s2, .cons hs hp hq hr, hc2⟩

/-- The statement for reachable states with an exhausted fault budget. -/
theorem eventually_complete_reachable_partial {s as s'} (hr : Reachable s) (_hb : s.budget = 0)
    (h : PRun s as s')
    (hmax : ∀ a, a.isProtocol = true → senderOnComplete s' a = false → enabled s' a = false) :
    as.length ≤ measure s ∧ Complete s' = true := by
  have hi := reachable_inv hr
  have := run_bounded hi h
  exact ⟨by omega, eventually_complete_partial hi h hmax⟩

/-- With budget 0 only protocol actions are enabled. -/
theorem budget_zero_protocol {s a s'} (hb : s.budget = 0) (h : step s a = some s') :
    a.isProtocol = true ∧ s'.budget = 0 := by
  unfold step at h
  unfold Action.isProtocol
  cases ht : a.target with
  | none => simp [ht, hb] at h
  | some t =>
    obtain ⟨i, fa⟩ := t
    simp only [ht] at h ⊢
    cases hfi : s.files[i]? with
    | none => simp [hfi] at h
    | some f =>
      simp only [hfi] at h
      cases hp : fa.isProtocol with
      | false => simp [hp, hb] at h
      | true =>
        simp only [hp, if_true] at h
        split at h
        · injection h with h; subst h; exact ⟨rfl, hb⟩
        · cases h

/-! ## Every scheduler: termination under weak fairness of the receiver's validation

`measure_decreases_partial` excludes sender steps on a file whose validation is pending: without any
assumption on the scheduler the sender can poll such a file, give up, re-send it and poll
again for ever while the (enabled) validation is never run. The theorems below show that this
is the only way not to terminate: in every infinite run of protocol steps some validation is
enabled from some point on for ever and never taken. -/

def sumR : List FileSt → Nat
  | [] => 0
  | f :: t => rw f + sumR t

/-- Work left at the receiver, all files. -/
def recvWork (s : State) : Nat := sumR s.files

theorem sumR_set {l : List FileSt} {i : Nat} {f f' : FileSt} (h : l[i]? = some f) :
    sumR (l.set i f') + rw f = sumR l + rw f' := by
  induction l generalizing i with
  | nil => simp at h
  | cons x t ih =>
    cases i with
    | zero => simp at h; subst h; simp [sumR]; omega
    | succ k =>
      simp at h
      have := ih h
      simp [sumR]; omega

theorem fileStep_rw_le {A i pd f fa f'} (hi : FInv A i f)
    (h : fileStep A pd f fa = some f') (hp : fa.isProtocol = true) : rw f' ≤ rw f := by
  cases hq : senderOnCompleteF f fa with
  | false =>
    rcases fileStep_lex hi h hp hq with h1 | ⟨h1, _⟩ <;> omega
  | true =>
    obtain ⟨n, pred, sp, rp, c⟩ := f
    simp [senderOnCompleteF] at hq
    obtain ⟨hr, hc⟩ := hq
    subst hc
    cases fa <;> simp [FAct.isProtocol] at hp <;> simp [FAct.isReceiver] at hr <;>
      simp only [fileStep] at h
    · cases sp <;> simp [recvPart] at h
      obtain ⟨_, rfl⟩ := h
      simp [rw]
    · cases sp <;> simp at h
      obtain ⟨_, rfl⟩ := h
      simp [rw]
    · cases hv : pollVerdict A sp .complete <;> simp [hv] at h
      subst h
      simp [rw]

theorem fileStep_validate_lt {A pd f f'} (h : fileStep A pd f .validate = some f') :
    rw f' < rw f := by
  obtain ⟨n, pred, sp, rp, c⟩ := f
  simp only [fileStep] at h
  cases rp <;> simp at h
  by_cases hc : c = true <;> simp [hc] at h <;> subst h <;> simp [rw, hc] <;> omega

theorem fileStep_keeps_complete {A pd f fa f'} (h : fileStep A pd f fa = some f')
    (hp : fa.isProtocol = true) (hne : fa ≠ .validate) (hc : f.rp = .complete) :
    f'.rp = .complete := by
  obtain ⟨n, pred, sp, rp, c⟩ := f
  simp only at hc
  subst hc
  cases fa <;> simp [FAct.isProtocol] at hp <;> simp at hne <;> simp only [fileStep] at h
  · cases sp <;> simp [recvPart] at h
    obtain ⟨_, rfl⟩ := h
    rfl
  · cases sp <;> simp at h
    obtain ⟨_, rfl⟩ := h
    rfl
  · simp at h
  · cases hv : pollVerdict A sp .complete <;> simp [hv] at h
    subst h
    rfl

theorem recvWork_le {s a s'} (hi : Inv s) (h : step s a = some s') (hp : a.isProtocol = true) :
    recvWork s' ≤ recvWork s := by
  obtain ⟨i, fa, f, f', _, hfa, hf, hs, rfl⟩ := step_protocol h hp
  have := fileStep_rw_le (hi.2 i f hf) hs hfa
  have hsum := sumR_set (f' := f') hf
  simp only [recvWork]
  omega

theorem validate_lt {s i s'} (h : step s (.validate i) = some s') : recvWork s' < recvWork s := by
  obtain ⟨j, fa, f, f', ht, _, hf, hs, rfl⟩ := step_protocol h rfl
  simp [Action.target] at ht
  obtain ⟨rfl, rfl⟩ := ht
  have := fileStep_validate_lt hs
  have hsum := sumR_set (f' := f') hf
  simp only [recvWork]
  omega

/-- A pending validation stays pending until it is run. -/
theorem complete_persists {s a s' i f} (h : step s a = some s') (hp : a.isProtocol = true)
    (hne : a ≠ .validate i) (hf : s.files[i]? = some f) (hc : f.rp = .complete) :
    ∃ f', s'.files[i]? = some f' ∧ f'.rp = .complete := by
  obtain ⟨j, fa, g, g', ht, hfa, hg, hs, rfl⟩ := step_protocol h hp
  by_cases hij : j = i
  · subst hij
    rw [hf] at hg
    injection hg with hg
    subst hg
    have hfa' : fa ≠ .validate := by
      intro e
      subst e
      exact hne (target_eq_mkAction ht)
    refine ⟨g', ?_, fileStep_keeps_complete hs hfa hfa' hc⟩
    have hlt : j < s.files.length := (List.getElem?_eq_some_iff.1 hf).1
    simp [hlt]
  · refine ⟨f, ?_, hc⟩
    simp [hij, hf]

theorem validate_enabled {s : State} {i f} (hf : s.files[i]? = some f) (hc : f.rp = .complete) :
    enabled s (.validate i) = true := by
  have := enabled_of_fileStep (s := s) (i := i) (fa := .validate) hf rfl (by
    obtain ⟨n, pred, sp, rp, c⟩ := f
    simp only at hc
    subst hc
    simp [fileStep]; split <;> simp)
  simpa [mkAction] using this

theorem no_inf_descent (g : Nat → Nat) : ¬ ∀ n, g (n + 1) < g n := by
  intro h
  have hb : ∀ n, g n + n ≤ g 0 := by
    intro n
    induction n with
    | zero => simp
    | succ k ih => have := h k; omega
  have := hb (g 0 + 1)
  omega

theorem eventually_const (g : Nat → Nat) (h : ∀ n, g (n + 1) ≤ g n) :
    ∃ N, ∀ n, N ≤ n → g n = g N := by
  obtain ⟨m, ⟨N, hN⟩, hmin⟩ := exists_least (fun v => ∃ n, g n = v) (i := g 0) ⟨0, rfl⟩
  refine ⟨N, ?_⟩
  have mono : ∀ k, g (N + k) ≤ g N := by
    intro k
    induction k with
    | zero => simp
    | succ k ih =>
      have := h (N + k)
      have e : N + (k + 1) = N + k + 1 := rfl
      rw [e]; omega
  intro n hn
  have h1 := mono (n - N)
  rw [show N + (n - N) = n by omega] at h1
  have h2 : ¬ g n < m := fun hlt => hmin (g n) hlt ⟨n, rfl⟩
  omega

/-- An infinite run of protocol steps from a state satisfying the invariant. -/
structure InfRun (σ : Nat → State) (α : Nat → Action) : Prop where
  inv : Inv (σ 0)
  steps : ∀ n, step (σ n) (α n) = some (σ (n + 1))
  proto : ∀ n, (α n).isProtocol = true

/-- Weak fairness for the receiver's validations: a validation that is enabled from some point
on for ever is eventually run. (The receiver runs them on its own goroutines.) -/
def FairValidate (σ : Nat → State) (α : Nat → Action) : Prop :=
  ∀ i N, (∀ n, N ≤ n → enabled (σ n) (.validate i) = true) → ∃ n, N ≤ n ∧ α n = .validate i

/-- `fair_run_finite`: no infinite run of protocol steps is fair to the validations; that is,
under weak fairness of validation every run of protocol steps, under any scheduler, is
finite. By `dead_complete` it ends with every file done and delivered. -/
theorem fair_run_finite {σ : Nat → State} {α : Nat → Action} (hr : InfRun σ α) :
    ¬ FairValidate σ α := by
  intro hfair
  have hinv : ∀ n, Inv (σ n) := by
    intro n
    induction n with
    | zero => exact hr.inv
    | succ k ih => exact inv_step ih (hr.steps k)
  obtain ⟨N, hN⟩ := eventually_const (fun n => recvWork (σ n))
    (fun n => recvWork_le (hinv n) (hr.steps n) (hr.proto n))
  have hnoval : ∀ n, N ≤ n → ∀ i, α n ≠ .validate i := by
    intro n hn i e
    have h1 := hr.steps n
    rw [e] at h1
    have := validate_lt h1
    have e1 : recvWork (σ n) = recvWork (σ N) := hN n hn
    have e2 : recvWork (σ (n + 1)) = recvWork (σ N) := hN (n + 1) (by omega)
    omega
  by_cases hex : ∃ n, N ≤ n ∧ senderOnComplete (σ n) (α n) = true
  · obtain ⟨n0, hn0, hsc⟩ := hex
    unfold senderOnComplete at hsc
    cases ht : (α n0).target with
    | none => simp [ht] at hsc
    | some t =>
      obtain ⟨i, fa⟩ := t
      simp only [ht] at hsc
      cases hf : (σ n0).files[i]? with
      | none => simp [hf] at hsc
      | some f =>
        simp only [hf, senderOnCompleteF, Bool.and_eq_true, beq_iff_eq] at hsc
        have hpers : ∀ k, ∃ f', (σ (n0 + k)).files[i]? = some f' ∧ f'.rp = .complete := by
          intro k
          induction k with
          | zero => exact ⟨f, hf, hsc.2⟩
          | succ k ih =>
            obtain ⟨f', hf', hc'⟩ := ih
            exact complete_persists (hr.steps (n0 + k)) (hr.proto (n0 + k))
              (hnoval (n0 + k) (by omega) i) hf' hc'
        obtain ⟨n, hn, hv⟩ := hfair i n0 (by
          intro n hn
          obtain ⟨f', hf', hc'⟩ := hpers (n - n0)
          rw [show n0 + (n - n0) = n by omega] at hf'
          exact validate_enabled hf' hc')
        exact hnoval n (by omega) i hv
  · have hdesc : ∀ k, measure (σ (N + (k + 1))) < measure (σ (N + k)) := by
      intro k
      have hq : senderOnComplete (σ (N + k)) (α (N + k)) = false := by
        cases hb : senderOnComplete (σ (N + k)) (α (N + k)) with
        | false => rfl
        | true => exact absurd ⟨N + k, by omega, hb⟩ hex
      exact measure_decreases_partial (hinv (N + k)) (hr.steps (N + k)) (hr.proto (N + k)) hq
    exact no_inf_descent (fun k => measure (σ (N + k))) hdesc

/-! ## The driver's scheduler -/

theorem pickFor_spec {s : State} {i : Nat} {a : Action} (h : pickFor s i = some a) :
    a.isProtocol = true ∧ enabled s a = true ∧ senderOnComplete s a = false := by
  have hen : enabled s a = true := by
    have := List.find?_some h
    simpa using this
  have hnv : ∀ f, s.files[i]? = some f → f.rp = .complete → a = .validate i := by
    intro f hf hc
    have hv := validate_enabled hf hc
    simp [pickFor, protoActions, hv] at h
    exact h.symm
  have hmem : a ∈ protoActions i := List.mem_of_find?_eq_some h
  simp only [protoActions, List.mem_cons, List.not_mem_nil, or_false] at hmem
  rcases hmem with rfl | rfl | rfl | rfl | rfl
  · exact ⟨rfl, hen, by simp [senderOnComplete, Action.target]; split <;> simp [senderOnCompleteF, FAct.isReceiver]⟩
  · exact ⟨rfl, hen, by simp [senderOnComplete, Action.target]; split <;> simp [senderOnCompleteF, FAct.isReceiver]⟩
  all_goals
    refine ⟨rfl, hen, ?_⟩
    simp only [senderOnComplete, Action.target]
    cases hf : s.files[i]? with
    | none => rfl
    | some f =>
      simp only [senderOnCompleteF]
      cases hc : f.rp <;> simp [FAct.isReceiver]
      have := hnv f hf hc
      cases this

theorem firstEnabledBelow_spec {s : State} {k : Nat} {a : Action}
    (h : firstEnabledBelow s k = some a) :
    a.isProtocol = true ∧ enabled s a = true ∧ senderOnComplete s a = false := by
  induction k with
  | zero => simp [firstEnabledBelow] at h
  | succ k ih =>
    simp only [firstEnabledBelow] at h
    cases hb : firstEnabledBelow s k with
    | some b => simp [hb] at h; subst h; exact ih hb
    | none => simp [hb] at h; exact pickFor_spec h

theorem firstEnabledBelow_none {s : State} {k : Nat} (h : firstEnabledBelow s k = none) :
    ∀ i, i < k → ∀ a, a ∈ protoActions i → enabled s a = false := by
  induction k with
  | zero => intro i hi; omega
  | succ k ih =>
    simp only [firstEnabledBelow] at h
    cases hb : firstEnabledBelow s k with
    | some b => simp [hb] at h
    | none =>
      simp [hb] at h
      intro i hi a ha
      by_cases hik : i < k
      · exact ih hb i hik a ha
      · have : i = k := by omega
        subst this
        have := List.find?_eq_none.1 h a ha
        simpa using this

/-- `firstEnabled_spec`: the scheduler's choice is a protocol action, enabled, and not a sender
step on a pending validation. -/
theorem firstEnabled_spec {s : State} {a : Action} (h : firstEnabled s = some a) :
    a.isProtocol = true ∧ enabled s a = true ∧ senderOnComplete s a = false :=
  firstEnabledBelow_spec h

theorem firstEnabled_none_complete {s : State} (hi : Inv s) (h : firstEnabled s = none) :
    Complete s = true := by
  cases hc : Complete s with
  | true => rfl
  | false =>
    obtain ⟨a, hp, _, he⟩ := no_stuck hi hc
    unfold Action.isProtocol at hp
    cases ht : a.target with
    | none => simp [ht] at hp
    | some t =>
      obtain ⟨i, fa⟩ := t
      simp [ht] at hp
      by_cases hlt : i < s.files.length
      · have hmem : a ∈ protoActions i := by
          rw [target_eq_mkAction ht]
          cases fa <;> simp [FAct.isProtocol] at hp <;> simp [mkAction, protoActions]
        rw [firstEnabledBelow_none h i hlt a hmem] at he
        cases he
      · rw [enabled_out_of_range ht (List.getElem?_eq_none (by omega))] at he
        cases he

/-- `scheduler_complete`: the run the model driver performs (the deterministic receiver-first
scheduler, with the ranking function as fuel) ends with every file done and delivered. -/
theorem scheduler_complete {s : State} (hi : Inv s) (fuel : Nat) (hf : measure s ≤ fuel) :
    Complete (runToQuiescence fuel s) = true := by
  induction fuel generalizing s with
  | zero =>
    simp only [runToQuiescence]
    cases hc : Complete s with
    | true => rfl
    | false =>
      obtain ⟨a, hp, hq, he⟩ := no_stuck hi hc
      unfold enabled at he
      cases hs : step s a with
      | none => simp [hs] at he
      | some s1 => have := measure_decreases_partial hi hs hp hq; omega
  | succ fuel ih =>
    simp only [runToQuiescence]
    cases hfe : firstEnabled s with
    | none => exact firstEnabled_none_complete hi hfe
    | some a =>
      obtain ⟨hp, he, hq⟩ := firstEnabled_spec hfe
      unfold enabled at he
      cases hs : step s a with
      | none => simp [hs] at he
      | some s1 =>
        have := measure_decreases_partial hi hs hp hq
        simp only [hs]
        exact ih (inv_step hi hs) (by omega)

/-! ## Why each hypothesis is needed: witnesses -/

/-- No protocol action is enabled. -/
def Dead (s : State) : Prop := ∀ a, a.isProtocol = true → enabled s a = false

/-- Deadness of a concrete state is a finite check. -/
theorem dead_of_check {s : State}
    (h : (List.range s.files.length).all
      (fun i => (protoActions i).all (fun a => !enabled s a)) = true) : Dead s := by
  intro a ha
  unfold Action.isProtocol at ha
  cases ht : a.target with
  | none => simp [ht] at ha
  | some t =>
    obtain ⟨i, fa⟩ := t
    simp [ht] at ha
    by_cases hi : i < s.files.length
    · have hmem : a ∈ protoActions i := by
        rw [target_eq_mkAction ht]
        cases fa <;> simp [FAct.isProtocol] at ha <;> simp [mkAction, protoActions]
      simp only [List.all_eq_true, List.mem_range] at h
      have := h i hi a hmem
      simpa using this
    · exact enabled_out_of_range ht (List.getElem?_eq_none (by omega))

/-- A state (satisfying the invariant) in which no protocol action is enabled is complete. -/
theorem dead_complete {s : State} (hi : Inv s) (hd : Dead s) : Complete s = true := by
  cases hc : Complete s with
  | true => rfl
  | false =>
    obtain ⟨a, hp, _, he⟩ := no_stuck hi hc
    rw [hd a hp] at he
    cases he

def runActs (s : State) (as : List Action) : Option State := as.foldlM step s

/-- Witness for "predecessors are acyclic": two files naming each other as predecessor are both
sent, validated and confirmed (the poll answers "waiting", the sender marks them done), and
then both are held for ever: no protocol action is enabled and neither is delivered. (In the
real receiver the periodic cleaner, cleanWaiting every 30 minutes, breaks such loops; the
sender's queue never produces one.) -/
def cycleInit : State :=
  { files := [initFile 1 (some 1), initFile 1 (some 0)], attempts := 3, budget := 0 }

def cycleStuck : State :=
  { files := [{ nparts := 1, pred := some 1, sp := .done, rp := .held },
              { nparts := 1, pred := some 0, sp := .done, rp := .held }],
    attempts := 3, budget := 0 }

theorem pred_cycle_stuck :
    runActs cycleInit [.sendPart 0, .validate 0, .allAcked 0, .poll 0,
                       .sendPart 1, .validate 1, .allAcked 1, .poll 1] = some cycleStuck ∧
    Dead cycleStuck ∧ Complete cycleStuck = false :=
  ⟨by decide, dead_of_check (by decide), by decide⟩

/-- Witness for "the predecessor is one of the files being sent": a file whose predecessor
never arrives (index outside the list) is validated, confirmed as waiting, and held for ever.
(The real receiver searches its log for the predecessor and tries again every 10 s; if the
predecessor was never delivered the file stays in the staging area.) -/
def orphanPred : State :=
  { files := [{ nparts := 1, pred := some 7, sp := .done, rp := .held }], attempts := 3, budget := 0 }

theorem missing_pred_stuck :
    runActs { files := [initFile 1 (some 7)], attempts := 3, budget := 0 }
      [.sendPart 0, .validate 0, .allAcked 0, .poll 0] = some orphanPred ∧
    Dead orphanPred ∧ Complete orphanPred = false :=
  ⟨by decide, dead_of_check (by decide), by decide⟩

/-- Witness for "at least one part per file": a file of zero parts is "all acknowledged" at
once, never found by the poll, retried, and so on for ever: the run below returns to its
start, and at each of its states the action taken is the only enabled protocol action. -/
def zeroParts : State := { files := [initFile 0 none], attempts := 1, budget := 0 }

theorem zero_parts_spin :
    runActs zeroParts [.allAcked 0, .poll 0] = some zeroParts ∧ Complete zeroParts = false ∧
    (List.range 1).all (fun i => (protoActions i).all
      (fun a => !enabled zeroParts a || a == .allAcked 0)) = true := by decide

/-- Witness for "PollAttempts at least 1": with PollAttempts = 0 the comparison
`polled == PollAttempts` of startValidate never holds; a file whose receiver copy was reset
after a failed validation while the sender had counted all parts is polled for ever.
`spin p` is reached from an initial state (`spin_reachable`), and from `spin p` the only
enabled protocol action is the poll, which leads to `spin (p + 1)`. -/
def spin (p : Nat) : State :=
  { files := [{ nparts := 2, pred := none, sp := .polling p, rp := .part 1 }], attempts := 0, budget := 0 }

theorem spin_reachable :
    runActs { files := [initFile 2 none], attempts := 0, budget := 2 }
      [.sendPart 0, .loseAck 0, .corrupt 0, .validate 0, .sendPart 0, .allAcked 0] = some (spin 0) := by
  decide

theorem zero_attempts_spin (p : Nat) :
    step (spin p) (.poll 0) = some (spin (p + 1)) ∧ Complete (spin p) = false ∧
    ∀ a, a.isProtocol = true → enabled (spin p) a = true → a = .poll 0 := by
  refine ⟨by simp [spin, step, Action.target, FAct.isProtocol, fileStep, pollVerdict],
    by simp [spin, Complete, FileSt.complete], ?_⟩
  intro a ha he
  unfold Action.isProtocol at ha
  cases ht : a.target with
  | none => simp [ht] at ha
  | some t =>
    obtain ⟨i, fa⟩ := t
    simp [ht] at ha
    cases i with
    | succ k => rw [enabled_out_of_range ht (by simp [spin])] at he; cases he
    | zero =>
      have := target_eq_mkAction ht
      subst this
      cases fa <;> simp [FAct.isProtocol] at ha <;>
        simp [enabled, step, mkAction, Action.target, FAct.isProtocol, spin, fileStep] at he ⊢

/-- The defect repaired by `fix: retry the start-up poll request` (client.go recover): with the
old recovery one failed poll request at start-up leaves every unconfirmed file in no stage of
the pipeline; no protocol action is enabled and the file is never delivered (until the next
restart). `oldRecoverStuck` is `crashSenderFileOld true` applied to a reachable state. -/
def beforeRestart : State :=
  { files := [{ nparts := 2, pred := none, sp := .pending 1, rp := .part 1 }], attempts := 3, budget := 1 }

def oldRecoverStuck : State :=
  { beforeRestart with files := beforeRestart.files.map (crashSenderFileOld true), budget := 0 }

theorem old_recover_unsound :
    runActs { files := [initFile 2 none], attempts := 3, budget := 1 } [.sendPart 0] = some beforeRestart ∧
    Dead oldRecoverStuck ∧ Complete oldRecoverStuck = false :=
  ⟨by decide, dead_of_check (by decide), by decide⟩

/-- The repaired recovery from the same state: the file is queued for its missing part and the
system completes. -/
theorem new_recover_completes :
    ∃ s1, step beforeRestart .crashSender = some s1 ∧ s1.budget = 0 ∧
      Complete (runToQuiescence (measure s1) s1) = true :=
  ⟨_, rfl, rfl, by decide⟩

/-! ## Non-vacuity -/

/-- Three files (two ordered groups), PollAttempts 2, budget 4. -/
def demoInit : State :=
  { files := [initFile 2 none, initFile 1 (some 0), initFile 3 none], attempts := 2, budget := 4 }

example : InitOK demoInit := by
  refine ⟨by decide, ?_⟩
  intro i f hf
  rcases i with _ | _ | _ | i <;> simp [demoInit, initFile] at hf <;> subst hf <;> simp

/-- A reachable state with budget 0 in which nothing is finished, one file failed validation,
one is held for it, one has a lost acknowledgement (hypotheses of
`eventually_complete_reachable_partial` and `no_stuck` are satisfiable by a non-trivial state). -/
def demoFaulty : Option State :=
  runActs demoInit [.sendPart 0, .loseAck 0, .corrupt 0, .validate 0, .sendPart 1, .validate 1,
    .loseAck 2, .crashSender, .poll 0]

example : (demoFaulty.map (fun s => (s.budget, Complete s, s.files.map (·.rp)))) =
    some (0, false, [.failed, .held, .part 1]) := by decide

/-- From that state the receiver-first scheduler reaches completion within `measure` steps. -/
example : (demoFaulty.map (fun s => Complete (runToQuiescence (measure s) s))) = some true := by
  decide

/-- `measure_decreases_partial` on a concrete step: a new part recorded. -/
example : (step demoInit (.sendPart 0)).map measure = some (measure demoInit - 7) ∧
    measure demoInit = 86 := by decide

/-- A sender step on a pending validation need not decrease the measure (the excluded case of
`measure_decreases_partial`): the poll budget runs out and the whole file is queued again. -/
theorem measure_can_increase_on_pending_validation :
    let s : State := { files := [{ nparts := 1, sp := .polling 0, rp := .complete }], attempts := 1, budget := 0 }
    senderOnComplete s (.poll 0) = true ∧ (step s (.poll 0)).map measure = some (measure s + 2) := by
  decide

/-- `eventually_complete_fair` (full statement, any scheduler): a run of protocol steps that is
weakly fair to the receiver's validations is finite, and a state in which no protocol step is
enabled has every file done and delivered. -/
theorem eventually_complete_fair :
    (∀ σ α, InfRun σ α → ¬ FairValidate σ α) ∧
    (∀ s, Inv s → Dead s → Complete s = true) :=
  ⟨fun _ _ hr => fair_run_finite hr, fun _ hi hd => dead_complete hi hd⟩

end Sts.Protocol
