import StsModel.Props.C01Move
/-
  Property C06 ("a receiver crash at any point loses nothing ..."), last step of a delivery:
  what a crash inside fileutil.Move leaves, for both orders of its last two steps.

  Finding S9x (the cross-file-system half of S9): with the order of the code as found
  (`Order.removeFirst`: Copy, Remove(src), Rename(lck, dst)) a crash between the last two steps
  leaves the validated, already logged bytes ONLY under `<target>.lck` - neither staged nor under
  their name - and nothing in stage.Recover, the cleaners or a later Move ever gives that file its
  name (`removeFirst_strands`, shown on the real receiver by demo/move_crash_demo_test.go).
  With the repaired order (`Order.renameFirst`: Copy, Rename(lck, dst), Remove(src)) the bytes are
  complete under src or under dst at EVERY cut point (`renameFirst_never_stranded`).
-/
namespace Sts.Move

/-- the three conditions the property allows for a file after a crash, seen from Move:
    `staged` (still held as validated: recovery will finalize it again), `delivered` (under its
    proper name), and what must not be: `stranded` (complete under no name that anything reads) -/
inductive Cond
  | staged
  | delivered
  | stagedAndDelivered
  | stranded
deriving DecidableEq, Repr

def condOf (b : Bytes) (d : Disk) : Cond :=
  if d.src = some b then (if d.dst = some b then .stagedAndDelivered else .staged)
  else if d.dst = some b then .delivered else .stranded

/-- the full statement for Move: no cut point strands the file -/
def NeverStranded (ord : Order) : Prop :=
  ∀ (d : Disk) (b : Bytes) (k : Nat), d.src = some b → condOf b (moveCut ord k d) ≠ .stranded

/-- **repaired order: never stranded.** At every cut point of Move (any content, any destination,
    any leftover, both configurations) the bytes are complete under src or under dst. -/
theorem renameFirst_never_stranded : NeverStranded .renameFirst := by
  intro d b k hs
  rw [moveCut_eq_closed]
  unfold cutClosed condOf
  simp only [hs]
  repeat' split
  all_goals simp_all

/-- the same, spelled out -/
theorem renameFirst_cut_no_loss_strict (d : Disk) (b : Bytes) (hs : d.src = some b) (k : Nat) :
    (moveCut .renameFirst k d).src = some b ∨ (moveCut .renameFirst k d).dst = some b := by
  have h := renameFirst_never_stranded d b k hs
  unfold condOf at h
  by_cases h1 : (moveCut .renameFirst k d).src = some b
  · exact Or.inl h1
  · by_cases h2 : (moveCut .renameFirst k d).dst = some b
    · exact Or.inr h2
    · simp [h1, h2] at h

/-- same file system (either order): one atomic rename, never stranded, never both -/
theorem same_fs_atomic (ord : Order) (d : Disk) (b : Bytes) (hs : d.src = some b) (hc : d.cross = false) (k : Nat) :
    moveCut ord k d = d ∨ moveCut ord k d = move ord d := by
  rw [moveCut_same ord d b hs hc, move_eq_closed]
  by_cases h0 : k = 0
  · left; simp [h0]
  · right; simp [h0, moveClosed, hs, hc]

/-- **order as found: the cut between Remove(src) and Rename(lck, dst) strands the file**, for
    every content, destination and leftover, whenever the copy path is taken and the destination
    does not already hold the same bytes: src is gone, dst is what it was, the complete copy sits
    under the lock name. -/
theorem removeFirst_cut_lck_only (d : Disk) (b : Bytes) (hs : d.src = some b) (hc : d.cross = true)
    (hdir : d.lckDir = false) :
    moveCut .removeFirst (4 + b.length + 2) d = { d with src := none, lck := some b } := by
  rw [moveCut_cross .removeFirst d b hs hc hdir]
  have h1 : ¬ (4 + b.length + 2 < 4) := by omega
  have h2 : ¬ (4 + b.length + 2 ≤ 4 + b.length) := by omega
  simp [h1, h2]

theorem removeFirst_strands_when (d : Disk) (b : Bytes) (hs : d.src = some b) (hc : d.cross = true)
    (hdir : d.lckDir = false) (hd : d.dst ≠ some b) :
    condOf b (moveCut .removeFirst (4 + b.length + 2) d) = .stranded := by
  rw [removeFirst_cut_lck_only d b hs hc hdir]
  simp [condOf, hd]

/-- so the full statement is FALSE for the code as found (concrete witness: a 2-byte file, empty
    final directory, two file systems, cut after 8 steps = hook point fileutil.d.move.lck) -/
theorem removeFirst_strands : ¬ NeverStranded .removeFirst := by
  intro h
  have := h { src := some [1, 2], dst := none, lck := none, cross := true } [1, 2] 8 rfl
  revert this; decide

/-- what IS true of the code as found (the statement the task asked for, `move_cut_no_loss`, allows
    the lock name): stranded only ever means "complete under the lock name, src already removed" -/
theorem removeFirst_stranded_is_under_lck_partial (d : Disk) (b : Bytes) (hs : d.src = some b) (k : Nat)
    (h : condOf b (moveCut .removeFirst k d) = .stranded) :
    (moveCut .removeFirst k d).src = none ∧ (moveCut .removeFirst k d).lck = some b ∧
    (moveCut .removeFirst k d).dst = d.dst := by
  have hl := move_cut_no_loss .removeFirst d b hs k
  have hf := move_cut_final_intact .removeFirst d b hs k
  unfold condOf at h
  by_cases h1 : (moveCut .removeFirst k d).src = some b
  · simp [h1] at h; split at h <;> simp at h
  · by_cases h2 : (moveCut .removeFirst k d).dst = some b
    · simp [h1, h2] at h
    · rcases hl with hl | hl | ⟨hl1, hl2⟩
      · exact absurd hl h1
      · exact absurd hl h2
      · rcases hf with hf | hf
        · exact ⟨hl1, hl2, hf⟩
        · exact absurd hf h2

/-- the price of the repaired order: one cut point at which the file is delivered AND still staged
    (recovery finalizes it again: a second log record and the same bytes moved over themselves - what
    a crash between logging and moving does on one file system already) -/
theorem renameFirst_window (d : Disk) (b : Bytes) (hs : d.src = some b) (hc : d.cross = true)
    (hdir : d.lckDir = false) :
    condOf b (moveCut .renameFirst (4 + b.length + 2) d) = .stagedAndDelivered := by
  rw [moveCut_cross .renameFirst d b hs hc hdir]
  have h1 : ¬ (4 + b.length + 2 < 4) := by omega
  have h2 : ¬ (4 + b.length + 2 ≤ 4 + b.length) := by omega
  simp [h1, h2, condOf, hs]

/-- ... and running Move again from that state (what recovery does) ends in the delivered state -/
theorem renameFirst_redo (d : Disk) (b : Bytes) (hs : d.src = some b) (hc : d.cross = true)
    (hdir : d.lckDir = false) :
    move .renameFirst (moveCut .renameFirst (4 + b.length + 2) d) = move .renameFirst d := by
  rw [moveCut_cross .renameFirst d b hs hc hdir]
  have h1 : ¬ (4 + b.length + 2 < 4) := by omega
  have h2 : ¬ (4 + b.length + 2 ≤ 4 + b.length) := by omega
  simp [h1, h2, move_eq_closed, moveClosed, hs, hc, hdir]

/-- redoing Move from ANY cut state that still has the source ends in the delivered state: an
    interrupted copy (partial lock file) is simply started over -/
theorem redo_from_any_cut (ord : Order) (d : Disk) (b : Bytes) (hs : d.src = some b)
    (hdir : d.lckDir = false) (k : Nat) (hk : (moveCut ord k d).src = some b) :
    (move ord (moveCut ord k d)).dst = some b ∧ (move ord (moveCut ord k d)).src = none ∧
    (d.cross = true → (move ord (moveCut ord k d)).lck = none) := by
  have hcross : (moveCut ord k d).cross = d.cross := by
    rw [moveCut_eq_closed]; unfold cutClosed; simp only [hs]; repeat' split
    all_goals rfl
  have hdir' : (moveCut ord k d).lckDir = false := by
    rw [moveCut_eq_closed]; unfold cutClosed; simp only [hs]; repeat' split
    all_goals exact hdir
  have := move_delivers ord (moveCut ord k d) b hk (fun _ => hdir')
  rw [hcross] at this
  exact ⟨this.1, this.2.1, this.2.2.2.1⟩

/-! ### non-vacuity -/

example : condOf [1, 2] (moveCut .removeFirst 8 { src := some [1, 2], dst := none, lck := none, cross := true })
    = .stranded := by decide
example : condOf [1, 2] (moveCut .renameFirst 8 { src := some [1, 2], dst := none, lck := none, cross := true })
    = .stagedAndDelivered := by decide
example : condOf [1, 2] (moveCut .renameFirst 7 { src := some [1, 2], dst := none, lck := none, cross := true })
    = .staged := by decide
example : condOf [1, 2] (moveCut .renameFirst 9 { src := some [1, 2], dst := none, lck := none, cross := true })
    = .delivered := by decide

end Sts.Move
