/-
  C05 — each validated file version is delivered exactly once (receiver part).
-/
import StsModel.Lemmas.StageOnce
import StsModel.Lemmas.StageOrig

namespace Sts.Stage

/-! ## a completion of a version the cache already knows is discarded -/

/-- **duplicate_completion_discarded**: when the part just recorded completes the companion
    and the cache knows `n` with the same hash in a state other than `failed`, the locked
    region of `Receive` writes the companion, removes the staged copy and, if the file was
    already finalized, the companion and the path lock — and nothing else: no cache write, no
    queue push, no log record, no move. -/
theorem duplicate_completion_discarded (s : State) (n : Name) (m : Meta) (beg fin now : Int)
    (ex : Entry)
    (hcomp : isComplete (nextCmp s.disk n m beg fin).parts (nextCmp s.disk n m beg fin).size = true)
    (hc : s.mem.cache n = some ex) (hst : ex.state ≠ .failed) (hh : ex.hash = m.hash) :
    recordEffects s n m beg fin now =
      [Prim.lockAdd n, Prim.cmpTmp n (nextCmp s.disk n m beg fin), Prim.cmpCommit n now,
       Prim.rmPart n] ++
      (if ex.state.num ≥ 3 then [Prim.rmCmp n, Prim.lockDel n] else []) := by
  unfold recordEffects
  simp only [hcomp, if_true, hc]
  rw [if_pos ⟨hst, hh⟩]
  simp

/-- in particular the state after it differs from the state before only in the companion,
    the `.part` name and the path lock: cache, queues, wait map, log and final directory are
    untouched. -/
theorem duplicate_completion_state (s : State) (n : Name) (m : Meta) (beg fin now : Int)
    (ex : Entry)
    (hcomp : isComplete (nextCmp s.disk n m beg fin).parts (nextCmp s.disk n m beg fin).size = true)
    (hc : s.mem.cache n = some ex) (hst : ex.state ≠ .failed) (hh : ex.hash = m.hash) :
    let s' := run s (recordEffects s n m beg fin now)
    s'.mem.cache = s.mem.cache ∧ s'.mem.vq = s.mem.vq ∧ s'.mem.fq = s.mem.fq ∧
    s'.mem.wait = s.mem.wait ∧ s'.disk.log = s.disk.log ∧ s'.disk.final = s.disk.final ∧
    s'.disk.wait = s.disk.wait ∧ s'.disk.full = s.disk.full ∧ s'.disk.part n = none := by
  intro s'
  have h := duplicate_completion_discarded s n m beg fin now ex hcomp hc hst hh
  simp only [s', h]
  by_cases h3 : ex.state.num ≥ 3
  · rw [if_pos h3]
    simp [run, applyPrim, applyDisk, applyMem]
  · rw [if_neg h3]
    simp [run, applyPrim, applyDisk, applyMem]

example : ∃ (s : State) (ex : Entry),
    isComplete (nextCmp s.disk "a" ⟨"", "", 2, "h"⟩ 0 2).parts
      (nextCmp s.disk "a" ⟨"", "", 2, "h"⟩ 0 2).size = true ∧
    s.mem.cache "a" = some ex ∧ ex.state ≠ .failed ∧ ex.hash = "h" :=
  ⟨{ mem := { cache := fun x => if x = "a" then some ⟨"", "", "h", 2, .finalized, none, 0, false, 0, none⟩ else none } },
   ⟨"", "", "h", 2, .finalized, none, 0, false, 0, none⟩, by decide, by decide, by decide, by decide⟩

/-! ## the log record and the move happen only for validated files -/

/-- **fin_only_validated**, `finalize`: a `logAppend` / `renWaitFinal` among its primitives
    implies cache state `validated` and cached hash = the item's hash. -/
theorem fin_only_validated_finalize (s : State) (n : Name) (e : Entry) (now : Int)
    (p : Prim) (hp : p ∈ finalizeEffects s n e now) (hfin : p.isFin = true) :
    stateOf s.mem n = some .validated ∧ (s.mem.cache n).map (·.hash) = some e.hash :=
  (finalize_fin_spec s n e now p hp hfin).1

/-- **fin_only_validated**, finalize handler: a `logAppend` / `renWaitFinal` among its
    primitives implies that the item `e` it took from the queue is for a file in cache state
    `validated` with cached hash `e.hash`, and that `isFileReady` said yes. -/
theorem fin_only_validated_finh (s : State) (n : Name) (now : Int)
    (p : Prim) (hp : p ∈ finhEffects s n now) (hfin : p.isFin = true) :
    ∃ k e, s.mem.fq.find? (·.1 == n) = some (k, e) ∧
      stateOf s.mem n = some .validated ∧ (s.mem.cache n).map (·.hash) = some e.hash ∧
      isFileReady s n e now = .yes := by
  obtain ⟨k, e, h1, h2, h3, h4, _⟩ := finh_fin_spec s n now p hp hfin
  exact ⟨k, e, h1, h2, h3, h4⟩

/-- **fin_only_validated**, all operations: a receive-log record or a move into the final
    directory is performed by no operation but the finalize handler (in particular not by
    `Receive`, the validators, `Recover`, the cleaners or the queries), and by it only for a
    file whose cache state is `validated` with the hash of the queue item. -/
theorem fin_only_validated (H : Body → String) (s : State) (o : OpEv)
    (p : Prim) (hp : p ∈ effects H s o) (hfin : p.isFin = true) :
    ∃ n now, o = .finh n now ∧ stateOf s.mem n = some .validated ∧
      ∃ k e, s.mem.fq.find? (·.1 == n) = some (k, e) ∧ (s.mem.cache n).map (·.hash) = some e.hash ∧
        (p = Prim.logAppend (finRec n e now) ∨ p = Prim.renWaitFinal n (targetOf n e.renamed)) := by
  cases o with
  | finh n now =>
    obtain ⟨k, e, h1, h2, h3, _, h5⟩ := finh_fin_spec s n now p hp hfin
    exact ⟨n, now, rfl, h2, k, e, h1, h3, h5⟩
  | _ =>
    have := effects_notFin H s _ (by intros; simp) p hp
    rw [this] at hfin; cases hfin

/-! ## "did you receive these parts" -/

/-- **received_query_yes**, known file: the answer is yes when the cache knows `n` in a state
    other than `failed` with the same hash and target name (whatever the byte range). -/
theorem received_query_yes (s : State) (n : Name) (m : Meta) (beg fin : Int) (ex : Entry)
    (hc : s.mem.cache n = some ex) (hst : ex.state ≠ .failed) (hh : ex.hash = m.hash)
    (hr : ex.renamed = m.renamed) : receivedAnswer s n m beg fin = true := by
  simp [receivedAnswer, hc, hst, hh, hr]

/-- for a known file the three conditions are also necessary -/
theorem received_query_known_iff (s : State) (n : Name) (m : Meta) (beg fin : Int) (ex : Entry)
    (hc : s.mem.cache n = some ex) :
    receivedAnswer s n m beg fin = true ↔
      (ex.state ≠ .failed ∧ ex.hash = m.hash ∧ ex.renamed = m.renamed) := by
  simp [receivedAnswer, hc]

/-- **received_query_yes**, unknown file: the answer is yes exactly when the companion exists
    with equal (renamed, hash, prev) and the byte range is a recorded part. -/
theorem received_query_unknown_iff (s : State) (n : Name) (m : Meta) (beg fin : Int)
    (hc : s.mem.cache n = none) :
    receivedAnswer s n m beg fin = true ↔
      ∃ c, s.disk.cmp n = some c ∧ m.renamed = c.renamed ∧ m.hash = c.hash ∧ m.prev = c.prev ∧
        partExists c.parts beg fin = true := by
  simp only [receivedAnswer, hc]
  cases hcmp : s.disk.cmp n with
  | none => simp
  | some c =>
    simp only []
    by_cases h : m.renamed ≠ c.renamed ∨ m.hash ≠ c.hash ∨ m.prev ≠ c.prev
    · rw [if_pos h]
      simp only [Bool.false_eq_true, Option.some.injEq, exists_eq_left', false_iff]
      rintro ⟨h1, h2, h3, _⟩
      rcases h with h | h | h <;> contradiction
    · rw [if_neg h]
      simp only [not_or, Classical.not_not] at h
      simp [h.1, h.2.1, h.2.2]

/-! ## at most one log record per name in crash-free runs -/

/-- the runs `log_once_partial` speaks about: only completed operations (no crash, no crash
    inside an operation), no `Recover()` in the middle of the run, and every completion
    record of a name carries the same hash `hashOf name`. (Environment events — the consumer,
    corruption of staged bytes — writes through stale handles, retransmissions of any parts in
    any order, timer and cleaner firings, queries are all allowed.) -/
def OnceRun (hashOf : Name → String) (evs : List Ev) : Prop :=
  ∀ ev ∈ evs, match ev with
    | .op (.recover _ _) => False
    | .op (.record n m _ _ _) => m.hash = hashOf n
    | .op _ => True
    | _ => False

theorem OnceInv_init (hashOf : Name → String) : OnceInv hashOf init where
  once := by intro n; simp [init]
  logged := by intro r hr; simp [init] at hr
  waitf := by intro n hs h; simp [init, sig] at h
  chash := by intro n st hs h; simp [init, sig] at h
  vhash := by intro q hq; simp [init] at hq

theorem op_once {hashOf : Name → String} {s : State} (hi : OnceInv hashOf s) (H : Body → String)
    (o : OpEv) (hrec : ∀ now ns, o ≠ .recover now ns)
    (hh : ∀ n m b f now, o = .record n m b f now → m.hash = hashOf n) :
    OnceInv hashOf (run s (effects H s o)) := by
  cases o with
  | prepare n size now => exact hi.quiet (quiet_run_of_all _ _ _ (prepare_quietB s n size now))
  | recvOpen h n =>
    refine hi.quiet (quiet_run_of_all _ _ _ ?_)
    simp only [effects]; split <;> simp [quietB]
  | recvWrite h beg data now =>
    refine hi.quiet (quiet_run_of_all _ _ _ ?_)
    simp only [effects]; split <;> simp [quietB]
  | record n m beg fin now => exact record_once hi n m beg fin now (hh n m beg fin now rfl)
  | process n now => exact process_once hi H n now
  | finh n now => exact finh_once hi n now
  | timer n => exact hi.quiet (quiet_run_of_all _ _ _ (timer_quietB s n))
  | buildCache frm now => exact hi.quiet (quiet_run_of_all _ _ _ (buildCache_quietB s frm now hi.cached))
  | receivedQ n m => exact hi.quiet (quiet_run_of_all _ _ _ (received_quietB s n m))
  | recover now names => exact absurd rfl (hrec now names)
  | cleanStrays now names => exact hi.quiet (quiet_run_of_all _ _ _ (cleanStrays_quietB s now names))
  | cleanWaiting names => exact hi.quiet (cleanWaiting_quiet hashOf s names)
  | consume t => exact hi.quiet (quiet_run_of_all _ _ _ (by simp [effects, quietB]))
  | corrupt n ext pos v =>
    refine hi.quiet (quiet_run_of_all _ _ _ ?_)
    simp only [effects]; split <;> simp [quietB]

theorem onceInv_run (hashOf : Name → String) (H : Body → String) :
    ∀ (evs : List Ev) (s : State), OnceInv hashOf s → OnceRun hashOf evs →
      OnceInv hashOf (runEvs H s evs) := by
  intro evs
  induction evs with
  | nil => intro s hi _; exact hi
  | cons ev evs ih =>
    intro s hi hrun
    simp only [runEvs, List.foldl_cons]
    refine ih _ ?_ (fun e he => hrun e (by simp [he]))
    have hev := hrun ev (by simp)
    cases ev with
    | op o =>
      refine op_once hi H o ?_ ?_
      · intro now ns ho; subst ho; exact hev
      · intro n m b f now ho; subst ho; exact hev
    | cutOp k o => exact absurd hev (by simp)
    | crash => exact absurd hev (by simp)

/- Full statement asked for (DESIGN.md `C05_once`, receiver part, crash-free case): in a run
   without crash events and without `.corrupt`, in which all `record` events of a name carry
   one hash, the receive log has at most one record per name. As stated it is FALSE in the
   model, because `OpEv.recover` may occur in the middle of a run (witness
   `log_twice_with_midrun_recover_orig` below, about the code as found). Proved with the extra hypothesis "no `recover`
   event" (`Recover()` runs only at start-up in the code); the hypothesis "no `.corrupt`" is
   not needed. -/

/-- **log_once_partial**: in every crash-free run without a mid-run `Recover()` in which all
    completions of a name carry one hash, the receive log holds at most one record per name —
    whatever parts are retransmitted, in whatever order, through whatever (stale) handles,
    and whenever timers, cleaners and queries fire. Along the way: a logged name is
    `finalized`/`logged` in the cache, and a `validated` file always has its `.wait` file, so
    `putFileAway` never logs without moving. -/
theorem log_once_partial (H : Body → String) (hashOf : Name → String) (evs : List Ev)
    (hrun : OnceRun hashOf evs) :
    ∀ n, ((runEvs H init evs).disk.log.filter (·.name = n)).length ≤ 1 :=
  (onceInv_run hashOf H evs init (OnceInv_init hashOf) hrun).once

/-- the invariant behind it, for use by other properties -/
theorem once_invariant (H : Body → String) (hashOf : Name → String) (evs : List Ev)
    (hrun : OnceRun hashOf evs) : OnceInv hashOf (runEvs H init evs) :=
  onceInv_run hashOf H evs init (OnceInv_init hashOf) hrun

/-! ### non-vacuity, and why the extra hypothesis is needed -/

/-- Boolean form of `OnceRun` (for concrete runs) -/
def onceRunB (hashOf : Name → String) : Ev → Bool
  | .op (.recover _ _) => false
  | .op (.record n m _ _ _) => m.hash == hashOf n
  | .op _ => true
  | _ => false

theorem OnceRun_of_check (hashOf : Name → String) (evs : List Ev)
    (h : evs.all (onceRunB hashOf) = true) : OnceRun hashOf evs := by
  intro ev hev
  have := List.all_eq_true.mp h ev hev
  cases ev with
  | op o => cases o <;> simp_all [onceRunB]
  | cutOp k o => simp [onceRunB] at this
  | crash => simp [onceRunB] at this

/-- a hash that tells `[1, 2]` from everything else -/
def exHb : Body → String := fun b => if b = [1, 2] then "h" else "x"

/-- `n` arrives, is validated and delivered; then the whole file is sent again, written,
    completed (discarded), asked for, and the finalize handler, timer and cleaner fire. -/
def exDup : List Ev := [
  .op (.prepare "n" 2 0), .op (.recvOpen 1 "n"), .op (.recvWrite 1 0 [1, 2] 0),
  .op (.record "n" ⟨"", "", 2, "h"⟩ 0 2 0), .op (.process "n" 0), .op (.finh "n" 0),
  .op (.prepare "n" 2 5), .op (.recvOpen 1 "n"), .op (.recvWrite 1 0 [1, 2] 5),
  .op (.record "n" ⟨"", "", 2, "h"⟩ 0 2 5), .op (.process "n" 5), .op (.finh "n" 5),
  .op (.buildCache 0 5), .op (.receivedQ "n" ⟨"", "", 2, "h"⟩), .op (.cleanWaiting ["n"]),
  .op (.timer "n"), .op (.finh "n" 6)]

example : OnceRun (fun _ => "h") exDup ∧
    ((runEvs exHb init exDup).disk.log.filter (·.name = "n")).length = 1 ∧
    receivedAnswer (runEvs exHb init exDup) "n" ⟨"", "", 2, "h"⟩ 0 2 = true :=
  ⟨OnceRun_of_check _ _ (by decide), by decide, by decide⟩

/-- the finalize handler really logs and moves in that run (the hypotheses of
    `fin_only_validated` are met by a non-trivial state) -/
example :
    let s := runEvs exHb init (exDup.take 5)
    (finhEffects s "n" 0).any Prim.isFin = true ∧ stateOf s.mem "n" = some .validated := by decide

/-- `duplicate_completion_discarded` on a reachable state: `n` is delivered (state finalized),
    the whole file was written again; its completion is discarded, companion and lock go. -/
example :
    let s := runEvs exHb init (exDup.take 9)
    let m : Meta := ⟨"", "", 2, "h"⟩
    isComplete (nextCmp s.disk "n" m 0 2).parts (nextCmp s.disk "n" m 0 2).size = true ∧
    (s.mem.cache "n").map (fun e => (e.state, e.hash)) = some (.finalized, "h") ∧
    (recordEffects s "n" m 0 2 5).length = 6 ∧ s.disk.part "n" ≠ none ∧
    (run s (recordEffects s "n" m 0 2 5)).disk.part "n" = none := by decide

/-- a crash-free, corruption-free run, all completions of `n` with hash "h", in which
    `Recover()` is called three times in the middle of the run and writes arrive through
    handles opened before the file was renamed. -/
def exMidRecover : List Ev := [
  .op (.prepare "n" 2 0), .op (.recvOpen 1 "n"), .op (.recvOpen 2 "n"), .op (.recvOpen 3 "n"),
  .op (.recvWrite 1 0 [1, 2] 0), .op (.record "n" ⟨"", "", 2, "h"⟩ 0 2 0), .op (.process "n" 0),
  .op (.recvWrite 2 0 [9, 9] 0),                 -- stale handle: `<n>.wait` no longer matches
  .op (.prepare "n" 2 0), .op (.recvOpen 5 "n"),
  .op (.recover 0 ["n"]),                        -- `.part` + complete companion: revalidated, fails
  .op (.recvWrite 3 0 [1, 2] 0),                 -- stale handle: `<n>.wait` matches again
  .op (.recover 0 ["n"]),                        -- `.wait` + companion: validated, enqueued
  .op (.finh "n" 0),                             -- delivered and logged; `<n>.full` left behind
  .op (.prepare "n" 2 0), .op (.recvOpen 4 "n"), .op (.recvWrite 4 0 [1] 0),
  .op (.record "n" ⟨"", "", 2, "h"⟩ 0 1 0),      -- a first part of a retransmission: companion
  .op (.recvWrite 5 0 [1, 2] 0),                 -- stale handle: `<n>.full` gets good bytes
  .op (.recover 0 ["n"]),                        -- companion + `.full`: state finalized -> received -> validated
  .op (.finh "n" 0)]                             -- delivered and logged a second time

/-- **witness (code as found)**: with `Recover()` as it was before `fix:` "Recover validated,
    logged and delivered again a duplicate of a version that is already in the receive log"
    (`runEvsOrig`, Lemmas/StageOrig), `log_once` without the hypothesis "no mid-run `Recover()`"
    is false: no crash, no `.corrupt`, one hash per name — and two log records (and two
    deliveries) of `n`. -/
theorem log_twice_with_midrun_recover_orig :
    exMidRecover.all (fun ev => match ev with
      | .op (.corrupt _ _ _ _) => false
      | .op (.record _ m _ _ _) => m.hash == "h"
      | .op _ => true
      | _ => false) = true ∧
    ((runEvsOrig exHb init exMidRecover).disk.log.filter (·.name = "n")).length = 2 := by
  constructor <;> decide

/-- … and after the repair the same run logs `n` once: the third `Recover()` finds the cache
    entry finalized with the companion's hash and drops the staged duplicate (`<n>.full` and
    its companion) instead of validating it again. (Whether "no mid-run `Recover()`" can now be
    dropped from `log_once_partial` is open: this witness is gone, no other was found, the
    invariant `OnceInv` has not been extended to `Recover`.) -/
theorem midrun_recover_logs_once_after_repair :
    ((runEvs exHb init exMidRecover).disk.log.filter (·.name = "n")).length = 1 ∧
    (runEvs exHb init (exMidRecover.take 20)).disk.full "n" = none ∧
    (runEvs exHb init (exMidRecover.take 20)).disk.cmp "n" = none ∧
    stateOf (runEvs exHb init (exMidRecover.take 20)).mem "n" = some .finalized := by decide

/-! ### the second repaired defect: buildCache kept the oldest record of a name -/

/-- version "h" of `n` is delivered, then version "x" (bytes [3, 4]); the receiver restarts
    (no companion is staged: Recover only builds the cache); the sender, whose last
    acknowledgement was lost, sends version "x" again, completely. -/
def exRestartResend : List Ev := [
  .op (.prepare "n" 2 0), .op (.recvOpen 1 "n"), .op (.recvWrite 1 0 [1, 2] 0),
  .op (.record "n" ⟨"", "", 2, "h"⟩ 0 2 0), .op (.process "n" 0), .op (.finh "n" 0),
  .op (.prepare "n" 2 1), .op (.recvOpen 2 "n"), .op (.recvWrite 2 0 [3, 4] 1),
  .op (.record "n" ⟨"", "", 2, "x"⟩ 0 2 1), .op (.process "n" 1), .op (.finh "n" 1),
  .crash, .op (.recover 5 []),
  .op (.prepare "n" 2 6), .op (.recvOpen 3 "n"), .op (.recvWrite 3 0 [3, 4] 6),
  .op (.record "n" ⟨"", "", 2, "x"⟩ 0 2 6), .op (.process "n" 7), .op (.finh "n" 7)]

/-- **witness (buildCache as found, `runEvsG true false`)**: after the restart the cache described
    the OLDEST delivered version of `n` (the first record of a name won in buildCache), so the
    retransmission of the latest version "x" was not recognised as a duplicate by Receive:
    it was validated, logged and delivered a second time (three log lines). After `fix:`
    "buildCache kept the oldest of several records of a name" the cache says "x", the duplicate
    branch of Receive drops the copy, and the log keeps its two lines. -/
theorem restart_forgets_latest_version_orig :
    ((runEvsG true false exHb init exRestartResend).disk.log.map (·.hash)) = ["h", "x", "x"] ∧
    ((runEvs exHb init exRestartResend).disk.log.map (·.hash)) = ["h", "x"] ∧
    ((runEvs exHb init (exRestartResend.take 14)).mem.cache "n").map (fun e => (e.state, e.hash))
      = some (.logged, "x") ∧
    (runEvs exHb init exRestartResend).disk.part "n" = none ∧
    (runEvs exHb init exRestartResend).disk.cmp "n" = none := by decide

end Sts.Stage
