/-
  C17, clause "what is delivered is always one complete version, never a mixture" — the
  sender half: the announced hash is the hash of a COMPLETE version of the file (all of it,
  as it was when it was hashed), so whatever the receiver validates against it (C01) is,
  under collision freedom, byte-identical to that version — however the file changed between
  the scan's stat, the hashing and the transmission.
-/
import StsModel.Model.Announce

namespace Sts.Announce

/-- collision freedom of the hash on the bodies involved (an explicit hypothesis, never an axiom) -/
def CollisionFree (H : Body → String) : Prop := ∀ a b, H a = H b → a = b

/-- the announced hash is the hash of a complete version: the file as it was when hashed -/
theorem announced_is_hash_of_a_version (H : Body → String) (sizeAtScan : Nat) (c : Body) :
    (announce H sizeAtScan c).2 = H c := rfl

/-- never a mixture: if the receiver validates what was streamed — for ANY content at scan
    time (only its size matters), at hash time and at send time — the validated bytes are
    exactly the complete version that was hashed. -/
theorem never_a_mixture (H : Body → String) (hcf : CollisionFree H)
    (sizeAtScan : Nat) (contentAtHash contentAtSend : Body)
    (hv : validates H (announce H sizeAtScan contentAtHash) (streamed sizeAtScan contentAtSend) = true) :
    streamed sizeAtScan contentAtSend = contentAtHash := by
  simp only [validates, announce, Bool.and_eq_true, beq_iff_eq] at hv
  exact hcf _ _ hv.2

/-- a file rewritten (to a different length) between the stat and the hashing is never
    validated: the receiver reports it as failed and the next scan sends the new version. -/
theorem changed_length_never_validates (H : Body → String) (hcf : CollisionFree H)
    (sizeAtScan : Nat) (contentAtHash contentAtSend : Body)
    (hlen : contentAtHash.length ≠ sizeAtScan) :
    validates H (announce H sizeAtScan contentAtHash) (streamed sizeAtScan contentAtSend) = false := by
  cases hv : validates H (announce H sizeAtScan contentAtHash) (streamed sizeAtScan contentAtSend) with
  | false => rfl
  | true =>
    have h := never_a_mixture H hcf _ _ _ hv
    simp only [validates, announce, Bool.and_eq_true, beq_iff_eq] at hv
    rw [h] at hv
    exact absurd hv.1 hlen

/-- the regression "hash only the bytes that will be sent" (hash of the first `size` bytes)
    breaks this: a prefix of the new content validates and is delivered as if complete. -/
theorem prefix_hash_delivers_a_mixture :
    let H : Body → String := fun b => toString b
    let announcePrefix := fun (size : Nat) (c : Body) => (size, H (c.take size))
    validates H (announcePrefix 2 [7, 8, 9]) (streamed 2 [7, 8, 9]) = true ∧
    streamed 2 [7, 8, 9] ≠ [7, 8, 9] ∧ streamed 2 [7, 8, 9] ≠ [1, 2] := by decide

example : validates (fun b => toString b) (announce (fun b => toString b) 3 [1, 2, 3]) (streamed 3 [1, 2, 3]) = true := by decide

end Sts.Announce
