/-
  C10 — files leave the queue in configured order with a consistent predecessor chain.

  Statements about the executable model of queue/queue.go (Model/Queue.lean), for every
  history of Push and Pop from the empty queue.

  * `binsearch_eq_linear`       full (stands in Lemmas/QueueOrder.lean)
  * `list_sorted`               full
  * `pop_is_min`                full
  * `prev_safe`                 full
  * `prev_acyclic`              full (hypothesis of the property: every name is pushed at most once)
  * `prev_is_last_completed`    full for the repaired Push, for groups without Recovered files and
                                without files queued as already sent; re-pushes are allowed
  * `repush_lost_anchor_before_fix`  witness of the defect S7 in the unrepaired Push
-/
import StsModel.Lemmas.QueueAnchor

namespace Sts.Queue

/-- C10 `list_sorted`: after any history every group's list is sorted by its tag's order
    (`Sorted`: (time, name) ascending for fifo, time descending then name for lifo, name for
    the alphabetic order, arrival where addFile has no matcher); moreover list, head file,
    byFile and the linked chain agree (`GroupSt.WF`). -/
theorem list_sorted (c : Conf) (ops : List Op) :
    ∀ g ∈ (run c [] ops).1, Sorted g.conf.order g.nodes g.list ∧ g.WF := fun g hg =>
  ⟨((run_wf c ⟨by simp, by simp, by simp [GroupsSorted]⟩ ops).groups g hg).sorted,
   (run_wf c ⟨by simp, by simp, by simp [GroupsSorted]⟩ ops).groups g hg⟩

/-- C10 `pop_is_min`: Pop returns a chunk of the first listed file of the served group that
    is not fully allocated, and that file is the minimum, in the configured order, of the
    files of the group that are not fully allocated. -/
theorem pop_is_min {s : State} (h : State.WF s) {now : Int} {s' : State} {ch : Chunk}
    (hp : pop s now = (s', some ch)) :
    ∃ g ∈ s, g.name = ch.group ∧ ch.id ∈ g.list ∧ nodeName g.nodes ch.id = ch.name ∧
      g.list.find? (fun x => !isAllocated g.nodes x) = some ch.id ∧
      ∀ x ∈ g.list, x ≠ ch.id → isAllocated g.nodes x = false → before g.conf.order g.nodes ch.id x := by
  obtain ⟨pre, g, rest, n, e1, e2, e3, e4, e5⟩ := pop_some_spec h hp
  have hgw := h.groups g (by rw [e1]; simp)
  obtain ⟨rest', hl, _, _⟩ := nextFile_head hgw e3
  have hsc := scanned_spec hgw now
  have hem := emit_spec hsc.1 hl
  have hfind : g.list.find? (fun x => !isAllocated g.nodes x) = some n := by
    unfold GroupSt.nextFile at e3
    by_cases hr : g.ready now = true
    · simpa [hr] using e3
    · simp [hr] at e3
  have hid : ch.id = n := by rw [e4]; exact hem.2.2.2.2.2.2.2.2.2.2.2
  obtain ⟨hpn, as, bs, hsplit, has⟩ := List.find?_eq_some_iff_append.mp hfind
  refine ⟨g, by rw [e1]; simp, ?_, ?_, ?_, by rw [hid]; exact hfind, fun x hx hxn hxa => ?_⟩
  · rw [e4, hem.2.2.2.2.2.2.2.2.2.2.1, hsc.2.2.1]
  · rw [hid, hsplit]; simp
  · rw [hid, e4, hem.2.2.2.2.2.2.2.2.2.1, hsc.2.2.2.1.nodeName]
  · rw [hid] at hxn ⊢
    have hs := hgw.sorted
    rw [hsplit] at hs hx
    unfold Sorted at hs
    rw [List.pairwise_append, List.pairwise_cons] at hs
    simp at hx
    rcases hx with hx | hx | hx
    · have := has x hx; simp [hxa] at this
    · exact absurd hx hxn
    · exact hs.2.1.1 x hx

/-- `pop_is_min` for every history from the empty queue -/
theorem pop_is_min_reachable (c : Conf) (ops : List Op) {now : Int} {s' : State} {ch : Chunk}
    (hp : pop (run c [] ops).1 now = (s', some ch)) :
    ∃ g ∈ (run c [] ops).1, g.name = ch.group ∧ ch.id ∈ g.list ∧ nodeName g.nodes ch.id = ch.name ∧
      g.list.find? (fun x => !isAllocated g.nodes x) = some ch.id ∧
      ∀ x ∈ g.list, x ≠ ch.id → isAllocated g.nodes x = false → before g.conf.order g.nodes ch.id x :=
  pop_is_min (hist_reachable c ops).wf hp

theorem clearSelf_ne (raw nm : String) (h : (if (raw != "" && raw == nm) = true then "" else raw) ≠ "") :
    (if (raw != "" && raw == nm) = true then "" else raw) ≠ nm := by
  by_cases hc : (raw != "" && raw == nm) = true
  · simp [hc] at h
  · simp only [hc, Bool.false_eq_true, if_false] at h ⊢
    intro e
    apply hc
    simp [e]
    exact e ▸ h

/-- C10 `prev_safe`. For the chunk `ch` that Pop returns after any history `ops`:
    * a group of an unordered tag announces no predecessor;
    * a file never names itself;
    * a Recovered (resumed) file announces its own predecessor (the one it was pushed with),
      or none if that would be itself / the tag is unordered;
    * any other file announces nothing, or the name of a file of the same group that the
      history has made done: emitted completely by an earlier Pop, or pushed fully
      allocated ("queued as already sent"). -/
theorem prev_safe (c : Conf) (ops : List Op) (now : Int) {s' : State} {ch : Chunk}
    (hp : pop (run c [] ops).1 now = (s', some ch)) :
    ∃ g ∈ (run c [] ops).1, g.name = ch.group ∧
      (g.conf.order = Order.none → ch.prev = "") ∧
      (ch.prev ≠ "" → ch.prev ≠ ch.name) ∧
      (ch.recovered = true → ch.prev = "" ∨
        ∃ f r, Op.push f ∈ ops ∧ f.name = ch.name ∧ f.rcv = some r ∧ ch.prev = r.prev) ∧
      (ch.recovered = false → ch.prev ≠ "" →
        DoneIn c ops (run c [] ops).2 ch.group ch.prev ∧ c.grouper ch.prev = ch.group) := by
  have hh := hist_reachable c ops
  generalize (run c [] ops).1 = s at hp hh
  generalize (run c [] ops).2 = as at hh
  have h := hh.wf
  obtain ⟨pre, g, rest, n, e1, e2, e3, e4, e5⟩ := pop_some_spec h hp
  have hgs : g ∈ s := by rw [e1]; simp
  have hgw := h.groups g hgs
  obtain ⟨rest', hl, _, _⟩ := nextFile_head hgw e3
  have hsc := scanned_spec hgw now
  have hem := emit_spec hsc.1 hl
  obtain ⟨hpe, hrec⟩ := emit_prev_eq hsc.1 hl
  have hgrp : ch.group = g.name := by rw [e4, hem.2.2.2.2.2.2.2.2.2.2.1, hsc.2.2.1]
  have hname : ch.name = nodeName g.nodes n := by rw [e4, hem.2.2.2.2.2.2.2.2.2.1, hsc.2.2.2.1.nodeName]
  rw [← e4] at hpe hrec
  rw [hsc.2.1, hsc.2.2.2.1.fileOf, hsc.2.2.2.1.nodeName, ← hname] at hpe
  rw [hsc.2.2.2.1.fileOf] at hrec
  dsimp only at hpe
  have hnl : n < g.nodes.length := by
    have := hsc.1.valid (i := n) (by rw [hl]; simp); rw [hsc.2.2.2.2.1] at this; exact this
  refine ⟨g, hgs, hgrp.symm, ?_, ?_, ?_, ?_⟩
  · intro ho; rw [hpe, ho]; simp
  · intro hne; rw [hpe] at hne ⊢; exact clearSelf_ne _ _ hne
  · intro hr
    rw [hrec] at hr
    cases hrc : (fileOf g.nodes n).rcv with
    | none => rw [hrc] at hr; cases hr
    | some r =>
      obtain ⟨f, hf1, hf2, hf3, hf4⟩ := hh.src g hgs n hnl
      rw [hrc] at hf4
      cases hfr : f.rcv with
      | none => rw [hfr] at hf4; simp at hf4
      | some r0 =>
        rw [hfr] at hf4; simp at hf4
        rw [hpe, hrc]
        dsimp only
        by_cases ho : g.conf.order = Order.none
        · left; simp [ho]
        · have ho' : (g.conf.order != Order.none) = true := by simpa using ho
          simp only [ho', if_true]
          split
          · left; rfl
          · right; exact ⟨f, r0, hf1, hf2.trans hname.symm, hfr, hf4.symm⟩
  · intro hr hne
    rw [hrec] at hr
    have hrc : (fileOf g.nodes n).rcv = none := by
      cases hx : (fileOf g.nodes n).rcv with
      | none => rfl
      | some r => rw [hx] at hr; cases hr
    rw [hpe, hrc] at hne ⊢
    dsimp only at hne ⊢
    by_cases ho : g.conf.order = Order.none
    · simp [ho] at hne
    · have ho' : (g.conf.order != Order.none) = true := by simpa using ho
      simp only [ho', if_true] at hne ⊢
      cases hgp : getPrev (g.scanned now).nodes n with
      | none => simp [hgp] at hne
      | some p =>
        simp only [hgp] at hne ⊢
        rw [hsc.2.2.2.1.nodeName] at hne ⊢
        -- p is the unlisted predecessor of the served file: fully allocated
        obtain ⟨pre0, hpl, hrep, hpa⟩ := hsc.1.chain
        rw [hl] at hrep
        have hpp : p ∈ pre0 := by
          have := hrep.prev n
          rw [hgp, predIn_append hrep.nodup] at this
          simp at this
          exact List.mem_of_getLast? this.symm
        have hpal : isAllocated g.nodes p = true := by
          rw [← hsc.2.2.2.1.isAllocated]; exact hpa p hpp
        have hpl2 : p < g.nodes.length := isAllocated_lt hpal
        split
        · rename_i hc; simp [hc] at hne
        · rw [hgrp]
          obtain ⟨f, _, hf2, hf3, _⟩ := hh.src g hgs p hpl2
          exact ⟨hh.done g hgs p hpal, by rw [← hf2]; exact hf3⟩


/-! ## acyclicity of the announced-predecessor relation -/

theorem run_append (c : Conf) (a b : List Op) (s : State) :
    run c s (a ++ b) = ((run c (run c s a).1 b).1, (run c s a).2 ++ (run c (run c s a).1 b).2) := by
  induction a generalizing s with
  | nil => simp [run]
  | cons op a ih => rw [List.cons_append, run_cons, run_cons, ih]; simp

theorem run_length (c : Conf) (ops : List Op) (s : State) : (run c s ops).2.length = ops.length := by
  induction ops generalizing s with
  | nil => simp [run]
  | cons op ops ih => rw [run_cons]; simp [ih]

/-- the two facts behind `prev_acyclic`, for the chunk answered by a Pop that follows the
    history `pre`, when no name is pushed twice: the announced predecessor was made done by
    `pre`, the file itself was not. -/
theorem prev_edge (c : Conf) (pre : List Op) (now : Int) (hn : (pushNames pre).Nodup) {s' : State} {ch : Chunk}
    (hp : pop (run c [] pre).1 now = (s', some ch)) :
    c.grouper ch.name = ch.group ∧ ¬ DoneIn c pre (run c [] pre).2 ch.group ch.name ∧
    (ch.recovered = false → ch.prev ≠ "" →
      DoneIn c pre (run c [] pre).2 ch.group ch.prev ∧ c.grouper ch.prev = ch.group) := by
  have hu := uniq_reachable c pre hn
  obtain ⟨g0, _, _, _, _, _, hps⟩ := prev_safe c pre now hp
  refine ⟨?_, ?_, hps⟩
  all_goals
    have hh := hu.hist
    obtain ⟨pre', g, rest, n, e1, e2, e3, e4, e5⟩ := pop_some_spec hh.wf hp
    have hgs : g ∈ (run c [] pre).1 := by rw [e1]; simp
    have hgw := hh.wf.groups g hgs
    obtain ⟨rest', hl, hna, _⟩ := nextFile_head hgw e3
    have hsc := scanned_spec hgw now
    have hem := emit_spec hsc.1 hl
    have hnl : n < g.nodes.length := by
      have := hsc.1.valid (i := n) (by rw [hl]; simp); rw [hsc.2.2.2.2.1] at this; exact this
    have hgrp : ch.group = g.name := by rw [e4, hem.2.2.2.2.2.2.2.2.2.2.1, hsc.2.2.1]
    have hname : ch.name = nodeName g.nodes n := by rw [e4, hem.2.2.2.2.2.2.2.2.2.1, hsc.2.2.2.1.nodeName]
  · obtain ⟨f, _, hf2, hf3, _⟩ := hh.src g hgs n hnl
    rw [hname, hgrp, ← hf2]; exact hf3
  · intro hd
    rw [hname, hgrp] at hd
    have := hu.doneAlloc g hgs n hnl hd
    rw [hna] at this; cases this


/-- decidable form of `DoneIn` -/
def doneB (c : Conf) (ops : List Op) (as : List (Option Chunk)) (grp nm : String) : Bool :=
  as.any (fun a => match a with
    | some ch => ch.completed && ch.group == grp && ch.name == nm
    | none => false) ||
  ops.any (fun op => match op with
    | .push f => f.name == nm && c.grouper nm == grp && f.allocatedAtPush
    | .pop _ => false)

theorem doneB_iff (c : Conf) (ops : List Op) (as : List (Option Chunk)) (grp nm : String) :
    doneB c ops as grp nm = true ↔ DoneIn c ops as grp nm := by
  unfold doneB DoneIn
  simp only [Bool.or_eq_true, List.any_eq_true]
  constructor
  · rintro (⟨a, ha, h⟩ | ⟨op, hop, h⟩)
    · cases a with
      | none => simp at h
      | some ch => simp at h; exact Or.inl ⟨ch, ha, h.1.1, h.1.2, h.2⟩
    · cases op with
      | pop now => simp at h
      | push f => simp at h; exact Or.inr ⟨f, hop, h.1.1, h.1.2, h.2⟩
  · rintro (⟨ch, ha, h1, h2, h3⟩ | ⟨f, hop, h1, h2, h3⟩)
    · exact Or.inl ⟨some ch, ha, by simp [h1, h2, h3]⟩
    · exact Or.inr ⟨.push f, hop, by simp [h1, h2, h3]⟩

/-- the file `nm` is done after the first `k` operations of the history -/
def doneAt (c : Conf) (ops : List Op) (as : List (Option Chunk)) (nm : String) (k : Nat) : Bool :=
  doneB c (ops.take k) (as.take k) (c.grouper nm) nm

/-- position in the history at which a file becomes done (`length + 1` if never) -/
def rank (c : Conf) (ops : List Op) (as : List (Option Chunk)) (nm : String) : Nat :=
  firstTrue (doneAt c ops as nm) 0 (ops.length + 1)

theorem doneAt_mono (c : Conf) (ops : List Op) (as : List (Option Chunk)) (nm : String) {k k' : Nat} (hk : k ≤ k')
    (h : doneAt c ops as nm k = true) : doneAt c ops as nm k' = true := by
  unfold doneAt at h ⊢
  rw [doneB_iff] at h ⊢
  exact h.mono (fun x hx => (List.take_sublist_take_left hk).subset hx)
    (fun x hx => (List.take_sublist_take_left hk).subset hx)

/-- C10 `prev_acyclic`: in a history in which every name is pushed at most once, the
    announced-predecessor relation over all chunks ever emitted is acyclic: there is a rank
    on names (the position in the history at which a file becomes done) that every
    announced predecessor of a file that is not Recovered strictly decreases. (A Recovered
    file announces whatever predecessor it was pushed with, from the run before the
    restart; the statement is about the edges the queue itself creates.) -/
theorem prev_acyclic (c : Conf) (ops : List Op) (hn : (pushNames ops).Nodup) (k : Nat) (ch : Chunk)
    (hk : (run c [] ops).2[k]? = some (some ch)) (hr : ch.recovered = false) (hpv : ch.prev ≠ "") :
    rank c ops (run c [] ops).2 ch.prev < rank c ops (run c [] ops).2 ch.name := by
  have hlen := run_length c ops []
  have hkl : k < ops.length := by
    have := (List.getElem?_eq_some_iff.mp hk).1; omega
  -- split the history at k
  have hsplit : ops = ops.take k ++ ops[k] :: ops.drop (k + 1) := by
    rw [List.getElem_cons_drop]; exact (List.take_append_drop k ops).symm
  generalize hpre : ops.take k = pre at hsplit
  generalize hpost : ops.drop (k + 1) = post at hsplit
  generalize hop : ops[k] = op at hsplit
  have hrun : run c [] ops = ((run c (run c [] pre).1 (op :: post)).1, (run c [] pre).2 ++ (run c (run c [] pre).1 (op :: post)).2) := by
    conv => lhs; rw [hsplit]
    exact run_append c pre (op :: post) []
  have hprelen : pre.length = k := by rw [← hpre]; simp; omega
  have htake : (run c [] ops).2.take k = (run c [] pre).2 := by
    rw [hrun]; simp only
    rw [List.take_left' (by rw [run_length]; exact hprelen)]
  have hans : (step c (run c [] pre).1 op).2 = some ch := by
    have : (run c [] ops).2[k]? = some (step c (run c [] pre).1 op).2 := by
      rw [hrun]; simp only
      rw [List.getElem?_append_right (by rw [run_length]; omega), run_length, hprelen, run_cons]; simp
    rw [hk] at this; simpa using this.symm
  cases op with
  | push f => simp [step] at hans
  | pop now =>
    have hp : pop (run c [] pre).1 now = ((pop (run c [] pre).1 now).1, some ch) := by
      have : (pop (run c [] pre).1 now).2 = some ch := hans
      rw [← this]
    have hnpre : (pushNames pre).Nodup := by
      rw [hsplit, pushNames_append] at hn; exact (List.nodup_append.mp hn).1
    obtain ⟨hg1, hnd, hedge⟩ := prev_edge c pre now hnpre hp
    obtain ⟨hd, hg2⟩ := hedge hr hpv
    have h1 : doneAt c ops (run c [] ops).2 ch.prev k = true := by
      unfold doneAt; rw [doneB_iff, hpre, htake, hg2]; exact hd
    have h2 : doneAt c ops (run c [] ops).2 ch.name k = false := by
      cases hx : doneAt c ops (run c [] ops).2 ch.name k with
      | false => rfl
      | true =>
        unfold doneAt at hx; rw [doneB_iff, hpre, htake, hg1] at hx
        exact absurd hx hnd
    have s1 := firstTrue_spec (doneAt c ops (run c [] ops).2 ch.prev) 0 (ops.length + 1)
    have s2 := firstTrue_spec (doneAt c ops (run c [] ops).2 ch.name) 0 (ops.length + 1)
    unfold rank
    have r1 : firstTrue (doneAt c ops (run c [] ops).2 ch.prev) 0 (ops.length + 1) ≤ k := by
      rcases Nat.lt_or_ge k (firstTrue (doneAt c ops (run c [] ops).2 ch.prev) 0 (ops.length + 1)) with h | h
      · have := s1.2.2.1 k (Nat.zero_le _) h
        rw [h1] at this; cases this
      · exact h
    have r2 : k < firstTrue (doneAt c ops (run c [] ops).2 ch.name) 0 (ops.length + 1) := by
      rcases Nat.lt_or_ge k (firstTrue (doneAt c ops (run c [] ops).2 ch.name) 0 (ops.length + 1)) with h | h
      · exact h
      · have := s2.2.2.2 (by omega)
        have := doneAt_mono c ops _ ch.name h this
        rw [h2] at this; cases this
    omega


/-! ## the predecessor in a run without restarts -/

/-- C10 `prev_is_last_completed` (for the repaired Push). In a group into which no Recovered
    file and no file that is fully allocated already was ever pushed (no restart, nothing
    "queued as already sent"), every chunk announces the file of its group that was
    completed most recently - none for the first file, none for an unordered tag, and none
    if that file carries the chunk's own name (the same name queued again). Names may be
    pushed again at any time (pending, half emitted or completed). -/
theorem prev_is_last_completed (c : Conf) (ops : List Op) (now : Int) {s' : State} {ch : Chunk}
    (hp : pop (run c [] ops).1 now = (s', some ch)) (hpure : PureGroup c ops ch.group) :
    ∃ g ∈ (run c [] ops).1, g.name = ch.group ∧
      ch.prev = (if g.conf.order = Order.none then ""
                 else if lastCompleted (run c [] ops).2 ch.group = ch.name then ""
                 else lastCompleted (run c [] ops).2 ch.group) := by
  have hpr := pure_reachable c ops ch.group hpure
  generalize (run c [] ops).1 = s at hp hpr
  generalize (run c [] ops).2 = as at hpr
  have hh := hpr.hist
  have h := hh.wf
  obtain ⟨pre, g, rest, n, e1, e2, e3, e4, e5⟩ := pop_some_spec h hp
  have hgs : g ∈ s := by rw [e1]; simp
  have hgw := h.groups g hgs
  obtain ⟨rest', hl, _, _⟩ := nextFile_head hgw e3
  have hsc := scanned_spec hgw now
  have hem := emit_spec hsc.1 hl
  have hgrp : ch.group = g.name := by rw [e4, hem.2.2.2.2.2.2.2.2.2.2.1, hsc.2.2.1]
  have hpure' := scanned_pure hgw (hpr.pending g hgs hgrp.symm) now
  rw [hpure'] at hl hem e4
  obtain ⟨hpe, _⟩ := emit_prev_eq hgw hl
  have hname : ch.name = nodeName g.nodes n := by rw [e4, hem.2.2.2.2.2.2.2.2.2.1]
  have hnl : n < g.nodes.length := hgw.valid (by rw [hl]; simp)
  have hrcv : (fileOf g.nodes n).rcv = none := by
    obtain ⟨f, hf1, hf2, hf3, hf4⟩ := hh.src g hgs n hnl
    have := (hpure f hf1 (hf3.trans hgrp.symm)).1
    rw [this] at hf4
    cases hx : (fileOf g.nodes n).rcv with
    | none => rfl
    | some r => rw [hx] at hf4; simp at hf4
  have hanc : g.anchor = getPrev g.nodes n := by unfold GroupSt.anchor; rw [hl]
  have hA := hpr.anchor g hgs hgrp.symm
  unfold GroupSt.anchorName at hA
  rw [hanc] at hA
  refine ⟨g, hgs, hgrp.symm, ?_⟩
  rw [e4, hpe, hrcv]
  dsimp only
  rw [← hname, ← e4]
  have fin : ∀ raw : String, raw = lastCompleted as ch.group →
      (if ((if (g.conf.order != Order.none) = true then raw else "") != "" &&
            (if (g.conf.order != Order.none) = true then raw else "") == ch.name) = true then ""
        else if (g.conf.order != Order.none) = true then raw else "") =
      (if g.conf.order = Order.none then ""
        else if lastCompleted as ch.group = ch.name then "" else lastCompleted as ch.group) := by
    intro raw hraw
    subst hraw
    by_cases ho : g.conf.order = Order.none
    · simp [ho]
    · have ho' : (g.conf.order != Order.none) = true := by simpa using ho
      simp only [ho', if_true, ho, if_false]
      by_cases hlc : lastCompleted as ch.group = ch.name
      · rw [hlc]
        by_cases hn : ch.name = ""
        · simp [hn]
        · simp [hn]
      · have : (lastCompleted as ch.group == ch.name) = false := by simpa using hlc
        simp [this, hlc]
  cases hgp : getPrev g.nodes n with
  | none => rw [hgp] at hA; exact fin _ hA
  | some p => rw [hgp] at hA; exact fin _ hA


/-! ## the defect S7 in the unrepaired Push -/

/-- Push with the loop body as it was before `fix: re-queuing the only pending file of a
    group lost its predecessor` -/
def pushOld (c : Conf) (s : State) (f : FileInfo) : State :=
  let gname := c.grouper f.name
  if hasGroup s gname then modifyGroup s gname (fun g => g.pushFileOld f)
  else
    match c.tags.find? (fun t => t.name == c.tagger gname) with
    | none => s
    | some t => modifyGroup (addGroup { name := gname, conf := t } s) gname (fun g => g.pushFileOld f)

def s7Conf : Conf := { tags := [⟨"t", 0, .fifo, 0, 0⟩], tagger := fun _ => "t", grouper := fun _ => "t" }
def s7A : FileInfo := ⟨"a", 5, 1, none⟩
def s7B : FileInfo := ⟨"b", 5, 2, none⟩

/-- S7 (genuine defect of the unchanged code, repaired): push a, pop a completely, push b,
    push b again, pop. With the old Push the second `b` announces no predecessor although
    `a` is the file of its group completed most recently; with the repaired Push it
    announces `a`. -/
theorem repush_lost_anchor_before_fix :
    ((pop (pushOld s7Conf (pushOld s7Conf (pop (pushOld s7Conf [] s7A) 100).1 s7B) s7B) 100).2.map
        (fun ch => (ch.name, ch.prev)) = some ("b", "")) ∧
    ((pop (pushOld s7Conf [] s7A) 100).2.map (fun ch => (ch.name, ch.completed)) = some ("a", true)) ∧
    ((pop (push s7Conf (push s7Conf (pop (push s7Conf [] s7A) 100).1 s7B) s7B) 100).2.map
        (fun ch => (ch.name, ch.prev)) = some ("b", "a")) := by
  refine ⟨by decide, by decide, by decide⟩

/-! ## non-vacuity -/

def exConf : Conf :=
  { tags := [⟨"t", 0, .fifo, 4, 0⟩, ⟨"u", 0, .none, 0, 0⟩],
    tagger := fun g => String.ofList (g.toList.takeWhile (· ≠ '.')),
    grouper := fun n => String.ofList (n.toList.takeWhile (· ≠ '/')) }

/-- late arrival older than a half-emitted file, a placeholder, a resumed file with its own
    predecessor, an unordered group: the answers of the model -/
def exOps : List Op :=
  [.push ⟨"t.g/m", 10, 5, none⟩, .pop 100, .push ⟨"t.g/a", 3, 1, none⟩, .pop 100, .pop 100, .pop 100,
   .push ⟨"t.g/p", 9, 6, some ⟨"", [], 0, 0⟩⟩, .push ⟨"t.g/r", 20, 7, some ⟨"t.g/zz", [⟨2, 7⟩, ⟨12, 20⟩], 0, 0⟩⟩,
   .push ⟨"u.h/x", 2, 9, none⟩, .pop 100, .pop 100, .pop 100]

example : (run exConf [] exOps).2.filterMap (fun a => a.map (fun ch => (ch.name, ch.offset, ch.length, ch.prev))) =
    [("t.g/m", 0, 4, ""), ("t.g/a", 0, 3, ""), ("t.g/m", 4, 4, "t.g/a"), ("t.g/m", 8, 2, "t.g/a"),
     ("t.g/r", 2, 4, "t.g/zz"), ("u.h/x", 0, 2, ""), ("t.g/r", 6, 1, "t.g/zz")] := by decide

/-- the hypotheses of `prev_acyclic` and `prev_is_last_completed` are satisfiable by a history
    with several chunks and predecessors -/
example : (pushNames (exOps.take 6)).Nodup ∧ PureGroup exConf (exOps.take 6) "t.g" := by
  refine ⟨by decide, ?_⟩
  intro f hf _
  simp [exOps] at hf
  rcases hf with rfl | rfl <;> exact ⟨rfl, by decide⟩

example : search 5 (fun k => decide (3 ≤ k)) = 3 ∧ firstTrue (fun k => decide (3 ≤ k)) 0 5 = 3 := by decide

end Sts.Queue
