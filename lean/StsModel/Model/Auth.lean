/-
  Request authorisation and the front ends of the receiver's routes (properties C14, C15).

  Mirrors main/server.go standardValidator; http/server.go Serve (route table),
  normalizeRequestPath, getSourceName, getKey, getGateKeeper, handleValidate, routeHealthCheck,
  routeData, routeDataRecovery, routeValidate, routePartials, routeFile; the part of
  net/http's ServeMux (findHandler, cleanPath, matchOrRedirect) and net/url (setPath,
  EscapedPath) that decides which handler a request line reaches; stage/local.go New / Stop /
  Recover as far as the ready flag goes.

  External calls are parameters or recorded calls: what the gatekeeper does with a name is
  not modelled here (that is stage/local.go, see Model/Path.lean for the paths it builds);
  the model records which gatekeeper methods are called with which names, which is what the
  harness records on the real server through a forwarding wrapper.
-/
import StsModel.Model.Path
namespace Sts

/-! ## main/server.go standardValidator -/

structure AuthConf where
  sources : List String
  keys : List String
  deriving Repr

/-- character class of the pattern in main/server.go standardValidator: lower-case letters,
    digits, dot, dash, slash (one or more, anchored at both ends) -/
def srcCharOk (c : Char) : Bool :=
  c.isLower || c.isDigit || c == '.' || c == '-' || c == '/'

/-- `regexp.MatchString(pattern, source)` for that pattern -/
def sourceMatches (source : String) : Bool :=
  source != "" && source.toList.all srcCharOk

/-- main/server.go strToIndex(needle, haystack) >= 0: exact, case-sensitive equality -/
def listed (needle : String) (haystack : List String) : Bool :=
  haystack.any (fun v => v == needle)

/-- main/server.go standardValidator, statement by statement -/
def standardValid (conf : AuthConf) (source key : String) : Bool :=
  if conf.sources.length > 0 && !sourceMatches source then false
  else if conf.sources.length > 0 && !listed source conf.sources then false
  else if conf.keys.length > 0 && !listed key conf.keys then false
  else true

/-! ## the route table of http/server.go Serve -/

inductive Handler
  | health | client | data | dataRecovery | validate | partials | static | checkMapping
  deriving DecidableEq, Repr

structure Route where
  pattern : String
  validated : Bool      -- wrapped in s.handleValidate(...)
  handler : Handler
  deriving Repr

/-- the `mux.Handle` calls of http/server.go Serve, in source order (PathPrefix = "") -/
def routes : List Route :=
  [ ⟨"/", false, .health⟩,
    ⟨"/client/", false, .client⟩,
    ⟨"/data", true, .data⟩,
    ⟨"/data-recovery", true, .dataRecovery⟩,
    ⟨"/validate", true, .validate⟩,
    ⟨"/partials", true, .partials⟩,
    ⟨"/static/", true, .static⟩,
    ⟨"/check-mapping", false, .checkMapping⟩ ]

def Handler.goName : Handler → String
  | .health => "routeHealthCheck"
  | .client => "routeClientManagement"
  | .data => "routeData"
  | .dataRecovery => "routeDataRecovery"
  | .validate => "routeValidate"
  | .partials => "routePartials"
  | .static => "routeFile"
  | .checkMapping => "routeCheckMapping"

/-- handlers that read or write the stage / final / log / serve directories of a source -/
def Handler.dataBearing : Handler → Bool
  | .data | .dataRecovery | .validate | .partials | .static => true
  | _ => false

/-! ## request line: net/url setPath / EscapedPath, normalizeRequestPath, ServeMux -/

def hexVal? (c : Char) : Option Nat :=
  if '0' ≤ c ∧ c ≤ '9' then some (c.toNat - '0'.toNat)
  else if 'a' ≤ c ∧ c ≤ 'f' then some (c.toNat - 'a'.toNat + 10)
  else if 'A' ≤ c ∧ c ≤ 'F' then some (c.toNat - 'A'.toNat + 10)
  else none

/-- net/url unescape in path mode: `%XX` decoded ('+' is kept); `none` for a malformed escape.
    Only ASCII escapes are meaningful here (the generator sends no others). -/
def unescapePath : List Char → Option (List Char)
  | [] => some []
  | '%' :: a :: b :: rest =>
    match hexVal? a, hexVal? b with
    | some x, some y => (unescapePath rest).map (Char.ofNat (16 * x + y) :: ·)
    | _, _ => none
  | '%' :: _ => none
  | c :: rest => (unescapePath rest).map (c :: ·)

/-- net/url shouldEscape(c, encodePath) -/
def shouldEscapePath (c : Char) : Bool :=
  !(c.isAlphanum || c == '-' || c == '_' || c == '.' || c == '~' ||
    c == '$' || c == '&' || c == '+' || c == ',' || c == '/' || c == ':' || c == ';' ||
    c == '=' || c == '@')

def upperHex (n : Nat) : Char :=
  if n < 10 then Char.ofNat ('0'.toNat + n) else Char.ofNat ('A'.toNat + (n - 10))

/-- net/url escape(s, encodePath) for ASCII -/
def escapePath : List Char → List Char
  | [] => []
  | c :: rest =>
    if shouldEscapePath c then '%' :: upperHex (c.toNat / 16) :: upperHex (c.toNat % 16) :: escapePath rest
    else c :: escapePath rest

/-- `URL.Path` and `URL.RawPath` after net/url setPath of the raw request path -/
def setPath (raw : String) : Option (String × String) :=
  match unescapePath raw.toList with
  | none => none
  | some p =>
    let path := String.ofList p
    if String.ofList (escapePath p) = raw then some (path, "") else some (path, raw)

/-- net/url EscapedPath: RawPath when it is a valid encoding of Path, else the default encoding -/
def escapedPath (path rawPath : String) : String :=
  if rawPath != "" && (unescapePath rawPath.toList).map String.ofList == some path then rawPath
  else String.ofList (escapePath path.toList)

/-- http/server.go normalizeRequestPath: both Path and RawPath go through
    normalizeRepeatedSlashes (an empty RawPath becomes "/") -/
def normalizeRequestPath (path rawPath : String) : String × String :=
  (normalizeRepeatedSlashes path, normalizeRepeatedSlashes rawPath)

def endsWithSlash (s : String) : Bool :=
  match s.toList.reverse with
  | c :: _ => c == '/'
  | [] => false

/-- net/http cleanPath: path.Clean, a leading slash added, a trailing slash kept -/
def cleanPathMux (p : String) : String :=
  if p = "" then "/"
  else
    let p := if isRooted p then p else "/" ++ p
    let np := cleanStr p
    if endsWithSlash p && np != "/" then np ++ "/" else np

def unescapeSeg (s : String) : String :=
  match unescapePath s.toList with
  | some l => String.ofList l
  | none => s

inductive Resolved
  | redirect                 -- 301 from the mux, no handler of sts runs
  | route (r : Route)
  deriving Repr

def rootRoute : Route := ⟨"/", false, .health⟩

/-- pattern `/name` (exact) or `/name/` (subtree) registered in `table`? -/
def findExact (table : List Route) (seg : String) : Option Route :=
  table.find? (fun r => r.pattern == "/" ++ seg && seg != "")
def findSubtree (table : List Route) (seg : String) : Option Route :=
  table.find? (fun r => r.pattern == "/" ++ seg ++ "/" && seg != "")

/-- net/http ServeMux.findHandler for a non-CONNECT request over the patterns of `table`
    (all of the form "/", "/name" or "/name/"): matching is by unescaped segments of the
    cleaned escaped path, the most specific pattern wins, "/" catches everything else;
    `/name` for a subtree pattern `/name/` and any path that is not clean are redirected. -/
def resolve (table : List Route) (esc : String) : Resolved :=
  let cp := cleanPathMux esc
  let segs := ((segsOf cp).drop 1).map unescapeSeg
  let catchAll := (table.find? (fun r => r.pattern == "/")).getD rootRoute
  match segs with
  | [s] =>
    match findExact table s with
    | some r => if cp != esc then .redirect else .route r
    | none =>
      if (findSubtree table s).isSome then .redirect
      else if cp != esc then .redirect else .route catchAll
  | s :: _ =>
    if cp != esc then .redirect
    else match findSubtree table s with
      | some r => .route r
      | none => .route catchAll
  | [] => if cp != esc then .redirect else .route catchAll

/-! ## gatekeepers and the gate -/

structure GK where
  source : String
  ready : Bool
  stub : Bool          -- harness stub (never fails, touches nothing) or real stage.Stage
  deriving Repr

structure pSFile where
  source : String
  path : String        -- clean relative path below serve/<source>
  content : String
  gone : Bool := false -- removed by a DELETE (its directories stay)
  deriving Repr

structure Srv where
  conf : AuthConf
  gks : List GK
  serve : List pSFile
  deriving Repr

def Srv.init : Srv := ⟨⟨[], []⟩, [], []⟩

structure PartD where
  name : String
  renamed : String
  prev : String
  deriving Repr, DecidableEq

inductive Call
  | newGK (source : String)
  | prepare (source : String) (parts : List PartD)
  | receive (source : String) (part : PartD)
  | received (source : String) (parts : List PartD)
  | status (source : String) (name : String)
  | scan (source : String) (version : String)
  deriving Repr, DecidableEq

inductive MetaLen | ok | bad
  deriving DecidableEq, Repr
inductive Gzip | off | on | broken
  deriving DecidableEq, Repr
inductive Body | none | junk | parts (ps : List PartD)
  deriving Repr

structure Req where
  method : String
  url : String          -- raw request path as sent on the request line
  srcH : String         -- X-STS-SrcName header ("" = absent)
  srcQ : String         -- ?source=
  keyH : String
  keyQ : String
  sep : String          -- X-STS-Sep header ("" = absent)
  metaLen : MetaLen     -- X-STS-MetaLen: the real length, or not a number / absent
  gzip : Gzip
  body : Body
  version : String      -- ?v=
  deriving Repr

structure Resp where
  status : Nat
  calls : List Call
  body : String         -- canonical body of the static route ("" otherwise)
  deriving Repr, DecidableEq

/-- http/server.go getSourceName -/
def getSourceName (r : Req) : String := if r.srcH != "" then r.srcH else r.srcQ
/-- http/server.go getKey -/
def getKey (r : Req) : String := if r.keyH != "" then r.keyH else r.keyQ

def lookupGK (gks : List GK) (source : String) : Option GK :=
  gks.find? (fun g => g.source == source)

/-- http/server.go getGateKeeper (repaired): no gatekeeper for an empty or unsafe source
    name; an unknown source gets a new one from the factory (main/server.go newStage ->
    stage.New, which starts ready). -/
def getGateKeeper (s : Srv) (source : String) : Srv × Option GK × List Call :=
  if source == "" || !isSafeSource source then (s, none, [])
  else match lookupGK s.gks source with
    | some g => (s, some g, [])
    | none =>
      let g : GK := ⟨source, true, false⟩
      ({ s with gks := g :: s.gks }, some g, [Call.newGK source])

/-- the unrepaired getGateKeeper: only the empty name is refused -/
def getGateKeeperOld (s : Srv) (source : String) : Srv × Option GK × List Call :=
  if source == "" then (s, none, [])
  else match lookupGK s.gks source with
    | some g => (s, some g, [])
    | none =>
      let g : GK := ⟨source, true, false⟩
      ({ s with gks := g :: s.gks }, some g, [Call.newGK source])

inductive Gate
  | refused (status : Nat)
  | pass (gk : GK)
  deriving Repr

/-- http/server.go handleValidate: gatekeeper exists? (400) ready? (503) IsValid? (403),
    in this order; `valid` is Server.IsValid. -/
def handleValidate (valid : String → String → Bool) (s : Srv) (r : Req) : Srv × Gate × List Call :=
  let (s', gk, calls) := getGateKeeper s (getSourceName r)
  match gk with
  | none => (s', .refused 400, calls)
  | some g =>
    if !g.ready then (s', .refused 503, calls)
    else if !valid (getSourceName r) (getKey r) then (s', .refused 403, calls)
    else (s', .pass g, calls)

/-! ## route handlers (front ends) -/

def hasRequestBody (r : Req) : Bool :=
  match r.body with
  | .none => false
  | _ => true

/-- names after the separator conversion of payload/bin.go NewDecoder: name and prev are
    converted, renamed is not -/
def convertPart (sep : String) (p : PartD) : PartD :=
  { name := sepConvert sep p.name, renamed := p.renamed, prev := sepConvert sep p.prev }

/-- http/server.go findUnsafePartName (repair): name must be safe, renamed and prev must be
    safe when present -/
def partUnsafe (p : PartD) : Bool :=
  !isSafeRel p.name || (p.renamed != "" && !isSafeRel p.renamed) || (p.prev != "" && !isSafeRel p.prev)

/-- byte length above which a path segment cannot be created (NAME_MAX = 255, the longest
    extension appended is ".cmp.lck"); the generator stays away from the boundary -/
def segTooLong (s : String) : Bool := s.utf8ByteSize > 247

/-- does stage.Receive fail for this part: only for names the file system refuses (a segment
    of the name, or the source's directory name, is too long to be created) -/
def recvFails (g : GK) (p : PartD) : Bool :=
  !g.stub && ((segsOf p.name).any segTooLong || segTooLong (sourceDir g.source))

/-- the Receive loop of routeData: parts are received in order, the first failure ends the
    request with 206 -/
def receiveLoop (g : GK) : List PartD → List Call × Nat
  | [] => ([], 200)
  | p :: rest =>
    if recvFails g p then ([Call.receive g.source p], 206)
    else
      let (cs, st) := receiveLoop g rest
      (Call.receive g.source p :: cs, st)

/-- http/server.go routeData after the gate (repaired: unsafe names are refused before
    Prepare is called) -/
def routeData (checkNames : Bool) (g : GK) (r : Req) : Resp :=
  if r.method != "PUT" then ⟨405, [], ""⟩
  else if !hasRequestBody r then ⟨400, [], ""⟩
  else if r.metaLen == .bad then ⟨400, [], ""⟩
  else if r.gzip == .broken then ⟨500, [], ""⟩
  else match r.body with
    | .none => ⟨400, [], ""⟩
    | .junk => ⟨500, [], ""⟩
    | .parts raw =>
      let parts := raw.map (convertPart r.sep)
      if checkNames && parts.any partUnsafe then ⟨400, [], ""⟩
      else
        let (cs, st) := receiveLoop g parts
        ⟨st, Call.prepare g.source parts :: cs, ""⟩

/-- http/server.go routeDataRecovery after the gate -/
def routeDataRecovery (checkNames : Bool) (g : GK) (r : Req) : Resp :=
  if r.method != "PUT" then ⟨405, [], ""⟩
  else if !hasRequestBody r then ⟨400, [], ""⟩
  else if r.gzip == .broken then ⟨500, [], ""⟩
  else match r.body with
    | .none => ⟨400, [], ""⟩
    | .junk => ⟨500, [], ""⟩
    | .parts raw =>
      let parts := raw.map (convertPart r.sep)
      if checkNames && parts.any partUnsafe then ⟨400, [], ""⟩
      else ⟨200, [Call.received g.source parts], ""⟩

/-- http/server.go routeValidate after the gate: only the name is sent and converted -/
def routeValidate (checkNames : Bool) (g : GK) (r : Req) : Resp :=
  if r.method != "POST" then ⟨405, [], ""⟩
  else if !hasRequestBody r then ⟨400, [], ""⟩
  else if r.gzip == .broken then ⟨400, [], ""⟩
  else match r.body with
    | .none => ⟨400, [], ""⟩
    | .junk => ⟨400, [], ""⟩
    | .parts raw =>
      let names := raw.map (fun p => sepConvert r.sep p.name)
      if checkNames && names.any (fun n => !isSafeRel n) then ⟨400, [], ""⟩
      else ⟨200, names.map (Call.status g.source), ""⟩

/-- http/server.go routePartials after the gate -/
def routePartials (g : GK) (r : Req) : Resp :=
  if r.method != "GET" then ⟨405, [], ""⟩
  else ⟨200, [Call.scan g.source r.version], ""⟩

/-- insertion sort, for canonical listings -/
def insertSorted (x : String) : List String → List String
  | [] => [x]
  | y :: ys => if x < y then x :: y :: ys else y :: insertSorted x ys
def sortStrings (l : List String) : List String := l.foldr insertSorted []

/-- directories are never removed, so a removed file still witnesses its directories -/
def isDirIn (files : List pSFile) (source rel : String) : Bool :=
  rel == "" || files.any (fun f => f.source == source && (rel ++ "/").toList.isPrefixOf f.path.toList)

/-- http/server.go routeFile after the gate: new serve directory content, status, canonical
    body. `serveRoot` is the configured serve directory (clean, absolute). -/
def routeFileCore (serveRoot : String) (files : List pSFile) (r : Req) (path : String) :
    List pSFile × Nat × String :=
  let source := getSourceName r
  if !sanitizeSeg source then (files, 400, "")
  else
    let relPath := trimPrefix (trimPrefix path "/static") "/"
    match sanitizeRel relPath with
    | none => (files, 400, "")
    | some file =>
      let root := cleanStr (joinStr [serveRoot, source])
      if !isSubpath serveRoot root then (files, 400, "")
      else if !files.any (fun f => f.source == source) then (files, 500, "")  -- os.OpenRoot fails
      else
        let isFile := files.any (fun f => !f.gone && f.source == source && f.path == file)
        let isDir := isDirIn files source file
        let found := isFile || isDir
        if r.method == "GET" then
          if !found then (files, 404, "")
          else if isDir then
            let names := files.filter (fun f => !f.gone && f.source == source &&
              (file == "" || (file ++ "/").toList.isPrefixOf f.path.toList))
            (files, 200, "list:" ++ ",".intercalate (sortStrings (names.map (·.path))))
          else
            let c := (files.find? (fun f => !f.gone && f.source == source && f.path == file)).map (·.content)
            (files, 200, "file:" ++ c.getD "")
        else if r.method == "DELETE" then
          if !found then (files, 404, "")
          else if isDir then (files, 400, "")
          else (files.map (fun f => if f.source == source && f.path == file then { f with gone := true } else f),
                200, "")
        else (files, 400, "")

/-- routeFile never calls the gatekeeper: it works on the serve directory only -/
def routeFile (serveRoot : String) (files : List pSFile) (r : Req) (path : String) : List pSFile × Resp :=
  let out := routeFileCore serveRoot files r path
  (out.1, ⟨out.2.1, [], out.2.2⟩)

/-- http/server.go routeHealthCheck -/
def routeHealth (r : Req) : Resp :=
  if r.method != "GET" && r.method != "HEAD" then ⟨405, [], ""⟩ else ⟨200, [], ""⟩

/-! ## one request through the whole chain -/

/-- status used for the two routes that are outside the model (client management,
    check-mapping): the generator does not request them -/
def notModelled : Resp := ⟨0, [], ""⟩

/-- what a wrapped handler does once the gate has let the request pass -/
def runHandler (checkNames : Bool) (serveRoot : String) (s : Srv) (gk : GK) (r : Req) (path : String)
    (h : Handler) : Srv × Resp :=
  match h with
  | .data => (s, routeData checkNames gk r)
  | .dataRecovery => (s, routeDataRecovery checkNames gk r)
  | .validate => (s, routeValidate checkNames gk r)
  | .partials => (s, routePartials gk r)
  | .static =>
    let out := routeFile serveRoot s.serve r path
    ({ s with serve := out.1 }, out.2)
  | _ => (s, notModelled)

/-- the handler chain registered for one route: `s.handle(h)` or
    `s.handle(s.handleValidate(h))` (handle is the identity without HSTS) -/
def dispatch (checkNames : Bool) (gate : Srv → Req → Srv × Gate × List Call)
    (serveRoot : String) (s : Srv) (r : Req) (path : String) (rt : Route) : Srv × Resp :=
  if !rt.validated then
    match rt.handler with
    | .health => (s, routeHealth r)
    | _ => (s, notModelled)
  else
    let g := gate s r
    match g.2.1 with
    | .refused st => (g.1, ⟨st, g.2.2, ""⟩)
    | .pass gk =>
      let out := runHandler checkNames serveRoot g.1 gk r path rt.handler
      (out.1, { out.2 with calls := g.2.2 ++ out.2.calls })

/-- normalizeRequestPath, ServeMux, handle, handleValidate, handler. `checkNames = true` with
    the repaired gate is the repaired code; `table` is the route table; `serveRoot` the serve
    directory. -/
def serveWith (table : List Route) (checkNames : Bool)
    (gate : Srv → Req → Srv × Gate × List Call)
    (serveRoot : String) (s : Srv) (r : Req) : Srv × Resp :=
  match setPath r.url with
  | none => (s, ⟨400, [], ""⟩)        -- net/http refuses the request line
  | some p =>
    let n := normalizeRequestPath p.1 p.2
    match resolve table (escapedPath n.1 n.2) with
    | .redirect => (s, ⟨301, [], ""⟩)
    | .route rt => dispatch checkNames gate serveRoot s r n.1 rt

/-- the repaired receiver -/
def serve (serveRoot : String) (s : Srv) (r : Req) : Srv × Resp :=
  serveWith routes true (handleValidate (standardValid s.conf)) serveRoot s r

/-- the receiver before the repairs (no name checks, any non-empty source name) -/
def handleValidateOld (valid : String → String → Bool) (s : Srv) (r : Req) : Srv × Gate × List Call :=
  let (s', gk, calls) := getGateKeeperOld s (getSourceName r)
  match gk with
  | none => (s', .refused 400, calls)
  | some g =>
    if !g.ready then (s', .refused 503, calls)
    else if !valid (getSourceName r) (getKey r) then (s', .refused 403, calls)
    else (s', .pass g, calls)

def serveOld (serveRoot : String) (s : Srv) (r : Req) : Srv × Resp :=
  serveWith routes false (handleValidateOld (standardValid s.conf)) serveRoot s r

/-! ## the ready flag of stage.Stage (stage/local.go New, Stop, Recover; main/server.go init) -/

inductive FlagEv
  | new            -- stage.New: canReceive = true
  | stop           -- Stage.Stop: canReceive = false
  | recoverBegin   -- first statement of Recover: setCanReceive(false)
  | recoverStep    -- any step inside Recover (walk, rename, cache build, validate)
  | recoverEnd     -- deferred setCanReceive(true)
  | request        -- a request reads Ready()
  deriving DecidableEq, Repr

/-- run the events; returns the final flag and what each request saw -/
def runFlag : Bool → List FlagEv → Bool × List Bool
  | b, [] => (b, [])
  | b, e :: es =>
    match e with
    | .new => runFlag true es
    | .stop => runFlag false es
    | .recoverBegin => runFlag false es
    | .recoverStep => runFlag b es
    | .recoverEnd => runFlag true es
    | .request => let (f, seen) := runFlag b es; (f, b :: seen)

/-- what main/server.go init does for a stage directory found at start-up, before the
    goroutine running Recover gets to its first statement -/
def initEventsOld : List FlagEv := [.new]
/-- repaired: `stager.Stop(true)` before `go stager.Recover()` -/
def initEvents : List FlagEv := [.new, .stop]

end Sts
