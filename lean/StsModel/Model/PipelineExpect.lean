/-
  What the Pipeline model (Model/Pipeline.lean) assumes about the text of client/client.go.
  Tie T3: `/verif/extract` regenerates `StsModel/Generated/Sends.lean` from the working tree on
  every check run; `Props/C16.lean` proves by `decide` that the regenerated facts are equal to
  the lists below. Each list was written down while the model was written, entry by entry:

  * `expectedChanOps` — every channel operation, its channel and its form. The model's guards
    follow from it: a `timedStopNow` send is modelled by a `…Send` action (room in the channel)
    plus an `…Abort` action enabled when the channel is full and the stop is immediate; a
    `timedStop` operation gives up on any stop; a `bare` operation has no abort action
    (`statSend`, `hStatSend`: `stat`'s `chStats <- payload`; `sendRecv`: `startSend`'s
    `<-in`); a `selectCase` never blocks its goroutine alone. `allowedBareSends` is the
    sub-list of the unconditional sends with the reason each cannot block for ever.
  * `capacityTable` — the `make(chan …)` capacities (`cap`, and 1 batch for `chScanned`).
  * `expectedStageStarts` — which function runs under which wait group, how many times
    (`groupDone`).
  * `startSequence` (in Model/Pipeline.lean) — the wait/close order `startStep` interprets.
  * `expectedExits` — every `return` / `break` of the choreography functions with the
    conditions it sits under (the `…Exit…`, `…SeeClosed`, `…Abort` actions and their guards:
    which loops re-check `shouldStopNow`, which exits need a closed input, that `startQueue`
    returns when `Pop()` is nil and its input is nil, that `startTrack` / `startValidate` return
    only with an empty map and a nil input).
  * `expectedStopChecks` — every use of `shouldStopNow` / `shouldStop` (which stop predicate
    guards which loop and which timed channel operation).
-/
import StsModel.Model.Pipeline
namespace Sts.Pipeline

def expectedChanOps : List ChanOp := [
  { fn := "Start.func1", kind := .send, chan := "done", form := .bare },
  { fn := "Start.func2", kind := .recv, chan := "stop", form := .selectCase },
  { fn := "Start.func2", kind := .recv, chan := "stopNow", form := .selectCase },
  { fn := "Start.func2", kind := .send, chan := "chStop", form := .bare },
  { fn := "Start.func2", kind := .close, chan := "chStop", form := .bare },
  { fn := "Start", kind := .send, chan := "chScanned", form := .bare },
  { fn := "Start", kind := .close, chan := "chScanned", form := .bare },
  { fn := "Start", kind := .close, chan := "chQueued", form := .bare },
  { fn := "Start", kind := .close, chan := "chTransmit", form := .bare },
  { fn := "Start", kind := .close, chan := "chTransmitted", form := .bare },
  { fn := "Start", kind := .close, chan := "chValidate", form := .bare },
  { fn := "Start", kind := .close, chan := "chStats", form := .bare },
  { fn := "Start", kind := .close, chan := "chRetry", form := .bare },
  { fn := "startScan", kind := .send, chan := "chScanned", form := .timedStopNow },
  { fn := "startScan", kind := .recv, chan := "chStop", form := .selectCase },
  { fn := "startScan", kind := .recv, chan := "wait", form := .selectCase },
  { fn := "hashFiles", kind := .recv, chan := "in", form := .rangeLoop },
  { fn := "hash", kind := .close, chan := "ch", form := .bare },
  { fn := "hash", kind := .send, chan := "ch", form := .bare },
  { fn := "hash", kind := .send, chan := "ch", form := .bare },
  { fn := "hash", kind := .close, chan := "ch", form := .bare },
  { fn := "startQueue", kind := .recv, chan := "chScanned", form := .selectCase },
  { fn := "startQueue", kind := .recv, chan := "wait", form := .selectCase },
  { fn := "startQueue", kind := .send, chan := "chQueued", form := .timedStopNow },
  { fn := "startBin", kind := .recv, chan := "chQueued", form := .selectCase },
  { fn := "startBin", kind := .send, chan := "chTransmit", form := .timedStopNow },
  { fn := "startBin", kind := .recv, chan := "wait", form := .selectCase },
  { fn := "startBin", kind := .send, chan := "chTransmit", form := .timedStopNow },
  { fn := "startBin", kind := .send, chan := "chTransmit", form := .timedStopNow },
  { fn := "startSend", kind := .recv, chan := "chTransmit", form := .bare },
  { fn := "startSend", kind := .send, chan := "chTransmitted", form := .timedStopNow },
  { fn := "sendCh", kind := .send, chan := "ch", form := .selectCase },
  { fn := "sendCh", kind := .recv, chan := "timer.C", form := .bare },
  { fn := "sendCh", kind := .recv, chan := "timer.C", form := .selectCase },
  { fn := "recvCh", kind := .recv, chan := "ch", form := .selectCase },
  { fn := "recvCh", kind := .recv, chan := "timer.C", form := .bare },
  { fn := "recvCh", kind := .recv, chan := "timer.C", form := .selectCase },
  { fn := "handleSendError", kind := .send, chan := "chTransmitted", form := .timedStopNow },
  { fn := "stat", kind := .send, chan := "chStats", form := .bare },
  { fn := "startStats", kind := .recv, chan := "chStats", form := .rangeLoop },
  { fn := "startTrack", kind := .send, chan := "chValidate", form := .selectCase },
  { fn := "startTrack", kind := .recv, chan := "wait", form := .selectCase },
  { fn := "startTrack", kind := .recv, chan := "chTransmitted", form := .selectCase },
  { fn := "startTrack", kind := .recv, chan := "wait", form := .selectCase },
  { fn := "startValidate", kind := .recv, chan := "chValidate", form := .selectCase },
  { fn := "startValidate", kind := .recv, chan := "wait", form := .selectCase },
  { fn := "finish", kind := .send, chan := "chRetry", form := .timedStop },
  { fn := "startRetry", kind := .recv, chan := "chRetry", form := .timedStop },
  { fn := "startRetry", kind := .send, chan := "chScanned", form := .timedStop }
]

/-- The unconditional sends of client.go, each with the reason it cannot block for ever:
    `done` — the caller of `Start` waits for it (app.go `stopClients`; the rig's buffered channel);
    `chStop` — `startScan` is the only reader and reads it in every `select`; if `startScan`
      already returned (aborted `sendCh` on an immediate stop, or `Start` returned early) the
      stop goroutine stays blocked, which leaks one goroutine but does not delay `Start`;
    `chScanned` in `Start` — the 1-buffer is empty, no stage runs yet;
    `ch` in `hash` (twice) — the hash workers range over it until it is closed;
    `chStats` in `stat` — `startStats` drains `chStats` until it is closed, which `Start`
      does only after all senders returned (`statsRecv` is always enabled while a sender lives). -/
def allowedBareSends : List (String × String) := [
  ("Start.func1", "done"),
  ("Start.func2", "chStop"),
  ("Start", "chScanned"),
  ("hash", "ch"),
  ("hash", "ch"),
  ("stat", "chStats")
]

/-- the unconditional sends among a list of channel operations -/
def bareSendsOf (ops : List ChanOp) : List (String × String) :=
  (ops.filter (fun o => o.kind == .send && o.form == .bare)).map (fun o => (o.fn, o.chan))

def capacityTable : List (String × String) := [
  ("chStop", "0"),
  ("chScanned", "1"),
  ("chQueued", "Threads*2"),
  ("chRetry", "Threads*2"),
  ("chTransmit", "Threads*2"),
  ("chTransmitted", "Threads*2"),
  ("chStats", "Threads*2"),
  ("chValidate", "Threads*2"),
  ("stopNow", "0")
]

/-- value of a capacity expression for `Conf.Threads = t` -/
def evalCap (t : Nat) : String → Option Nat
  | "0" => some 0
  | "1" => some 1
  | "Threads*2" => some (t * 2)
  | _ => none

def expectedStageStarts : List StageStart := [
  { fn := "startScan", wg := .scanned, count := "1" },
  { fn := "startQueue", wg := .queued, count := "1" },
  { fn := "startRetry", wg := .failed, count := "Threads" },
  { fn := "startBin", wg := .transmit, count := "1" },
  { fn := "startSend", wg := .transmitted, count := "Threads" },
  { fn := "startStats", wg := .stats, count := "1" },
  { fn := "startTrack", wg := .validate, count := "1" },
  { fn := "startValidate", wg := .validated, count := "1" }
]

/-- The goroutine that turns a stop request into the broker's stop state: the flags are set (under the
    mutex) BEFORE the broadcast on the unbuffered `chStop`, which only the scanner reads and only when it
    is idle between two scans. The model's actions `stopGraceful` / `stopNow` publish the flags at the
    moment of the request; with the broadcast first, the flags would be published only once the scanner is
    idle again — never, if it is blocked handing on a batch. -/
def expectedStopGoroutine : List String := [
  "var stopGraceful bool",
  "select",
  "broker.stopMux.Lock()",
  "broker.stop = true",
  "broker.stopGraceful = stopGraceful",
  "broker.stopMux.Unlock()",
  "broker.chStop <- stopGraceful",
  "close(broker.chStop)"
]

def expectedExits : List ExitStmt := [
  { fn := "Start", stmt := "return", path := ["if broker.shouldStopNow()"] },
  { fn := "startScan", stmt := "return", path := ["for", "if len(found) > 0", "if !sendCh(broker.shouldStopNow, broker.chScanned, found, 0)"] },
  { fn := "startScan", stmt := "return", path := ["for", "select", "case <-broker.chStop"] },
  { fn := "startQueue", stmt := "return", path := ["for", "select", "case batch, ok := <-in", "if !ok", "if broker.shouldStopNow()"] },
  { fn := "startQueue", stmt := "return", path := ["for", "select", "case <-wait", "if next == nil", "if in == nil"] },
  { fn := "startQueue", stmt := "return", path := ["for", "select", "case <-wait", "if !sendCh(broker.shouldStopNow, out, next, 0)"] },
  { fn := "startBin", stmt := "return", path := ["for", "if current == nil", "select", "case sendable, ok = <-in", "if broker.shouldStopNow()"] },
  { fn := "startBin", stmt := "return", path := ["for", "if current == nil", "select", "case sendable, ok = <-in", "if !ok", "if payload != nil && payload.GetSize() > 0", "if !sendCh(broker.shouldStopNow, out, payload, 0)"] },
  { fn := "startBin", stmt := "return", path := ["for", "if current == nil", "select", "case sendable, ok = <-in", "if !ok"] },
  { fn := "startBin", stmt := "return", path := ["for", "if current == nil", "select", "case <-wait", "if broker.shouldStopNow()"] },
  { fn := "startBin", stmt := "return", path := ["for", "if current == nil", "select", "case <-wait", "if payload != nil && payload.GetSize() > 0", "if !sendCh(broker.shouldStopNow, out, payload, 0)"] },
  { fn := "startBin", stmt := "return", path := ["for", "if payload.IsFull()", "if !sendCh(broker.shouldStopNow, out, payload, 0)"] },
  { fn := "startSend", stmt := "return", path := ["for", "if !ok || broker.shouldStopNow()"] },
  { fn := "startSend", stmt := "return", path := ["for", "for", "if broker.shouldStopNow()"] },
  { fn := "startSend", stmt := "break", path := ["for", "for", "if err == nil"] },
  { fn := "startSend", stmt := "break", path := ["for", "for", "if payload == nil || len(payload.GetParts()) == 0"] },
  { fn := "startSend", stmt := "break", path := ["for", "for", "if len(payload.GetParts()) == 0"] },
  { fn := "startSend", stmt := "break", path := ["for", "if payload != nil", "if !sendCh(broker.shouldStopNow, out, payload, 0)"] },
  { fn := "sendCh", stmt := "return true", path := ["for", "select", "case ch <- item"] },
  { fn := "sendCh", stmt := "return false", path := ["for", "select", "case <-timer.C", "if shouldStop()"] },
  { fn := "recvCh", stmt := "return nil", path := ["for", "select", "case item, ok := <-ch", "if !ok"] },
  { fn := "recvCh", stmt := "return &item", path := ["for", "select", "case item, ok := <-ch"] },
  { fn := "recvCh", stmt := "return nil", path := ["for", "select", "case <-timer.C", "if shouldStop()"] },
  { fn := "handleSendError", stmt := "break", path := ["for", "if broker.shouldStopNow()"] },
  { fn := "handleSendError", stmt := "break", path := ["for", "if err == nil", "if n > 0", "if !sendCh(broker.shouldStopNow, broker.chTransmitted, payload, 0)"] },
  { fn := "handleSendError", stmt := "break", path := ["for", "if err == nil"] },
  { fn := "handleSendError", stmt := "return payload", path := [] },
  { fn := "startTrack", stmt := "return", path := ["for", "if broker.shouldStopNow()"] },
  { fn := "startTrack", stmt := "return", path := ["for", "if len(progress) == 0", "if in == nil"] },
  { fn := "startTrack", stmt := "break LOOP", path := ["for", "if len(progress) == 0", "else", "label LOOP", "range progress", "select", "case <-wait"] },
  { fn := "startTrack", stmt := "return", path := ["for", "if len(progress) == 0", "else", "if len(progress) > 0", "else", "if in == nil"] },
  { fn := "startValidate", stmt := "return", path := ["for", "if broker.shouldStopNow()"] },
  { fn := "startValidate", stmt := "return", path := ["for", "if len(poll) == 0", "if in == nil"] },
  { fn := "startValidate", stmt := "break", path := ["for", "range poll", "if time.Since(f.completed) >= broker.Conf.PollDelay", "if len(ready) == broker.Conf.PollMaxCount"] },
  { fn := "startValidate", stmt := "return", path := ["for", "for", "if broker.shouldStopNow()"] },
  { fn := "startValidate", stmt := "break", path := ["for", "for"] },
  -- (a confirmed file that was rewritten meanwhile is not deleted: no channel operation, no stop decision involved)
  { fn := "finish.func1", stmt := "return", path := ["if broker.canDelete(cached)", "if changed, syncErr := store.Sync(cached); changed != nil || (syncErr != nil && !store.IsNotExist(syncErr))"] },
  { fn := "finish.func1", stmt := "return", path := ["if broker.canDelete(cached)", "if err := broker.Conf.Store.Remove(cached); err != nil"] },
  { fn := "startRetry", stmt := "return", path := ["for", "if filePtr == nil"] },
  { fn := "startRetry", stmt := "return", path := ["for", "if !sendCh(broker.shouldStop, broker.chScanned, recovered, 0)"] }
]

def expectedStopChecks : List (String × String × String) := [
  ("Start", "shouldStopNow", "cond"),
  ("startScan", "shouldStopNow", "arg"),
  ("startQueue", "shouldStopNow", "cond"),
  ("startQueue", "shouldStopNow", "arg"),
  ("startBin", "shouldStopNow", "cond"),
  ("startBin", "shouldStopNow", "arg"),
  ("startBin", "shouldStopNow", "cond"),
  ("startBin", "shouldStopNow", "arg"),
  ("startBin", "shouldStopNow", "arg"),
  ("startSend", "shouldStopNow", "cond"),
  ("startSend", "shouldStopNow", "cond"),
  ("startSend", "shouldStopNow", "arg"),
  ("handleSendError", "shouldStopNow", "cond"),
  ("handleSendError", "shouldStopNow", "arg"),
  ("startTrack", "shouldStopNow", "cond"),
  ("startValidate", "shouldStopNow", "cond"),
  ("startValidate", "shouldStopNow", "cond"),
  ("finish", "shouldStop", "arg"),
  ("startRetry", "shouldStop", "arg"),
  ("startRetry", "shouldStop", "arg")
]

end Sts.Pipeline
