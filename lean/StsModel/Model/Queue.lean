/-
  Model of the sender's tagged file queue: queue/queue.go (Tagged.Push, Pop, addFile,
  removeFile, delayGroup, addGroup, getGroup, the doubly linked prev/next chain of
  sortedFile with unlink / addAfter / addBefore / insertAfter / insertBefore,
  getPrevName, allocate / isAllocated / getSendSize) and of the sts.Recovered
  implementation that the client pushes after a restart (client/client.go recoverFile:
  GetPrev, Allocate, IsAllocated, GetSendSize).

  Representation. The Go maps `list`, `headFile` (keyed by group name) and the linked
  list of groups become one record per group, kept in linked-list order. `byFile` is a
  global map in Go; the group of a file is `grouper(name)`, a function of the name, so
  the map splits into one association list per group. Every `sortedFile` ever created
  for a group is a node in that group's node store `nodes`, addressed by a fresh Nat id
  (its index); `prev` / `next` are `Option id`. The slice `list`, the `head` pointer,
  `byFile` and the links are separate pieces of state exactly as in the Go code and are
  updated by the same statements in the same order; nothing here assumes they agree
  (that they do is a theorem: Props/C10 `wf_invariant`).

  Core Lean only (linked into `stsdrv`).
-/
import StsModel.Model.Ranges

namespace Sts.Queue

/-! ## configuration -/

/-- sts.OrderFIFO = "fifo", OrderLIFO = "lifo", OrderNone = "none", OrderAlpha = "" (conf.go).
    Any other string makes addFile append (no matcher) but Pop still announces the
    predecessor (`Order != OrderNone`): constructor `other`. -/
inductive Order where
  | fifo | lifo | alpha | none | other
deriving DecidableEq, Repr, Inhabited

def Order.ofString (s : String) : Order :=
  if s == "fifo" then .fifo else if s == "lifo" then .lifo
  else if s == "none" then .none else if s == "" then .alpha else .other

/-- queue.go Tag; LastDelay in whole seconds. -/
structure Tag where
  name : String
  priority : Int
  order : Order
  chunk : Int
  lastDelay : Int
deriving Repr, Inhabited

/-- NewTagged's arguments. `tagger` maps a group name to a tag name, `grouper` maps a file
    name to its group name (sts.Translate; assumed to be pure functions). -/
structure Conf where
  tags : List Tag
  tagger : String → String
  grouper : String → String

/-! ## files -/

/-- client/client.go recoverFile: own predecessor, missing ranges, cursor. -/
structure Rec where
  prev : String
  left : List Rng
  part : Nat
  used : Int
deriving Repr, Inhabited

/-- client/client.go recoverFile.Allocate. (The Go code indexes `left[part]` and would
    panic past the end; the queue allocates only from files that are not allocated,
    i.e. `part < len(left)`. The model answers `(0,0)` there.) -/
def Rec.allocate (r : Rec) (desired : Int) : Rec × Int × Int :=
  match r.left[r.part]? with
  | none => (r, 0, 0)
  | some p =>
    let offset := p.beg + r.used
    if offset + desired ≥ p.fin then
      ({ r with part := r.part + 1, used := 0 }, offset, p.fin - offset)
    else
      ({ r with used := r.used + desired }, offset, desired)

/-- client/client.go recoverFile.IsAllocated -/
def Rec.isAllocated (r : Rec) : Bool := r.part == r.left.length

/-- client/client.go recoverFile.GetSendSize -/
def Rec.sendSize (r : Rec) : Int := r.left.foldl (fun acc p => acc + (p.fin - p.beg)) 0

/-- what Push is handed: an sts.Hashed (name, size, time) that may also implement
    sts.Recovered (`rcv = some _`). -/
structure FileInfo where
  name : String
  size : Int
  time : Int
  rcv : Option Rec
deriving Repr, Inhabited

/-- queue.go sortedFile -/
structure Node where
  file : FileInfo
  allocated : Int := 0
  prev : Option Nat := none
  next : Option Nat := none
deriving Repr, Inhabited

abbrev Nodes := List Node

def getNext (ns : Nodes) (i : Nat) : Option Nat := (ns[i]?).bind (·.next)
def getPrev (ns : Nodes) (i : Nat) : Option Nat := (ns[i]?).bind (·.prev)
def setNext (ns : Nodes) (i : Nat) (v : Option Nat) : Nodes := ns.modify i (fun n => { n with next := v })
def setPrev (ns : Nodes) (i : Nat) (v : Option Nat) : Nodes := ns.modify i (fun n => { n with prev := v })

def nodeName (ns : Nodes) (i : Nat) : String := match ns[i]? with | some n => n.file.name | none => ""
def nodeTime (ns : Nodes) (i : Nat) : Int := match ns[i]? with | some n => n.file.time | none => 0

/-- queue.go sortedFile.isAllocated -/
def Node.isAllocated (n : Node) : Bool :=
  match n.file.rcv with
  | some r => r.isAllocated
  | none => n.allocated == n.file.size

def isAllocated (ns : Nodes) (i : Nat) : Bool := match ns[i]? with | some n => n.isAllocated | none => false

/-- queue.go sortedFile.getSendSize -/
def Node.sendSize (n : Node) : Int :=
  match n.file.rcv with
  | some r => r.sendSize
  | none => n.file.size

/-- queue.go sortedFile.allocate -/
def Node.allocate (n : Node) (desired : Int) : Node × Int × Int :=
  match n.file.rcv with
  | some r =>
    let (r', off, len) := r.allocate desired
    ({ n with file := { n.file with rcv := some r' } }, off, len)
  | none =>
    let offset := n.allocated
    let length := if desired == 0 || offset + desired > n.file.size then n.file.size - offset else desired
    ({ n with allocated := n.allocated + length }, offset, length)

/-- queue.go unlink (the free function on `link`) -/
def unlink (ns : Nodes) (i : Nat) : Nodes :=
  let p := getPrev ns i
  let n := getNext ns i
  let ns := match p with
    | some pi => setPrev (setNext ns pi n) i none
    | none => ns
  match n with
  | some ni => setNext (setPrev ns ni p) i none
  | none => ns

/-- queue.go addAfter -/
def addAfter (ns : Nodes) (i p : Nat) : Nodes :=
  let n := getNext ns p
  let ns := setNext ns i n
  let ns := setPrev ns i (some p)
  let ns := setNext ns p (some i)
  match n with
  | some ni => setPrev ns ni (some i)
  | none => ns

/-- queue.go addBefore -/
def addBefore (ns : Nodes) (i n : Nat) : Nodes :=
  let p := getPrev ns n
  let ns := setNext ns i (some n)
  let ns := setPrev ns i p
  let ns := setPrev ns n (some i)
  match p with
  | some pi => setNext ns pi (some i)
  | none => ns

/-- queue.go insertAfter / insertBefore -/
def insertAfter (ns : Nodes) (i p : Nat) : Nodes := addAfter (unlink ns i) i p
def insertBefore (ns : Nodes) (i n : Nat) : Nodes := addBefore (unlink ns i) i n

/-- queue.go sortedFile.getPrevName -/
def getPrevName (ns : Nodes) (i : Nat) : String :=
  match ns[i]? with
  | none => ""
  | some n =>
    match n.file.rcv with
    | some r => r.prev
    | none =>
      match n.prev with
      | some p => nodeName ns p
      | none => ""

/-! ## Go's sort.Search and the matchers of addFile -/

/-- sort.Search: `i, j := 0, n; for i < j { h := int(uint(i+j) >> 1); if !f(h) { i = h+1 } else { j = h } }; return i`.
    Every iteration shrinks `j - i`, so `j - i` iterations are enough: `fuel` makes the
    recursion structural (Lemmas/QueueOrder `searchGo_spec` needs `j - i ≤ fuel`). -/
def searchGo (f : Nat → Bool) : Nat → Nat → Nat → Nat
  | 0, i, _ => i
  | fuel + 1, i, j =>
    if i < j then
      let h := (i + j) / 2
      if !f h then searchGo f fuel (h + 1) j else searchGo f fuel i h
    else i

def search (n : Nat) (f : Nat → Bool) : Nat := searchGo f n 0 n

/-- does addFile build a matcher for this order? (`switch order`: OrderAlpha, OrderLIFO,
    OrderFIFO; nothing for OrderNone and unknown strings) -/
def Order.hasMatcher : Order → Bool
  | .alpha => true
  | .fifo => true
  | .lifo => true
  | .none => false
  | .other => false

/-- the matcher closures of addFile: does the listed file `a` sort strictly after the new
    file `b`? (false where there is no matcher) -/
def sortsAfter (o : Order) (a b : FileInfo) : Bool :=
  match o with
  | .alpha => decide (b.name < a.name)
  | .fifo => if a.time == b.time then decide (b.name < a.name) else decide (a.time > b.time)
  | .lifo => if a.time == b.time then decide (b.name < a.name) else decide (a.time < b.time)
  | .none => false
  | .other => false

/-! ## one group: list, head file, byFile, nodes -/

abbrev ByFile := List (String × Nat)
def ByFile.erase (m : ByFile) (k : String) : ByFile := m.filter (fun e => e.1 != k)
def ByFile.insert (m : ByFile) (k : String) (v : Nat) : ByFile := (k, v) :: ByFile.erase m k
def ByFile.find (m : ByFile) (k : String) : Option Nat := (m.find? (fun e => e.1 == k)).map (·.2)

/-- queue.go sortedGroup plus this group's entries of Tagged.list / headFile / byFile and
    the sortedFile objects created for it. -/
structure GroupSt where
  name : String
  conf : Tag
  nodes : Nodes := []
  byFile : ByFile := []
  list : List Nat := []
  head : Option Nat := none
deriving Repr, Inhabited

/-- queue.go removeFile -/
def GroupSt.removeFile (g : GroupSt) (id : Nat) : GroupSt :=
  let head := if g.head == some id then getNext g.nodes id else g.head
  { g with head := head, byFile := ByFile.erase g.byFile (nodeName g.nodes id) }

/-- the brute-force removal loop in Push: drop the first listed file with that name -/
def eraseFirstName (ns : Nodes) : List Nat → String → List Nat
  | [], _ => []
  | x :: xs, nm => if nodeName ns x == nm then xs else x :: eraseFirstName ns xs nm

/-- the matcher closure of addFile evaluated at index `k`: `list[k]` sorts strictly after the new file -/
def matcherAt (o : Order) (ns : Nodes) (list : List Nat) (f : FileInfo) (k : Nat) : Bool :=
  match list[k]? with
  | some x => (match ns[x]? with
               | some nx => sortsAfter o nx.file f
               | none => false)
  | none => false

/-- the index computed in addFile: sort.Search with the order's matcher, or len(list) -/
def insertPos (o : Order) (ns : Nodes) (list : List Nat) (f : FileInfo) : Nat :=
  if o.hasMatcher then search list.length (matcherAt o ns list f) else list.length

/-- queue.go addFile (the node `id` already exists in `nodes`, unlinked) -/
def GroupSt.addFile (g : GroupSt) (id : Nat) : GroupSt :=
  let g := { g with byFile := ByFile.insert g.byFile (nodeName g.nodes id) id }
  match g.head with
  | none => { g with head := some id, list := g.list ++ [id] }
  | some h =>
    match g.nodes[id]? with
    | none => g
    | some nd =>
      let i := insertPos g.conf.order g.nodes g.list nd.file
      let list := g.list.take i ++ id :: g.list.drop i
      let nodes :=
        if i == 0 then
          if list.length == 1 then insertAfter g.nodes id h
          else match list[1]? with
            | some x => insertBefore g.nodes id x
            | none => g.nodes
        else match list[i - 1]? with
          | some x => insertAfter g.nodes id x
          | none => g.nodes
      { g with list := list, nodes := nodes, head := list.head? }

/-- Push: `if orig, ok := q.byFile[name]; ok { ... }` - a listed file of that name is taken
    out again (after `fix: re-queuing the only pending file of a group lost its
    predecessor`: when it was the only listed file, its predecessor becomes the kept head
    file). -/
def GroupSt.dropFile (g : GroupSt) (name : String) : GroupSt :=
  match ByFile.find g.byFile name with
  | some o =>
    let prev := getPrev g.nodes o
    let g := g.removeFile o
    let g := { g with nodes := unlink g.nodes o }
    let g := { g with head := if g.head.isNone && prev.isSome then prev else g.head }
    { g with list := eraseFirstName g.nodes g.list name }
  | none => g

/-- the same block before that repair (kept to state the defect S7, Props/C10
    `repush_lost_anchor_before_fix`). -/
def GroupSt.dropFileOld (g : GroupSt) (name : String) : GroupSt :=
  match ByFile.find g.byFile name with
  | some o =>
    let g := g.removeFile o
    let g := { g with nodes := unlink g.nodes o }
    { g with list := eraseFirstName g.nodes g.list name }
  | none => g

/-- Push: wrap the file into a new sortedFile and add it -/
def GroupSt.addNew (g : GroupSt) (f : FileInfo) : GroupSt :=
  let id := g.nodes.length
  let g := { g with nodes := g.nodes ++ [({ file := f } : Node)] }
  g.addFile id

/-- the body of Push's loop for a file of this group -/
def GroupSt.pushFile (g : GroupSt) (f : FileInfo) : GroupSt := (g.dropFile f.name).addNew f

/-- Push's loop body as it was before the repair -/
def GroupSt.pushFileOld (g : GroupSt) (f : FileInfo) : GroupSt := (g.dropFileOld f.name).addNew f

/-- Pop's inner loop `for next != nil && next.isAllocated()`: returns the group after the
    removals, the surviving `next`, and `advance`. `fuel` bounds the pointer chase (the
    Go loop has no bound; Props/C10 `skipLoop_spec` shows the bound is never hit). -/
def skipLoop : Nat → GroupSt → Option Nat → Nat → GroupSt × Option Nat × Nat
  | _, g, none, adv => (g, none, adv)
  | 0, g, some _, adv => (g, none, adv)
  | fuel + 1, g, some n, adv =>
    if !isAllocated g.nodes n then (g, some n, adv)
    else match getNext g.nodes n with
      | none => (g, none, adv)
      | some nn =>
        let g := g.removeFile n
        let g := { g with nodes := match getPrev g.nodes n with
                                   | some p => unlink g.nodes p
                                   | none => g.nodes }
        skipLoop fuel g (some nn) (adv + 1)

/-- Pop's work on one group: skip allocated placeholders, cut the list, apply the
    last-file delay. Returns the (mutated) group and the file to serve, if any. -/
def GroupSt.scan (g : GroupSt) (now : Int) : GroupSt × Option Nat :=
  let (g, next, adv) := skipLoop (g.nodes.length + 1) g g.head 0
  let g := { g with list := if adv > 0 then g.list.drop adv else g.list }
  match next with
  | none => (g, none)
  | some n =>
    if g.conf.lastDelay > 0 && (getNext g.nodes n).isNone && now - nodeTime g.nodes n < g.conf.lastDelay then
      (g, none)
    else (g, some n)

/-- `for next.prev != nil { next.prev.unlink() }` -/
def unlinkAllPrev : Nat → Nodes → Nat → Nodes
  | 0, ns, _ => ns
  | fuel + 1, ns, n =>
    match getPrev ns n with
    | none => ns
    | some p => unlinkAllPrev fuel (unlink ns p) n

/-- sendable, plus the group and node id it was cut from (not printed; used by the theorems) -/
structure Chunk where
  name : String
  offset : Int
  length : Int
  prev : String
  send : Int
  group : String
  id : Nat
  completed : Bool
  recovered : Bool
deriving Repr, Inhabited, DecidableEq

/-- the tail of Pop after a file has been chosen: allocate, predecessor name, completion -/
def GroupSt.emit (g : GroupSt) (n : Nat) : GroupSt × Chunk :=
  match g.nodes[n]? with
  | none => (g, { name := "", offset := 0, length := 0, prev := "", send := 0, group := g.name, id := n,
                  completed := false, recovered := false })
  | some nd =>
    let gname := g.name
    let (nd', offset, length) := nd.allocate g.conf.chunk
    let nodes := g.nodes.set n nd'
    let prevName := if g.conf.order != Order.none then getPrevName nodes n else ""
    let send := nd'.sendSize
    let prev := if prevName != "" && prevName == nd'.file.name then "" else prevName
    let g := { g with nodes := nodes }
    let done := nd'.isAllocated
    let g :=
      if done then
        let g := g.removeFile n
        let g := { g with list := g.list.drop 1 }
        let g := { g with nodes := unlinkAllPrev (g.nodes.length + 1) g.nodes n }
        { g with head := if g.head.isNone then some n else g.head,
                 nodes := if g.head.isNone then unlink g.nodes n else g.nodes }
      else g
    (g, { name := nd'.file.name, offset := offset, length := length, prev := prev, send := send,
          group := gname, id := n, completed := done, recovered := nd'.file.rcv.isSome })

/-! ## the queue: groups in linked-list order -/

abbrev State := List GroupSt

/-- queue.go addGroup: before the first group of strictly lower priority, else at the end -/
def addGroup (g : GroupSt) : State → State
  | [] => [g]
  | h :: t => if g.conf.priority > h.conf.priority then g :: h :: t else h :: addGroup g t

/-- queue.go delayGroup, for the group `g` standing between `pre` and `rest`: move it
    behind the run of following groups that have its priority. -/
def delayGroup (pre : State) (g : GroupSt) (rest : State) : State :=
  pre ++ rest.takeWhile (fun x => x.conf.priority == g.conf.priority) ++ g ::
    rest.dropWhile (fun x => x.conf.priority == g.conf.priority)

def modifyGroup (s : State) (name : String) (f : GroupSt → GroupSt) : State :=
  match s with
  | [] => []
  | g :: t => if g.name == name then f g :: t else g :: modifyGroup t name f

def hasGroup (s : State) (name : String) : Bool := s.any (fun g => g.name == name)

/-- queue.go Push, one file (the loop body, including getGroup) -/
def push (c : Conf) (s : State) (f : FileInfo) : State :=
  let gname := c.grouper f.name
  if hasGroup s gname then modifyGroup s gname (fun g => g.pushFile f)
  else
    match c.tags.find? (fun t => t.name == c.tagger gname) with
    | none => s
    | some t => modifyGroup (addGroup { name := gname, conf := t } s) gname (fun g => g.pushFile f)

/-- Pop's outer loop `for g != nil`: scan groups from the head; every group passed over
    keeps the mutations of its scan. -/
def scanGroups (now : Int) : State → State × Option (GroupSt × Nat × State)
  | [] => ([], none)
  | g :: rest =>
    match g.scan now with
    | (g', some n) => ([], some (g', n, rest))
    | (g', none) =>
      let (pre, r) := scanGroups now rest
      (g' :: pre, r)

/-- queue.go Pop; the wall clock is the parameter `now` (unix seconds). -/
def pop (s : State) (now : Int) : State × Option Chunk :=
  match scanGroups now s with
  | (pre, none) => (pre, none)
  | (pre, some (g, n, rest)) =>
    let (g', ch) := g.emit n
    (delayGroup pre g' rest, some ch)

/-! ## histories -/

inductive Op where
  | push (f : FileInfo)
  | pop (now : Int)
deriving Repr, Inhabited

def step (c : Conf) (s : State) : Op → State × Option Chunk
  | .push f => (push c s f, none)
  | .pop now => pop s now

/-- run a history from a state, collecting the answer of every operation -/
def run (c : Conf) : State → List Op → State × List (Option Chunk)
  | s, [] => (s, [])
  | s, op :: ops =>
    let (s', a) := step c s op
    let (s'', as) := run c s' ops
    (s'', a :: as)

end Sts.Queue
