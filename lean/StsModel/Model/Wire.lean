/-
  Model of the payload wire format (property C13):

    payload/bin.go      EncodeHeader, Encoder.Read / startNextPart, NewDecoder, Decoder.Next,
                        PartDecoder.Read, fileMeta
    marshal/types.go    NanoTime.MarshalJSON / UnmarshalJSON
    http/client.go      Transmit            (meta ‖ body, X-STS-MetaLen = len(meta))
    http/server.go      routeData           (Atoi of the meta-len header, DecoderFactory, Prepare,
                                             loop Next / index overflow / Receive, 206 + part count)
    stage/local.go      Receive             (only its first half: open, seek, io.Copy, byte count)

  Trusted and therefore parameters of the model: encoding/json (the header codec `Codec`),
  compress/gzip and net/http (identity on the byte stream; a stream ends cleanly or with an
  error). `NanoTime`, `strconv.Atoi/ParseInt/Itoa`, `strings.Split` and `filepath.Join/Clean`
  are modelled concretely on character lists.

  Core Lean only (this file is linked into the `stsdrv` executable).
-/
namespace Sts.Wire

/-! ## Decimal strings: `fmt.Sprintf("%d")`, `strconv.Itoa`, `strconv.ParseInt(s, 10, 64)` -/

def digitChar (d : Nat) : Char := Char.ofNat (48 + d)

/-- decimal digits of a natural number, most significant first, no leading zeros
    (`"0"` for zero): what `%d` / `strconv.Itoa` print for a non-negative value. -/
def natDigits (n : Nat) : List Char :=
  if n < 10 then [digitChar n] else natDigits (n / 10) ++ [digitChar (n % 10)]
termination_by n
decreasing_by omega

/-- `fmt.Sprintf("%d", i)` for a signed value. -/
def intDigits (i : Int) : List Char :=
  if i < 0 then '-' :: natDigits (-i).toNat else natDigits i.toNat

def digitVal? (c : Char) : Option Nat :=
  if 48 ≤ c.toNat ∧ c.toNat ≤ 57 then some (c.toNat - 48) else none

/-- the digit loop of `strconv.ParseUint(s, 10, 64)` (base given explicitly, so no
    underscores): any other character is a syntax error. -/
def parseNatAux : List Char → Nat → Option Nat
  | [], acc => some acc
  | c :: cs, acc =>
    match digitVal? c with
    | some d => parseNatAux cs (acc * 10 + d)
    | none => none

def parseUint? (cs : List Char) : Option Nat :=
  match cs with
  | [] => none
  | _ => parseNatAux cs 0

/-- `strconv.ParseInt(s, 10, 64)` (and `strconv.Atoi` on a 64-bit platform): optional sign,
    at least one digit, digits only, result must fit `int64`. Leading zeros are accepted. -/
def parseInt64? (cs : List Char) : Option Int :=
  match cs with
  | [] => none
  | c :: r =>
    if c = '-' then
      (parseUint? r).bind fun u => if u ≤ 9223372036854775808 then some (-(u : Int)) else none
    else if c = '+' then
      (parseUint? r).bind fun u => if u < 9223372036854775808 then some (u : Int) else none
    else
      (parseUint? (c :: r)).bind fun u => if u < 9223372036854775808 then some (u : Int) else none

/-! ## `strings.Split` on a one-character separator -/

/-- `strings.Split(s, string(sep))`: always at least one element. -/
def splitOnC (sep : Char) : List Char → List (List Char)
  | [] => [[]]
  | c :: cs =>
    if c = sep then [] :: splitOnC sep cs
    else
      match splitOnC sep cs with
      | [] => [[c]]
      | h :: t => (c :: h) :: t

/-- `strings.Join(elems, string(sep))`. -/
def joinC (sep : Char) : List (List Char) → List Char
  | [] => []
  | [a] => a
  | a :: b :: r => a ++ sep :: joinC sep (b :: r)

/-! ## marshal/types.go NanoTime -/

/-- `NanoTime.MarshalJSON`: the JSON string is `fmt.Sprintf("%d+%d", t.Unix(), t.Nanosecond())`
    (integer seconds, integer nanoseconds, no padding). -/
def nanoEnc (sec nano : Int) : List Char := intDigits sec ++ '+' :: intDigits nano

/-- `time.Unix(sec, nsec)` observed through `Unix()` / `Nanosecond()`: the nanoseconds are
    normalised into [0, 1e9). -/
def unixNorm (sec nsec : Int) : Int × Int := (sec + nsec / 1000000000, nsec % 1000000000)

/-- `NanoTime.UnmarshalJSON` on a JSON *string* (the legacy JSON-number form is not
    modelled): split on `+`, exactly two fields, both `ParseInt(…, 10, 64)`, `time.Unix`. -/
def nanoDec (s : List Char) : Option (Int × Int) :=
  match splitOnC '+' s with
  | [a, b] =>
    match parseInt64? a, parseInt64? b with
    | some sec, some nano => some (unixNorm sec nano)
    | _, _ => none
  | _ => none

/-! ## `filepath.Join` / `filepath.Clean` on a '/'-separated (Unix) receiver -/

/-- the element loop of `filepath.Clean`: `stack` holds the output elements, last first.
    Empty and `.` elements are skipped; `..` removes the last real element if there is one,
    is kept if the path is not rooted, and is dropped at the root. -/
def cleanSegs (rooted : Bool) : List (List Char) → List (List Char) → List (List Char)
  | [], stack => stack.reverse
  | seg :: segs, stack =>
    if seg = [] ∨ seg = ['.'] then cleanSegs rooted segs stack
    else if seg = ['.', '.'] then
      match stack with
      | top :: below =>
        if top = ['.', '.'] then
          (if rooted then cleanSegs rooted segs stack else cleanSegs rooted segs (seg :: stack))
        else cleanSegs rooted segs below
      | [] => if rooted then cleanSegs rooted segs stack else cleanSegs rooted segs [seg]
    else cleanSegs rooted segs (seg :: stack)

/-- `filepath.Clean` (Unix). -/
def clean (p : List Char) : List Char :=
  match p with
  | [] => ['.']
  | c :: _ =>
    let rooted := c = '/'
    let out := joinC '/' (cleanSegs rooted (splitOnC '/' p) [])
    if rooted then '/' :: out else if out = [] then ['.'] else out

/-- `filepath.Join(elems...)` (Unix): leading empty elements are ignored, the rest is joined
    with '/' and cleaned; all empty gives the empty string. -/
def goJoin (elems : List (List Char)) : List Char :=
  match elems.dropWhile (· = []) with
  | [] => []
  | e => clean (joinC '/' e)

/-- payload/bin.go NewDecoder: `filepath.Join(strings.Split(name, sep)...)`. -/
def sepConvert (sep : Char) (name : List Char) : List Char := goJoin (splitOnC sep name)

/-! ## Part descriptors and the header codec -/

/-- payload/bin.go fileMeta (`end` is `fin` here). -/
structure Desc where
  name : String
  renamed : String
  prev : String
  hash : String
  sec : Int
  nano : Int
  size : Int
  beg : Int
  fin : Int
deriving DecidableEq, Repr, Inhabited

/-- announced length of a part. -/
def Desc.len (d : Desc) : Int := d.fin - d.beg

def convStr (sep : Char) (s : String) : String := String.ofList (sepConvert sep s.toList)

/-- payload/bin.go NewDecoder, the loop after the JSON decoding: with a non-empty separator
    header `Name` and `Prev` are converted — `Renamed` is not. -/
def Desc.conv (sep : Option Char) (d : Desc) : Desc :=
  match sep with
  | none => d
  | some c => { d with name := convStr c d.name, prev := convStr c d.prev }

/-- http/server.go isSafeRelPath (Unix): the name is not empty, not absolute, has no `..`
    segment and at least one segment other than the empty one and `.`. -/
def safeRel (p : List Char) : Bool :=
  match p with
  | [] => false
  | c :: _ =>
    c != '/' && !((splitOnC '/' p).contains ['.', '.']) &&
      (splitOnC '/' p).any (fun s => s != [] && s != ['.'])

/-- one part under http/server.go findUnsafePartName: the name must be safe; rename target
    and predecessor must be safe unless they are empty. (On the data route the names are
    those NewDecoder hands out: Name and Prev already separator-converted, Renamed raw.) -/
def Desc.safe (d : Desc) : Bool :=
  safeRel d.name.toList &&
  (d.renamed.toList == [] || safeRel d.renamed.toList) &&
  (d.prev.toList == [] || safeRel d.prev.toList)

/-- The header codec (`json.Marshal` of `[]*fileMeta` / `json.NewDecoder(pr).Decode`). `dec` is
    a *stream* decoder: it decodes the first value and does not look at what follows.
    `incomplete bs` says that the decoder has seen no error in `bs` but needs more input.
    `used bs` is `json.Decoder.InputOffset()` after a successful `Decode` of `bs`: the number
    of input bytes up to the end of the decoded value (meaningful only when `dec bs` is `some`). -/
structure Codec where
  enc : List Desc → List UInt8
  dec : List UInt8 → Option (List Desc)
  incomplete : List UInt8 → Bool
  used : List UInt8 → Nat

/-! ## payload/bin.go Encoder -/

/-- one part of the bin as the Encoder meets it: the file contents from offset `beg` on
    (what `opener` + `Seek(beg, 0)` give; `none` = the opener fails or the offset is negative,
    both make startNextPart return an error) and the number of bytes still to send
    (`end - beg - partProgress`). -/
structure EPart where
  avail : Option (List UInt8)
  left : Nat
deriving Repr

def mkEPart (file : Option (List UInt8)) (beg fin : Int) : EPart :=
  { avail := if beg < 0 then none else file.map (·.drop beg.toNat), left := (fin - beg).toNat }

/-- Encoder state: `cur` = binPart/handle/partProgress, `rest` = bin.parts[partIndex:]. -/
structure Enc where
  cur : Option EPart
  rest : List EPart
  eob : Bool
deriving Repr

def Enc.init (ps : List EPart) : Enc := { cur := none, rest := ps, eob := false }

inductive ReadRes | ok | eof | err
deriving DecidableEq, Repr

/-- payload/bin.go Encoder.startNextPart; the Bool is "returned an error" (open failed; the
    part is nevertheless installed as binPart, as in the Go code). -/
def Enc.startNext (e : Enc) : Enc × Bool :=
  match e.rest with
  | [] => ({ e with eob := true }, false)
  | p :: ps => ({ cur := some p, rest := ps, eob := e.eob }, p.avail.isNone)

/-- payload/bin.go Encoder.Read from `bytesLeft := …` on, with `p` the current part.
    `n = min(len buf, bytesLeft)`; the file is read until `n` bytes arrived or it ends; `n`
    is returned and `partProgress += n` *even if fewer bytes were read* (then the tail of the
    returned bytes is whatever the buffer held: `stale`); the next part starts when the file
    ended, `n = 0`, or the part is exhausted. One call never crosses a part boundary. -/
def Enc.readCur (e1 : Enc) (p : EPart) (k : Nat) (stale : List UInt8) : List UInt8 × ReadRes × Enc :=
  let n := min k p.left
  let got := (p.avail.getD []).take n
  let out := got ++ (stale.drop got.length).take (n - got.length)
  let left' := p.left - n
  let p' : EPart := { avail := p.avail.map (·.drop n), left := left' }
  if got.length < n ∨ n = 0 ∨ left' = 0 then
    let r := ({ e1 with cur := some p' } : Enc).startNext
    (out, if r.2 then .err else if r.1.eob then .eof else .ok, r.1)
  else (out, .ok, { e1 with cur := some p' })

/-- payload/bin.go Encoder.Read with a buffer of `k` bytes whose previous contents are
    `stale`: `if b.binPart == nil { startNextPart }`, then the body above. -/
def Enc.read (e : Enc) (k : Nat) (stale : List UInt8) : List UInt8 × ReadRes × Enc :=
  match e.cur with
  | some p => e.readCur p k stale
  | none =>
    let r := e.startNext
    if r.2 then ([], .err, r.1) else
    match r.1.cur with
    | none => ([], .eof, r.1)
    | some p => r.1.readCur p k stale

/-- the reader's loop (`io.Copy` in Transmit, or any other caller): one `Read` per buffer
    size until EOF or an error; the buffer is refilled with `fill` before each call. -/
def Enc.run (fill : UInt8) (e : Enc) : List Nat → List (List UInt8) × ReadRes × Enc
  | [] => ([], .ok, e)
  | k :: ks =>
    match e.read k (List.replicate k fill) with
    | (out, .ok, e') =>
      let r := Enc.run fill e' ks
      (out :: r.1, r.2)
    | (out, res, e') => ([out], res, e')

/-- what the Encoder should put on the wire for one part. -/
def slice (file : List UInt8) (beg fin : Int) : List UInt8 :=
  (file.drop beg.toNat).take (fin - beg).toNat

/-! ## payload/bin.go PartDecoder / Decoder -/

/-- the request body as the server reads it (after gunzip): the bytes that arrive and
    whether the stream then ends cleanly (EOF) or with an error (cut connection, truncated
    gzip stream). -/
structure Stream where
  data : List UInt8
  broken : Bool
deriving DecidableEq, Repr

inductive RdRes | ok | eof | err | panic
deriving DecidableEq, Repr

/-- PartDecoder: `total = meta.End - meta.Beg`, `pos`. -/
structure PDec where
  total : Int
  pos : Nat
deriving Repr

/-- payload/bin.go PartDecoder.Read with `k` = the number of bytes this call can deliver
    (`len(out)`, or less if the transport delivers less at a time). At most `total - pos`
    bytes are requested from the stream; EOF is reported exactly when `pos` reaches
    `total`; the end (or error) of the stream is passed on. A negative `total - pos` makes
    the slice expression `out[:left]` panic. -/
def PDec.read (p : PDec) (s : Stream) (k : Nat) : List UInt8 × RdRes × PDec × Stream :=
  let left0 : Int := p.total - p.pos
  if left0 < 0 then ([], .panic, p, s) else
  let left := min left0.toNat k
  let got := s.data.take left
  let s' : Stream := { s with data := s.data.drop left }
  let p' : PDec := { p with pos := p.pos + got.length }
  if (p'.pos : Int) = p.total then (got, .eof, p', s')
  else if got.length = 0 ∧ 0 < left then (got, if s.broken then .err else .eof, p', s')
  else (got, .ok, p', s')

/-- the loop of `io.Copy` / `io.ReadAll` over a part reader with the given read sizes. -/
def PDec.readAll (p : PDec) (s : Stream) : List Nat → List UInt8 × RdRes × PDec × Stream
  | [] => ([], .ok, p, s)
  | k :: ks =>
    match p.read s k with
    | (out, .ok, p', s') =>
      let r := PDec.readAll p' s' ks
      (out ++ r.1, r.2)
    | r => r

/-- closed form of reading one part to its end (Props/C13 `decoder_splits`: equal to
    `readAll` for every sequence of positive read sizes that is long enough). -/
def copyPart (total : Int) (s : Stream) : List UInt8 × RdRes × Stream :=
  if total < 0 then ([], .panic, s)
  else if total.toNat ≤ s.data.length then
    (s.data.take total.toNat, .eof, { s with data := s.data.drop total.toNat })
  else (s.data, if s.broken then .err else .eof, { s with data := [] })

inductive DecRes
  | ok (ds : List Desc) (rest : Stream)
  | fail
  | hang
deriving DecidableEq, Repr

/-- the header window of NewDecoder: the first `n` bytes, or everything when `n ≤ 0`
    ("When no length provided, assume the meta is the entire payload"). The copier
    goroutine takes these bytes off the stream whether or not the JSON decoder wants them.
    (Assumption of the model: the copier's reads finish before the first part is read; with
    `n ≤ 0` and bytes after the header the Go code races instead — reported; with `n > 0`
    NewDecoder now waits for the copier.) -/
def headerWindow (n : Int) (s : Stream) : List UInt8 × Stream :=
  if n > 0 then (s.data.take n.toNat, { s with data := s.data.drop n.toNat })
  else (s.data, { s with data := [] })

/-- payload/bin.go NewDecoder after `fix: NewDecoder accepted a metadata length larger than
    the metadata`: a header that does not decode is an error, and with an announced length
    `n > 0` so is a header whose JSON value does not end exactly at byte `n` of the stream
    (`jr.InputOffset() != int64(n)`). The pipe is read to its end first, so the copier has
    finished (it took `min n (stream length)` bytes) whatever the outcome. -/
def newDecoder (c : Codec) (n : Int) (sep : Option Char) (s : Stream) : DecRes :=
  let (hdr, rest) := headerWindow n s
  match c.dec hdr with
  | some ds =>
    if n > 0 ∧ (c.used hdr : Int) ≠ n then .fail else .ok (ds.map (Desc.conv sep)) rest
  | none => .fail

/-- NewDecoder as found (after `fix: NewDecoder closes the header pipe`, before the length
    check): whatever follows the JSON value inside the announced window is ignored (S11). -/
def newDecoderOrig (c : Codec) (n : Int) (sep : Option Char) (s : Stream) : DecRes :=
  let (hdr, rest) := headerWindow n s
  match c.dec hdr with
  | some ds => .ok (ds.map (Desc.conv sep)) rest
  | none => .fail

/-- NewDecoder before both repairs: the pipe writer was never closed, so a header window
    that ends before the JSON value is complete blocks `Decode` forever. -/
def newDecoderOld (c : Codec) (n : Int) (sep : Option Char) (s : Stream) : DecRes :=
  let (hdr, rest) := headerWindow n s
  match c.dec hdr with
  | some ds => .ok (ds.map (Desc.conv sep)) rest
  | none => if c.incomplete hdr then .hang else .fail

/-! ## stage/local.go Receive (first half) and http/server.go routeData -/

/-- which `GateKeeper.Receive` consumes the part readers:
    `stage` = stage/local.go Receive after `fix: Receive checks the number of bytes copied`;
    `stageOld` = the same before the repair (the count of `io.Copy` ignored);
    `stub` = the harness's recording gatekeeper (`io.ReadAll`, returns the read error). -/
inductive RecvKind | stage | stageOld | stub
deriving DecidableEq, Repr

inductive RecvRes | ok | err | panic
deriving DecidableEq, Repr

/-- one `Receive(file, reader)`: (`Seek(part.Beg)` for the stage,) copy the reader to its end,
    fail on a read error, and — repaired stage only — fail when the number of bytes copied
    differs from `End - Beg`. Returns the bytes that were written. -/
def receive (rk : RecvKind) (d : Desc) (s : Stream) : List UInt8 × RecvRes × Stream :=
  if rk ≠ .stub ∧ d.beg < 0 then ([], .err, s) else
  match copyPart d.len s with
  | (bytes, .panic, s') => (bytes, .panic, s')
  | (bytes, .err, s') => (bytes, .err, s')
  | (bytes, _, s') =>
    if rk = .stage ∧ (bytes.length : Int) ≠ d.len then (bytes, .err, s') else (bytes, .ok, s')

/-- stage/local.go Receive handed an arbitrary reader instead of a PartDecoder: `io.Copy` runs
    to the end of the stream, however long it is. -/
def receiveRaw (rk : RecvKind) (d : Desc) (s : Stream) : List UInt8 × RecvRes :=
  if rk ≠ .stub ∧ d.beg < 0 then ([], .err)
  else if s.broken then (s.data, .err)
  else if rk = .stage ∧ (s.data.length : Int) ≠ d.len then (s.data, .err)
  else (s.data, .ok)

inductive Status
  | ok200
  | partial206 (n : Nat)
  | bad400
  | err500
  | panic
  | hang
deriving DecidableEq, Repr

/-- the `for` loop of routeData: `extra` is the number of readers the decoder hands out
    beyond the announced parts (0 for payload.Decoder) — reaching one is the index-overflow
    refusal; a failing `Receive` ends the loop with 206 and the count of parts received
    before it. Returns what each `Receive` call was given and wrote. -/
def routeLoop (rk : RecvKind) : List Desc → Nat → Nat → Stream → List (Desc × List UInt8) × Status
  | [], 0, _, _ => ([], .ok200)
  | [], _ + 1, _, _ => ([], .bad400)
  | d :: ds, extra, i, s =>
    match receive rk d s with
    | (bytes, .ok, s') =>
      let r := routeLoop rk ds extra (i + 1) s'
      ((d, bytes) :: r.1, r.2)
    | (bytes, .err, _) => ([(d, bytes)], .partial206 i)
    | (bytes, .panic, _) => ([(d, bytes)], .panic)

structure Routed where
  status : Status
  prepared : Option (List Desc)
  received : List (Desc × List UInt8)
deriving DecidableEq, Repr

/-- http/server.go routeData (method PUT) over a given `DecoderFactory` `nd`: no body ⇒ 400;
    `Atoi` of X-STS-MetaLen fails ⇒ 400; decoder error ⇒ 500; an unsafe name, rename target
    or predecessor among the parts ⇒ 400 (`fix: refuse file names … that leave the receiver's
    directories`); `Prepare(parts)`; the loop. -/
def routeDataWith (nd : Int → Option Char → Stream → DecRes) (rk : RecvKind) (hasBody : Bool)
    (metaLen : List Char) (sep : Option Char) (extra : Nat) (s : Stream) : Routed :=
  if !hasBody then ⟨.bad400, none, []⟩ else
  match parseInt64? metaLen with
  | none => ⟨.bad400, none, []⟩
  | some n =>
    match nd n sep s with
    | .fail => ⟨.err500, none, []⟩
    | .hang => ⟨.hang, none, []⟩
    | .ok ds rest =>
      -- findUnsafePartName: before Prepare, nothing is read from the body
      if !ds.all Desc.safe then ⟨.bad400, none, []⟩ else
      let r := routeLoop rk ds extra 0 rest
      ⟨r.2, some ds, r.1⟩

/-- http/server.go routeData with payload.NewDecoder as it is now; `old = true` uses the
    NewDecoder that never closed its pipe. -/
def routeData (c : Codec) (rk : RecvKind) (old : Bool) (hasBody : Bool) (metaLen : List Char)
    (sep : Option Char) (extra : Nat) (s : Stream) : Routed :=
  routeDataWith (if old then newDecoderOld c else newDecoder c) rk hasBody metaLen sep extra s

/-- routeData with NewDecoder as found (no check of the announced length, S11). -/
def routeDataOrig (c : Codec) (rk : RecvKind) (hasBody : Bool) (metaLen : List Char)
    (sep : Option Char) (extra : Nat) (s : Stream) : Routed :=
  routeDataWith (newDecoderOrig c) rk hasBody metaLen sep extra s

/-- the in-memory use of the decoder: `Next` + read each part to its end with its own
    sequence of read sizes (`sizes i` for part i). Stops at the first part that does not end
    with a proper EOF. -/
def decodeParts : List Desc → List (List Nat) → Stream → List (List UInt8 × RdRes)
  | [], _, _ => []
  | d :: ds, szs, s =>
    let r := (PDec.mk d.len 0).readAll s (szs.headD [])
    (r.1, r.2.1) :: (if r.2.1 = .eof then decodeParts ds szs.tail r.2.2.2 else [])

/-! ## http/client.go Transmit: what goes on the wire -/

/-- the parts of a bin over the given files (`files i` = contents of the file of part i,
    `none` = cannot be opened). -/
def eparts : List Desc → List (Option (List UInt8)) → List EPart
  | [], _ => []
  | d :: ds, fs => mkEPart (fs.headD none) d.beg d.fin :: eparts ds fs.tail

/-- X-STS-MetaLen as Transmit sets it: `strconv.Itoa(len(meta))`. -/
def metaLenHeader (c : Codec) (ds : List Desc) : List Char := natDigits (c.enc ds).length

/-- the request body: `meta ‖ encoder output` (read with the given buffer sizes). -/
def transmitBody (c : Codec) (fill : UInt8) (ds : List Desc) (files : List (Option (List UInt8)))
    (sizes : List Nat) : List UInt8 :=
  c.enc ds ++ ((Enc.init (eparts ds files)).run fill sizes).1.flatten

/-! ## The concrete JSON header (for the driver; the theorems only use `Codec`) -/

def hexDig (n : Nat) : Char :=
  if n < 10 then Char.ofNat (48 + n) else Char.ofNat (87 + n)

/-- encoding/json string escaping with HTML escaping on (json.Marshal). -/
def jsonEscChar (c : Char) : List Char :=
  if c = '"' then ['\\', '"']
  else if c = '\\' then ['\\', '\\']
  else if c = '\n' then ['\\', 'n']
  else if c = '\r' then ['\\', 'r']
  else if c = '\t' then ['\\', 't']
  else if c.toNat = 8 then ['\\', 'b']
  else if c.toNat = 12 then ['\\', 'f']
  else if c.toNat < 32 ∨ c = '<' ∨ c = '>' ∨ c = '&' then
    ['\\', 'u', '0', '0', hexDig (c.toNat / 16), hexDig (c.toNat % 16)]
  else if c.toNat = 0x2028 then ['\\', 'u', '2', '0', '2', '8']
  else if c.toNat = 0x2029 then ['\\', 'u', '2', '0', '2', '9']
  else [c]

def jsonStr (s : List Char) : List Char := '"' :: (s.flatMap jsonEscChar) ++ ['"']

/-- one fileMeta object: fields n, r, p, f, t, s, b, e in struct order. -/
def jsonDesc (d : Desc) : List Char :=
  "{\"n\":".toList ++ jsonStr d.name.toList ++ ",\"r\":".toList ++ jsonStr d.renamed.toList ++
  ",\"p\":".toList ++ jsonStr d.prev.toList ++ ",\"f\":".toList ++ jsonStr d.hash.toList ++
  ",\"t\":".toList ++ jsonStr (nanoEnc d.sec d.nano) ++ ",\"s\":".toList ++ intDigits d.size ++
  ",\"b\":".toList ++ intDigits d.beg ++ ",\"e\":".toList ++ intDigits d.fin ++ ['}']

/-- payload/bin.go EncodeHeader: `json.Marshal([]*fileMeta)`. -/
def jsonHeader (ds : List Desc) : List UInt8 :=
  (String.ofList ('[' :: joinC ',' (ds.map jsonDesc) ++ [']'])).toUTF8.toList

def isPrefixB : List UInt8 → List UInt8 → Bool
  | [], _ => true
  | _ :: _, [] => false
  | a :: as, b :: bs => a == b && isPrefixB as bs

/-- the codec instance used by the driver for a case whose descriptors are `ds`: the
    encoder is the concrete JSON above; the stream decoder recognises exactly the header of
    `ds` (followed by anything) and reports a proper prefix of it as incomplete. The general
    JSON parser is not modelled. -/
def caseCodec (ds : List Desc) : Codec :=
  { enc := jsonHeader
    dec := fun bs => if isPrefixB (jsonHeader ds) bs then some ds else none
    incomplete := fun bs => isPrefixB bs (jsonHeader ds) && bs.length < (jsonHeader ds).length
    used := fun _ => (jsonHeader ds).length }

end Sts.Wire
