/-
  Model of the receiver's byte-range bookkeeping: stage/companion.go
  (addCompanionPart, companionPartExists, isCompanionComplete) and of the
  sender's gap computation in client/client.go recover().

  Core Lean only (this file is linked into the `stsdrv` executable).
-/
namespace Sts

structure Rng where
  beg : Int
  fin : Int
deriving DecidableEq, Repr, Inhabited

/-- stage/companion.go addCompanionPart: scan from the front; skip parts that end at or
    before `b`; the first part that begins at or after `e` is the insertion point; any
    other part met first *conflicts* and is replaced in place. Returns the new list and
    the replaced part. -/
def addPart : List Rng → Int → Int → List Rng × Option Rng
  | [], b, e => ([⟨b, e⟩], none)
  | p :: ps, b, e =>
    if b ≥ p.fin then
      let r := addPart ps b e
      (p :: r.1, r.2)
    else if e ≤ p.beg then (⟨b, e⟩ :: p :: ps, none)
    else (⟨b, e⟩ :: ps, some p)

/-- one pass of the repaired companionPartExists: move the cursor to the end of every
    recorded part that contains it, in list order. -/
def advance (ps : List Rng) (pos : Int) : Int :=
  ps.foldl (fun pos p => if p.beg ≤ pos ∧ pos < p.fin then p.fin else pos) pos

/-- the outer loop `for progressed && pos < end` with explicit fuel. -/
def coverLoop (ps : List Rng) (e : Int) : Nat → Int → Bool
  | 0, pos => decide (pos ≥ e)
  | n + 1, pos =>
    if pos ≥ e then true
    else
      let pos' := advance ps pos
      if pos' == pos then false else coverLoop ps e n pos'

/-- stage/companion.go companionPartExists after `fix: companionPartExists counted
    overlapping recorded ranges twice`: a cursor walks from `b` towards `e` over recorded
    bytes only. Each productive pass retires at least one part, so `length + 1` passes
    are enough (the Go loop has no bound; the correspondence check compares results). -/
def partExists (ps : List Rng) (b e : Int) : Bool :=
  if e < b then false else coverLoop ps e (ps.length + 1) b

/-- The *original* companionPartExists (sum of overlaps, early exit on equality). Kept to
    state and prove the defect that the `fix:` commit repairs (Props/C09: witness). -/
def partExistsSumAux (b e : Int) : List Rng → Int → Bool
  | [], acc => acc == e - b
  | p :: ps, acc =>
    let n := min e p.fin - max b p.beg
    if n > 0 then
      if acc + n == e - b then true else partExistsSumAux b e ps (acc + n)
    else partExistsSumAux b e ps acc

def partExistsSum (ps : List Rng) (b e : Int) : Bool := partExistsSumAux b e ps 0

def chainOk : Rng → List Rng → Bool
  | _, [] => true
  | q, p :: ps => decide (p.beg ≤ q.fin) && chainOk p ps

def lastFin : Rng → List Rng → Int
  | q, [] => q.fin
  | _, p :: ps => lastFin p ps

/-- stage/companion.go isCompanionComplete -/
def isComplete (ps : List Rng) (size : Int) : Bool :=
  match ps with
  | [] => false
  | [p] => p.beg == 0 && p.fin == size
  | p :: q :: rest => p.beg == 0 && lastFin q rest == size && chainOk p (q :: rest)

/-- A point is covered by a record. -/
def covered (ps : List Rng) (x : Int) : Prop := ∃ p ∈ ps, p.beg ≤ x ∧ x < p.fin

instance (ps : List Rng) (x : Int) : Decidable (covered ps x) := by
  unfold covered; infer_instance

/-! ### sender side: client.go recover() gap computation -/

/-- insertion sort by `beg` (Go's sort.Sort with Less = c[i].Beg-c[j].Beg < 0; the
    correspondence check compares results only, and for keys that are equal the gap
    computation does not depend on their relative order being stable — see the
    harness canonicalisation). -/
def insertByBeg (r : Rng) : List Rng → List Rng
  | [] => [r]
  | p :: ps => if r.beg < p.beg then r :: p :: ps else p :: insertByBeg r ps

def sortByBeg : List Rng → List Rng
  | [] => []
  | p :: ps => insertByBeg p (sortByBeg ps)

/-- the loop of recover(): running `beg`, one gap per part whose Beg differs from it. -/
def gapsAux : List Rng → Int → List Rng
  | [], _ => []
  | p :: ps, b =>
    if b == p.beg then gapsAux ps p.fin
    else ⟨b, p.beg⟩ :: gapsAux ps p.fin

def lastEnd : List Rng → Int → Int
  | [], b => b
  | p :: ps, _ => lastEnd ps p.fin

/-- `missing parts size` as computed by recover() for parts already sorted. -/
def missingSorted (ps : List Rng) (size : Int) : List Rng :=
  let g := gapsAux ps 0
  let b := lastEnd ps 0
  if b < size then g ++ [⟨b, size⟩] else g

def missing (ps : List Rng) (size : Int) : List Rng := missingSorted (sortByBeg ps) size

end Sts
