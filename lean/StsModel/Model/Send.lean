/-
  Model of the sender's per-payload retry loop and of the tracker:
    client/client.go  startSend, handleSendError, startTrack
    payload/bin.go    NewBin, Add, Split, Remove, GetParts, part.GetSlice
  and of the loop of stage/local.go Received (count of leading parts on record).

  The Transmitter, the TxRecoverer and the Cache/Store test "did this file leave the cache
  or change" are parameters: finite scripts of answers and a predicate. A finite script
  stands for the infinite script that continues with `ok` (Transmitter) / `ok 0`
  (TxRecoverer); so every script "eventually answers ok", which is the only way the Go
  loops end while the broker is not stopping (`shouldStopNow` is not modelled: it is
  constantly false).

  Core Lean only (this file is linked into the `stsdrv` executable).
-/
import StsModel.Model.Ranges
namespace Sts

/-- one part of a payload: payload/bin.go `part` (a Binnable plus beg/end). `id` stands for
    the pointer identity of the Go value (`Remove` compares pointers); `len` is
    `end - beg` (what `GetSlice` returns second). -/
structure SPart where
  id : Nat
  name : String
  hash : String
  beg : Int
  len : Int
  sendSize : Int
  fileSize : Int
deriving DecidableEq, Repr, Inhabited

/-- sum of `end - beg` over parts -/
def sumLen : List SPart → Int
  | [] => 0
  | p :: ps => p.len + sumLen ps

/-- payload/bin.go Bin (the fields that matter: parts, capacity, fluff, bytes) -/
structure SBin where
  parts : List SPart := []
  capacity : Int := 0
  fluff : Int := 0
  bytes : Int := 0
deriving DecidableEq, Repr, Inhabited

/-- payload/bin.go NewBin: `fluff = int64(float64(size) * binFluff)` with binFluff = 0.1
    (truncation toward zero; exact for |size| < 2^53) -/
def SBin.new (size : Int) : SBin :=
  { parts := [], capacity := size, fluff := Int.tdiv size 10, bytes := 0 }

/-- payload/bin.go Add for a fresh binnable whose slice is `(c.beg, c.len)`
    (`GetNextAlloc` = `(beg, beg+len)`): takes what fits into capacity + fluff. -/
def SBin.add (b : SBin) (c : SPart) : SBin × Bool :=
  let space := (b.capacity + b.fluff) - b.bytes
  let fin := min (c.beg + c.len) (c.beg + space)
  let n := fin - c.beg
  if n > 0 then
    ({ b with parts := b.parts ++ [{ c with len := n }], bytes := b.bytes + n }, true)
  else (b, false)

/-- the list effect of payload/bin.go Remove: find the first element equal to `x` (pointer
    comparison in Go; `id` is part of the structure), move the LAST element into its place
    and cut the slice by one. -/
def swapRemove (x : SPart) : List SPart → List SPart
  | [] => []
  | p :: ps =>
    if p = x then
      (match ps.getLast? with
       | none => []
       | some l => l :: ps.dropLast)
    else p :: swapRemove x ps

/-- payload/bin.go Remove -/
def SBin.remove (b : SBin) (x : SPart) : SBin :=
  if x ∈ b.parts then
    { b with parts := swapRemove x b.parts, bytes := b.bytes - x.len }
  else b

/-- payload/bin.go Split: `nil` for n < 1 or n ≥ len; otherwise the receiver keeps the first
    n parts and the new bin gets the rest; byte counts follow. Returns (receiver afterwards,
    new bin). -/
def SBin.split (b : SBin) (n : Int) : SBin × Option SBin :=
  if n < 1 ∨ n ≥ b.parts.length then (b, none)
  else
    let tl := b.parts.drop n.toNat
    let nb := sumLen tl
    ({ b with parts := b.parts.take n.toNat, capacity := b.bytes - nb, bytes := b.bytes - nb },
     some { parts := tl, capacity := nb, fluff := Int.tdiv nb 10, bytes := nb })

/-! ### the retry loop -/

/-- answer of the Transmitter: `ok`, or an error together with the reported number of
    parts received (0 = the answer carried no count) -/
inductive TxAns
  | ok
  | fail (n : Int)
deriving DecidableEq, Repr, Inhabited

/-- answer of the TxRecoverer -/
inductive RcAns
  | ok (n : Int)
  | err
deriving DecidableEq, Repr, Inhabited

/-- client.go handleSendError, the `for` loop around `TxRecoverer`: ask until an answer
    comes. Returns (count, answers consumed, rest of the script). An exhausted script
    continues with `ok 0`. -/
def recoverCount : List RcAns → Int × List RcAns × List RcAns
  | [] => (0, [RcAns.ok 0], [])
  | RcAns.ok n :: rest => (n, [RcAns.ok n], rest)
  | RcAns.err :: rest =>
    let r := recoverCount rest
    (r.1, RcAns.err :: r.2.1, r.2.2)

/-- client.go handleSendError after the count `k` is known: `k > 0` → `Split(k)`, the
    receiver of Split (the head, or the WHOLE payload when Split returns nil) goes to
    chTransmitted and the loop continues with Split's result; `k ≤ 0` → nothing is
    forwarded, the payload stays as it is. Returns (forwarded, payload to continue with). -/
def handleSendError (b : SBin) (k : Int) : List SBin × Option SBin :=
  if k > 0 then
    let s := b.split k
    ([s.1], s.2)
  else ([], some b)

/-- client.go startSend, the loop "check each file in the payload": iterate over a COPY of
    the part list (GetParts allocates) in its order before any removal and `Remove` every
    part whose file left the cache or changed. Returns the bin and the removed parts. -/
def dropGoneAux (gone : SPart → Bool) : List SPart → SBin → SBin × List SPart
  | [], b => (b, [])
  | p :: ps, b =>
    if gone p then
      let r := dropGoneAux gone ps (b.remove p)
      (r.1, p :: r.2)
    else dropGoneAux gone ps b

def dropGone (gone : SPart → Bool) (b : SBin) : SBin × List SPart :=
  dropGoneAux gone b.parts b

/-- one call of the Transmitter as the model records it: the parts it was called with, the
    answer, the answers of the recovery requests made because of it, the count
    handleSendError went on with (for `ok`: all parts), and the number of failures before. -/
structure Attempt where
  parts : List SPart
  ans : TxAns
  recov : List RcAns
  reported : Int
  round : Nat
deriving DecidableEq, Repr, Inhabited

structure SendOut where
  attempts : List Attempt := []
  forwarded : List SBin := []
  dropped : List SPart := []
deriving Repr, Inhabited

/-- result of the error branch of one iteration of startSend's inner loop: the loop ends
    (`done`), or goes round again with the bin `nb` (`more`); `fw` went to chTransmitted,
    `dr` are the parts removed as gone. -/
inductive StepRes
  | done (fw : List SBin) (dr : List SPart)
  | more (fw : List SBin) (dr : List SPart) (nb : SBin)
deriving Repr, Inhabited

/-- client.go startSend, the statements after `err != nil` once the count `k` is known:
    `payload = handleSendError(...)`; `if payload == nil || len(parts) == 0 {break}`; the
    gone check; `if len(parts) == 0 {break}`; (backoff) and round again. -/
def failStep (goneR : SPart → Bool) (b : SBin) (k : Int) : StepRes :=
  let h := handleSendError b k
  match h.2 with
  | none => .done h.1 []
  | some nb =>
    if nb.parts.isEmpty then .done h.1 []
    else
      let d := dropGone goneR nb
      if d.1.parts.isEmpty then .done h.1 d.2 else .more h.1 d.2 d.1

/-- client.go handleSendError, how the count is obtained. After the fix of F4:
    `n := nPartsReceived`, and the recovery request only when that is 0.
    Returns (count, recovery answers consumed, rest of the recovery script). -/
def reportedCount (n : Int) (rc : List RcAns) : Int × List RcAns × List RcAns :=
  if n = 0 then recoverCount rc else (n, [], rc)

/-- Before `fix: the part count of a partial-content answer was ignored and the whole
    payload sent again` (F4): `var n int`, assigned only by the recovery request. -/
def reportedCountOld (n : Int) (rc : List RcAns) : Int × List RcAns × List RcAns :=
  if n = 0 then recoverCount rc else (0, [], rc)

/-- client.go startSend for ONE payload taken from chTransmit (inner `for`): transmit; on an
    error handleSendError (count from the answer, else from the recovery request), forward
    the acknowledged head, drop the parts of files that are gone, back off, transmit the
    rest again. `gone r` is the Cache.Get / Store.Sync test at the r-th failure (r from 0).
    Structural in the Transmitter script; the empty script answers `ok`. `count` is
    `reportedCount` (the code as it is) or `reportedCountOld` (before the fix). -/
def sendLoopWith (count : Int → List RcAns → Int × List RcAns × List RcAns)
    (gone : Nat → SPart → Bool) (b : SBin) (r : Nat) : List TxAns → List RcAns → SendOut
  | [], _ => ⟨[⟨b.parts, .ok, [], b.parts.length, r⟩], [b], []⟩
  | .ok :: _, _ => ⟨[⟨b.parts, .ok, [], b.parts.length, r⟩], [b], []⟩
  | .fail n :: tx, rc =>
    let rcv := count n rc
    let att : Attempt := ⟨b.parts, .fail n, rcv.2.1, rcv.1, r⟩
    match failStep (gone r) b rcv.1 with
    | .done fw dr => ⟨[att], fw, dr⟩
    | .more fw dr nb =>
      let out := sendLoopWith count gone nb (r + 1) tx rcv.2.2
      ⟨att :: out.attempts, fw ++ out.forwarded, dr ++ out.dropped⟩

def sendLoop := sendLoopWith reportedCount

/-- the behaviour before the fix of F4; kept to state the defect
    (Props/C08 `ignoredCount_resends_acknowledged`). -/
def sendLoopOld := sendLoopWith reportedCountOld

/-! ### the tracker -/

/-- client.go progressFile (name, hash, sent, size). `counted` is a ghost field: the parts
    whose lengths were added to `sent` since the entry was created or reset. -/
structure Prog where
  name : String
  hash : String
  sent : Int
  size : Int
  counted : List SPart
deriving DecidableEq, Repr, Inhabited

/-- tracker state: the `progress` map (at most one entry per name, in insertion order),
    the records given to `Logger.Sent`, the entries handed to the validator, and (ghost)
    every part seen so far. -/
structure TrackSt where
  progress : List Prog := []
  logged : List Prog := []
  handed : List Prog := []
  seen : List SPart := []
deriving Repr, Inhabited

/-- `progress[key] = e` -/
def upsert (e : Prog) : List Prog → List Prog
  | [] => [e]
  | x :: xs => if x.name = e.name then e :: xs else x :: upsert e xs

/-- client.go startTrack, body of `for _, binned := range payload.GetParts()`: new entry, or
    reset when the hash differs; `sent += n`; `Logger.Sent` when `sent ≥ size`. -/
def trackPart (st : TrackSt) (p : SPart) : TrackSt :=
  let e0 : Prog :=
    match st.progress.find? (fun e => e.name = p.name) with
    | none => ⟨p.name, p.hash, 0, p.sendSize, []⟩
    | some e => if e.hash ≠ p.hash then ⟨e.name, p.hash, 0, p.sendSize, []⟩ else e
  let e : Prog := { e0 with sent := e0.sent + p.len, counted := e0.counted ++ [p] }
  { progress := upsert e st.progress,
    logged := if e.sent ≥ e.size then st.logged ++ [e] else st.logged,
    handed := st.handed,
    seen := st.seen ++ [p] }

/-- client.go startTrack, the `LOOP:` at the top of the next iteration, with a validator
    that takes everything offered: every entry with `sent ≥ size` is handed over and deleted.
    (Go iterates the map in random order; the order here is the insertion order and the
    driver sorts.) -/
def handOff (st : TrackSt) : TrackSt :=
  { st with
    progress := st.progress.filter (fun e => e.sent < e.size),
    handed := st.handed ++ st.progress.filter (fun e => ¬ (e.sent < e.size)) }

/-- one payload from chTransmitted, then the hand-off before the next one is taken -/
def trackPayload (st : TrackSt) (parts : List SPart) : TrackSt :=
  handOff (parts.foldl trackPart st)

def trackAll (st : TrackSt) (payloads : List (List SPart)) : TrackSt :=
  payloads.foldl trackPayload st

/-! ### receiver side: the loop of stage/local.go Received -/

/-- stage/local.go Received: `for _, part := range parts { if !partReceived(part) { break }; n++ }` -/
def receivedCount (rcvd : SPart → Bool) : List SPart → Nat
  | [] => 0
  | p :: ps => if rcvd p then receivedCount rcvd ps + 1 else 0

/-- partReceived against one companion record (no cache entry for the name, identity
    fields equal): companionPartExists on `[beg, beg+len)` (Model/Ranges partExists). -/
def onRecord (rec : List Rng) (p : SPart) : Bool := partExists rec p.beg (p.beg + p.len)

/-- the receiver's companion file of one name as far as Received reads it (renamed and
    prev are the same in every request of the harness): hash and recorded ranges -/
structure RecvRec where
  name : String
  hash : String
  parts : List Rng
deriving Repr, Inhabited

/-- stage/local.go Receive, its effect on the companion: stage/companion.go
    newLocalCompanion (keep the record when the hash is the same, else start a new one)
    then addCompanionPart. The file never becomes complete here (the harness announces a
    size no part reaches). -/
def recvRecord (recs : List RecvRec) (name hash : String) (b e : Int) : List RecvRec :=
  let old : List Rng :=
    match recs.find? (fun r => r.name = name) with
    | some r => if r.hash = hash then r.parts else []
    | none => []
  let new : RecvRec := ⟨name, hash, (addPart old b e).1⟩
  if recs.any (fun r => r.name = name) then
    recs.map (fun r => if r.name = name then new else r)
  else recs ++ [new]

/-- stage/local.go partReceived for a name that is not in the receiver's cache: the
    companion must exist with the same hash and companionPartExists must hold. -/
def recvTest (recs : List RecvRec) (p : SPart) : Bool :=
  match recs.find? (fun r => r.name = p.name) with
  | some r => r.hash = p.hash && partExists r.parts p.beg (p.beg + p.len)
  | none => false

end Sts
